#!/bin/sh
# Build the framework from files on disk only (offline).
set -e
cd "$(dirname "$0")"
mkdir -p spec/classes evidence .build
javac -cp /opt/veriftools/tla/tla2tools.jar -d spec/classes spec/*.java
/venv/bin/python -c "import sys; sys.path.insert(0,'/repo'); import sasmodels, numpy, scipy" 
echo "setup ok"
