"""Worker for C10: names offered to every interface, data selection, agreement of interfaces."""
import json
import os
import random
import sys
import traceback

sys.path.insert(0, os.path.join(os.path.dirname(os.path.abspath(__file__)), "stubs"))

import numpy as np


def fstr(x):
    return repr(float(x))


def fvec(v):
    return [repr(float(x)) for x in np.asarray(v, dtype="d").ravel()]


def emit(ev):
    sys.stdout.write(json.dumps(ev, separators=(",", ":")) + "\n")


_m = {}


def get(name):
    from sasmodels import core
    if name not in _m:
        _m[name] = core.load_model(name, dtype="double", platform="dll")
    return _m[name]


def sv_class(name):
    from sasmodels.sasview_model import _make_standard_model
    if ("sv", name) not in _m:
        _m[("sv", name)] = _make_standard_model(name)
    return _m[("sv", name)]


CUTOFF = 1e-5
Q1 = np.array([0.005, 0.02, 0.08, 0.2])
QX, QY = np.array([0.01, -0.04, 0.08]), np.array([0.02, 0.03, -0.05])


def kinds_of(info):
    """One representative call parameter per kind present in this model."""
    P = info.parameters
    out = {"scale": "scale", "background": "background"}
    for p in P.call_parameters[2:]:
        nm = p.name
        if nm.startswith("up_"):
            k = "spin"
        elif nm.endswith(("_M0", "_mtheta", "_mphi")):
            k = "magnetic"
        elif getattr(p, "is_control", False) or any(q.length_control == p.id for q in P.kernel_parameters):
            k = "control"
        elif p.type == "volume":
            k = "vector-volume" if p.id != p.name else "volume"
        elif p.type == "orientation":
            k = "orientation"
        elif p.type == "sld":
            k = "sld"
        elif p.choices:
            continue
        else:
            k = "plain"
        # vector elements are named id+index
        if p.type == "volume" and any(q.length > 1 and p.name.startswith(q.id) and p.name != q.id for q in P.kernel_parameters):
            k = "vector-volume"
        out.setdefault(k, nm)
    return out


def concrete(name, form):
    if form == "bare":
        return name
    if form == "misspelt-base":
        return "x" + name + "z"
    return name + form


def offer(iface, model, name, value, is2d):
    """Offer one keyword to one interface; returns (outcome, error)."""
    from sasmodels.direct_model import call_kernel, DirectModel, Iq, Iqxy
    from sasmodels.data import empty_data1D, empty_data2D, Data2D
    from sasmodels import bumps_model
    info = model.info
    try:
        if iface == "kernel":
            k = model.make_kernel([QX, QY] if is2d else [Q1])
            call_kernel(k, {name: value}, cutoff=CUTOFF)
        elif iface == "direct":
            data = empty_data1D(Q1) if not is2d else Data2D(x=QX, y=QY)
            DirectModel(data, model, cutoff=CUTOFF)(**{name: value})
        elif iface == "keyword":
            if is2d:
                Iqxy(info.id, QX, QY, **{name: value})
            else:
                Iq(info.id, Q1, **{name: value})
        elif iface == "bumps":
            data = empty_data1D(Q1) if not is2d else Data2D(x=QX, y=QY)
            bumps_model.Experiment(data, bumps_model.Model(model, **{name: value}), cutoff=CUTOFF).theory()
        elif iface == "sasview":
            inst = sv_class(info.id)()
            inst.setParam(name, value)
            inst.evalDistribution([QX, QY] if is2d else Q1)
        return "returned", ""
    except (TypeError, ValueError, KeyError, AttributeError) as exc:
        return "refused", (type(exc).__name__ + ": " + str(exc))[:120].replace('"', "'")


def run_names(sc):
    model = get(sc["model"])
    info = model.info
    kinds = kinds_of(info)
    is2d = bool(info.parameters.has_2d)
    for cell in sc["cells"]:
        kind, form = cell["kind"], cell["form"]
        if kind not in kinds:
            continue
        name = concrete(kinds[kind], form)
        value = "gaussian" if form in ("_pd_type", ".type") else (3 if form in ("_pd_n", ".npts") else 0.1)
        if form == "bare":
            value = float(info.parameters.defaults.get(name, 1.0))
        for iface in sc["ifaces"]:
            outcome, err = offer(iface, model, name, value, is2d and kind in ("orientation", "magnetic", "spin"))
            emit({"tid": sc["tid"], "ev": "Name", "model": sc["model"], "iface": iface, "kind": kind, "form": form,
                  "name": name, "outcome": outcome, "error": err, "hidden": bool(info.structure_factor)})


def run_select(sc):
    from sasmodels.direct_model import DirectModel
    from sasmodels.data import Data1D, Data2D
    from sasmodels import bumps_model
    model = get(sc["model"])
    c = sc["case"]
    n = len(c["mask"])
    pars = {"scale": 1.5, "background": 0.25}
    for dim in ("1d", "2d"):
        for iface in ("direct", "bumps"):
            ev = {"tid": sc["tid"], "ev": "Select", "model": sc["model"], "dim": dim, "iface": iface, "mask": c["mask"],
                  "isnan": c["isnan"], "raised": "", "got": [], "full": []}
            try:
                if dim == "1d":
                    q = np.array([0.01, 0.02, 0.03, 0.04])[:n]
                    if sc.get("order"):
                        q = q[np.array(sc["order"][:n]) % n] if len(set(np.array(sc["order"][:n]) % n)) == n else q[::-1]
                    qmin, qmax = 0.01 * c["qmin"], 0.01 * c["qmax"]
                    full = Data1D(x=q, y=np.ones(n), dx=None, dy=np.ones(n))
                    full.qmin, full.qmax = 0.0, 1.0
                    y = np.where(np.array(c["isnan"]) == 1, np.nan, 1.0)
                    data = Data1D(x=q, y=y, dx=None, dy=np.ones(n))
                    data.mask = np.array(c["mask"])
                    if sc.get("default_window"):
                        # the data object's own default window: every q it holds, in whatever order they are stored
                        qmin, qmax = float(np.min(q)), float(np.max(q))
                    else:
                        data.qmin, data.qmax = qmin, qmax
                    ev["q"] = fvec(q)
                else:
                    qx = np.array([0.01, 0.0, -0.03, 0.0])[:n]
                    qy = np.array([0.0, 0.02, 0.0, -0.04])[:n]
                    qmin, qmax = 0.01 * c["qmin"], 0.01 * c["qmax"]
                    full = Data2D(x=qx, y=qy, z=np.ones(n), dz=np.ones(n))
                    full.mask = np.zeros(n, dtype=bool)
                    z = np.where(np.array(c["isnan"]) == 1, np.nan, 1.0)
                    data = Data2D(x=qx, y=qy, z=z, dz=np.ones(n))
                    data.mask = np.array(c["mask"])
                    data.qmin, data.qmax = qmin, qmax
                    ev["q"] = fvec(np.sqrt(qx ** 2 + qy ** 2))
                ev["qmin"], ev["qmax"] = fstr(qmin), fstr(qmax)
                if iface == "direct":
                    ev["full"] = fvec(DirectModel(full, model, cutoff=CUTOFF)(**pars))
                    ev["got"] = fvec(DirectModel(data, model, cutoff=CUTOFF)(**pars))
                else:
                    ev["full"] = fvec(bumps_model.Experiment(full, bumps_model.Model(model, **pars), cutoff=CUTOFF).theory())
                    ev["got"] = fvec(bumps_model.Experiment(data, bumps_model.Model(model, **pars), cutoff=CUTOFF).theory())
            except Exception as exc:
                ev["raised"] = (type(exc).__name__ + ": " + str(exc))[:200].replace('"', "'")
                ev.setdefault("q", [])
                ev.setdefault("qmin", "0.0")
                ev.setdefault("qmax", "0.0")
            emit(ev)


def run_agree(sc):
    from sasmodels.direct_model import call_kernel, DirectModel, Iq, Iqxy
    from sasmodels.data import empty_data1D, Data2D
    from sasmodels import bumps_model
    rng = random.Random(sc["seed"])
    model = get(sc["model"])
    info = model.info
    P = info.parameters
    is2d = sc["dim"] == "2d"
    pars = {}
    dflt = dict(P.defaults)
    if info.random is not None and rng.random() < 0.5:
        np.random.seed(rng.randrange(2 ** 31))
        try:
            dflt.update(info.random())
        except Exception:
            pass
    for p in P.call_parameters:
        if p.name.startswith("up_") or p.name.endswith(("_M0", "_mtheta", "_mphi")):
            continue
        pars[p.name] = float(dflt.get(p.name, p.default))
    # a multiplicity of zero where the control parameter allows it (no shells at all, case 0 ...)
    for q in P.kernel_parameters:
        if q.length > 1 and q.length_control:
            ctlp = P[q.length_control]
            if ctlp.limits[0] <= 0 and rng.random() < 0.3:
                pars[q.length_control] = 0.0
    for p in P.call_parameters:
        if p.choices and p.limits[0] <= 0 and rng.random() < 0.3:
            pars[p.name] = 0.0
    # a size sitting exactly on its lower limit (a layer of zero thickness, one disc in the stack)
    if rng.random() < 0.3:
        onlim = [p for p in P.call_parameters if p.type == "volume" and p.name in pars and np.isfinite(p.limits[0])
                 and (p.name.startswith("thick") or p.limits[0] > 0)]
        if onlim:
            p = rng.choice(onlim)
            pars[p.name] = float(p.limits[0])
    if not info.structure_factor:
        pars["scale"], pars["background"] = rng.choice([1.0, 0.5]), rng.choice([0.0, 0.125])
    else:
        pars["scale"], pars["background"] = 1.0, 0.0
    # dispersible names, from the call parameters themselves (not from the table's pd_1d / pd_2d sets, which
    # are part of what is being checked): every polydisperse parameter, orientation ones only in 2-D
    pd = sorted(p.name for p in P.call_parameters
                if p.polydisperse and p.type != "magnetic" and (is2d or p.type != "orientation"))
    # vector elements beyond the multiplicity are not parameters of the SasView-style instance
    for q in P.kernel_parameters:
        if q.length > 1 and q.length_control:
            nmult = int(pars[q.length_control])
            pd = [nm for nm in pd if not (nm.startswith(q.id) and nm[len(q.id):].isdigit() and int(nm[len(q.id):]) > nmult)]
    rng.shuffle(pd)
    for nm in pd[:rng.choice([0, 1, 2])]:
        rel = P[nm].relative_pd
        pars[nm + "_pd"] = rng.choice([0.1, 0.2]) if rel else rng.choice([5.0, 15.0])
        pars[nm + "_pd_n"] = rng.choice([4, 9])
        pars[nm + "_pd_nsigma"] = rng.choice([2.0, 3.0])
        pars[nm + "_pd_type"] = rng.choice(["gaussian", "rectangle", "schulz" if rel else "gaussian"])
    if is2d:
        for p in P.call_parameters:
            if p.type == "orientation":
                pars[p.name] = rng.choice([0.0, 30.0, 75.0])
    results = []

    def attempt(iface, fn):
        try:
            results.append({"iface": iface, "val": fvec(fn()), "raised": ""})
        except Exception as exc:
            results.append({"iface": iface, "val": [], "raised": (type(exc).__name__ + ": " + str(exc))[:150].replace('"', "'")})
    qv = [QX, QY] if is2d else [Q1]
    data = (lambda: Data2D(x=QX, y=QY)) if is2d else (lambda: empty_data1D(Q1))
    attempt("kernel", lambda: call_kernel(model.make_kernel(qv), dict(pars), cutoff=CUTOFF))
    attempt("direct", lambda: DirectModel(data(), model, cutoff=CUTOFF)(**pars))
    attempt("keyword", lambda: (Iqxy(info.id, QX, QY, **pars) if is2d else Iq(info.id, Q1, **pars)))
    attempt("bumps", lambda: bumps_model.Experiment(data(), bumps_model.Model(model, **pars), cutoff=CUTOFF).theory())

    def sasview(arrays=None):
        """*arrays* maps a dispersed parameter to the (values, weights) handed over as an array distribution."""
        from sasmodels import weights as wmod
        cls = sv_class(info.id)
        ctl = cls.multiplicity_info.control if cls.is_multiplicity_model else None
        inst = cls(int(pars[ctl])) if ctl else cls()
        inst.cutoff = CUTOFF
        for k, v in pars.items():
            if k == ctl:
                continue
            base = next((k[:-len(sfx)] for sfx in ("_pd_type", "_pd_nsigma", "_pd_n", "_pd") if k.endswith(sfx)), None)
            if arrays is not None and base in arrays:
                if k.endswith("_pd_type"):
                    disp = wmod.ArrayDispersion()
                    disp.set_weights(*arrays[base])
                    inst.set_dispersion(base, disp)
                continue
            if k.endswith("_pd_type"):
                inst.dispersion[k[:-8]]["type"] = v
            elif k.endswith("_pd_nsigma"):
                inst.setParam(k[:-10] + ".nsigmas", v)
            elif k.endswith("_pd_n"):
                inst.setParam(k[:-5] + ".npts", v)
            elif k.endswith("_pd"):
                inst.setParam(k[:-3] + ".width", v)
            elif k in inst.params:
                inst.setParam(k, v)
            elif info.structure_factor and k in ("scale", "background"):
                pass        # hidden for structure factors: fixed at 1 and 0
            elif ctl:
                pass        # parameters the multiplicity does not select are hidden from this instance
            else:
                raise KeyError("sasview wrapper has no parameter " + k)
        return inst.evalDistribution([QX, QY] if is2d else Q1)
    attempt("sasview", sasview)
    dispersed = sorted(k[:-8] for k in pars if k.endswith("_pd_type"))
    if dispersed:
        # the same request with every distribution handed to the SasView-style object as an array
        # distribution carrying the points and weights of the parametric one
        from sasmodels import weights as wmod
        same = {nm: wmod.get_weights(pars[nm + "_pd_type"], pars[nm + "_pd_n"], pars[nm + "_pd"], pars[nm + "_pd_nsigma"],
                                     pars[nm], P[nm].limits, P[nm].relative_pd) for nm in dispersed}
        attempt("sasview-array", lambda: sasview(same))
    emit({"tid": sc["tid"], "ev": "Agree", "model": sc["model"], "dim": sc["dim"], "results": results, "pars": pars})
    if dispersed:
        # free-form array distributions (irregular points, unnormalised weights, a zero weight): the wrapper
        # against the same mesh handed to the kernel directly
        from sasmodels.details import make_kernel_args
        free = {}
        for nm in dispersed:
            n = rng.choice([1, 3, 7])
            # (absolute distributions - orientation - are jitter offsets about zero, not about the view angle)
            c = pars[nm] if P[nm].relative_pd else 0.0
            span = abs(c) * 0.3 if P[nm].relative_pd else 20.0
            lo, hi = P[nm].limits
            vals = sorted(min(max(c + span * rng.uniform(-1, 1), lo), hi) for _ in range(n))
            wts = [rng.choice([0.0, 0.5, 1.0, 2.5, 4.0]) for _ in range(n)]
            if not any(wts):
                wts[0] = 1.5
            free[nm] = (np.array(vals), np.array(wts))
        results = []

        def mesh():
            kern = model.make_kernel(qv)
            from sasmodels.direct_model import get_mesh
            rest = {k: v for k, v in pars.items()
                    if not any(k == nm + sfx for nm in free for sfx in ("_pd", "_pd_n", "_pd_nsigma", "_pd_type"))}
            pairs = get_mesh(info, rest, dim="2d" if is2d else "1d")
            for j, p in enumerate(P.call_parameters):
                if p.name in free:
                    pairs[j] = (pairs[j][0], free[p.name][0], free[p.name][1])
            details, values, magnetic = make_kernel_args(kern, pairs)
            return kern(details, values, cutoff=CUTOFF, magnetic=magnetic)
        attempt("mesh", mesh)
        attempt("sasview-array", lambda: sasview(free))
        apars = dict(pars)
        for nm in free:
            apars[nm + "_array"] = [fvec(free[nm][0]), fvec(free[nm][1])]
        emit({"tid": sc["tid"], "ev": "Agree", "model": sc["model"], "dim": sc["dim"], "results": results, "pars": apars})


def main():
    req = json.load(sys.stdin)
    for sc in req["scenarios"]:
        try:
            {"names": run_names, "select": run_select, "agree": run_agree}[sc["kind"]](sc)
        except Exception as exc:
            emit({"tid": sc["tid"], "ev": "HarnessError", "error": repr(exc), "tb": traceback.format_exc()[-1800:], "model": sc["model"]})


if __name__ == "__main__":
    main()
