"""Worker for C03 / C04: drives sasmodels.resolution / resolution2d / DirectModel and logs events.

stdin: {"jobs": [job, ...]}   one JSON event per job on stdout.

The worker never computes an expected value: it builds the arguments described by the job
(data), calls the real constructors / apply / DirectModel, and logs what came back (doubles as
repr strings).  Probe theories (constant, ramp, random non-negative, unit vectors, polynomials)
are *inputs* evaluated on the q_calc the code asked for.

job kinds
  {"op": "res1d", "cls": "pinhole"|"slit"|"perfect", "q": [...], "sigma": [...],
   "L": [...]|float|None, "W": [...]|float|None, "qcalc": [...]|None, "rowlimit": n,
   "const": c, "ramp": [a, b], "seed": s, "nbasis": k}
  {"op": "res2d", "qx": [...], "qy": [...], "dqx": [...]|None, "dqy": [...]|None, "acc": "low", ...}
  {"op": "direct", "dkind": "pinhole"|"slit"|"none"|"2d", ..., "intercept": a, "slope": b,
   "calls": [[scale, background], ...]}
  {"op": "ladder", "cls": "pinhole"|"slitL"|"slitW"|"slitLW", "q": [...], widths,
   "coef": [c0, c1, ...], "rungs": [{"h": h, "lo": lo, "hi": hi, "off": o}, ...]}
  {"op": "ladder2d", "qx", "qy", "dqx", "dqy", "A": [a, b, c], "c0": c0, "accs": [...]}
"""
import json
import random
import sys
import traceback
import warnings

import numpy as np

warnings.simplefilter("ignore")
np.seterr(all="ignore")


def fstr(x):
    return repr(float(x))


def fvec(v):
    return [repr(float(x)) for x in np.asarray(v, dtype="d").ravel()]


def emit(ev):
    sys.stdout.write(json.dumps(ev, separators=(",", ":")) + "\n")


def err_text(ex):
    return ("%s: %s" % (type(ex).__name__, ex))[:300]


def as_width(x, n):
    """Job encoding -> constructor argument: None, python float (scalar) or ndarray."""
    if x is None:
        return None
    if isinstance(x, (int, float)):
        return float(x)
    return np.asarray(x, dtype="d")


def per_point(x, n):
    """The per-point values as the class sees them (for the log)."""
    if x is None:
        return [repr(0.0)] * n
    if isinstance(x, (int, float)):
        return [repr(float(x))] * n
    return fvec(x)


def build_1d(job):
    from sasmodels import resolution
    q = np.asarray(job["q"], dtype="d")
    qc = None if job.get("qcalc") is None else np.asarray(job["qcalc"], dtype="d")
    cls = job["cls"]
    if cls == "pinhole":
        if job.get("nsigma") is not None:
            ns = job["nsigma"]
            ns = tuple(ns) if isinstance(ns, (list, tuple)) else float(ns)
            return resolution.Pinhole1D(q, np.asarray(job["sigma"], dtype="d"), q_calc=qc, nsigma=ns)
        return resolution.Pinhole1D(q, np.asarray(job["sigma"], dtype="d"), q_calc=qc)
    if cls == "slit":
        return resolution.Slit1D(q, q_length=as_width(job.get("L"), len(q)),
                                 q_width=as_width(job.get("W"), len(q)), q_calc=qc)
    if cls == "perfect":
        return resolution.Perfect1D(q)
    raise ValueError("unknown class " + cls)


def probes_1d(res, job, ncalc, with_theory=True):
    """Apply probe theories.  Returns the list of probe records."""
    qc = np.asarray(res.q_calc, dtype="d")
    rng = random.Random(job.get("seed", 1))
    a, b = job.get("ramp", [1.0, 2.0])
    plist = [("const", np.full(ncalc, float(job.get("const", 2.0)))),
             ("ramp", a + b * qc),
             ("rand", np.array([rng.randrange(0, 1024) / 64.0 for _ in range(ncalc)]))]
    out = []
    for name, th in plist:
        o = res.apply(th.copy())
        out.append({"name": name, "theory": fvec(th), "out": fvec(o)})
    nb = int(job.get("nbasis", 0))
    if nb:
        for j in sorted(rng.sample(range(ncalc), min(nb, ncalc))):
            th = np.zeros(ncalc)
            th[j] = 1.0
            o = res.apply(th)
            out.append({"name": "basis", "j": j + 1, "theory": [], "out": fvec(o)})
    return out


def op_res1d(job):
    n = len(job["q"])
    ev = {"tid": job["tid"], "ev": "Res1D", "cls": {"pinhole": "Pinhole1D", "slit": "Slit1D",
                                                   "perfect": "Perfect1D"}[job["cls"]],
          "supplied": job.get("qcalc") is not None, "q": fvec(job["q"]),
          "sigma": per_point(job.get("sigma"), n) if job["cls"] == "pinhole" else [],
          "L": per_point(job.get("L"), n) if job["cls"] == "slit" else [],
          "W": per_point(job.get("W"), n) if job["cls"] == "slit" else [],
          "raised": False, "error": "", "qcalc": [], "haverows": False, "off": [], "rows": [],
          "probes": []}
    ns = job.get("nsigma")
    ev["nsig"] = (["2.5", "3.0"] if ns is None else [fstr(ns[0]), fstr(ns[1])] if isinstance(ns, (list, tuple))
                  else [fstr(ns), fstr(ns)])
    try:
        res = build_1d(job)
        qc = np.asarray(res.q_calc, dtype="d")
        ev["qcalc"] = fvec(qc)
        if job["cls"] != "perfect":
            W = np.asarray(res.weight_matrix)        # (ncalc, nq): column i = row of data point i
            if W.shape != (len(qc), n):
                raise RuntimeError("weight matrix shape %s for %d x %d" % (W.shape, len(qc), n))
            nnz = int(np.count_nonzero(W)) + int(np.count_nonzero(~np.isfinite(W)))
            if nnz <= int(job.get("rowlimit", 40000)):
                ev["haverows"] = True
                for i in range(n):
                    col = W[:, i]
                    nz = np.nonzero((col != 0) | ~np.isfinite(col))[0]
                    if len(nz) == 0:
                        ev["off"].append(0)
                        ev["rows"].append([])
                    else:
                        ev["off"].append(int(nz[0]))
                        ev["rows"].append(fvec(col[nz[0]:nz[-1] + 1]))
        ev["probes"] = probes_1d(res, job, len(qc))
    except Exception as ex:      # "constructs without error" is decided by the specification
        ev["raised"] = True
        ev["error"] = err_text(ex)
        ev["where"] = traceback.format_exc()[-600:]
    emit(ev)


def make_data2d(job):
    from sasmodels.data import Data2D
    qx = np.asarray(job["qx"], dtype="d")
    qy = np.asarray(job["qy"], dtype="d")
    dqx = None if job.get("dqx") is None else np.asarray(job["dqx"], dtype="d")
    dqy = None if job.get("dqy") is None else np.asarray(job["dqy"], dtype="d")
    return Data2D(x=qx, y=qy, z=None, dx=dqx, dy=dqy)


def op_res2d(job):
    from sasmodels import resolution2d
    n = len(job["qx"])
    ev = {"tid": job["tid"], "ev": "Res2D", "qx": fvec(job["qx"]), "qy": fvec(job["qy"]),
          "haswidth": job.get("dqx") is not None,
          "dqx": fvec(job["dqx"]) if job.get("dqx") is not None else [],
          "dqy": fvec(job["dqy"]) if job.get("dqy") is not None else [],
          "acc": job["acc"], "raised": False, "error": "", "qxc": [], "qyc": [], "weights": [],
          "probes": []}
    try:
        data = make_data2d(job)
        res = resolution2d.Pinhole2D(data=data, index=None, nsigma=3.0, accuracy=job["acc"])
        qxc, qyc = [np.asarray(v, dtype="d") for v in res.q_calc]
        ev["qxc"], ev["qyc"] = fvec(qxc), fvec(qyc)
        ev["weights"] = [] if res.q_calc_weights is None else fvec(res.q_calc_weights)
        rng = random.Random(job.get("seed", 1))
        a, b, c = job.get("ramp2", [1.0, 2.0, 3.0])
        m = len(qxc)
        for name, th in [("const", np.full(m, float(job.get("const", 2.0)))),
                         ("ramp", a + b * qxc + c * qyc),
                         ("rand", np.array([rng.randrange(0, 1024) / 64.0 for _ in range(m)]))]:
            o = res.apply(th.copy())
            ev["probes"].append({"name": name, "theory": fvec(th), "out": fvec(o)})
    except Exception as ex:
        ev["raised"] = True
        ev["error"] = err_text(ex)
        ev["where"] = traceback.format_exc()[-600:]
    emit(ev)


_model = {}


def line_model():
    from sasmodels import core
    if "line" not in _model:
        _model["line"] = core.load_model("line")
    return _model["line"]


def op_direct(job):
    from sasmodels.data import Data1D
    from sasmodels.direct_model import DirectModel
    dk = job["dkind"]
    ev = {"tid": job["tid"], "ev": "Direct", "dkind": dk, "raised": False, "error": "",
          "rescls": "", "intercept": fstr(job["intercept"]), "slope": fstr(job["slope"]),
          "qcalc": [], "qxc": [], "qyc": [], "unsmeared": [], "base": [], "calls": [],
          "acc": job.get("acc", "-")}
    if dk == "2d":
        n = len(job["qx"])
        ev.update({"q": [], "qx": fvec(job["qx"]), "qy": fvec(job["qy"]),
                   "haswidth": job.get("dqx") is not None,
                   "sigma": [], "L": [], "W": [],
                   "dqx": fvec(job["dqx"]) if job.get("dqx") is not None else [],
                   "dqy": fvec(job["dqy"]) if job.get("dqy") is not None else []})
    else:
        n = len(job["q"])
        ev.update({"q": fvec(job["q"]), "qx": [], "qy": [], "dqx": [], "dqy": [], "haswidth": dk != "none",
                   "sigma": per_point(job.get("sigma"), n) if dk == "pinhole" else [],
                   "L": per_point(job.get("L"), n) if dk == "slit" else [],
                   "W": per_point(job.get("W"), n) if dk == "slit" else []})
    try:
        if dk == "2d":
            data = make_data2d(job)
            data.accuracy = job["acc"]
        else:
            q = np.asarray(job["q"], dtype="d")
            if dk == "pinhole":
                data = Data1D(q, None, dx=np.asarray(job["sigma"], dtype="d"), dy=None)
            else:
                data = Data1D(q, None, dx=None, dy=None)
                data.dxl = None
                data.dxw = None
                if dk == "slit":
                    data.dxl = None if job.get("L") is None else np.asarray(job["L"], dtype="d")
                    data.dxw = None if job.get("W") is None else np.asarray(job["W"], dtype="d")
        calc = DirectModel(data, line_model())
        res = calc.resolution
        ev["rescls"] = type(res).__name__
        pars = {"intercept": float(job["intercept"]), "slope": float(job["slope"])}
        base = calc(scale=1.0, background=0.0, **pars)
        ev["base"] = fvec(base)
        ev["unsmeared"] = fvec(calc.Iq_calc)
        if dk == "2d":
            ev["qxc"], ev["qyc"] = fvec(res.q_calc[0]), fvec(res.q_calc[1])
        else:
            ev["qcalc"] = fvec(res.q_calc)
        for s, b in job["calls"]:
            out = calc(scale=float(s), background=float(b), **pars)
            ev["calls"].append({"scale": fstr(s), "background": fstr(b), "out": fvec(out)})
    except Exception as ex:
        ev["raised"] = True
        ev["error"] = err_text(ex)
        ev["where"] = traceback.format_exc()[-600:]
    emit(ev)


# ---------------------------------------------------------------------------- C04 ladders
def poly(coef, t):
    r = np.zeros_like(t)
    for k in reversed(range(len(coef))):
        r = r * t + coef[k]
    return r


def uniform_grid(lo, hi, h, off, signed=False):
    """Points (k + off)*h covering [lo - 2h, hi + 2h], positive only (data, not oracle)."""
    k0 = int(np.floor(lo / h)) - 2
    k1 = int(np.ceil(hi / h)) + 2
    g = (np.arange(k0, k1 + 1) + off) * h
    return g if signed else g[g > 0]


def op_ladder(job):
    from sasmodels import resolution
    q = np.asarray(job["q"], dtype="d")
    n = len(q)
    cls = job["cls"]
    ev = {"tid": job["tid"], "ev": "Ladder", "cls": cls, "q": fvec(q),
          "sigma": fvec(job["sigma"]) if cls == "pinhole" else [],
          "L": fstr(job.get("L", 0.0)), "W": fstr(job.get("W", 0.0)),
          "coef": fvec(job["coef"]), "raised": False, "error": "", "rungs": [], "supplied": True}
    try:
        for rung in job["rungs"]:
            # (pinhole windows may reach below zero: the grid then has negative points, taken at |q| by the library)
            qc = uniform_grid(rung["lo"], rung["hi"], rung["h"], rung["off"], signed=(cls == "pinhole" and rung["lo"] < 0))
            if cls == "pinhole":
                res = resolution.Pinhole1D(q, np.asarray(job["sigma"], dtype="d"), q_calc=qc)
            else:
                res = resolution.Slit1D(q, q_length=float(job.get("L", 0.0)),
                                        q_width=float(job.get("W", 0.0)), q_calc=qc)
            theory = poly(job["coef"], np.asarray(res.q_calc, dtype="d"))
            out = res.apply(theory)
            g = np.sort(np.asarray(res.q_calc, dtype="d"))
            ev["rungs"].append({"h": fstr(rung["h"]), "ncalc": int(len(g)), "first": fstr(g[0]),
                                "last": fstr(g[-1]), "maxstep": fstr(np.max(np.diff(g))),
                                "out": fvec(out)})
    except Exception as ex:
        ev["raised"] = True
        ev["error"] = err_text(ex)
        ev["where"] = traceback.format_exc()[-600:]
    emit(ev)


def op_ladder_default(job):
    """Dense data grids (spacing h, h/2, h/4) smeared on the grid the library builds itself (q_calc=None); the
    widths are not monotone (merged instrument configurations).  One single-rung Ladder event per grid."""
    from sasmodels import resolution
    for k, rung in enumerate(job["rungs"]):
        h = rung["h"]
        n = int(round((job["hi"] - job["lo"]) / h)) + 1
        q = job["lo"] + h * np.arange(n)
        sigma = np.where((np.arange(n) * h >= job["wide"][0] * (job["hi"] - job["lo"]))
                         & (np.arange(n) * h <= job["wide"][1] * (job["hi"] - job["lo"])), job["s2"], job["s1"])
        ev = {"tid": job["tid"] * 10 + k, "ev": "Ladder", "cls": "pinhole", "q": fvec(q), "sigma": fvec(sigma),
              "L": "0.0", "W": "0.0", "coef": fvec(job["coef"]), "raised": False, "error": "", "rungs": [],
              "supplied": False}
        try:
            res = resolution.Pinhole1D(q, sigma)
            theory = poly(job["coef"], np.asarray(res.q_calc, dtype="d"))
            out = res.apply(theory)
            g = np.sort(np.asarray(res.q_calc, dtype="d"))
            ev["rungs"].append({"h": fstr(h), "ncalc": int(len(g)), "first": fstr(g[0]), "last": fstr(g[-1]),
                                "maxstep": fstr(np.max(np.diff(g))), "out": fvec(out)})
        except Exception as ex:
            ev["raised"] = True
            ev["error"] = err_text(ex)
        emit(ev)


def op_ladder2d(job):
    from sasmodels import resolution2d
    ev = {"tid": job["tid"], "ev": "Ladder2D", "qx": fvec(job["qx"]), "qy": fvec(job["qy"]),
          "dqx": fvec(job["dqx"]), "dqy": fvec(job["dqy"]), "A": fvec(job["A"]), "c0": fstr(job["c0"]),
          "raised": False, "error": "", "rungs": []}
    try:
        a, b, c = [float(x) for x in job["A"]]
        for acc in job["accs"]:
            data = make_data2d(job)
            res = resolution2d.Pinhole2D(data=data, index=None, nsigma=3.0, accuracy=acc)
            X, Y = [np.asarray(v, dtype="d") for v in res.q_calc]
            theory = float(job["c0"]) + a * X * X + 2 * b * X * Y + c * Y * Y
            out = res.apply(theory)
            ev["rungs"].append({"acc": acc.lower(), "out": fvec(out)})
    except Exception as ex:
        ev["raised"] = True
        ev["error"] = err_text(ex)
        ev["where"] = traceback.format_exc()[-600:]
    emit(ev)


OPS = {"res1d": op_res1d, "res2d": op_res2d, "direct": op_direct, "ladder": op_ladder,
       "ladder2d": op_ladder2d, "ladder_default": op_ladder_default}


def main():
    req = json.load(sys.stdin)
    for job in req["jobs"]:
        OPS[job["op"]](job)
    sys.stdout.flush()


if __name__ == "__main__":
    main()
