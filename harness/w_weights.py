"""Worker for C02: drives the distribution-weight code of /repo and logs what it returned.

stdin: {"calls": [call, ...]}   (or {"tables": true} -> one line describing every table parameter)
Every number of a call arrives as repr(float) text (data chosen by TLC / the harness) and is
logged back the same way; nothing is computed here but the implementation's own results.

call kinds
  getw       {tid, kind, q}                      weights.get_weights
  scalepair  {tid, kind, q, f}                   two get_weights calls (value, lb, ub times f)
  abspair    {tid, kind, q, value2}              two get_weights calls (other angle)
  poppar     {tid, kind, par, given, active}     direct_model._pop_par_weights
             par = {"model": m, "name": p}  (a real table)  or
                   {"synthetic": {"name", "ptype", "lb", "ub", "default"}} (modelinfo.parse_parameter)
             given = subset of {value, n, width, nsigma, type}
  mesh       {tid, kind, model, pars, dim}       direct_model.get_mesh, one PopPar event per
                                                 _pop_par_weights call it makes
  sasview    {tid, kind, model, name, a}         SasviewModel._get_weights
q = {type, n, width, nsigma, value, lb, ub, relative}
"""
import json
import sys
import warnings

import numpy as np

warnings.simplefilter("ignore")
np.seterr(all="ignore")

SUFFIX = (("value", ""), ("n", "_pd_n"), ("width", "_pd"), ("nsigma", "_pd_nsigma"), ("type", "_pd_type"))


def fstr(x):
    return repr(float(x))


def fvec(v):
    return [repr(float(x)) for x in np.asarray(v, dtype="d").ravel()]


def emit(ev):
    sys.stdout.write(json.dumps(ev, separators=(",", ":")) + "\n")


def num(s):
    return None if s is None else float(s)


_infos = {}


def model_info(name):
    from sasmodels import core
    if name not in _infos:
        _infos[name] = core.load_model_info(name)
    return _infos[name]


def declared_limits(p, info):
    """The hard limits the definition declares for call parameter p: for the numbered members of a vector
    parameter (thickness[n] -> thickness1 ...) those of the vector's own table row, read from the kernel
    parameter table and not from the expanded member."""
    if info is not None:
        for k in info.parameters.kernel_parameters:
            if k.length > 1 and p.name.startswith(k.id) and p.name[len(k.id):].isdigit():
                return k.limits
            if k.name == p.name:
                return k.limits
    return p.limits


def par_record(p, info=None):
    lim = declared_limits(p, info)
    return {"name": p.name, "ptype": p.type, "lb": fstr(lim[0]), "ub": fstr(lim[1]),
            "default": fstr(p.default), "disp": bool(p.polydisperse), "control": bool(p.is_control),
            "relative_attr": bool(p.relative_pd)}


def result(fn):
    """Run fn() -> (x, w) or (value, x, w); project the outcome."""
    try:
        out = fn()
    except Exception as exc:   # an exception is an outcome the specification judges
        return {"raised": True, "error": type(exc).__name__, "msg": str(exc)[:200], "x": [], "w": [],
                "value": "nan"}
    if len(out) == 3:
        value, x, w = out
    else:
        (x, w), value = out, float("nan")
    return {"raised": False, "error": "", "x": fvec(x), "w": fvec(w), "value": fstr(value)}


def q_log(q):
    return {"type": q["type"], "n": int(q["n"]), "width": fstr(q["width"]),
            "nsigma": "nan" if q["nsigma"] is None else fstr(q["nsigma"]), "value": fstr(q["value"]),
            "lb": fstr(q["lb"]), "ub": fstr(q["ub"]), "relative": bool(q["relative"])}


def call_get_weights(q, value=None, lb=None, ub=None):
    from sasmodels import weights
    value = float(q["value"]) if value is None else value
    lb = float(q["lb"]) if lb is None else lb
    ub = float(q["ub"]) if ub is None else ub
    return result(lambda: weights.get_weights(q["type"], int(q["n"]), float(q["width"]), num(q["nsigma"]),
                                              value, [lb, ub], bool(q["relative"])))


def do_getw(c):
    emit({"tid": c["tid"], "ev": "GetW", "q": q_log(c["q"]), "res": call_get_weights(c["q"])})


def do_scalepair(c):
    q = c["q"]
    f = float(c["f"])
    r1 = call_get_weights(q)
    r2 = call_get_weights(q, float(q["value"]) * f, float(q["lb"]) * f, float(q["ub"]) * f)
    emit({"tid": c["tid"], "ev": "ScalePair", "q": q_log(q), "f": fstr(f), "res1": r1, "res2": r2})


def do_abspair(c):
    q = c["q"]
    r1 = call_get_weights(q)
    r2 = call_get_weights(q, float(c["value2"]))
    emit({"tid": c["tid"], "ev": "AbsPair", "q": q_log(q), "value2": fstr(c["value2"]), "res1": r1, "res2": r2})


def given_log(g):
    out = {}
    for k, v in g.items():
        out[k] = int(v) if k == "n" else (v if k == "type" else fstr(v))
    return out


def values_dict(name, g):
    d = {}
    for k, suf in SUFFIX:
        if k in g:
            v = g[k]
            d[name + suf] = int(v) if k == "n" else (v if k == "type" else float(v))
    return d


def pop_event(tid, p, before, after, active, res, info=None):
    """One _pop_par_weights call: what was given for this parameter, what is left of it."""
    given = {}
    left = []
    for k, suf in SUFFIX:
        if p.name + suf in before:
            given[k] = before[p.name + suf]
            if p.name + suf in after:
                left.append(k)
    emit({"tid": tid, "ev": "PopPar", "par": par_record(p, info), "given": given_log(given),
          "active": bool(active), "left": left, "res": res})


def get_parameter(spec):
    if "synthetic" in spec:
        from sasmodels import modelinfo
        s = spec["synthetic"]
        return modelinfo.parse_parameter(s["name"], "", float(s["default"]), [float(s["lb"]), float(s["ub"])],
                                         s["ptype"], "generated")
    info = model_info(spec["model"])
    for p in info.parameters.call_parameters:
        if p.name == spec["name"]:
            return p
    raise KeyError(spec)


def do_poppar(c):
    from sasmodels import direct_model
    p = get_parameter(c["par"])
    values = values_dict(p.name, c["given"])
    before = dict(values)
    res = result(lambda: direct_model._pop_par_weights(p, values, bool(c["active"])))
    pop_event(c["tid"], p, before, values, c["active"], res, None if "synthetic" in c["par"] else model_info(c["par"]["model"]))


def do_mesh(c):
    from sasmodels import direct_model
    info = model_info(c["model"])
    pars = {}
    for k, v in c["pars"].items():
        pars[k] = v if k.endswith("_pd_type") else (int(v) if k.endswith("_pd_n") else float(v))
    orig = direct_model._pop_par_weights
    tid = c["tid"]

    def seam(parameter, values, active=True):
        before = dict(values)
        holder = {}

        def run():
            holder["out"] = orig(parameter, values, active)
            return holder["out"]
        res = result(run)
        pop_event(tid, parameter, before, values, active, res, info)
        if res["raised"]:
            raise RuntimeError("recorded")
        return holder["out"]

    direct_model._pop_par_weights = seam
    try:
        try:
            mesh = direct_model.get_mesh(info, pars, dim=c["dim"])
            n = len(mesh)
        except Exception as exc:
            n = -1
    finally:
        direct_model._pop_par_weights = orig
    emit({"tid": tid, "ev": "MeshDone", "n": n, "npars": len(info.parameters.call_parameters)})


_sas = {}


def do_sasview(c):
    from sasmodels import sasview_model
    if c["model"] not in _sas:
        _sas[c["model"]] = sasview_model._make_standard_model(c["model"])
    model = _sas[c["model"]]()
    a = c["a"]
    name = c["name"]
    p = [p for p in model._model_info.parameters.call_parameters if p.name == name][0]
    if name not in model.params:     # hidden in the sasview interface (scale of S(q), shell count ...)
        emit({"tid": c["tid"], "ev": "HarnessSkip", "why": "hidden parameter"})
        return
    model.setParam(name, float(a["value"]))
    if p.polydisperse:
        model.setParam(name + ".width", float(a["width"]))
        model.setParam(name + ".npts", int(a["n"]))
        model.setParam(name + ".nsigmas", num(a["nsigma"]))
        model.setParam(name + ".type", a["type"])
    # another dispersible parameter of the same object is then given quite different settings: each parameter has
    # its own distribution
    others = [o for o in model._model_info.parameters.call_parameters
              if o.polydisperse and o.name != name and o.name in model.params and o.name in model.dispersion]
    if others:
        o = others[c["tid"] % len(others)]
        model.setParam(o.name + ".width", 0.33)
        model.setParam(o.name + ".npts", 7)
        model.setParam(o.name + ".nsigmas", 1.5)
        model.setParam(o.name + ".type", "rectangle")
    res = result(lambda: model._get_weights(p))
    emit({"tid": c["tid"], "ev": "SasviewGW", "par": par_record(p, model._model_info),
          "a": {"value": fstr(a["value"]), "n": int(a["n"]), "width": fstr(a["width"]),
                "nsigma": "nan" if a["nsigma"] is None else fstr(a["nsigma"]), "type": a["type"]},
          "res": res})


def tables():
    from sasmodels import core
    out = []
    for m in core.list_models():
        info = model_info(m)
        for p in info.parameters.call_parameters:
            r = par_record(p, info)
            r["model"] = m
            out.append(r)
    emit({"ev": "Tables", "pars": out})


KINDS = {"getw": do_getw, "scalepair": do_scalepair, "abspair": do_abspair, "poppar": do_poppar,
         "mesh": do_mesh, "sasview": do_sasview}


def main():
    req = json.load(sys.stdin)
    if req.get("tables"):
        tables()
        return
    for c in req["calls"]:
        KINDS[c["kind"]](c)


if __name__ == "__main__":
    main()
