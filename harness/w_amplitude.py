"""Worker for C14 (amplitude outputs): runs under /venv/bin/python.

stdin: {"op": "obs", "model": m, "n_sets": n, "seed": s, "first_tid": t}
           parameter sets from the model's random() generator x dispersity off/on x every
           effective-radius mode x q from 1e-5/size to 20/size
       {"op": "replay", "scenarios": [{"tid", "model", "pars", "q", "mode"}]}
stdout: one "AmpObs" event per call_Fq observation (with I(q) of call_kernel on the same kernel).
No expected value is computed here.
"""
import json
import random
import sys
import traceback

import numpy as np

import w_units as W

Q_TIMES_SIZE = (1e-5, 1e-3, 0.03, 0.3, 1.0, 2.5, 6.0, 20.0)


def observe_raw(kernel, pars, mode):
    """One observation on a given kernel; the returned arrays are kept AS RETURNED (no copy, no conversion)."""
    from sasmodels.direct_model import call_kernel, call_Fq
    raw = {"raised": False, "error": "", "F1": None, "F2": None, "I": None, "reff": float("nan"),
           "vshell": float("nan"), "ratio": float("nan")}
    try:
        raw["I"] = call_kernel(kernel, dict(pars))
        fp = dict(pars)
        fp["radius_effective_mode"] = mode
        raw["F1"], raw["F2"], raw["reff"], raw["vshell"], raw["ratio"] = call_Fq(kernel, fp)
    except Exception as exc:                                    # logged, judged by the spec
        raw.update(raised=True, error=repr(exc)[:300])
    return raw


def emit_obs(tid, model_name, table, pars, q, mode, raw):
    res = {"raised": raw["raised"], "error": raw["error"], "F1": [], "F2": [], "I": [],
           "reff": "nan", "vshell": "nan", "ratio": "nan"}
    if not raw["raised"]:
        res.update(I=W.fvec(raw["I"]), F1=W.fvec(raw["F1"]) if raw["F1"] is not None else [], F2=W.fvec(raw["F2"]),
                   reff=W.fstr(raw["reff"]), vshell=W.fstr(raw["vshell"]), ratio=W.fstr(raw["ratio"]))
    W.emit({"ev": "AmpObs", "tid": tid, "model": model_name, "table": table,
            "pars": W.jsonable_pars(pars), "q": W.fvec(q), "mode": int(mode), "res": res})


def observe(tid, model_name, table, pars, q, mode):
    model = W.get_model(model_name)
    kernel = model.make_kernel([np.asarray(q, "d")])
    raw = observe_raw(kernel, pars, mode)
    emit_obs(tid, model_name, table, pars, q, mode, raw)
    kernel.release()


def plan(req):
    name = req["model"]
    info = W.get_info(name)
    table = W.table_event(name)
    rng = random.Random("%s-%s-amp" % (name, req["seed"]))
    nmodes = len(info.radius_effective_modes or [])
    tid = req["first_tid"]
    for k in range(req["n_sets"]):
        if k == 0:
            P = info.parameters
            pars = {p.name: float(p.default) for p in P.call_parameters[:2 + P.npars]}
        else:
            pars = W.random_pars(info, rng.randrange(2 ** 31))
        pars["scale"] = rng.choice([1.0, 0.5, 0.09375, 2.0])
        pars["background"] = rng.choice([0.0, 0.001, 2.0 ** -7])
        smax, _ = W.length_scale(info, pars)
        q = [c / smax for c in Q_TIMES_SIZE]
        # one kernel serves the whole parameter set (dispersity off and on, every mode), as in a fit; what each call
        # returned is kept as returned and only read after the last call
        kernel = W.get_model(name).make_kernel([np.asarray(q, "d")])
        kept = []
        for disperse in (False, True):
            p = dict(pars)
            if disperse:
                W.add_dispersity(info, p, rng, "1d", big=(k % 2 == 1))
                if len(p) == len(pars):
                    continue                                   # nothing to disperse
            for mode in range(1, nmodes + 1):
                kept.append((tid, p, mode, observe_raw(kernel, p, mode)))
                tid += 1
        for t, p, mode, raw in kept:
            emit_obs(t, name, table, p, q, mode, raw)
        kernel.release()


def main():
    req = json.load(sys.stdin)
    try:
        if req["op"] == "obs":
            plan(req)
        elif req["op"] == "replay":
            for sc in req["scenarios"]:
                observe(sc["tid"], sc["model"], W.table_event(sc["model"]),
                        W.native_pars(sc["pars"]), [float(x) for x in sc["q"]], sc["mode"])
        else:
            raise ValueError("unknown op %r" % (req["op"],))
    except Exception as exc:
        W.emit({"ev": "HarnessError", "error": repr(exc), "tb": traceback.format_exc()[-2000:]})


if __name__ == "__main__":
    main()
