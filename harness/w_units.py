"""Worker for C13 (units) and helper library for C14 (amplitude): runs under /venv/bin/python.

stdin: one JSON request
  {"op": "tables", "models": [...] | null}
        -> one "Table" event per model: the facts of the working tree's parameter table
           (names, units, types, dispersity flags, category, modes, Fq/2-D entry points)
  {"op": "base", "model": m, "n_sets": n, "seed": s, "first_tid": t, "dims": ["1d", "2d"]}
        -> "Base" events: a parameter set, q values and what call_kernel / call_Fq returned
  {"op": "eval", "requests": [{"rid":, "model":, "dim":, "pars": {...}, "q": [...] | "qx","qy"}]}
        -> "Eval" events: what call_kernel / call_Fq return for exactly these inputs

Nothing here computes an expected value or rescales a parameter: parameter sets and q values are
data, the rescaled requests come from TLC (spec/UnitsTrace.tla), verdicts are TLC's.
"""
import json
import math
import random
import sys
import traceback

import numpy as np


def fstr(x):
    return repr(float(x))


def fvec(v):
    return [repr(float(x)) for x in np.asarray(v, dtype="d").ravel()]


def emit(ev):
    sys.stdout.write(json.dumps(ev, separators=(",", ":")) + "\n")
    sys.stdout.flush()


_models = {}
_infos = {}


def get_info(name):
    from sasmodels import core
    if name not in _infos:
        _infos[name] = core.load_model_info(name)
    return _infos[name]


def get_model(name):
    from sasmodels import core
    if name not in _models:
        _models[name] = core.build_model(get_info(name), dtype="double", platform="dll")
    return _models[name]


# ----------------------------------------------------------------------------- table export
def xy_mode(info):
    """Which 2-D entry point the model defines: 'qa' (Iq only), 'qac', 'qabc' or 'qxy'."""
    from sasmodels import generate
    if callable(info.Iq):
        return "qabc" if info.Iqabc else "qac" if info.Iqac else "qxy" if info.Iqxy else "qa"
    src = []
    for path in generate.model_sources(info):
        with open(path) as f:
            src.append(f.read())
    if info.c_code:
        src.append(info.c_code)
    for attr in ("Iq", "Iqxy", "Iqac", "Iqabc"):
        body = getattr(info, attr, None)
        if isinstance(body, str):
            src.append("double %s(double q) {%s}" % (attr, body))
    return generate.find_xy_mode(src)


def kernel_call_parameters(info):
    """The model's own parameters as the user names them (vectors expanded), i.e. the call
    parameters between the two common ones (scale, background) and the magnetic ones."""
    P = info.parameters
    return P.call_parameters[2:2 + P.npars]


def table_event(name):
    info = get_info(name)
    cat = info.category or ""
    head, _, sub = cat.partition(":")
    rows = []
    # the unit written in the row of the definition's own table (for the k-th member of a vector: the vector's row)
    declared = {}
    for kp in info.parameters.kernel_parameters:
        if kp.length > 1:
            declared.update((kp.id + str(k), str(kp.units)) for k in range(1, kp.length + 1))
        else:
            declared[kp.id] = str(kp.units)
    for p in kernel_call_parameters(info):
        lo, hi = p.limits
        rows.append({"name": p.name, "units": str(p.units), "decl": declared.get(p.id, str(p.units)), "type": p.type or "",
                     "pd": bool(p.polydisperse), "relpd": bool(p.relative_pd),
                     "control": bool(p.is_control),
                     "integer": bool(p.is_control or (p.choices and len(p.choices) > 0)),
                     "lo": fstr(lo), "hi": fstr(hi)})
    return {"ev": "Table", "model": name, "category": cat, "cat_head": head, "cat_sub": sub,
            "engine": "py" if callable(info.Iq) else "c", "have_Fq": bool(info.have_Fq),
            "modes": list(info.radius_effective_modes or []), "xy_mode": xy_mode(info),
            "structure_factor": bool(info.structure_factor), "has_random": info.random is not None,
            "rows": rows}


# ----------------------------------------------------------------------------- parameter sets
def random_pars(info, seed, is2d=False):
    """A parameter set from the model's own random() generator, else compare.randomize_pars;
    always followed by compare.constrain_pars.  Dispersity is decided by the caller."""
    from sasmodels import compare
    P = info.parameters
    np.random.seed(seed)
    pars = dict((p.name, p.default) for p in P.call_parameters[:2 + P.npars])
    if info.random is not None:
        pars.update(info.random())
    else:
        full = dict((p.name, p.default) for p in P.call_parameters)
        pars = compare.randomize_pars(info, full)
    compare.constrain_pars(info, pars)
    keep = set(p.name for p in P.call_parameters[:2 + P.npars])
    pars = {k: float(v) for k, v in pars.items() if k in keep}
    # integer-valued parameters stay integers
    for p in kernel_call_parameters(info):
        if p.is_control:
            pars[p.name] = float(int(round(pars[p.name])))
    return pars


PD_CHOICES = [("gaussian", 0.1, 5, 2.0), ("schulz", 0.25, 6, 3.0), ("rectangle", 0.2, 4, 1.0),
              ("lognormal", 0.15, 5, 2.0)]


def add_dispersity(info, pars, rng, dim, nmax=2, big=False):
    """Relative dispersity on up to nmax size parameters (+ angular jitter in 2-D)."""
    P = info.parameters
    cands = [p for p in kernel_call_parameters(info)
             if p.polydisperse and p.type == "volume" and not p.is_control]
    rng.shuffle(cands)
    for j, p in enumerate(cands[:nmax]):
        t, w, n, ns = rng.choice(PD_CHOICES)
        if big:
            # a mesh of more than 100 points: the compiled kernel is re-entered slice by slice and its running
            # totals (weights, volumes, effective radius) are carried over between the calls
            n = (13, 11)[j] if len(cands) > 1 else 104
        pars[p.name + "_pd"] = w
        pars[p.name + "_pd_n"] = n
        pars[p.name + "_pd_nsigma"] = ns
        pars[p.name + "_pd_type"] = t
    if dim == "2d":
        for p in kernel_call_parameters(info):
            if p.type == "orientation" and p.name == "theta":
                pars["theta_pd"] = 8.0            # absolute width in degrees
                pars["theta_pd_n"] = 3
                pars["theta_pd_nsigma"] = 2.0
                pars["theta_pd_type"] = "gaussian"


def length_scale(info, pars):
    """Largest and smallest positive value among the parameters declared in Ang (data for the
    choice of q only; the trace spec recomputes the admissible q window itself)."""
    vals = [abs(pars[p.name]) for p in kernel_call_parameters(info)
            if str(p.units) == "Ang" and pars.get(p.name, 0.0) != 0.0 and math.isfinite(pars[p.name])]
    if not vals:
        return 100.0, 100.0
    return max(vals), min(vals)


def jsonable_pars(pars):
    out = {}
    for k, v in pars.items():
        if isinstance(v, str):
            out[k] = v
        elif k.endswith("_pd_n"):
            out[k] = int(v)
        else:
            out[k] = fstr(v)
    return out


def native_pars(jp):
    out = {}
    for k, v in jp.items():
        if k.endswith("_pd_type"):
            out[k] = str(v)
        elif k.endswith("_pd_n"):
            out[k] = int(v)
        else:
            out[k] = float(v)
    return out


# ----------------------------------------------------------------------------- evaluation
def make_kernel(model, dim, qs, first_only=False):
    if dim == "2d":
        qx, qy = np.asarray(qs["qx"], "d"), np.asarray(qs["qy"], "d")
        return model.make_kernel([qx[:1], qy[:1]] if first_only else [qx, qy])
    q = np.asarray(qs["q"], "d")
    return model.make_kernel([q[:1]] if first_only else [q])


def evaluate(model_name, dim, pars, qs):
    """call_kernel at every q; call_Fq for the volumes and for every effective-radius mode
    (the latter on a one-point q vector: R_eff and the volumes do not depend on q)."""
    from sasmodels.direct_model import call_kernel, call_Fq
    model = get_model(model_name)
    info = model.info
    res = {"raised": False, "error": "", "I": [], "reffs": [], "vshell": "nan", "ratio": "nan"}
    kernel = k1 = None
    try:
        kernel = make_kernel(model, dim, qs)
        res["I"] = fvec(call_kernel(kernel, dict(pars)))
        k1 = make_kernel(model, dim, qs, first_only=True)
        nmodes = len(info.radius_effective_modes or [])
        for m in range(0 if nmodes == 0 else 1, nmodes + 1):
            fp = dict(pars)
            fp["radius_effective_mode"] = m
            _, _, reff, vshell, ratio = call_Fq(k1, fp)
            res.update(vshell=fstr(vshell), ratio=fstr(ratio))
            if m:
                res["reffs"].append(fstr(reff))
    except Exception as exc:                                    # logged, judged by the spec
        res.update(raised=True, error=repr(exc)[:300])
    for k in (kernel, k1):
        if k is not None:
            k.release()
    return res


def q_points(smax, dim, rng):
    """q values with q*size between 0.1 and 20 (size = largest length of the set)."""
    q = [ck / smax for ck in (0.1, 0.4, 1.5, 5.0, 20.0)]
    if dim == "1d":
        return {"q": q}
    ang = [rng.uniform(0, 2 * math.pi) for _ in q]
    return {"qx": [qq * math.cos(a) for qq, a in zip(q, ang)],
            "qy": [qq * math.sin(a) for qq, a in zip(q, ang)]}


def base_events(req):
    name = req["model"]
    info = get_info(name)
    rng = random.Random("%s-%s" % (name, req["seed"]))
    tid = req["first_tid"]
    table = table_event(name)
    has_orient = any(p.type == "orientation" for p in kernel_call_parameters(info))
    for dim, nsets in (("1d", req["n_sets"]), ("2d", req.get("n_sets_2d", 0) if has_orient else 0)):
        for k in range(nsets):
            pars = random_pars(info, rng.randrange(2 ** 31), is2d=(dim == "2d"))
            pars["background"] = 0.0 if k % 3 != 2 else 2.0 ** -7
            if dim == "2d":
                for p in kernel_call_parameters(info):
                    if p.type == "orientation":
                        # the first 2-D set of every model is at the default orientation (all angles zero: every
                        # pixel then has a zero component along the particle's axis)
                        pars[p.name] = 0.0 if k == 0 else rng.choice([0.0, 20.0, 45.0, 77.0, 90.0, -30.0, 130.0])
            if dim == "1d" and k == nsets - 1 and nsets > 1:
                # exact special values: every dimensionless ratio- or exponent-like parameter (default >= 0.5, not an
                # integer choice) is exactly 1 where its limits allow - code often has a separate branch there
                for p in kernel_call_parameters(info):
                    if (str(p.units) == "" and not p.is_control and not p.choices and p.type != "sld"
                            and float(p.default) >= 0.5 and float(p.default) != 1.0
                            and p.limits[0] <= 1.0 <= p.limits[1]):
                        pars[p.name] = 1.0
            if k % 3 == 1:
                add_dispersity(info, pars, rng, dim, big=(rng.random() < 0.5))
            smax, _ = length_scale(info, pars)
            qs = q_points(smax, dim, rng)
            res = evaluate(name, dim, pars, qs)
            emit({"ev": "Base", "tid": tid, "model": name, "dim": dim, "table": table,
                  "pars": jsonable_pars(pars), "qs": {kk: fvec(v) for kk, v in qs.items()},
                  "res": res})
            tid += 1


def eval_events(req):
    for r in req["requests"]:
        pars = native_pars(r["pars"])
        qs = {k: [float(x) for x in v] for k, v in r["qs"].items()}
        res = evaluate(r["model"], r["dim"], pars, qs)
        emit({"ev": "Eval", "rid": r["rid"], "model": r["model"], "res": res})


def main():
    req = json.load(sys.stdin)
    try:
        if req["op"] == "tables":
            from sasmodels import core
            for name in (req.get("models") or core.list_models()):
                emit(table_event(name))
        elif req["op"] == "base":
            base_events(req)
        elif req["op"] == "eval":
            eval_events(req)
        else:
            raise ValueError("unknown op %r" % (req["op"],))
    except Exception as exc:
        emit({"ev": "HarnessError", "error": repr(exc), "tb": traceback.format_exc()[-2000:],
              "req": {k: v for k, v in req.items() if k != "requests"}})


if __name__ == "__main__":
    main()
