"""Worker for C07: evaluate P@S and its parts P and S alone; log ProductTrace events.

stdin: {"workdir": d, "scenarios": [{tid, P, S, seed, dim, probe: {pdef, sdef} | None}]}
P and S are model names (builtin) or, with probe, definitions written to workdir.
"""
import json
import os
import random
import sys
import traceback

import numpy as np

import probe


def fstr(x):
    return repr(float(x))


def fvec(v):
    return [repr(float(x)) for x in np.asarray(v, dtype="d").ravel()]


def emit(ev):
    sys.stdout.write(json.dumps(ev, separators=(",", ":")) + "\n")


def tab(info):
    return [{"id": p.id, "kind": p.type} for p in info.parameters.call_parameters[2:2 + info.parameters.npars]]


def run(sc, workdir):
    from sasmodels import core
    from sasmodels.direct_model import call_kernel, call_Fq
    rng = random.Random(sc["seed"])
    if sc.get("probe"):
        pname = probe.write_c(sc["probe"]["pdef"], workdir)
        sname = probe.write_c(sc["probe"]["sdef"], workdir)
    else:
        pname, sname = sc["P"], sc["S"]
    p_info = core.load_model_info(pname)
    s_info = core.load_model_info(sname)
    from sasmodels import product
    ps_info = product.make_product_info(p_info, s_info)
    P = core.build_model(p_info, dtype="double", platform="dll")
    S = core.build_model(s_info, dtype="double", platform="dll")
    PS = core.build_model(ps_info, dtype="double", platform="dll")
    dim = sc["dim"]
    if dim == "2d":
        q = [np.array([0.01, -0.04, 0.08]), np.array([0.02, 0.03, -0.05])]
    else:
        q = [np.array([0.005, 0.02, 0.08, 0.2])]
    pk, sk, psk = P.make_kernel(q), S.make_kernel(q), PS.make_kernel(q)
    # ---- input data
    pars = {}
    dflt = dict(p_info.parameters.defaults)
    if p_info.random is not None and rng.random() < 0.5:
        np.random.seed(rng.randrange(2 ** 31))
        try:
            dflt.update(p_info.random())
        except Exception:
            pass
    p_ids = set(p.id for p in p_info.parameters.kernel_parameters)
    for p in p_info.parameters.call_parameters[2:]:
        pars[p.name] = float(dflt.get(p.name, p.default))
    p_pars = dict(pars)
    s_pars = {}
    s_names = {}
    for p in s_info.parameters.call_parameters[2:]:
        cname = p.name + "_S" if p.id in p_ids and p.id != "volfraction" else p.name
        s_names[p.name] = cname
        if p.id == "volfraction" and "volfraction" in p_ids:
            continue
        v = float(s_info.parameters.defaults[p.name])
        if sc.get("probe") is None and p.id not in ("radius_effective", "volfraction"):
            v *= rng.choice([1.0, 0.5, 1.25])
        pars[cname] = v
        s_pars[p.name] = v
    vf = rng.choice([0.0625, 0.125, 0.25]) if sc.get("probe") else rng.choice([0.05, 0.1, 0.2, 0.3])
    pars["volfraction"] = vf
    if "volfraction" in p_ids:
        p_pars["volfraction"] = vf
    user_reff = rng.choice([16.0, 40.0, 72.0]) if sc.get("probe") is None else rng.choice([2.0, 3.5])
    pars["radius_effective"] = user_reff
    nmodes = len(p_info.radius_effective_modes or [])
    ermode = rng.randint(0, nmodes) if nmodes else 0
    beta = bool(p_info.have_Fq and rng.random() < 0.5)
    if nmodes:
        pars["radius_effective_mode"] = ermode
    if p_info.have_Fq:
        pars["structure_factor_mode"] = 1 if beta else 0
    pars["scale"] = rng.choice([1.0, 0.5, 2.0])
    pars["background"] = rng.choice([0.0, 0.25])
    # dispersity on P parameters
    pd_names = sorted([p.name for p in p_info.parameters.call_parameters if p.polydisperse and p.type not in ("orientation", "magnetic")] if dim == "1d" else
                      [p.name for p in p_info.parameters.call_parameters if p.polydisperse and p.type != "orientation"])
    rng.shuffle(pd_names)
    big = sc.get("bigmesh")      # meshes beyond the 100-point slice in which the compiled kernel is re-entered
    chosen = [nm for nm in pd_names if nm != "volfraction"][:(rng.choice([1, 2]) if big else rng.choice([0, 1, 2]))]
    bign = [rng.choice([104, 120])] if len(chosen) == 1 else [13, 11]
    for k, name in enumerate(chosen):
        d = {name + "_pd": rng.choice([0.125, 0.25]), name + "_pd_n": (bign[k] if big else rng.choice([3, 8])),
             name + "_pd_type": rng.choice(["gaussian", "rectangle"])}
        pars.update(d)
        p_pars.update(d)
    # the user may leave dispersity on radius_effective in every mode; it only applies in mode 0
    # (for mode > 0 S must be evaluated at P's mean effective radius, monodisperse)
    s_extra = {}
    if rng.random() < 0.5 and s_info.parameters["radius_effective"].polydisperse:
        s_extra = {"radius_effective_pd": 0.125, "radius_effective_pd_n": 5}
        pars.update(s_extra)
    if dim == "2d":
        for p in p_info.parameters.call_parameters:
            if p.type == "orientation":
                pars[p.name] = p_pars[p.name] = rng.choice([0.0, 30.0, 75.0])
        # orientation jitter on P (turns the particle, leaves its sizes alone)
        if rng.random() < 0.5:
            for p in p_info.parameters.call_parameters:
                if p.type == "orientation" and p.name in ("theta", "phi") and rng.random() < 0.7:
                    d = {p.name + "_pd": rng.choice([10.0, 25.0]), p.name + "_pd_n": rng.choice([3, 4]),
                         p.name + "_pd_type": rng.choice(["gaussian", "rectangle"])}
                    pars.update(d)
                    p_pars.update(d)
        # magnetic P (P's magnetic triples and the spin state travel at the end of the P@S vector)
        m0 = [p.name for p in p_info.parameters.call_parameters if p.name.endswith("_M0")]
        if m0 and rng.random() < 0.6:
            mag = {"up_frac_i": rng.choice([0.0, 0.25]), "up_frac_f": rng.choice([0.0, 0.75]),
                   "up_theta": rng.choice([90.0, 30.0]), "up_phi": rng.choice([0.0, 40.0])}
            for nm in m0:
                mag[nm] = rng.choice([1.0, 2.0, -1.5])
                mag[nm[:-3] + "_mtheta"] = rng.choice([20.0, 60.0, 90.0])
                mag[nm[:-3] + "_mphi"] = rng.choice([10.0, 80.0])
            pars.update(mag)
            p_pars.update(mag)
    jittered = any(k in p_pars for k in ("theta_pd", "phi_pd", "psi_pd"))
    # a cutoff removes low-weight mesh points (the weights then no longer sum to one); not combined with jitter,
    # for which the clause below needs the full product mesh
    cutoff = rng.choice([0.0, 0.0, 1e-3, 1e-2]) if (not jittered and any(k.endswith("_pd") for k in p_pars)) else 0.0
    ev = {"tid": sc["tid"], "ev": "PS", "P": p_info.id, "S": s_info.id, "dim": dim,
          "ptab": tab(p_info), "stab": tab(s_info), "haveFq": bool(p_info.have_Fq), "nmodes": nmodes,
          "names": [p.id for p in ps_info.parameters.call_parameters],
          "scale": fstr(pars["scale"]), "background": fstr(pars["background"]), "vf": fstr(vf),
          "beta": beta, "ermode": ermode, "userReff": fstr(user_reff), "pars": pars,
          "p_pars": {k: v for k, v in p_pars.items()},
          "refused": False, "error": "", "cutoff": fstr(cutoff), "jittered": bool(jittered)}
    # ---- P alone
    fq = dict(p_pars, scale=1.0, background=0.0, radius_effective_mode=ermode)
    F1, F2, reff, vshell, ratio = call_Fq(pk, fq, cutoff=cutoff)
    ev["Pout"] = {"F1": fvec(F1) if F1 is not None else fvec(np.zeros(len(F2))), "F2": fvec(F2),
                  "reff": fstr(reff), "vshell": fstr(vshell), "ratio": fstr(ratio)}
    # ---- P alone without the orientation jitter (same sizes, same size dispersity)
    nojit = {k: v for k, v in fq.items() if not k.startswith(("theta_pd", "phi_pd", "psi_pd"))}
    _, _, reff0, vshell0, ratio0 = call_Fq(pk, nojit, cutoff=cutoff)
    ev["Pnojit"] = {"reff": fstr(reff0), "vshell": fstr(vshell0), "ratio": fstr(ratio0)}
    # ---- S alone, at the inputs the documented formula names
    s_reff = user_reff if ermode == 0 else float(reff)
    s_vf = vf * float(ratio)
    s_call = dict(s_pars, scale=1.0, background=0.0, radius_effective=s_reff, volfraction=s_vf)
    if ermode == 0:
        s_call.update(s_extra)
    ev["Sin"] = {"reff": fstr(s_reff), "vf": fstr(s_vf)}
    ev["Sout"] = fvec(call_kernel(sk, s_call, cutoff=cutoff))
    # ---- P@S
    try:
        out = call_kernel(psk, dict(pars), cutoff=cutoff)
        ev["out"] = fvec(out)
        res = psk.results()
        r = {"P": fvec(res["P(Q)"][1]), "S": fvec(res["S(Q)"][1]), "volume": fstr(res["volume"]),
             "volume_ratio": fstr(res["volume_ratio"]), "radius_effective": fstr(res["radius_effective"]),
             "beta": fvec(res["beta(Q)"][1]) if "beta(Q)" in res else []}
        ev["results"] = r
    except NotImplementedError as exc:
        ev.update(refused=True, error=str(exc)[:100], out=[],
                  results={"P": [], "S": [], "volume": "0.0", "volume_ratio": "0.0", "radius_effective": "0.0", "beta": []})
    for k in (pk, sk, psk):
        k.release()
    emit(ev)


def main():
    req = json.load(sys.stdin)
    os.makedirs(req["workdir"], exist_ok=True)
    for sc in req["scenarios"]:
        try:
            run(sc, req["workdir"])
        except Exception as exc:
            emit({"tid": sc["tid"], "ev": "HarnessError", "error": repr(exc), "tb": traceback.format_exc()[-1800:],
                  "P": sc.get("P"), "S": sc.get("S")})


if __name__ == "__main__":
    main()
