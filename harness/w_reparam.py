"""Worker for C16: reparameterise a base model following a TLC-exported program shape and compare
the derived model with the base model at the translated parameters.

stdin: {"workdir": d, "scenarios": [{tid, base (name) | probe (def), shape, seed}]}
Emits Derive, Point (ReparamTrace) and Mean (MeanTrace, tagged trace="mean") events.
"""
import itertools
import json
import os
import random
import sys
import traceback

import numpy as np

import probe


def fstr(x):
    return repr(float(x))


def fvec(v):
    return [repr(float(x)) for x in np.asarray(v, dtype="d").ravel()]


def emit(ev):
    sys.stdout.write(json.dumps(ev, separators=(",", ":")) + "\n")


def ctext(t, top=False):
    if t[0] == "par":
        return t[1]
    if t[0] == "const":
        return repr(float(t[1]))
    text = "%s %s %s" % (ctext(t[1]), t[0], ctext(t[2]))
    return text if top else "(%s)" % text          # the right-hand side as a whole is written without parentheses


def pyeval(t, env):
    if t[0] == "par":
        return env[t[1]]
    if t[0] == "const":
        return float(t[1])
    a, b = pyeval(t[1], env), pyeval(t[2], env)
    return a + b if t[0] == "+" else a - b if t[0] == "-" else a * b if t[0] == "*" else a / b


def outputs(kernel, pars, mode):
    from sasmodels.direct_model import call_kernel, call_Fq
    I = call_kernel(kernel, dict(pars))
    F1, F2, reff, vshell, ratio = call_Fq(kernel, dict(pars, radius_effective_mode=mode))
    return {"I": fvec(I), "F2": fvec(F2), "F1": fvec(F1) if F1 is not None else [], "reff": fstr(reff),
            "vshell": fstr(vshell), "ratio": fstr(ratio)}


def run(sc, workdir):
    from sasmodels import core
    from sasmodels.details import make_kernel_args
    from sasmodels.direct_model import call_kernel, call_Fq, get_mesh
    rng = random.Random(sc["seed"])
    tid = sc["tid"]
    exact = bool(sc.get("probe"))
    base_name = probe.write_c(sc["probe"], workdir) if exact else sc["base"]
    base_info = core.load_model_info(base_name)
    P = base_info.parameters
    kpars = P.kernel_parameters
    base_ids = [p.id for p in kpars]
    elig = [p for p in kpars if p.length == 1 and p.type in ("volume", "", "sld") and not p.choices
            and not getattr(p, "is_control", False) and float(p.default) > 0 and np.isfinite(p.default)]
    shape = sc["shape"]
    nb = len(shape["base"])
    if len(elig) < nb:
        elig_ids = [p.id for p in elig]
        nb = len(elig)
    sel = elig[:nb]
    pos = {("b%d" % (k + 1)): sel[k] for k in range(nb)}
    removed = [pos[b] for b in shape["remove"] if b in pos]
    if not removed:
        removed = [sel[0]]
    if len(removed) >= len(sel) and len(sel) > 1:
        removed = removed[:-1]
    kept = [p for p in sel if p not in removed]
    # ---- new parameters and translation (input data; drawn from a small expression grammar)
    newids = ["vn%d" % (k + 1) for k in range(len(shape["new"]))]
    samename = sc.get("directed") == "intermediate+dispersed" and rng.random() < 0.5
    # a new parameter need not inherit the type of the parameter it replaces (e.g. a volume
    # parameter may be replaced by untyped ones; then no new parameter is dispersible)
    typ = removed[0].type if rng.random() < 0.65 else ""
    directed = sc.get("directed") == "intermediate+dispersed"
    if directed:
        vols = [p for p in removed if p.type == "volume"]
        if vols:
            removed = vols + [p for p in removed if p not in vols]
            kept = [p for p in sel if p not in removed]
        typ = removed[0].type
    vregion = sc.get("directed") == "valid-region"
    if vregion:
        # the first parameter of the base's validity expression is the one that is replaced first
        removed = [sel[0]] + [p for p in removed if p is not sel[0]]
        if len(removed) >= len(sel) and len(sel) > 1:
            removed = removed[:-1]
        kept = [p for p in sel if p not in removed]
    b0 = {p.id: float(p.default) for p in removed}
    assign = []
    xvals = {}
    form = rng.choice(["affine", "product", "quotient", "intermediate"])
    if directed:
        form = "intermediate"
    if vregion:
        form = "affine"
    if samename and len(removed) == 1:
        # a new parameter may keep the name of the base parameter it replaces (a change of unit, say); only with a
        # single replaced parameter, so that no later line of the translation refers to the reused name
        newids[0] = removed[0].id
        n1 = newids[0]
    n1 = newids[0]
    n2 = newids[1] if len(newids) > 1 else None
    first = removed[0].id
    v = b0[first]
    if form == "affine" or (n2 is None and form != "intermediate"):
        c1 = rng.choice([0.5, 2.0, 0.25])
        if n2:
            xvals[n1], xvals[n2] = v / (2 * c1), v
            assign.append({"lhs": first, "expr": ["+", ["*", ["const", fstr(c1)], ["par", n1]], ["*", ["const", "0.5"], ["par", n2]]]})
        elif vregion:
            xvals[n1] = (v - 1.0) / c1
            assign.append({"lhs": first, "expr": ["+", ["*", ["const", fstr(c1)], ["par", n1]], ["const", "1.0"]]})
        else:
            xvals[n1] = v / c1
            assign.append({"lhs": first, "expr": ["*", ["const", fstr(c1)], ["par", n1]]})
    elif form == "product":
        xvals[n1], xvals[n2] = v / 2.0, 2.0
        assign.append({"lhs": first, "expr": ["*", ["par", n1], ["par", n2]]})
    elif form == "quotient":
        xvals[n1], xvals[n2] = v * 4.0, 4.0
        assign.append({"lhs": first, "expr": ["/", ["par", n1], ["par", n2]]})
    else:
        # intermediate variable, then use it.  Its name is the author's choice: short names that also occur in the
        # generated kernel source (arguments of its macros and functions) are legal names for it
        vtmp = ["vtmp", "q", "form", "qa", "shell", "mode", "v", "qc", "F2", "t", "qx", "scale"][tid % 12]
        if vtmp in base_ids or vtmp in newids:
            vtmp = "vtmp"
        if n2:
            xvals[n1], xvals[n2] = v / 4.0, 2.0
            assign.append({"lhs": vtmp, "expr": ["*", ["par", n1], ["par", n2]]})
        else:
            xvals[n1] = v / 2.0
            assign.append({"lhs": vtmp, "expr": ["+", ["par", n1], ["const", "0.0"]]})
        assign.append({"lhs": first, "expr": ["*", ["par", vtmp], ["const", "2.0"]]})
    for p in removed[1:]:
        # second removed parameter: a function of a new parameter and a kept base parameter
        src = ["par", n1]
        f = b0[p.id] / xvals[n1]
        c = 2.0 ** round(np.log2(f)) if f > 0 else 1.0
        if kept and rng.random() < 0.5:
            assign.append({"lhs": p.id, "expr": ["+", ["*", ["const", fstr(c)], src],
                                                 ["*", ["const", "0.0"], ["par", kept[0].id]]]})
        else:
            assign.append({"lhs": p.id, "expr": ["*", ["const", fstr(c)], src]})
    translation = "\n".join("%s = %s" % (a["lhs"], ctext(a["expr"], top=True)) for a in assign)
    new_defs = [[nid, "", xvals[nid], [0, np.inf], typ if typ in ("volume", "sld") else "", "new parameter"] for nid in newids]
    # ---- insert_after from the shape (keys mapped to concrete ids)
    ia = None
    ia_ev = []
    if shape["ia"]:
        ia = {}
        for key, names in shape["ia"]:
            ckey = "" if key == "" else (pos[key].id if key in pos else "nosuchpar")
            cnames = [newids[int(n[1:]) - 1] if n.startswith("n") and int(n[1:]) <= len(newids) else n for n in names]
            ia[ckey] = ",".join([x for x in ([ia[ckey]] if ckey in ia else []) + cnames])
    # oriented bases: the last view angle is a legal key too - new parameters then follow the orientation block of
    # the derived table (a key inside the block is refused: "phi must follow theta")
    angles = [p.id for p in kpars if p.type == "orientation"][-1:]
    if angles and rng.random() < 0.4:
        if ia is None:
            ia = {rng.choice(angles): ",".join(newids)}
        else:
            good = [k for k in ia if k not in ("nosuchpar",)]
            if good:
                k = rng.choice(good)
                ia[rng.choice(angles)] = ia.pop(k)
    if ia is not None:
        ia_ev = [[k, val.split(",")] for k, val in ia.items()]
    name = "vr%d" % tid
    dev = {"tid": tid, "ev": "Derive", "trace": "reparam", "base": base_ids, "new": newids,
           "remove": [p.id for p in removed], "ia": ia_ev, "outcome": "ok", "table": [], "error": "",
           "model": base_info.id, "translation": translation}
    try:
        dinfo = core.reparameterize(base_info, new_defs, translation, filename=os.path.join(workdir, name + ".py"),
                                    insert_after=ia, name=name)
        dev["table"] = [p.id for p in dinfo.parameters.kernel_parameters]
    except ValueError as exc:
        dev["outcome"], dev["error"] = "rejected", str(exc)[:150].replace('"', "'")
        emit(dev)
        return
    emit(dev)
    # ---- evaluate derived at x and base at T(x)
    bmodel = core.build_model(base_info, dtype="double", platform="dll")
    try:
        dmodel = core.build_model(dinfo, dtype="double", platform="dll")
    except Exception as exc:
        # a derivation that was accepted must build: report as a rejected trace event, not a harness error
        emit({"tid": tid, "ev": "Point", "trace": "reparam", "model": base_info.id, "dim": "1d", "exact": exact,
              "assign": assign, "env": {}, "T": {}, "mode": 0, "translation": translation,
              "raised": ("derived model does not build: " + type(exc).__name__ + ": " + str(exc)[:120]).replace('"', "'").replace("\n", " "),
              "der": {"I": [], "F2": [], "F1": [], "reff": "0.0", "vshell": "0.0", "ratio": "0.0"},
              "bas": {"I": [], "F2": [], "F1": [], "reff": "0.0", "vshell": "0.0", "ratio": "0.0"}})
        return
    q1 = [np.array([0.0078125, 0.03125, 0.125])]
    q2 = [np.array([0.03125, -0.0625, 0.0]), np.array([0.015625, 0.03125, 0.09375])]
    nmodes = len(base_info.radius_effective_modes or [])
    for dim, q in (("1d", q1), ("2d", q2)):
        dk, bk = dmodel.make_kernel(q), bmodel.make_kernel(q)
        mode = rng.randint(0, nmodes) if nmodes else 0
        env = {}
        for p in dinfo.parameters.kernel_parameters:
            if p.length != 1:
                continue
            if p.id in xvals:
                env[p.id] = float(xvals[p.id]) * (rng.choice([1.0, 1.25, 0.75]) if not exact else rng.choice([1.0, 1.25, 0.75]))
            elif p.type == "orientation":
                env[p.id] = rng.choice([0.0, 30.0, 75.0]) if dim == "2d" else float(p.default)
            else:
                env[p.id] = float(p.default)
        full = dict(env)
        for a in assign:
            full[a["lhs"]] = pyeval(a["expr"], full)
        T = {p.id: full[p.id] for p in kpars if p.length == 1}
        dpars = dict(env, scale=1.0, background=0.0)
        bpars = dict(T, scale=1.0, background=0.0)
        ev = {"tid": tid, "ev": "Point", "trace": "reparam", "model": base_info.id, "dim": dim, "exact": exact,
              "assign": assign, "env": {k: fstr(v) for k, v in env.items()}, "T": {k: fstr(v) for k, v in T.items()},
              "raised": "", "mode": mode, "translation": translation}
        try:
            ev["der"] = outputs(dk, dpars, mode)
            ev["bas"] = outputs(bk, bpars, mode)
        except Exception as exc:
            ev["raised"] = (type(exc).__name__ + ": " + str(exc))[:200].replace('"', "'")
            ev["der"] = ev["bas"] = {"I": [], "F2": [], "F1": [], "reff": "0.0", "vshell": "0.0", "ratio": "0.0"}
        emit(ev)
        # ---- dispersity on a new parameter: volume-normalised mean of base evaluations over the mesh
        dn = dinfo.parameters
        if dim == "1d" and any(p.name == n1 and p.polydisperse and p.type not in ("orientation", "magnetic") for p in dn.call_parameters):
            pdp = dict(dpars)
            # (directed derivations: a mesh of more than 100 points, which the compiled kernel walks slice by slice;
            # on bases with a validity region part of it is rejected)
            pdp.update({n1 + "_pd": 0.25, n1 + "_pd_n": (104 if sc.get("directed") else rng.choice([3, 5])),
                        n1 + "_pd_type": rng.choice(["gaussian", "rectangle"])})
            nq = dk.q_input.nq
            both = bool(base_info.have_Fq)
            mev = {"tid": tid, "ev": "Mean", "trace": "mean", "model": dinfo.id, "dim": dim, "nq": nq, "both": both,
                   "cutoff": "0.0", "mode": mode, "maxpd": dn.max_pd, "scale": "1.0", "background": "0.0",
                   "engine": "c"}
            mesh = get_mesh(dinfo, pdp, dim="1d")
            kmesh = mesh[2:2 + dn.npars]
            mev["weights"] = [fvec(w) for _, _, w in kmesh]
            mev["lens"] = [len(w) for _, _, w in kmesh]
            mev["values"] = [fvec(d) for _, d, _ in kmesh]
            mev["limits"] = [[fstr(p.limits[0]), fstr(p.limits[1])] if p.polydisperse else ["-inf", "inf"]
                             for p in dn.call_parameters[2:2 + dn.npars]]
            res = {"refused": False, "raised": False, "error": ""}
            Iq = call_kernel(dk, dict(pdp))
            F1, F2, reff, vshell, ratio = call_Fq(dk, dict(pdp, radius_effective_mode=mode))
            res.update(Iq=fvec(Iq), F1=fvec(F1) if F1 is not None else [], F2=fvec(F2), reff=fstr(reff),
                       vshell=fstr(vshell), ratio=fstr(ratio))
            mev["res"] = res
            names = [p.name for p in dn.call_parameters[2:2 + dn.npars]]
            pts = []
            bcall = bmodel.info.parameters.call_parameters
            for idx in itertools.product(*[range(len(w)) for _, _, w in kmesh]):
                envp = {nm: float(d[j]) for nm, (v0, d, w), j in zip(names, kmesh, idx)}
                fullp = dict(envp)
                for a in assign:
                    fullp[a["lhs"]] = pyeval(a["expr"], fullp)
                one = [(1.0, [1.0], [1.0]), (0.0, [0.0], [1.0])]
                for p in bcall[2:]:
                    val = fullp.get(p.name, float(p.default))
                    one.append((val, [val] if p.type != "orientation" else [0.0], [1.0]))
                details, values, magnetic = make_kernel_args(bk, one)
                bk._call_kernel(details, values, 0.0, magnetic, mode)
                buf = np.array(bk.result, dtype="d")
                if both:
                    f2, f1, rest = buf[0:2 * nq:2], buf[1:2 * nq:2], buf[2 * nq:2 * nq + 4]
                else:
                    f2, f1, rest = buf[0:nq], [], buf[nq:nq + 4]
                pts.append({"F2": fvec(f2), "F1": fvec(f1), "norm": fstr(rest[0]), "vform": fstr(rest[1]),
                            "vshell": fstr(rest[2]), "reff": fstr(rest[3])})
            mev["pts"] = pts
            emit(mev)
        dk.release()
        bk.release()
    # ---- a sibling derivation: same name, same new-parameter table, same placement - only a constant of the
    # translation differs.  Built in the same process against the same compiled-model cache, it must be its own model.
    if sc.get("directed"):
        import copy
        assign2 = copy.deepcopy(assign)
        assign2[-1 if len(removed) == 1 else [a["lhs"] for a in assign2].index(first)]["expr"] = \
            ["*", ["const", "0.5"], assign[[a["lhs"] for a in assign].index(first)]["expr"]]
        translation2 = "\n".join("%s = %s" % (a["lhs"], ctext(a["expr"], top=True)) for a in assign2)
        try:
            dinfo2 = core.reparameterize(base_info, new_defs, translation2, filename=os.path.join(workdir, name + ".py"),
                                         insert_after=ia, name=name)
            dmodel2 = core.build_model(dinfo2, dtype="double", platform="dll")
            dk, bk = dmodel2.make_kernel(q1), bmodel.make_kernel(q1)
            env = {}
            for p in dinfo2.parameters.kernel_parameters:
                if p.length == 1:
                    env[p.id] = float(xvals[p.id]) if p.id in xvals else float(p.default)
            full = dict(env)
            for a in assign2:
                full[a["lhs"]] = pyeval(a["expr"], full)
            T = {p.id: full[p.id] for p in kpars if p.length == 1}
            ev = {"tid": tid, "ev": "Point", "trace": "reparam", "model": base_info.id, "dim": "1d", "exact": exact,
                  "assign": assign2, "env": {k: fstr(v) for k, v in env.items()}, "T": {k: fstr(v) for k, v in T.items()},
                  "raised": "", "mode": 0, "translation": translation2}
            try:
                ev["der"] = outputs(dk, dict(env, scale=1.0, background=0.0), 0)
                ev["bas"] = outputs(bk, dict(T, scale=1.0, background=0.0), 0)
            except Exception as exc:
                ev["raised"] = (type(exc).__name__ + ": " + str(exc))[:200].replace('"', "'")
                ev["der"] = ev["bas"] = {"I": [], "F2": [], "F1": [], "reff": "0.0", "vshell": "0.0", "ratio": "0.0"}
            emit(ev)
            dk.release()
            bk.release()
        except ValueError:
            pass


def main():
    req = json.load(sys.stdin)
    os.makedirs(req["workdir"], exist_ok=True)
    for sc in req["scenarios"]:
        try:
            run(sc, req["workdir"])
        except Exception as exc:
            emit({"tid": sc["tid"], "ev": "HarnessError", "error": repr(exc), "tb": traceback.format_exc()[-2000:],
                  "model": str(sc.get("base"))})


if __name__ == "__main__":
    main()
