"""Worker for C18: one process loading a not-yet-compiled model with sync points at the
cache lookup, the atomic publish, the source unlink and the dlopen (seams of kerneldll wrapped
from here; the compiler's own sync points live in harness/fakecc).

argv: ctl proc modelpath
Writes <ctl>/<proc>.result = JSON {status, value | error}.
"""
import json
import os
import sys
import time
import types

ctl, proc, modelpath = sys.argv[1:4]


def sync(point):
    with open(os.path.join(ctl, "%s.%s.reached" % (proc, point)), "w") as f:
        f.write(str(os.getpid()))
    go = os.path.join(ctl, "%s.%s.go" % (proc, point))
    t0 = time.time()
    while not os.path.exists(go):
        if time.time() - t0 > 120:
            os._exit(97)
        time.sleep(0.002)


def result(obj):
    tmp = os.path.join(ctl, "%s.result.tmp" % proc)
    with open(tmp, "w") as f:
        json.dump(obj, f)
    os.replace(tmp, os.path.join(ctl, "%s.result" % proc))


try:
    import numpy as np
    from sasmodels import kerneldll, core
    from sasmodels.direct_model import call_kernel
    real_os = os
    cache = os.path.abspath(kerneldll.SAS_DLL_PATH)
    seen = {"lookup": False}

    class PathProxy(object):
        def __getattr__(self, name):
            return getattr(real_os.path, name)

        def exists(self, path):
            p = real_os.path.abspath(path)
            if (not seen["lookup"] and p.startswith(cache) and p.endswith(".so")
                    and "sas64_" in real_os.path.basename(p)):
                seen["lookup"] = True
                sync("lookup")
            return real_os.path.exists(path)

    class OsProxy(object):
        path = PathProxy()

        def __getattr__(self, name):
            return getattr(real_os, name)

        def replace(self, a, b):
            sync("publish")
            return real_os.replace(a, b)

        def rename(self, a, b):
            sync("publish")
            return real_os.rename(a, b)

        def makedirs(self, *a, **kw):
            if real_os.environ.get("VERIF_MKDIR_SYNC"):
                sync("mkdir")
            return real_os.makedirs(*a, **kw)

        def unlink(self, path):
            if str(path).endswith(".c"):
                sync("unlink")
            return real_os.unlink(path)

        def remove(self, path):
            return self.unlink(path)

    kerneldll.os = OsProxy()
    real_tempfile = kerneldll.tempfile

    class TempProxy(object):
        def __getattr__(self, name):
            return getattr(real_tempfile, name)

        def mkstemp(self, *a, **kw):
            if not seen.get("writesrc"):
                seen["writesrc"] = True
                sync("writesrc")
            return real_tempfile.mkstemp(*a, **kw)

    kerneldll.tempfile = TempProxy()
    real_ct = kerneldll.ct

    class CtProxy(object):
        def __getattr__(self, name):
            return getattr(real_ct, name)

        def CDLL(self, path, *a, **kw):
            sync("dlopen")
            return real_ct.CDLL(path, *a, **kw)

    kerneldll.ct = CtProxy()
    sync("start")
    model = core.load_model(modelpath, dtype="double", platform="dll")
    kernel = model.make_kernel([np.array([0.125, 0.5])])
    val = call_kernel(kernel, {"p1": 2.0, "p2": 3.0, "scale": 1.0, "background": 0.0})
    result({"status": "ok", "value": [repr(float(x)) for x in val]})
except BaseException as exc:  # noqa
    import traceback
    result({"status": "error", "error": repr(exc), "tb": traceback.format_exc()[-1500:]})
