"""Long-lived worker for C17: loads the probe plugin on request and reports what it computes.

argv: modelpath.  stdin: one JSON command per line; stdout: one JSON reply per line.
  {"cmd": "load", "bits": 32|64|128}
"""
import json
import os
import sys

import numpy as np

modelpath = sys.argv[1]
DT = {32: "single", 64: "double", 128: "longdouble"}

for line in sys.stdin:
    line = line.strip()
    if not line:
        continue
    cmd = json.loads(line)
    rep = {"raised": "", "value": 0, "dtypebits": 0, "npars": 0}
    try:
        from sasmodels import core, kerneldll
        from sasmodels.direct_model import call_kernel
        if cmd["cmd"] == "iqload":
            from sasmodels import direct_model
            val = direct_model.Iq(modelpath, np.array([0.5]), scale=1.0, background=0.0)
            info = core.load_model_info(modelpath)

            class model(object):          # what is reported about the model behind the convenience call
                dtype = np.dtype("d")

                class info(object):
                    parameters = info.parameters
            kernel = None
        elif cmd["cmd"] == "svload":
            from sasmodels import sasview_model
            inst = sasview_model.load_custom_model(modelpath)()
            inst.setParam("scale", 1.0)
            inst.setParam("background", 0.0)
            val = inst.evalDistribution(np.array([0.5]))
            model = type(inst)._model
            kernel = None
        else:
            model = core.load_model(modelpath, dtype=DT[cmd["bits"]], platform="dll")
            kernel = model.make_kernel([np.array([0.5])])
            val = call_kernel(kernel, {"scale": 1.0, "background": 0.0})
        v = float(val[0])
        rep["value"] = int(v) if v == int(v) and abs(v) < 2 ** 31 else -1
        rep["raw"] = repr(v)
        rep["dtypebits"] = int(np.dtype(model.dtype).itemsize) * 8
        rep["npars"] = int(model.info.parameters.npars)
        if kernel is not None:
            kernel.release()
        names = os.listdir(kerneldll.SAS_DLL_PATH)
        for b in (32, 64, 128):
            rep["nlib%d" % b] = sum(1 for f in names if f.startswith("sas%d_" % b) and f.endswith(".so"))
    except BaseException as exc:  # noqa
        import traceback
        rep["raised"] = repr(exc)[:300] + " | " + traceback.format_exc()[-600:]
        for b in (32, 64, 128):
            rep.setdefault("nlib%d" % b, 0)
    sys.stdout.write(json.dumps(rep) + "\n")
    sys.stdout.flush()
