def make_scenarios(tier, seed):
    return []
def run(chk, prop, scenarios, label):
    return
