"""Builtin models through the public path, validated by MeanTrace (used by C01, C09, C14)."""
import os
import shutil
import subprocess

import vlib

QUICK_MODELS = ["sphere", "cylinder", "core_shell_parallelepiped", "hollow_cylinder", "vesicle",
                "core_multi_shell", "capped_cylinder", "ellipsoid", "fractal", "lamellar"]


def list_models(kind="c"):
    """Model names of the working tree: 'c' compiled, 'py' pure python, 'all'."""
    code = ("import json,sys\nfrom sasmodels import core\nout=[]\n"
            "for n in core.list_models():\n"
            "    info=core.load_model_info(n)\n"
            "    out.append([n, 'py' if callable(info.Iq) else 'c'])\n"
            "print(json.dumps(out))\n")
    d = vlib.scratch("lm")
    try:
        p = subprocess.run([vlib.VENV_PY, "-c", code], capture_output=True, text=True,
                           env=vlib.worker_env(d), timeout=600)
        if p.returncode != 0:
            raise vlib.Machinery("list_models failed: " + p.stderr[-2000:])
        import json
        allm = json.loads(p.stdout.strip().splitlines()[-1])
    finally:
        shutil.rmtree(d, ignore_errors=True)
    return [n for n, k in allm if kind == "all" or k == kind]


def make_scenarios(tier, seed, models=None, per_model=None):
    """Returns worker requests (planning happens in the worker, which can read the model tables)."""
    if models is None:
        models = list_models("c") if tier == "thorough" else QUICK_MODELS
    if per_model is None:
        per_model = 40 if tier == "thorough" else 6
    reqs = []
    tid = 1
    for m in models:
        reqs.append({"models": [m], "per_model": per_model, "seed": seed, "first_tid": tid})
        tid += per_model
    return reqs


def run(chk, prop, reqs, label, key_extra=None):
    if not reqs:
        return
    if isinstance(reqs[0], dict) and "model" in reqs[0] and "pars" in reqs[0]:
        reqs = [{"scenarios": reqs}]          # replay of explicit scenarios
    work = vlib.scratch("bm")
    try:
        outs = vlib.run_workers_parallel("w_builtin_mean.py", reqs, work, timeout=3000)
        events = [e for o in outs for e in o]
        herr = [e for e in events if e["ev"] == "HarnessError"]
        if herr:
            raise vlib.Machinery("builtin worker error: %s\n%s" % (herr[0]["error"], herr[0]["tb"]))
        getw = sorted([e for e in events if e["ev"] == "GetW"], key=lambda e: e["tid"])
        events = sorted([e for e in events if e["ev"] != "GetW"], key=lambda e: e["tid"])
        if getw:
            v = vlib.validate_trace("WeightsTrace", getw, timeout=3000, heap="3g")
            chk.cov["traces_validated_against_impl"] += len(getw)
            chk.notes.setdefault("trace_runs", []).append({"label": label + " (mesh weights)", "traces": len(getw),
                                                            "wall_s": round(v["wall_s"], 1)})
            bytid = {e["tid"]: e for e in events}
            for tid, line, clause, detail in v["rejects"]:
                g = getw[line - 1]
                e = bytid.get(tid, {})
                chk.violation({"clause": "mesh-" + clause, "model": g["model"], "class": g["q"]["type"], "dim": g["dim"]},
                              {"scenario": {"tid": tid, "model": g["model"], "pars": e.get("pars"), "cutoff": float(e.get("cutoff", 0.0)),
                                            "dim": g["dim"], "mode": e.get("mode", 0)},
                               "clause": clause, "detail": detail[:2000], "request": g["q"]})
        B = 400
        for i in range(0, len(events), B):
            evs = events[i:i + B]
            slim = [{k: v for k, v in e.items() if k != "pars"} for e in evs]
            v = vlib.validate_trace("MeanTrace", slim, timeout=3000)
            chk.cov["traces_validated_against_impl"] += len(evs)
            chk.cov["transitions"] += v["states"]
            chk.notes.setdefault("trace_runs", []).append(
                {"label": label, "traces": len(evs), "wall_s": round(v["wall_s"], 1)})
            for tid, line, clause, detail in v["rejects"]:
                e = evs[line - 1]
                lens = e["lens"]
                cls = ("empty-distribution" if any(L == 0 for L in lens)
                       else "one-point-distribution" if any(L == 1 for L in lens) else "other")
                key = {"clause": clause, "model": e["model"], "class": cls, "dim": e["dim"]}
                chk.violation(key, {"scenario": {"tid": e["tid"], "model": e["model"], "pars": e["pars"],
                                                 "cutoff": float(e["cutoff"]), "dim": e["dim"],
                                                 "mode": e["mode"]},
                                    "clause": clause, "detail": detail[:3000], "lens": lens})
        for e in events:
            lens = e["lens"]
            npts = len(e["pts"])
            chk.case([e["model"], lens, e["cutoff"], e["dim"], e["mode"], sorted(e["pars"].items())],
                     nontrivial=any(L != 1 for L in lens),
                     sample={"origin": label, "model": e["model"], "lens": lens, "dim": e["dim"],
                             "cutoff": e["cutoff"], "mesh_points": npts,
                             "refused": e["res"]["refused"]})
        chk.notes.setdefault("builtin_models", sorted(set(e["model"] for e in events)))
    finally:
        shutil.rmtree(work, ignore_errors=True)
