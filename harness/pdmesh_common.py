"""Scenario construction shared by C01 / C09 / C11: TLC behaviours of PdMesh -> concrete
probe-model runs, and harness-chosen large meshes.  All numbers are dyadic."""
import hashlib
import random

import probe
import vlib


def gen_behaviours(cfg, num, seed, depth=120, timeout=900):
    r = vlib.tlc("PdMeshGen", cfg, workers=1, simulate="num=%d" % num, depth=depth, seed=seed,
                 timeout=timeout)
    if not r["ok"]:
        raise vlib.Machinery("PdMeshGen failed: %s\n%s" % (r["error"], r["out"][-2000:]))
    b = vlib.parse_printed(r["out"], "BEHAVIOUR")
    if not b:
        raise vlib.Machinery("PdMeshGen printed no behaviours")
    return b, r


def shape_name(types, haveFq, hollow, nmodes, valid):
    h = hashlib.sha1(repr((types, haveFq, hollow, nmodes, valid)).encode()).hexdigest()[:10]
    return "vp_" + h


def concretise(b, tid, rng, engine="c", allow_fq=True):
    """One TLC behaviour (scenario c + chunk stops) -> one worker scenario, or None when the
    scenario needs a distribution on a parameter that cannot carry one."""
    c = b["c"]
    n, m, lens = c["np"], c["m"], c["len"]
    need = [p for p in range(n) if lens[p] != 1]
    nv = m if m < 5 else n
    if len(need) > nv:
        return None
    vol = list(need)
    for p in range(n):
        if len(vol) >= nv:
            break
        if p not in vol:
            vol.append(p)
    # parameters that carry no distribution are plain or scattering-length densities (an SLD adds the magnetic
    # block between the kernel values and the distribution values of the call vector)
    types = ["volume" if p in vol else rng.choice(["", "", "sld"]) for p in range(n)]
    # structural options drawn per scenario (data, not oracle)
    haveFq = rng.random() < 0.3 and allow_fq
    hollow = rng.random() < 0.4
    nmodes = rng.choice([0, 0, 2])
    if c["vmask"] == 1:
        valid = (1, 0, 2.125)                 # p1 > 2.125: excludes the first point / nominal
    elif c["vmask"] == 2 and n >= 2:
        valid = (2, 0, n - 1)                 # p1 <= p_n
    else:
        valid = (0,)
    d = probe.make_def(shape_name(tuple(types), haveFq, hollow, nmodes, valid), types,
                       haveFq=haveFq, hollow=hollow, nmodes=nmodes, valid=valid,
                       style=rng.choice(["ccode", "inline"]))
    mesh = []
    nact = sum(1 for x in lens if x > 1)
    for p in range(n):
        L = lens[p]
        if L == 0:
            dv, wv = [], []
        elif L == 1:
            dv, wv = [2.5 if c["shift"] else 2.0], [1.0]
        else:
            dv = [2.0 + 0.25 * j for j in range(L)]
            wv = [0.5 if (c["alt"] and (j + 1) % 2 == 0) else 0.25 for j in range(L)]
        mesh.append({"v": 2.0, "d": dv, "w": wv})
    cutoff = c["cut"] * (0.25 ** nact) if c["cut"] else 0.0
    dim = rng.choice(["1d", "1d", "2d"])
    kind = "Fq" if (d["nmodes"] or d["haveFq"]) and rng.random() < 0.6 else "Iq"
    mode = rng.randint(0, d["nmodes"]) if kind == "Fq" else 0
    sc = {"tid": tid, "def": d, "engine": engine, "mesh": mesh, "scale": 2.0, "background": 0.25,
          "dim": dim, "cutoff": cutoff, "mode": mode, "kind": kind,
          "partition": b["stops"] if b["stops"] else "driver", "origin": "tlc", "c": c}
    if b.get("neval", 0) == 0 or b["kind"] != "value":
        sc["partition"] = "driver"
    if dim == "2d":
        sc["qx"] = [0.375, -0.75, 0.0]
        sc["qy"] = [0.5, 1.0, 0.125]
    else:
        sc["q"] = [0.125, 0.5, 1.0]
    return sc


def big_scenario(tid, rng, lens, engine="c", partition="driver", n_extra=0, cutoff=0.0, allow_fq=True):
    """Harness-chosen mesh (sizes around the driver's 100-point chunk)."""
    n = len(lens) + n_extra
    types = ["volume"] * len(lens) + [rng.choice(["", "sld"]) for _ in range(n_extra)]
    valid = rng.choice([(0,), (1, 0, 2.125), (2, 0, len(lens) - 1)]) if len(lens) > 1 else (0,)
    haveFq = rng.random() < 0.3 and allow_fq
    hollow = rng.random() < 0.4
    nmodes = rng.choice([0, 2])
    d = probe.make_def(shape_name(tuple(types), haveFq, hollow, nmodes, valid), types,
                       haveFq=haveFq, hollow=hollow, nmodes=nmodes, valid=valid)
    mesh = []
    for p in range(n):
        L = lens[p] if p < len(lens) else 1
        if L == 1:
            mesh.append({"v": 2.0, "d": [2.0], "w": [1.0]})
        else:
            mesh.append({"v": 2.0, "d": [2.0 + 0.0625 * ((j * 3) % 17) + 0.0078125 * j for j in range(L)],
                         "w": [0.25 * (1 + (j % 3)) for j in range(L)]})
    kind = "Fq" if (d["nmodes"] or d["haveFq"]) and rng.random() < 0.5 else "Iq"
    return {"tid": tid, "def": d, "engine": engine, "mesh": mesh, "scale": 0.5, "background": 1.0,
            "dim": "1d", "q": [0.25, 2.0], "cutoff": cutoff,
            "mode": rng.randint(0, d["nmodes"]) if kind == "Fq" else 0, "kind": kind,
            "partition": partition, "origin": "harness-big", "lens": list(lens)}


def random_partition(neval, rng, k):
    cuts = sorted(set(rng.randint(1, neval - 1) for _ in range(k))) if neval > 1 else []
    return cuts + [neval]


def split(lst, n):
    n = max(1, min(n, len(lst)))
    return [lst[i::n] for i in range(n)]
