"""Worker for C12: 1-D outputs of oriented models and the model's own particle-frame function on
the nodes of a two-level product quadrature (Gauss-Legendre in cos(theta) x trapezoid in phi).
The nodes, weights and direction vectors computed here are verified by OrientAvgTrace."""
import json
import os
import random
import sys
import traceback
from math import sqrt, cos, sin, pi

import numpy as np

import w_orient


def fstr(x):
    return repr(float(x))


def fvec(v):
    return [repr(float(x)) for x in np.asarray(v, dtype="d").ravel()]


def emit(ev):
    sys.stdout.write(json.dumps(ev, separators=(",", ":")) + "\n")


def level(fn, vals, qs, n, m, phikind="trap"):
    x, _ = np.polynomial.legendre.leggauss(n)
    z = np.polynomial.legendre.leggauss(m)[0] if phikind == "gl" else None
    pts = []
    for i in range(n):
        s = sqrt(1.0 - x[i] * x[i])
        row = []
        for k in range(m):
            ph = pi * (1.0 + z[k]) if phikind == "gl" else 2.0 * pi * k / m
            vecs, f2 = [], []
            for q in qs:
                v = (q * (s * cos(ph)), q * (s * sin(ph)), q * x[i])
                vecs.append(fvec(v))
                f2.append(fstr(fn(v[0], v[1], v[2], vals.ctypes.data)))
            row.append({"q": vecs, "F2": f2})
        pts.append(row)
    return {"n": n, "m": m, "phikind": phikind, "pts": pts}


def run(sc, workdir):
    from sasmodels.direct_model import call_kernel, call_Fq, get_mesh
    from sasmodels.details import make_kernel_args
    rng = random.Random(sc["seed"])
    model = w_orient.load(sc["model"], workdir)
    info = model.info
    P = info.parameters
    fn, _lib, sym = w_orient.particle_fn(info, workdir)
    def draw(kind):
        pars = {k: float(v) for k, v in P.defaults.items()
                if not k.startswith("up_") and not k.endswith(("_M0", "_mtheta", "_mphi"))}
        if kind == "random" and info.random is not None:
            np.random.seed(rng.randrange(2 ** 31))
            known = set(p.name for p in P.call_parameters)
            pars.update({k: float(v) for k, v in info.random().items() if k in known})
        elif kind != "default":
            # the default shape with every size and ratio moved by an independent moderate factor: leaves the
            # symmetric defaults (cubes, circular sections) without reaching shapes the quadratures cannot resolve
            for p in P.call_parameters:
                if p.type == "volume" and p.name in pars:
                    v = pars[p.name] * rng.choice([0.6, 0.75, 0.9, 1.25, 1.4, 1.6])
                    lo, hi = p.limits
                    if lo < v < hi:
                        pars[p.name] = v
            # lengths that default to zero (interface roughness ...) are switched on, and lattice distortion is
            # raised so that the peaks of paracrystals are broad enough for the quadratures to resolve
            lengths = [pars[p.name] for p in P.call_parameters if p.type == "volume" and p.units == "Ang" and pars.get(p.name, 0) > 0]
            for p in P.call_parameters:
                if p.name in pars and p.type not in ("volume", "orientation", "sld") and p.units == "Ang" and pars[p.name] == 0.0 and lengths:
                    pars[p.name] = rng.choice([0.1, 0.25]) * min(lengths)
                if p.name == "d_factor":
                    pars[p.name] = rng.choice([0.25, 0.35])
                # count-like sizes (number of stacked discs ...) take non-integer values, as they do in a fit
                if p.type == "volume" and p.units == "" and p.name in pars and float(p.default) == int(p.default) >= 1 \
                        and p.name.startswith(("n_", "n")) and p.limits[0] >= 0:
                    pars[p.name] = float(p.default) + rng.choice([0.6, 1.6, 0.75])
                if p.name == "x_core" and rng.random() < 0.6:
                    pars[p.name] = 1.0          # circular cross-section
        pars["scale"], pars["background"] = 1.0, 0.0
        return pars

    kind = sc.get("kind", "random" if sc.get("random") else "default")
    pars = draw(kind)
    if kind == "perturbed":
        # a perturbed set may leave the model's validity region (radius_cap < radius ...): the kernel then
        # returns exactly zero.  Such draws are replaced; if none is valid the defaults are used, so a 1-D
        # function that returns zero everywhere is still compared with the average.
        kq = model.make_kernel([np.array([0.01, 0.02])])
        for _ in range(8):
            if np.any(call_kernel(kq, dict(pars)) != 0.0):
                break
            pars = draw(kind)
        else:
            pars = draw("default")
        kq.release()
    pars["scale"], pars["background"] = 1.0, 0.0
    # q with q*size moderate: size = largest Ang-valued parameter
    sizes = [abs(float(pars[p.name])) for p in P.call_parameters if p.units == "Ang" and p.name in pars and p.type == "volume"]
    size = max(sizes) if sizes else 50.0
    qs = [0.5 / size, 2.0 / size, 6.0 / size]
    k1 = model.make_kernel([np.array(qs)])
    ev = {"tid": sc["tid"], "ev": "Avg", "model": info.id, "sym": sym, "q": fvec(qs), "raised": "", "pars": pars}
    try:
        mono = dict(pars)
        I = call_kernel(k1, dict(mono))
        _, F2, _, vshell, _ = call_Fq(k1, dict(mono, radius_effective_mode=0))
        ev["I"], ev["F2"], ev["V"] = fvec(I), fvec(F2), fstr(vshell)
        mesh = get_mesh(info, dict(mono), dim="1d")
        _, values, _ = make_kernel_args(k1, [(m[0], [m[0]], [1.0]) for m in mesh])
        vals = np.ascontiguousarray(values[2:2 + P.npars], dtype="d")
        n1, m1 = (24, 24) if sym == "abc" else (24, 1)
        ev["lev1"] = level(fn, vals, qs, n1, m1)
        ev["lev2"] = level(fn, vals, qs, 2 * n1, 2 * m1)
        ev["lev3"] = level(fn, vals, qs, 37, 37 if sym == "abc" else 1)
        ev["lev0"] = (level(fn, vals, qs, 20, 20, "gl") if sym == "abc" else level(fn, vals, qs, 20, 1))
    except Exception as exc:
        ev["raised"] = (type(exc).__name__ + ": " + str(exc))[:200].replace('"', "'")
        for k in ("I", "F2"):
            ev.setdefault(k, [])
        ev.setdefault("V", "1.0")
        ev.setdefault("lev1", {"n": 0, "m": 0, "phikind": "trap", "pts": []})
        ev.setdefault("lev2", {"n": 0, "m": 0, "phikind": "trap", "pts": []})
        ev.setdefault("lev3", {"n": 0, "m": 0, "phikind": "trap", "pts": []})
        ev.setdefault("lev0", {"n": 0, "m": 0, "phikind": "trap", "pts": []})
    k1.release()
    emit(ev)


def main():
    req = json.load(sys.stdin)
    os.makedirs(req["workdir"], exist_ok=True)
    for n in req.get("rules", []):
        x, w = np.polynomial.legendre.leggauss(n)
        emit({"tid": 0, "ev": "Rule", "n": n, "x": fvec(x), "w": fvec(w)})
    for sc in req["scenarios"]:
        try:
            run(sc, req["workdir"])
        except Exception as exc:
            emit({"tid": sc["tid"], "ev": "HarnessError", "error": repr(exc), "tb": traceback.format_exc()[-1500:], "model": sc["model"]})


if __name__ == "__main__":
    main()
