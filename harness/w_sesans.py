"""Worker for C19: drives sasmodels.sesans.SesansTransform and DirectModel on SESANS data and logs
SesansTrace events.  It never computes an expected value: it builds inputs (spin-echo grids,
wavelengths, Gaussian I(q) vectors, unit impulses), calls the code and records what came back.

stdin: {"scenarios": [scenario, ...]}; a scenario (made by props/C19.py from a lattice record of
spec/Sesans.tla) is
  {tid, level: "transform"|"dm", cfg: {...lattice record...}, xi: [float], lam: [float],
   acc: "full"|"zero"|"mid", fullq: bool, amps: [float], coefs: [[a, b], ...], bkg: [float],
   gauss: [{name, t, where}], mixtures: [[name, ...]], lam_scalar: bool}
"""
import json
import math
import sys
import traceback

import numpy as np

RMAX = 1e7


def fstr(x):
    return repr(float(x))


def fvec(v):
    return [repr(float(x)) for x in np.asarray(v, dtype="d").ravel()]


def emit(ev):
    sys.stdout.write(json.dumps(ev, separators=(",", ":")) + "\n")
    sys.stdout.flush()


def err_text(ex):
    return ("%s: %s" % (type(ex).__name__, ex))[:300]


# ------------------------------------------------------------------ observations of a q grid
def sample_idx(nq):
    idx = set(range(min(4, nq))) | set(range(max(0, nq - 4), nq))
    idx |= set(int(round(x)) for x in np.linspace(0, nq - 1, 24))
    return sorted(idx)


def grid_facts(q, full=False, sample=True):
    q = np.asarray(q, dtype="d")
    nq = int(q.size)
    r = {"raised": False, "error": "", "nq": nq}
    if nq >= 1:
        r["q_first"], r["q_last"], r["q_min"] = fstr(q[0]), fstr(q[-1]), fstr(np.min(q))
    else:
        r["q_first"] = r["q_last"] = r["q_min"] = "nan"
    r["min_step"] = fstr(np.min(np.diff(q))) if nq >= 2 else "nan"
    if sample:
        idx = sample_idx(nq) if nq else []
        r["qi"] = [i + 1 for i in idx]
        r["qs"] = fvec(q[idx]) if nq else []
        r["qfull"] = fvec(q) if full else []
    return r


def failed_grid(ex, sample=True):
    r = {"raised": True, "error": err_text(ex), "nq": 0, "q_first": "nan", "q_last": "nan",
         "q_min": "nan", "min_step": "nan"}
    if sample:
        r.update(qi=[], qs=[], qfull=[])
    return r


def usable(q):
    """Can Gaussians be placed relative to this grid at all?  (The verdict on the grid itself is
    TLC's, from the Construct event; this only stops the worker from dividing by zero.)"""
    return q.size >= 2 and bool(np.all(np.isfinite(q))) and float(np.min(q)) > 0.0 and float(q[-1]) > float(q[0])


# ------------------------------------------------------------------ inputs
def gauss_iq(q, comps):
    out = np.zeros_like(q)
    for a, s in comps:
        out += a * np.exp(-q * q * s * s / 2.0)
    return out


def widths(sc, q_first, q_last, acc, theta=None):
    """Map the width classes of the lattice to numbers, relative to the observed q range.
    Input selection only: whether a clause applies is decided by TLC from the logged range."""
    lam_max = max(sc["lam"])
    reach = 2 * math.pi / lam_max
    if acc == "mid":
        reach *= math.sin(theta)
    top = min(q_last, reach)
    if acc == "zero":
        lo, hi = 100.0 * q_first * 1.0001, q_last / 10.0 / 1.0001
        top = q_last
    else:
        lo, hi = 10.0 * q_first * 1.0001, top / 10.0 / 1.0001
    res = {}
    for g in sc["gauss"]:
        if g["where"] == "below":
            inv = 3.0 * q_first
        elif g["where"] == "above":
            inv = top / 3.0
        elif lo < hi:
            inv = lo * (hi / lo) ** (g["t"] / 4.0)
        else:
            inv = math.sqrt(lo * hi)
        res[g["name"]] = 1.0 / inv
    return res


def comp_sets(sc, wd):
    """[(label, [(a, s), ...])]: every class alone, then the mixtures."""
    amps = sc["amps"]
    out = []
    for i, g in enumerate(sc["gauss"]):
        out.append((g["name"], [(amps[i % len(amps)], wd[g["name"]])]))
    for j, mix in enumerate(sc["mixtures"]):
        out.append(("+".join(mix), [(amps[(j + m) % len(amps)], wd[name]) for m, name in enumerate(mix)]))
    return out


def comps_json(comps):
    return [{"a": fstr(a), "s": fstr(s)} for a, s in comps]


def impulse_rows(sc, q, cuts):
    """Indices of the unit impulses: spread over the grid and dense around the given q values."""
    nq = q.size
    js = set(int(round(x)) for x in np.linspace(0, nq - 1, 10))
    for qc in cuts:
        if not (q[0] < qc < q[-1] * 1.5):
            continue
        for f in (0.3, 0.6, 0.8, 0.9, 0.97, 0.999, 1.001, 1.03, 1.1, 1.3, 1.7, 2.5, 3.5):
            j = int(np.searchsorted(q, qc * f))
            if 0 <= j < nq:
                js.add(j)
    return sorted(js)[:40]


def point_cols(n):
    if n <= 12:
        return list(range(n))
    return sorted(set(int(round(x)) for x in np.linspace(0, n - 1, 12)))


def single_points(n):
    return sorted({0, n // 5, n // 2, n - 1})


# ------------------------------------------------------------------ level "transform"
def run_transform(sc):
    from sasmodels.sesans import SesansTransform
    tid = sc["tid"]
    xi = np.array(sc["xi"], dtype="d")
    lam = np.array(sc["lam"], dtype="d")
    acc = sc["acc"]
    zaccept = float(sc["zaccept"])
    args = {"xi": fvec(xi), "lam": fvec(lam), "acc": acc, "zaccept": fstr(zaccept), "rmax": fstr(RMAX)}
    try:
        T = SesansTransform(xi, xi, lam, zaccept, RMAX)
        q = np.asarray(T.q_calc, dtype="d")
        res = grid_facts(q, full=sc.get("fullq", False))
    except Exception as ex:
        emit({"tid": tid, "ev": "Construct", "level": "transform", "args": args, "res": failed_grid(ex)})
        return
    emit({"tid": tid, "ev": "Construct", "level": "transform", "args": args, "res": res})
    if not usable(q):
        return                      # nothing can be applied on such a grid; TLC rejects the Construct event
    sidx = [i - 1 for i in res["qi"]]
    wd = widths(sc, q[0], q[-1], acc)
    sets = comp_sets(sc, wd)

    def apply_comps(comps):
        return np.asarray(T.apply(gauss_iq(q, comps)), dtype="d")

    # Gaussians and mixtures
    for label, comps in sets:
        iq = gauss_iq(q, comps)
        iq0 = iq.copy()
        try:
            P = np.asarray(T.apply(iq), dtype="d")
            # the caller's I(q) array after the call (a caller may transform the same array again)
            r = {"raised": False, "error": "", "P": fvec(P), "Is": fvec(iq0[sidx]),
                 "changed": bool(iq.shape != iq0.shape or iq.tobytes() != iq0.tobytes())}
        except Exception as ex:
            r = {"raised": True, "error": err_text(ex), "P": [], "Is": fvec(iq0[sidx]), "changed": False}
        emit({"tid": tid, "ev": "Gauss", "args": {"label": label, "comps": comps_json(comps), "via": "apply"}, "res": r})

    # linearity
    for n_, (a, b) in enumerate(sc["coefs"]):
        c1 = sets[n_ % len(sets)][1]
        c2 = sets[(3 * n_ + 2) % len(sets)][1]
        i1, i2 = gauss_iq(q, c1), gauss_iq(q, c2)
        try:
            # the three results are kept as returned and read only after the last call
            p1 = T.apply(i1)
            p2 = T.apply(i2)
            p12 = T.apply(a * i1 + b * i2)
            r = {"raised": False, "error": "", "P1": fvec(p1), "P2": fvec(p2), "P12": fvec(p12)}
        except Exception as ex:
            r = {"raised": True, "error": err_text(ex), "P1": [], "P2": [], "P12": []}
        emit({"tid": tid, "ev": "Linear", "args": {"c1": comps_json(c1), "c2": comps_json(c2),
                                                     "a": fstr(a), "b": fstr(b)}, "res": r})

    # matrix elements: unit impulses, against the same grid with vanishing acceptance
    try:
        T0 = SesansTransform(xi, xi, lam, 0.0, RMAX)
        if T0.q_calc.shape != q.shape or not np.array_equal(T0.q_calc, q):
            raise RuntimeError("companion grid differs")
        cuts = sorted(set(2 * math.pi / l for l in lam))[:3]
        emit_kernel(tid, T, T0, q, xi, impulse_rows(sc, q, cuts))
        del T0
    except Exception as ex:
        emit({"tid": tid, "ev": "Kernel", "args": {"js": [], "qj": [], "ks": []},
              "res": dict(KERNEL_FAILED, raised=True, error=err_text(ex))})

    # one point alone against the same point in the vector
    if acc == "full" and xi.size >= 2:
        for k in single_points(xi.size):
            try:
                T1 = SesansTransform(xi[k:k + 1], xi[k:k + 1], lam[k:k + 1], zaccept, RMAX)
                q1 = np.asarray(T1.q_calc, dtype="d")
                c1 = grid_facts(q1, sample=False)
            except Exception as ex:
                emit({"tid": tid, "ev": "Single", "args": {"k": k + 1, "comps": []},
                      "res": {"raised": False, "error": "", "vvec": "nan", "vsingle": "nan",
                              "c1": failed_grid(ex, sample=False)}})
                continue
            for comps in single_comps(sc, xi[k]):
                try:
                    r = {"raised": False, "error": "", "vvec": fstr(apply_comps(comps)[k]),
                         "vsingle": fstr(np.asarray(T1.apply(gauss_iq(q1, comps)))[0]), "c1": c1}
                except Exception as ex:
                    r = {"raised": True, "error": err_text(ex), "vvec": "nan", "vsingle": "nan", "c1": c1}
                emit({"tid": tid, "ev": "Single", "args": {"k": k + 1, "comps": comps_json(comps)}, "res": r})


def single_comps(sc, xik):
    a = sc["amps"]
    return [[(a[0], 0.25 * xik)], [(a[1 % len(a)], xik)], [(a[2 % len(a)], 2.0 * xik)],
            [(a[0], 0.5 * xik), (a[1 % len(a)], 1.5 * xik)]]


def emit_kernel(tid, T, T0, q, xi, js):
    ks = point_cols(xi.size)
    R, Z, Zlo, Zhi = [], [], [], []
    for j in js:
        e = np.zeros_like(q)
        e[j] = 1.0
        row = np.asarray(T.apply(e), dtype="d")
        z = np.asarray(T0.apply(e), dtype="d")
        R.append(fvec(row[ks]))
        Z.append(fstr(z[0]))
        Zlo.append(fstr(np.min(z)))
        Zhi.append(fstr(np.max(z)))
    emit({"tid": tid, "ev": "Kernel",
          "args": {"js": [j + 1 for j in js], "qj": fvec(q[js]), "ks": [k + 1 for k in ks]},
          "res": {"raised": False, "error": "", "R": R, "Z": Z, "Zlo": Zlo, "Zhi": Zhi}})


KERNEL_FAILED = {"R": [], "Z": [], "Zlo": [], "Zhi": []}


# ------------------------------------------------------------------ level "dm"
_models = {}


def get_model(name):
    from sasmodels import core
    if name not in _models:
        _models[name] = core.load_model(name, dtype="double", platform="dll")
    return _models[name]


def make_calc(sc, xi, lam, theta, model, scalar_ok=True):
    from sasmodels.data import empty_sesans
    from sasmodels.direct_model import DirectModel
    lam = np.asarray(lam, dtype="d")
    if scalar_ok and sc.get("lam_scalar") and np.all(lam == lam[0]):
        wl = float(lam[0])                      # empty_sesans expands a scalar wavelength
    else:
        wl = lam.copy()
    data = empty_sesans(np.asarray(xi, dtype="d").copy(), wavelength=wl, zacceptance=(theta, "radians"))
    return DirectModel(data, model)


def guinier_pars(model_name, comps, background):
    """Parameters of guinier / guinier+guinier giving I(q) = sum a exp(-q^2 s^2/2) + background."""
    k = math.sqrt(1.5)
    if model_name == "guinier":
        (a, s), = comps
        pars = {"scale": a, "rg": k * s, "background": background}
        parts = [{"w": fstr(1.0), "rg": fstr(pars["rg"])}]
        return pars, fstr(a), parts
    (a1, s1), (a2, s2) = comps
    scale = 2.0
    pars = {"scale": scale, "background": background, "A_scale": a1 / scale, "A_rg": k * s1,
            "B_scale": a2 / scale, "B_rg": k * s2}
    parts = [{"w": fstr(pars["A_scale"]), "rg": fstr(pars["A_rg"])},
             {"w": fstr(pars["B_scale"]), "rg": fstr(pars["B_rg"])}]
    return pars, fstr(scale), parts


def dm_comp_sets(sc, wd):
    amps = sc["amps"]
    names = [g["name"] for g in sc["gauss"]]
    if sc["cfg"]["model"] == "guinier":
        return [(n, [(amps[i % len(amps)], wd[n])]) for i, n in enumerate(names)]
    out = []
    for j, mix in enumerate(sc["mixtures"]):
        if len(mix) == 2:
            out.append(("+".join(mix), [(amps[(j + m) % len(amps)], wd[n]) for m, n in enumerate(mix)]))
    for i in range(len(names) - 1):
        out.append((names[i] + "+" + names[i + 1], [(amps[i % len(amps)], wd[names[i]]),
                                                    (amps[(i + 1) % len(amps)], wd[names[i + 1]])]))
    return out


def run_dm(sc):
    from sasmodels import direct_model
    tid = sc["tid"]
    xi = np.array(sc["xi"], dtype="d")
    lam = np.array(sc["lam"], dtype="d")
    acc = sc["acc"]
    mname = sc["cfg"]["model"]
    model = get_model(mname)
    theta = {"full": math.pi / 2, "zero": 0.0}.get(acc)
    try:
        if acc == "mid":
            # an acceptance angle whose cut lies in the middle of the calculated, reachable q range
            q0 = np.asarray(make_calc(sc, xi, lam, math.pi / 2, model).resolution.q_calc, dtype="d")
            qc = math.sqrt(q0[0] * min(q0[-1], 2 * math.pi / lam.max()))
            theta = math.asin(qc * lam.max() / (2 * math.pi))
        # another spin-echo grid with the same number of points and the same end points but other interior points
        # is set up first in this process: what is computed for one grid must not leak into another
        if len(xi) >= 3 and xi[0] > 0:
            lin = np.linspace(xi[0], xi[-1], len(xi))
            geo = np.geomspace(xi[0], xi[-1], len(xi))
            decoy = geo if np.allclose(xi, lin, rtol=1e-6) else lin
            if not np.allclose(decoy, xi, rtol=1e-6):
                make_calc(sc, decoy, lam, theta, model)
        calc = make_calc(sc, xi, lam, theta, model)
        T = calc.resolution
        q = np.asarray(T.q_calc, dtype="d")
        res = grid_facts(q, full=sc.get("fullq", False))
    except Exception as ex:
        emit({"tid": tid, "ev": "Construct", "level": "dm",
              "args": {"xi": fvec(xi), "lam": fvec(lam), "acc": acc, "theta": fstr(theta if theta is not None else 1.0),
                       "model": mname}, "res": failed_grid(ex)})
        return
    args = {"xi": fvec(xi), "lam": fvec(lam), "acc": acc, "theta": fstr(theta), "model": mname}
    emit({"tid": tid, "ev": "Construct", "level": "dm", "args": args, "res": res})
    if not usable(q):
        return                      # nothing can be applied on such a grid; TLC rejects the Construct event
    wd = widths(sc, q[0], q[-1], acc, theta)
    sets = dm_comp_sets(sc, wd)
    bkgs = sc["bkg"]
    default_setup = (acc == "full" and np.all(lam == 5.0))     # what Gxi() builds by itself

    # acceptance mask of the transform DirectModel built, probed with unit impulses
    try:
        calc0 = make_calc(sc, xi, lam, 0.0, model)
        T0 = calc0.resolution
        if T0.q_calc.shape != q.shape or not np.array_equal(T0.q_calc, q):
            raise RuntimeError("companion grid differs")
        cuts = sorted(set(2 * math.pi / l * math.sin(theta) for l in lam))[:3]
        cuts += sorted(set(2 * math.pi / l for l in lam))[:2]
        emit_kernel(tid, T, T0, q, xi, impulse_rows(sc, q, [c for c in cuts if c > 0]))
    except Exception as ex:
        emit({"tid": tid, "ev": "Kernel", "args": {"js": [], "qj": [], "ks": []},
              "res": dict(KERNEL_FAILED, raised=True, error=err_text(ex))})

    for n_, (label, comps) in enumerate(sets):
        b = bkgs[n_ % len(bkgs)]
        pars, scale, parts = guinier_pars(mname, comps, b)
        p0 = dict(pars, background=0.0)
        via = "Gxi" if (default_setup and n_ % 2 == 1) else "DirectModel"
        try:
            if via == "Gxi":
                P = direct_model.Gxi(mname, xi.copy(), **pars)
                P0 = direct_model.Gxi(mname, xi.copy(), **p0)
            else:
                P = calc(**pars)
                P0 = calc(**p0)
            r = {"raised": False, "error": "", "P": fvec(P), "P0": fvec(P0)}
        except Exception as ex:
            r = {"raised": True, "error": err_text(ex), "P": [], "P0": []}
        emit({"tid": tid, "ev": "Gauss",
              "args": {"label": label, "via": via, "model": mname, "scale": scale, "parts": parts,
                       "background": fstr(b)}, "res": r})

    # one point alone (as the repository's own test does through Gxi)
    if acc == "full" and xi.size >= 2 and mname == "guinier":
        for k in single_points(xi.size)[:3]:
            try:
                calc1 = make_calc(sc, xi[k:k + 1], lam[k:k + 1], theta, model)
                c1 = grid_facts(calc1.resolution.q_calc, sample=False)
            except Exception as ex:
                emit({"tid": tid, "ev": "Single", "args": {"k": k + 1, "comps": []},
                      "res": {"raised": False, "error": "", "vvec": "nan", "vsingle": "nan",
                              "c1": failed_grid(ex, sample=False)}})
                continue
            for comps in single_comps(sc, xi[k])[:3]:
                pars, scale, parts = guinier_pars(mname, comps, bkgs[0])
                try:
                    r = {"raised": False, "error": "", "vvec": fstr(calc(**pars)[k]),
                         "vsingle": fstr(calc1(**pars)[0]), "c1": c1}
                except Exception as ex:
                    r = {"raised": True, "error": err_text(ex), "vvec": "nan", "vsingle": "nan", "c1": c1}
                emit({"tid": tid, "ev": "Single", "args": {"k": k + 1, "scale": scale, "parts": parts}, "res": r})


def main():
    req = json.load(sys.stdin)
    for sc in req["scenarios"]:
        try:
            if sc["level"] == "dm":
                run_dm(sc)
            else:
                run_transform(sc)
        except Exception as ex:           # a bug of this worker, not of the code under test
            emit({"tid": sc.get("tid", -1), "ev": "HarnessError", "error": err_text(ex),
                  "tb": traceback.format_exc()[-3000:]})


if __name__ == "__main__":
    main()
