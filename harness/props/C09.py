"""C09 - pure-Python and compiled-C executions of one model definition agree; ill-formed
definitions are rejected.

1. TLC: PdMesh (shared with C01: the Python loop of kernelpy._loops must refine the same
   specification as the C loop nest) and Definition (well-formedness predicate; every base
   definition loads, every single-fault mutation is seen by the predicate).
2. Replay: every PdMesh behaviour is run on a generated definition emitted twice, as embedded C
   and as numpy Python (same parameter table, Iq, form_volume, shell_volume, radius_effective
   modes, validity region - `valid` in C, NaN in Python); all exported definitions (well- and
   ill-formed) are loaded in both forms.
3. Trace validation: PdMeshTrace validates both executions against the specification bit for bit
   (so they agree with each other and with the defining formula), Twin events compare them
   directly, DefinitionTrace demands loaded <=> WellFormed; the builtin pure-Python models go
   through MeanTrace.
"""
import json
import os
import random
import shutil
import sys

sys.path.insert(0, os.path.dirname(os.path.dirname(os.path.abspath(__file__))))
sys.path.insert(0, os.path.dirname(os.path.abspath(__file__)))
import vlib
import pdmesh_common as pc
import builtin_mean

PROP = "C09"
QUICK_PY = ["guinier_porod", "broad_peak", "poly_gauss_coil", "teubner_strey", "power_law"]


def classify(sc, clause):
    lens = [len(m["d"]) for m in sc["mesh"]]
    cls = ("empty-distribution" if any(L == 0 for L in lens)
           else "monodisperse" if all(L == 1 for L in lens) else "dispersed")
    return {"clause": clause, "class": cls, "engine": sc.get("engine"), "valid": sc["def"]["valid"][0]}


def run_twins(chk, scenarios, label):
    work = vlib.scratch("c09")
    try:
        reqs = [{"workdir": os.path.join(work, "models%d" % k), "scenarios": part}
                for k, part in enumerate(pc.split(scenarios, vlib.NCPU))]
        outs = vlib.run_workers_parallel("w_pdmesh.py", reqs, work, timeout=3000)
        events = sorted([e for o in outs for e in o], key=lambda e: e["tid"])
        by_tid = {sc["tid"]: sc for sc in scenarios}
        # Twin events: the returned values of the two executions of the same scenario, side by side
        res = {}
        for e in events:
            if e["ev"] == "Result":
                res[e["tid"]] = e["res"] if e["kind"] != "raised" else {"raised": e.get("error", "")}
            elif e["ev"] == "MakeArgs" and e["res"]["refused"]:
                res[e["tid"]] = {"refused": True}
        twins = []
        top = max(by_tid) + 1
        for tid, sc in list(by_tid.items()):
            if sc["engine"] == "c" and sc.get("twin") in res and tid in res:
                top += 1
                twins.append({"tid": top, "ev": "Twin", "c": res[tid], "py": res[sc["twin"]], "of": tid})
                by_tid[top] = sc
        events += twins
        B = 1500
        tids = sorted(set(e["tid"] for e in events))
        for i in range(0, len(tids), B):
            batch = set(tids[i:i + B])
            evs = [e for e in events if e["tid"] in batch]
            v = vlib.validate_trace("PdMeshTrace", evs, timeout=3000)
            chk.cov["traces_validated_against_impl"] += len(batch)
            chk.cov["transitions"] += v["states"]
            for tid, line, clause, detail in v["rejects"]:
                sc = by_tid[tid]
                chk.violation(classify(sc, clause), {"scenario": sc, "clause": clause, "detail": detail[:3000]})
        for sc in scenarios:
            lens = [len(m["d"]) for m in sc["mesh"]]
            chk.case([sc["engine"], sc["def"]["types"], sc["def"]["hollow"], sc["def"]["nmodes"], sc["def"]["valid"],
                      lens, sc["cutoff"], sc["dim"], sc["kind"], sc["mode"]], nontrivial=True,
                     sample={"engine": sc["engine"], "lens": lens, "valid": sc["def"]["valid"], "dim": sc["dim"],
                             "kind": sc["kind"], "mode": sc["mode"], "cutoff": sc["cutoff"]})
    finally:
        shutil.rmtree(work, ignore_errors=True)


def run_vector_twins(chk):
    """One definition with a vector parameter name[n] and its control parameter, written in C and in numpy, in
    three table orders; explicit dyadic meshes; the two executions side by side (Twin events)."""
    work = vlib.scratch("c09v")
    try:
        outs = vlib.run_workers_parallel("w_vectwin.py", [{"workdir": os.path.join(work, "vt"), "first_tid": 1,
                                                           "seed": chk.seed, "nsets": 40 if chk.tier == "thorough" else 8}],
                                         work, timeout=1800)
        evs = [e for o in outs for e in o]
        if len(evs) < 6:
            raise vlib.Machinery("vector twin worker returned %d events" % len(evs))
        v = vlib.validate_trace("PdMeshTrace", evs, timeout=1800)
        chk.cov["traces_validated_against_impl"] += len(evs)
        for tid, line, clause, detail in v["rejects"]:
            e = evs[line - 1]
            chk.violation({"clause": clause, "class": "vector-parameter", "engine": "py-vs-c", "valid": 0, "order": e.get("of")},
                          {"scenario": {"vector-twin": e.get("of"), "n": e.get("n"), "kind": e.get("kind")}, "clause": clause,
                           "detail": detail[:2500]})
        for e in evs:
            chk.case(["vector-twin", e.get("of"), e.get("n"), e.get("kind"), json.dumps(e["c"], sort_keys=True)], nontrivial=True,
                     sample={"vector-twin": e.get("of"), "n": e.get("n"), "kind": e.get("kind")})
    finally:
        shutil.rmtree(work, ignore_errors=True)


def run_definitions(chk, limit=None):
    r = vlib.tlc_must_pass("Definition", "Definition.cfg", timeout=900)
    chk.add_tlc(r, "Definition (bases + single-fault mutations)")
    if r["violated"]:
        chk.design_violation(r, "Definition")
    defs = vlib.parse_printed(r["out"], "DEFS")[0]["defs"]
    if limit:
        rng = random.Random(chk.seed)
        faults = {}
        for d in defs:
            faults.setdefault(d["fault"], []).append(d)
        defs = [d for f in sorted(faults) for d in rng.sample(faults[f], min(len(faults[f]), limit))]
    items = []
    tid = 0
    for d in defs:
        for eng in ("c", "py"):
            tid += 1
            items.append({"tid": tid, "def": d, "engine": eng})
    work = vlib.scratch("c09d")
    try:
        reqs = [{"workdir": os.path.join(work, "m%d" % k), "items": part}
                for k, part in enumerate(pc.split(items, vlib.NCPU))]
        outs = vlib.run_workers_parallel("w_definition.py", reqs, work, timeout=3000)
        evs = sorted([e for o in outs for e in o], key=lambda e: e["tid"])
        if len(evs) != len(items):
            raise vlib.Machinery("definition worker returned %d of %d events" % (len(evs), len(items)))
        v = vlib.validate_trace("DefinitionTrace", evs, timeout=1800)
        chk.cov["traces_validated_against_impl"] += len(evs)
        for tid, line, clause, detail in v["rejects"]:
            e = evs[line - 1]
            chk.violation({"clause": clause, "fault": e["def"]["fault"], "engine": e["engine"]},
                          {"scenario": {"definition": e["def"], "engine": e["engine"]}, "clause": clause,
                           "detail": detail, "error": e["error"]})
        for e in evs:
            chk.case(["definition", e["engine"], e["def"]], nontrivial=e["def"]["fault"] != "none",
                     sample={"definition-fault": e["def"]["fault"], "engine": e["engine"], "outcome": e["outcome"],
                             "rows": [[x["name"], x["kind"]] for x in e["def"]["rows"]], "fn2d": e["def"]["fn2d"]})
    finally:
        shutil.rmtree(work, ignore_errors=True)


def make_twin_scenarios(tier, seed):
    rng = random.Random(seed)
    thorough = tier == "thorough"
    scen = []
    tid = 0
    for cfg, num in (("PdMeshGen.cfg", 4000 if thorough else 400), ("PdMeshGen6.cfg", 1500 if thorough else 150)):
        beh, _ = pc.gen_behaviours(cfg, num, seed + 1)
        seen = set()
        for b in beh:
            k = json.dumps(b, sort_keys=True)
            if k in seen:
                continue
            seen.add(k)
            sc = pc.concretise(b, 0, rng, engine="c", allow_fq=False)
            if sc is None:
                continue
            sc["partition"] = "driver"
            tid += 2
            a = dict(sc, tid=tid - 1, engine="c", twin=tid)
            p = dict(sc, tid=tid, engine="py")
            scen += [a, p]
    for lens in ([99], [101], [10, 10], [11, 9], [5, 5, 4], [7, 3, 5, 1, 2]) + (([250], [40, 25], [3, 3, 3, 3, 3]) if thorough else ()):
        for cutoff in (0.0, 0.0625):
            sc = pc.big_scenario(0, rng, list(lens), cutoff=cutoff, allow_fq=False, n_extra=rng.choice([0, 2]))
            tid += 2
            scen += [dict(sc, tid=tid - 1, engine="c", twin=tid), dict(sc, tid=tid, engine="py")]
    return scen


def run(chk, args):
    thorough = chk.tier == "thorough"
    if args.replay:
        sc = json.load(open(args.replay))["detail"]["scenario"]
        if "vector-twin" in sc:
            run_vector_twins(chk)
            return
        if "definition" in sc:
            raise vlib.Machinery("replay of a definition: rerun the check (definitions are enumerated exhaustively)")
        if "def" in sc:
            run_twins(chk, [dict(sc, tid=1, engine="c", twin=2), dict(sc, tid=2, engine="py")], "replay")
        else:
            builtin_mean.run(chk, PROP, [sc], "replay")
        return
    r = vlib.tlc_must_pass("PdMesh", "PdMesh.cfg", timeout=3000)
    chk.add_tlc(r, "PdMesh exhaustive (the specification both loops must refine)")
    if r["violated"]:
        chk.design_violation(r, "PdMesh")
    run_definitions(chk, limit=None if thorough else 6)
    run_twins(chk, make_twin_scenarios(chk.tier, chk.seed), "twins")
    run_vector_twins(chk)
    pym = builtin_mean.list_models("py") if thorough else QUICK_PY
    builtin_mean.run(chk, PROP, builtin_mean.make_scenarios(chk.tier, chk.seed, models=pym,
                                                            per_model=20 if thorough else 5), "python-builtin")
    chk.cov["rule"] = (
        "twins: every simulated PdMesh behaviour (scenario lengths/weights/cutoff/validity) is run on one "
        "generated definition emitted as embedded C and as numpy Python; both traces validated bit-exactly by "
        "PdMeshTrace and compared by Twin events; a definition with a vector parameter name[n] (three table orders) run in "
        "both forms on explicit dyadic meshes, Twin events.  definitions: TLC-enumerated base definitions and single-fault "
        "mutations (17 fault kinds) loaded in both forms; DefinitionTrace requires loaded <=> WellFormed.  "
        "builtin pure-Python models validated by MeanTrace.")
    chk.assumptions += [
        "Python twins do not declare have_Fq (kernelpy does not implement the amplitude output; the property lists Iq, volumes, radius and validity)",
        "the Python validity region is expressed by returning NaN, the C one by `valid`, as the plugin guide documents",
        "probe arithmetic is exact in binary64 (dyadic inputs)",
    ]


if __name__ == "__main__":
    vlib.main(PROP, "model_checking", run)
