"""C07 - P@S interaction models combine form and structure factor as documented.

1. TLC, exhaustive: ProductCore (make_product_info's combined table and ProductKernel's slice
   arithmetic) routes P's and S's own parameters correctly for every table shape (P with 1-4
   parameters, volfraction at any position or absent, name collisions, 0-2 SLDs, Fq / modes on or
   off; S with 2-4 parameters); two wrong slice variants must fail.
2. Replay: TLC-exported shapes are instantiated as probe P and S plugins; builtin (P, S) pairs;
   modes 0..n, beta on/off, dispersity on P parameters and on radius_effective, 1-D and 2-D.
3. Trace validation (ProductTrace): combined table = Compose(P, S); S was evaluated at the
   radius / volume fraction the formula names; I = scale (vf/V) (<F^2> S | <F^2> + <F>^2 (S-1)) + bkg;
   reported intermediates are the ones used; 2-D + beta is refused.
"""
import json
import os
import random
import shutil
import sys

sys.path.insert(0, os.path.dirname(os.path.dirname(os.path.abspath(__file__))))
import vlib
import probe
from pdmesh_common import split

PROP = "C07"
S_MODELS = ["hardsphere", "hayter_msa", "squarewell", "stickyhardsphere"]
QUICK_P = ["sphere", "cylinder", "vesicle", "hollow_cylinder", "core_multi_shell", "ellipsoid",
           "core_shell_sphere", "parallelepiped", "fuzzy_sphere", "lamellar", "fractal_core_shell", "stacked_disks",
           "pringle"]


def form_factors():
    code = ("import json\nfrom sasmodels import core\nout=[]\n"
            "for n in core.list_models():\n"
            "    i=core.load_model_info(n)\n"
            "    if not i.structure_factor and not callable(i.Iq) and 'radius_effective' not in i.parameters:\n"
            "        out.append(n)\nprint(json.dumps(out))\n")
    import subprocess
    d = vlib.scratch("ff")
    try:
        p = subprocess.run([vlib.VENV_PY, "-c", code], capture_output=True, text=True, env=vlib.worker_env(d), timeout=600)
        if p.returncode != 0:
            raise vlib.Machinery("listing form factors failed: " + p.stderr[-1500:])
        return json.loads(p.stdout.strip().splitlines()[-1])
    finally:
        shutil.rmtree(d, ignore_errors=True)


def probe_pair(shape_p, shape_s, k):
    ids = [x["id"] for x in shape_p["pars"]]
    types = [x["kind"] for x in shape_p["pars"]]
    pd = probe.make_def("vpp%d" % k, types, haveFq=shape_p["haveFq"], hollow=(k % 2 == 0),
                        nmodes=shape_p["nmodes"], names=ids)
    sids = [x["id"] for x in shape_s["pars"]]
    sd = probe.make_def("vps%d" % k, ["" for _ in sids], names=sids, structure_factor=True)
    sd["defaults"] = [2.0, 0.125] + [0.5] * (len(sids) - 2)
    return {"pdef": pd, "sdef": sd}


def run(chk, args):
    thorough = chk.tier == "thorough"
    r = vlib.tlc_must_pass("Product", "Product.cfg", timeout=1200)
    chk.add_tlc(r, "Product routing, all shapes")
    if r["violated"]:
        chk.design_violation(r, "Product")
    ctl = []
    for v in ("erOffByOne", "ignoreVfInP"):
        w = vlib.tlc("Product", "Product_%s.cfg" % v, timeout=600)
        if w["ok"]:
            raise vlib.Machinery("vacuity control Product_%s should fail" % v)
        ctl.append(v)
    chk.notes["vacuity_controls_failing"] = ctl
    shapes = vlib.parse_printed(r["out"], "SHAPES")[0]
    rng = random.Random(chk.seed)
    if args.replay:
        scen = [json.load(open(args.replay))["detail"]["scenario"]]
        if "P" not in scen[0]:             # a P-alone-on-large-mesh scenario (MeanTrace)
            import builtin_mean
            builtin_mean.run(chk, PROP, scen, "replay")
            return
    else:
        scen = []
        tid = 0
        ps = sorted(shapes["p"], key=lambda x: json.dumps(x, sort_keys=True))
        rng.shuffle(ps)
        for k, sp in enumerate(ps[: (300 if thorough else 40)]):
            ss = rng.choice(shapes["s"])
            for dim in (("1d", "2d") if k % 3 == 0 else ("1d",)):
                tid += 1
                scen.append({"tid": tid, "seed": rng.randrange(1 << 30), "dim": dim, "probe": probe_pair(sp, ss, k),
                             "P": "vpp%d" % k, "S": "vps%d" % k})
        pm = form_factors() if thorough else QUICK_P
        for P in pm:
            for S in S_MODELS:
                for rep in range(6 if thorough else 3):
                    tid += 1
                    scen.append({"tid": tid, "P": P, "S": S, "seed": rng.randrange(1 << 30),
                                 "dim": "2d" if rep % 3 == 2 else "1d"})
            # one P@S per form factor on a mesh of more than 100 points (13x13, 40x11, 40 ... ) 
            for rep in range(3 if thorough else 1):
                tid += 1
                scen.append({"tid": tid, "P": P, "S": rng.choice(S_MODELS), "seed": rng.randrange(1 << 30),
                             "dim": "1d" if rep % 2 == 0 else "2d", "bigmesh": True})
    work = vlib.scratch("c07")
    try:
        reqs = [{"workdir": os.path.join(work, "m%d" % k), "scenarios": part} for k, part in enumerate(split(scen, vlib.NCPU))]
        outs = vlib.run_workers_parallel("w_product.py", reqs, work, timeout=3000)
        evs = sorted([e for o in outs for e in o], key=lambda e: e["tid"])
        herr = [e for e in evs if e["ev"] == "HarnessError"]
        if herr:
            raise vlib.Machinery("product worker: %s %s@%s\n%s" % (herr[0]["error"], herr[0]["P"], herr[0]["S"], herr[0]["tb"]))
        by = {s["tid"]: s for s in scen}
        slim = [{k: v for k, v in e.items() if k not in ("pars", "p_pars")} for e in evs]
        v = vlib.validate_trace("ProductTrace", slim, timeout=3000)
        chk.cov["traces_validated_against_impl"] += len(evs)
        chk.cov["transitions"] += v["states"]
        for tid, line, clause, detail in v["rejects"]:
            e = evs[line - 1]
            chk.violation({"clause": clause, "P": e["P"] if not by[tid].get("probe") else "probe", "S": e["S"] if not by[tid].get("probe") else "probe",
                           "dim": e["dim"], "beta": e["beta"], "ermode0": e["ermode"] == 0},
                          {"scenario": by[tid], "clause": clause, "detail": detail[:2500], "pars": e["pars"]})
        for e in evs:
            chk.case([e["P"], e["S"], e["dim"], e["beta"], e["ermode"], sorted((k, str(x)) for k, x in e["pars"].items())],
                     nontrivial=True,
                     sample={"P": e["P"], "S": e["S"], "dim": e["dim"], "beta": e["beta"], "ermode": e["ermode"],
                             "names": e["names"], "refused": e["refused"]})
    finally:
        shutil.rmtree(work, ignore_errors=True)
    # ProductTrace takes P evaluated alone as given.  On meshes of more than 100 points the compiled kernel is
    # re-entered slice by slice; there P alone (same parameters, same mesh, same effective-radius mode) is in turn
    # validated against its per-mesh-point evaluations by MeanTrace, so that P@S is tied to single-particle values.
    bigs = [e for e in evs if (by[e["tid"]].get("bigmesh") or float(e["cutoff"]) > 0.0) and not by[e["tid"]].get("probe")
            and not e["refused"]]
    if bigs and not args.replay:
        import builtin_mean
        sc2 = []
        for e in bigs:
            pp = {k: v for k, v in e["p_pars"].items() if not k.startswith("up_") and not k.endswith(("_M0", "_mtheta", "_mphi"))}
            sc2.append({"tid": 200000 + e["tid"], "model": e["P"], "pars": dict(pp, scale=1.0, background=0.0), "cutoff": float(e["cutoff"]),
                        "dim": e["dim"], "mode": e["ermode"]})
        builtin_mean.run(chk, PROP, sc2, "P-alone-on-large-mesh")
    chk.cov["rule"] = (
        "design: TLC over all P/S table shapes (Routing, NamesDistinct); replay: sampled TLC shapes as probe P and S "
        "plugins + builtin form factors x {hardsphere, hayter_msa, squarewell, stickyhardsphere}, random mode 0..n, "
        "beta, dispersity on <= 2 P parameters and on radius_effective (mode 0), 1-D/2-D; every P@S evaluation "
        "validated by ProductTrace against P and S evaluated alone; per form factor one P@S on a mesh of more than 100 points, where "
        "P alone is also validated against its per-mesh-point evaluations (MeanTrace).")
    chk.assumptions += [
        "P's dispersity averages and S(q) are interpreted by the models' own separate evaluations (validated by C01)",
        "tolerance 1e-13 relative: the recombination re-associates a handful of products/quotients",
    ]


if __name__ == "__main__":
    vlib.main(PROP, "model_checking", run)
