"""C06 - polarised magnetic scattering is the weighted sum of the four spin channels.

1. TLC, exhaustive (Magnetic.tla, exact integers): channel weights are non-negative and sum to
   1/max(f,1-f) after clipping for every (i, f) in quarter steps from -1/4 to 5/4; (P, e1, e2) is an
   orthonormal frame and Mperp is orthogonal to q-hat for Pythagorean angle triples.
2. Replay: every model with SLD parameters (generic magnetic path) with random magnitudes and
   angles per SLD, up-fractions incl. 0, 1/4, 1/2, 3/4, 1 and values outside [0,1], polarisation
   axis angles, detector points in all quadrants, optional size and orientation dispersity.
3. Trace validation (MagneticTrace): the specification recomputes the effective SLD of every
   SLD parameter in every channel at every detector point, checks that the non-magnetic model was
   evaluated exactly there, recombines with its own weights and compares with the magnetic kernel;
   all magnitudes zero => bit-identical to the non-magnetic intensity.
"""
import json
import os
import random
import shutil
import subprocess
import sys

sys.path.insert(0, os.path.dirname(os.path.dirname(os.path.abspath(__file__))))
import vlib
from pdmesh_common import split

PROP = "C06"
QUICK = ["sphere", "core_shell_cylinder", "core_multi_shell", "parallelepiped", "ellipsoid", "fuzzy_sphere",
         "onion", "lamellar_hg", "cylinder", "vesicle"]


def magnetic_models():
    code = ("import json\nfrom sasmodels import core\nout=[]; skip=[]\n"
            "for n in core.list_models():\n"
            "    i=core.load_model_info(n)\n"
            "    if i.parameters.nmagnetic == 0 or callable(i.Iq): continue\n"
            "    src=' '.join(open(f).read() for f in __import__('sasmodels.generate',fromlist=['x']).model_sources(i)) + (i.c_code or '')\n"
            "    own = ('Iqxy' in src) or ('Imagnetic' in src) or isinstance(i.Iqxy, str)\n"
            "    (skip if own else out).append(n)\n"
            "print(json.dumps([out, skip]))\n")
    d = vlib.scratch("mm")
    try:
        p = subprocess.run([vlib.VENV_PY, "-c", code], capture_output=True, text=True, env=vlib.worker_env(d), timeout=600)
        if p.returncode != 0:
            raise vlib.Machinery("listing magnetic models failed: " + p.stderr[-1500:])
        return json.loads(p.stdout.strip().splitlines()[-1])
    finally:
        shutil.rmtree(d, ignore_errors=True)


def run(chk, args):
    thorough = chk.tier == "thorough"
    r = vlib.tlc_must_pass("Magnetic", "Magnetic_big.cfg" if thorough else "Magnetic.cfg", timeout=2400)
    chk.add_tlc(r, "Magnetic weights/frame (%d triples)" % (10 if thorough else 5))
    if r["violated"]:
        chk.design_violation(r, "Magnetic")
    if args.replay:
        scen = [json.load(open(args.replay))["detail"]["scenario"]]
    else:
        models, skipped = magnetic_models()
        chk.notes["models_with_own_2d_function_excluded"] = skipped
        if not thorough:
            models = [m for m in QUICK if m in models]
        rng = random.Random(chk.seed)
        scen = []
        tid = 0
        for m in models:
            for k in range(25 if thorough else 6):
                tid += 1
                scen.append({"tid": tid, "model": m, "seed": rng.randrange(1 << 30), "zero": k == 0})
    work = vlib.scratch("c06")
    try:
        by_model = {}
        for s in scen:
            by_model.setdefault(s["model"], []).append(s)
        groups = split(sorted(by_model), vlib.NCPU)
        reqs = [{"scenarios": [s for m in g for s in by_model[m]]} for g in groups]
        outs = vlib.run_workers_parallel("w_magnetic.py", reqs, work, timeout=3000)
        evs = sorted([e for o in outs for e in o], key=lambda e: e["tid"])
        herr = [e for e in evs if e["ev"] == "HarnessError"]
        if herr:
            raise vlib.Machinery("magnetic worker: %s %s\n%s" % (herr[0]["model"], herr[0]["error"], herr[0]["tb"]))
        by = {s["tid"]: s for s in scen}
        slim = [{k: v for k, v in e.items() if k != "pars"} for e in evs]
        v = vlib.validate_trace("MagneticTrace", slim, timeout=3000)
        chk.cov["traces_validated_against_impl"] += len(evs)
        chk.cov["transitions"] += v["states"]
        for tid, line, clause, detail in v["rejects"]:
            e = evs[line - 1]
            chk.violation({"clause": clause, "model": e["model"]},
                          {"scenario": by[tid], "clause": clause, "detail": detail[:2500], "pars": e["pars"],
                           "spin": [e["upi"], e["upf"], e["uptheta"], e["upphi"]], "M0": e["M0"]})
        for e in evs:
            chk.case([e["model"], e["M0"], e["mtheta"], e["mphi"], e["upi"], e["upf"], e["uptheta"], e["upphi"],
                      sorted((k, str(x)) for k, x in e["pars"].items())], nontrivial=any(float(x) != 0 for x in e["M0"]),
                     sample={"model": e["model"], "nsld": e["nsld"], "M0": e["M0"], "up": [e["upi"], e["upf"], e["uptheta"], e["upphi"]]})
        chk.notes["models"] = sorted(set(e["model"] for e in evs))
    finally:
        shutil.rmtree(work, ignore_errors=True)
    chk.cov["rule"] = (
        "design: TLC over all (i,f) in quarter steps x Pythagorean angle triples; replay: models with SLD parameters "
        "(generic magnetic path) x random (M0, mtheta, mphi) per SLD, up-fractions incl. 0, 1/2, 1 and out-of-range "
        "values, polarisation axis angles, 4 detector points, optional size/orientation dispersity; each scenario "
        "validated by MagneticTrace. Non-trivial: at least one non-zero magnitude.")
    chk.assumptions += [
        "q = 0 is excluded (q-hat undefined; the kernel returns 0 there by a guard the property does not mention)",
        "models that define their own Iqxy/Imagnetic do not follow the generic path and are excluded (listed)",
        "channels with weight <= 1e-8 are skipped, as the kernel does",
        "the four-channel formula of the property assumes I is even under a simultaneous sign change of all SLDs; the "
        "specification therefore uses I(e2.Mperp) for both imaginary spin-flip terms",
        "tolerances: effective SLD inputs 1e-12 (libm vs StrictMath), intensity 1e-9",
    ]


if __name__ == "__main__":
    vlib.main(PROP, "model_checking", run)
