"""C01 - dispersity-averaged I(q) is the volume-normalised weighted mean.

1. TLC, exhaustive: PdMesh (loop nest, restart arithmetic, all chunk partitions, cutoff and
   validity gates, selection of looped parameters, refusal) + the as-written variant, which must
   fail (vacuity control).
2. Specification -> code: simulated PdMesh behaviours are replayed on generated probe models
   through details.make_kernel_args and the raw <model>_Iq/_Iqxy symbols with the chunk
   boundaries TLC chose.
3. Code -> specification: every recorded step (MakeArgs, each KernelCall with the buffer after
   it, the returned value) is validated by PdMeshTrace over IEEE doubles, bit for bit, including
   the defining sum over the user's full mesh.
4. Builtin models through the public path (props/C01_builtin part): MeanTrace.
"""
import json
import os
import random
import shutil
import sys

sys.path.insert(0, os.path.dirname(os.path.dirname(os.path.abspath(__file__))))
import vlib
import pdmesh_common as pc
import builtin_mean

PROP = "C01"


def classify(sc, clause):
    """Key identifying the failing input class (for known-finding matching)."""
    lens = [len(m["d"]) for m in sc["mesh"]]
    nvol = sum(1 for t in sc["def"]["types"] if t == "volume")
    cls = "other"
    if any(L == 0 for L in lens):
        cls = "empty-distribution"
    elif any(L == 1 and m["d"][0] != m["v"] for L, m in zip(lens, sc["mesh"])):
        cls = "one-point-distribution-off-nominal"
    return {"clause": clause, "class": cls, "engine": sc.get("engine", "c"),
            "more_pars_than_loops": nvol > 5 or len(lens) > min(nvol, 5)}


def run_probe_scenarios(chk, scenarios, label, module="PdMeshTrace"):
    if not scenarios:
        return
    work = vlib.scratch("c01")
    try:
        reqs = [{"workdir": os.path.join(work, "models%d" % k), "scenarios": part}
                for k, part in enumerate(pc.split(scenarios, vlib.NCPU))]
        # build each distinct probe once, serially per worker; library names embed the source hash
        outs = vlib.run_workers_parallel("w_pdmesh.py", reqs, work, timeout=3000)
        events = [e for o in outs for e in o]
        events.sort(key=lambda e: e["tid"])     # stable: keeps per-tid order
        by_tid = {sc["tid"]: sc for sc in scenarios}
        got = set(e["tid"] for e in events if e["ev"] in ("Result",) or
                  (e["ev"] == "MakeArgs" and e["res"]["refused"]))
        missing = set(by_tid) - got
        if missing:
            raise vlib.Machinery("worker produced no result for tids %s" % sorted(missing)[:5])
        # validate in batches (bounded JVM memory)
        tids = sorted(by_tid)
        B = 1500
        for i in range(0, len(tids), B):
            batch = set(tids[i:i + B])
            evs = [e for e in events if e["tid"] in batch]
            v = vlib.validate_trace(module, evs, timeout=3000)
            chk.cov["traces_validated_against_impl"] += len(batch)
            chk.cov["transitions"] += v["states"]
            chk.notes.setdefault("trace_runs", []).append(
                {"label": label, "traces": len(batch), "events": len(evs), "wall_s": round(v["wall_s"], 1)})
            for tid, line, clause, detail in v["rejects"]:
                sc = by_tid.get(tid)
                chk.violation(classify(sc, clause) if sc else {"clause": clause},
                              {"scenario": sc, "clause": clause, "detail": detail[:3000],
                               "event": evs[line - 1] if 0 < line <= len(evs) else None})
        for sc in scenarios:
            lens = [len(m["d"]) for m in sc["mesh"]]
            sig = [sc["def"]["types"], sc["def"]["haveFq"], sc["def"]["hollow"], sc["def"]["nmodes"],
                   sc["def"]["valid"], lens, sc["cutoff"], sc["dim"], sc["kind"], sc["mode"],
                   sc["partition"], [m["d"][:1] for m in sc["mesh"]]]
            nontrivial = sum(1 for L in lens if L != 1) > 0
            chk.case(sig, nontrivial,
                     sample={"origin": sc["origin"], "lens": lens, "partition": sc["partition"],
                             "cutoff": sc["cutoff"], "dim": sc["dim"], "kind": sc["kind"],
                             "valid": sc["def"]["valid"], "types": sc["def"]["types"]})
    finally:
        shutil.rmtree(work, ignore_errors=True)


def design_runs(chk, thorough):
    r = vlib.tlc_must_pass("PdMesh", "PdMesh_big.cfg" if thorough else "PdMesh.cfg", timeout=3000)
    chk.add_tlc(r, "PdMesh exhaustive (%s)" % ("MaxNP=4" if thorough else "MaxNP=3"))
    if r["violated"]:
        chk.design_violation(r, "PdMesh", {"class": "design"})
    w = vlib.tlc("PdMesh", "PdMesh_asWritten.cfg", timeout=1200)
    if w["violated"] != "DefiningMean":
        raise vlib.Machinery("vacuity control: the as-written variant should violate DefiningMean, got %s / %s"
                             % (w["violated"], w["error"]))
    chk.notes["vacuity_control"] = "PdMesh_asWritten.cfg violates DefiningMean as it must"


def make_scenarios(tier, seed):
    rng = random.Random(seed)
    thorough = tier == "thorough"
    scen = []
    tid = 0
    skipped = 0
    for cfg, num in (("PdMeshGen.cfg", 6000 if thorough else 500),
                     ("PdMeshGen6.cfg", 3000 if thorough else 250)):
        beh, _ = pc.gen_behaviours(cfg, num, seed)
        seen = set()
        for b in beh:
            k = json.dumps(b, sort_keys=True)
            if k in seen:
                continue
            seen.add(k)
            tid += 1
            sc = pc.concretise(b, tid, rng)
            if sc is None:
                skipped += 1
                continue
            scen.append(sc)
    # harness-chosen meshes on both sides of the 100-point chunk boundary
    bigs = [[99], [100], [101], [11, 9], [10, 10], [101, 1], [199], [200], [201], [25, 10], [250],
            [10, 10, 10], [5, 5, 2, 2, 2], [50, 2, 2], [7, 3, 5, 1, 2]]
    if thorough:
        bigs += [[1000], [40, 25], [10, 10, 5, 2], [3, 3, 3, 3, 3], [100, 3], [33, 3], [2, 2, 2, 2, 2],
                 [300, 2], [17, 6], [4, 5, 5]]
    for lens in bigs:
        ne = 1
        for L in lens:
            ne *= L
        parts = ["driver", pc.random_partition(ne, rng, 1), pc.random_partition(ne, rng, 3)]
        if thorough:
            parts += [pc.random_partition(ne, rng, 7), pc.random_partition(ne, rng, 2)]
        for part in parts:
            for cutoff in ([0.0, 0.0625] if len(lens) > 1 else [0.0]):
                tid += 1
                scen.append(pc.big_scenario(tid, rng, lens, partition=part, cutoff=cutoff,
                                            n_extra=rng.choice([0, 0, 2])))
    return scen, skipped


def run(chk, args):
    thorough = chk.tier == "thorough"
    if args.replay:
        with open(args.replay) as f:
            rp = json.load(f)
        sc = rp["detail"].get("scenario")
        if sc and "def" in sc:
            run_probe_scenarios(chk, [sc], "replay")
        elif sc:
            builtin_mean.run(chk, PROP, [sc], "replay")
        return
    design_runs(chk, thorough)
    scen, skipped = make_scenarios(chk.tier, chk.seed)
    chk.notes["tlc_scenarios_skipped_unrealisable"] = skipped
    run_probe_scenarios(chk, scen, "probes")
    builtin_mean.run(chk, PROP, builtin_mean.make_scenarios(chk.tier, chk.seed), "builtin")
    chk.cov["rule"] = (
        "design: TLC exhaustive over PdMesh (all scenarios np<=MaxNP, len<=3, all chunk partitions); "
        "replay: simulated PdMesh behaviours (scenario + chunk stops) mapped to dyadic probe models, "
        "plus harness-chosen meshes around the 100-point chunk seam, plus builtin models through "
        "call_kernel/call_Fq; every recorded event validated by PdMeshTrace/MeanTrace. A case is "
        "distinct by (model shape, distribution lengths, cutoff, dim, output kind, partition) and "
        "non-trivial when at least one parameter has a distribution of length != 1.")
    chk.assumptions += [
        "probe kernels are polynomials with dyadic coefficients: binary64 arithmetic is exact (guarded by FIsDyadic in the trace spec)",
        "weights of one-point distributions are 1 (as get_weights normalises them)",
        "GPU drivers (kernelcl/kernelcuda) are not exercised: no device in the sandbox",
        "TLC operator overrides in spec/IEEE.java implement IEEE-754 binary64 as java does",
    ]


if __name__ == "__main__":
    vlib.main(PROP, "model_checking", run)
