"""C04 - smeared values converge to the documented resolution integrals (weak fit: closed-form
laws evaluated by TLC).

1. TLC, exhaustive (exact integers): ResolutionLimit - the normalised width-only rule on a uniform
   grid against (1/2W) int (q+v)^k dv along every refinement ladder h, h/2, h/4, h/8, with the
   stated bound K*(h/W)*scale(f); a ten times smaller K and the un-normalised rule must fail.
2. The ladder lattice (class x relative width x polynomial; 2-D: quadratic form x anisotropic
   widths) is exported by TLC; the harness draws q and the grid offset and drives the real
   Pinhole1D / Slit1D (user-supplied fine q_calc, spacing h, h/2, h/4) and Pinhole2D (all four
   accuracy levels).
3. Every recorded ladder is validated by ResolutionLimitTrace: the expected values are the closed
   forms written in ResolutionLimitCore (truncated-normal moments for [-2.5s, +3s], slit
   integrals, elliptical Gaussian truncated at 3 sigma), the bound is linear in h.
"""
import json
import math
import os
import random
import re
import shutil
import sys

sys.path.insert(0, os.path.dirname(os.path.dirname(os.path.abspath(__file__))))
import vlib

PROP = "C04"


def design_runs(chk):
    r = vlib.tlc_must_pass("ResolutionLimit", "ResolutionLimit.cfg", timeout=1200)
    chk.add_tlc(r, "ResolutionLimit exhaustive (width-only rule, integers)")
    if r["violated"]:
        chk.design_violation(r, "ResolutionLimit", {"class": "design"})
    got = {}
    r2 = vlib.tlc_must_pass("ResolutionLimit", "ResolutionLimit_fold.cfg", timeout=1200)
    chk.add_tlc(r2, "ResolutionLimit folded window (W > q), exhaustive")
    if r2["violated"]:
        chk.design_violation(r2, "ResolutionLimit", {"class": "design-fold"})
    for cfg in ("ResolutionLimit_tight.cfg", "ResolutionLimit_asWritten.cfg", "ResolutionLimit_foldDropped.cfg"):
        w = vlib.tlc("ResolutionLimit", cfg, timeout=600)
        if w["violated"] != "ErrBound":
            raise vlib.Machinery("vacuity control %s should violate ErrBound, got %s / %s" % (cfg, w["violated"], w["error"]))
        got[cfg] = "ErrBound"
    chk.notes["vacuity_controls"] = got
    lad = vlib.parse_printed(r["out"], "LADDER")
    lad2 = vlib.parse_printed(r["out"], "LADDER2D")
    if len(lad) < 100 or len(lad2) < 100:
        raise vlib.Machinery("ladder lattice export incomplete: %d / %d" % (len(lad), len(lad2)))
    lad.sort(key=lambda c: json.dumps(c, sort_keys=True))
    lad2.sort(key=lambda c: json.dumps(c, sort_keys=True))
    return lad, lad2


def concretise(cell, tid, rng):
    """Inputs only: data points, widths, and the spacing / extent of the supplied q_calc grids."""
    if cell["cls"] == "pinhole2d":
        n = 5
        qx = [rng.choice([-1, 1]) * rng.uniform(0.01, 0.3) for _ in range(n)]
        qy = [rng.choice([-1, 1]) * rng.uniform(0.01, 0.3) for _ in range(n)]
        qa = [math.hypot(x, y) for x, y in zip(qx, qy)]
        dqx = [float(cell["relr"]) * x for x in qa]
        dqy = [float(cell["relt"]) * x for x in qa]
        # per-pixel widths: on two of three ladders one pixel has no tangential, another no radial width (the average
        # is then over a line along, resp. across, the q direction)
        if tid % 3 != 2:
            dqy[tid % n] = 0.0
            dqx[(tid + 2) % n] = 0.0
        return {"tid": tid, "op": "ladder2d", "cell": cell, "qx": qx, "qy": qy, "dqx": dqx, "dqy": dqy,
                "A": [float(x) for x in cell["A"]], "c0": float(cell["c0"]),
                "accs": ["low", "med", "high", "xhigh"]}
    q0 = rng.choice([0.01, 0.05, 0.1, 0.3])
    q = [q0, 1.5 * q0, 2.25 * q0]
    rel, rel2 = float(cell["rel"]), float(cell["rel2"])
    job = {"tid": tid, "op": "ladder", "cell": cell, "cls": cell["cls"], "q": q,
           "coef": [float(c) for c in cell["coef"]]}
    if cell["cls"] == "pinhole":
        sig = [rel * x for x in q]
        job["sigma"] = sig
        lo, hi, wid = min(x - 2.5 * s for x, s in zip(q, sig)), max(x + 3 * s for x, s in zip(q, sig)), min(sig)
    elif cell["cls"] == "slitL":
        L = rel * q0
        job.update({"L": L, "W": 0.0})
        lo, hi = q[0], math.hypot(q[-1], L)
        wid = min(math.hypot(x, L) - x for x in q)
    elif cell["cls"] == "slitW":
        W = rel * q0
        if rel > 1:
            # q < W: the window of |q+v| is folded at zero.  The first data point is tiny so that the
            # library's low-q cutoff (0.02*min(q)) removes a negligible part of [0, W-q].
            q = [0.001 * q0, 0.4 * q0, q0, 1.5 * q0, 2.25 * q0]
            job["q"] = q
        job.update({"L": 0.0, "W": W})
        lo, hi, wid = max(0.0, q[0] - W), q[-1] + W, W
    else:
        L, W = rel * q0, rel2 * q0
        job.update({"L": L, "W": W})
        lo, hi = q[0] - W, math.hypot(q[-1] + W, L)
        wid = min([W] + [math.hypot(x + W, L) - (x + W) for x in q])
    h1 = float(cell["rungs"][0]) * wid
    off = rng.random()
    if cell["cls"] == "slitW" and rel > 1:
        off = 0.05 + 0.9 * off           # keep the first positive grid point clear of the cutoff
    job["rungs"] = [{"h": h1 / (2 ** k), "lo": lo, "hi": hi, "off": off} for k in range(len(cell["rungs"]))]
    return job


def dense_job(tid, rng, coef):
    """Dense data on the library's own calculation grid; widths of merged configurations (a wide block inside)."""
    lo = rng.choice([0.05, 0.1])
    hi = lo + rng.choice([0.08, 0.1])
    s1 = rng.choice([0.004, 0.006])
    return {"tid": tid, "op": "ladder_default", "cell": {"cls": "pinhole-default-grid", "coef": coef}, "lo": lo, "hi": hi,
            "s1": s1, "s2": 3.0 * s1, "wide": rng.choice([[0.55, 0.85], [0.1, 0.4], [0.8, 0.95]]),
            "coef": [float(c) for c in coef],
            "rungs": [{"h": s1 * 0.093 * 2.0 / (2 ** k)} for k in range(3)]}


def classify(job, clause, detail):
    key = {"cls": job["cell"]["cls"], "clause": clause}
    m = re.search(r'accuracy\\*", \\*"(\w+)', detail)
    if m:
        key["acc"] = m.group(1)
    return key


def run_jobs(chk, jobs, label):
    work = vlib.scratch("c04")
    try:
        nparts = min(vlib.NCPU, max(1, len(jobs) // 2))
        parts = [jobs[i::nparts] for i in range(nparts)]
        outs = vlib.run_workers_parallel("w_resolution.py", [{"jobs": p} for p in parts], work, timeout=3000)
        events = sorted((e for o in outs for e in o), key=lambda e: e["tid"])
    finally:
        shutil.rmtree(work, ignore_errors=True)
    by_tid = {}
    for j in jobs:
        if j["op"] == "ladder_default":          # one event per rung, tid*10 + rung
            for k in range(len(j["rungs"])):
                by_tid[j["tid"] * 10 + k] = j
        else:
            by_tid[j["tid"]] = j
    if set(e["tid"] for e in events) != set(by_tid):
        raise vlib.Machinery("worker lost events")
    for e in events:
        e.pop("where", None)
    B = 400
    margins = chk.notes.setdefault("worst_err_over_bound", {})
    seen = {}
    rejected_tids = set()
    for i in range(0, len(events), B):
        batch = events[i:i + B]
        v = vlib.validate_trace("ResolutionLimitTrace", batch, timeout=3000, heap="3g")
        chk.cov["traces_validated_against_impl"] += len(batch)
        chk.cov["transitions"] += v["states"]
        chk.notes.setdefault("trace_runs", []).append({"label": label, "ladders": len(batch), "wall_s": round(v["wall_s"], 1)})
        for m in re.finditer(r'<<"MARGIN", "([^"]+)", "([^"]+)">>', v["out"]):
            try:
                x = float(m.group(2))
            except ValueError:
                continue
            if x == x:
                margins[m.group(1)] = round(max(margins.get(m.group(1), 0.0), x), 4)
        for tid, line, clause, detail in v["rejects"]:
            job = by_tid[tid]
            rejected_tids.add(tid)
            key = classify(job, clause, detail)
            ks = json.dumps(key, sort_keys=True)
            seen[ks] = seen.get(ks, 0) + 1
            if seen[ks] == 1:
                chk.violation(key, {"scenario": job, "clause": clause, "detail": detail[:1500]})
    if seen:
        tot = chk.notes.setdefault("violations_by_key", {})
        for ks, cnt in seen.items():
            tot[ks] = tot.get(ks, 0) + cnt
    for j in jobs:
        c = j["cell"]
        chk.case([c, (j.get("q") or j.get("qx") or [j.get("lo")])[0], j.get("wide")], True, sample={"cell": c})
    for e in events:
        e["_accepted"] = e["tid"] not in rejected_tids
    return events


def corrupted_trace_selftest(chk, events):
    """One recorded field of one accepted ladder is perturbed: the trace module must reject it."""
    import copy
    cases = []
    for ev_name in ("Ladder", "Ladder2D"):
        for e in events:
            if e.get("_accepted") and e["ev"] == ev_name and not e["raised"] and len(e["rungs"]) >= 3:
                a = copy.deepcopy(e)
                a["rungs"][-1]["out"][0] = repr(float(a["rungs"][-1]["out"][0]) * 1.05)
                cases.append((a, "converges"))
                if ev_name == "Ladder":
                    b = copy.deepcopy(e)
                    b["rungs"][1]["h"] = repr(float(b["rungs"][1]["h"]) * 1.25)
                    cases.append((b, "refines"))
                    c = copy.deepcopy(e)
                    c["rungs"][0]["last"] = c["q"][0]
                    cases.append((c, "harness-grid"))
                break
    if not cases:
        raise vlib.Machinery("corrupted-trace self test: no accepted ladder to perturb")
    evs = []
    for k, (e, _) in enumerate(cases):
        e = {kk: vv for kk, vv in e.items() if kk != "_accepted"}
        e["tid"] = 900000 + k
        evs.append(e)
    v = vlib.validate_trace("ResolutionLimitTrace", evs, timeout=1200, heap="3g")
    got = {}
    for tid, line, clause, detail in v["rejects"]:
        got.setdefault(tid, set()).add(clause)
    for k, (e, want) in enumerate(cases):
        if want not in got.get(900000 + k, set()):
            raise vlib.Machinery("corrupted-trace self test: a perturbed %s was not rejected with '%s' (got %s)"
                                 % (e["ev"], want, sorted(got.get(900000 + k, []))))
    chk.notes["corrupted_trace_selftest"] = "%d perturbed ladders, each rejected with the expected clause" % len(cases)


def run(chk, args):
    thorough = chk.tier == "thorough"
    if args.replay:
        with open(args.replay) as f:
            rp = json.load(f)
        run_jobs(chk, [rp["detail"]["scenario"]], "replay")
        return
    lad, lad2 = design_runs(chk)
    chk.notes["ladder_cells"] = {"1d": len(lad), "2d": len(lad2)}
    rng = random.Random(chk.seed)
    cells = []
    if thorough:
        cells = lad * 6 + lad2 * 4
    else:
        by = {}
        for c in lad:
            by.setdefault(c["cls"] + ("-folded" if float(c["rel"]) > 1 and c["cls"] == "slitW" else ""), []).append(c)
        for cls in sorted(by):
            g = by[cls]
            rng.shuffle(g)
            cells += g[:11]
        g = list(lad2)
        rng.shuffle(g)
        cells += g[:16]
    jobs = [concretise(c, k + 1, rng) for k, c in enumerate(cells)]
    polys = [["0.0", "1.0"], ["1.0", "2.0", "3.0"], ["0.0", "0.0", "0.0", "1.0"], ["2.0", "-1.0", "4.0", "1.0"]]
    jobs += [dense_job(len(jobs) + 1 + k, rng, polys[k % len(polys)]) for k in range(24 if thorough else 4)]
    chk.notes["ladders"] = len(jobs)
    events = run_jobs(chk, jobs, "ladders")
    corrupted_trace_selftest(chk, events)
    chk.cov["rule"] = (
        "design: TLC exhaustive over ResolutionLimit (every q, W, grid offset, power k <= 3 and every refinement "
        "ladder of the normalised width-only rule, exact integers); replay: TLC-exported ladder lattice (class x "
        "relative width x polynomial; 2-D: quadratic form x constant x radial x tangential width) concretised with "
        "seeded q and grid offsets, three rungs h, h/2, h/4 (2-D: four accuracy levels), every ladder validated by "
        "ResolutionLimitTrace against the closed forms. A case is distinct by (lattice cell, q scale).")
    chk.assumptions += [
        "test intensities are polynomials of degree <= 4 (2-D: even quadratic forms plus a constant): a subset of the "
        "property's smooth family for which the documented integrals have closed forms",
        "pinhole and length+width windows stay on the positive axis (sigma <= 0.3 q, W <= 0.6 q); the width-only "
        "slit is also driven with W = 1.2 q0 and 2 q0 over data points below and above W (folded integrand |q+v|), "
        "with a first data point of 0.001 q0 so that the library's low-q cutoff 0.02*min(q) removes a negligible part",
        "length+width: the expected value is the documented (2*30+1)-point rule in the width direction, which is "
        "within 0.5% of scale(f) of the double integral (checked for even polynomials) but does not converge to it",
        "bounds are 5x the worst error measured on the tree with the C03 repairs applied (constants and "
        "calibration in ResolutionLimitCore.tla)",
        "FErf of spec/IEEE.java (Cody) is accurate to 1e-16; closed forms are evaluated in binary64",
    ]


if __name__ == "__main__":
    vlib.main(PROP, "exploration", run)
