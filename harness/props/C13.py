"""C13 - particle models are dimensionally consistent with their declared units  (weak fit).

1. TLC, exhaustive (spec/Units.tla): the unit-exponent algebra - any sequence of rescalings is
   the rescaling by the product, and every observable homogeneous in the declared dimensions obeys
   I-bkg -> lambda^3 mu^2 (I-bkg), R_eff -> lambda R_eff, V -> lambda^3 V, ratio unchanged.
   Units_mislabel.cfg (one parameter used with an exponent one off its label) MUST violate Law.
2. Binding (spec/UnitsTrace.tla), all decisions by TLC:
   pass 0  parameter tables exported from the working tree  -> Eligible(model) + reason
   pass 1  base observations (random parameter sets)          -> rescaled requests for
           lambda, mu in {1/2, 2, 4} computed by TLC from the exported table
   pass 2  (base, request, observation at the request) pairs  -> laws checked, Near(1e-12)
   diagnosis for models that violate a law: TLC enumerates the one- and two-parameter
   relabellings, the harness evaluates its requests, TLC reports the minimal relabellings
   under which the model is consistent - i.e. which label is wrong.
Python only moves data between TLC and the workers.
"""
import json
import os
import shutil
import sys
import time
from concurrent.futures import ThreadPoolExecutor

sys.path.insert(0, os.path.dirname(os.path.dirname(os.path.abspath(__file__))))
import vlib

PROP = "C13"
WORKER = "w_units.py"
LAW_CLAUSES = ("intensity-law", "reff-law", "volume-law")


class Stages:
    def __init__(self, chk):
        self.chk, self.t = chk, time.time()

    def mark(self, name):
        now = time.time()
        self.chk.notes.setdefault("stage_s", {})[name] = round(now - self.t, 1)
        self.t = now


def worker_events(script, req, dll_dir, what):
    os.makedirs(dll_dir, exist_ok=True)
    evs = vlib.run_worker(script, req, dll_dir, timeout=3000)
    for e in evs:
        if e.get("ev") == "HarnessError":
            raise vlib.Machinery("%s worker error (%s): %s\n%s" % (script, what, e["error"], e.get("tb", "")))
    return evs


def parallel(jobs):
    """jobs: list of (script, request, dll_dir, label) -> list of event lists."""
    with ThreadPoolExecutor(max_workers=vlib.NCPU) as ex:
        futs = [ex.submit(worker_events, *j) for j in jobs]
        return [f.result() for f in futs]


def tlc_pass(chk, events, label):
    """Run UnitsTrace on events; returns (rejects, output)."""
    v = vlib.validate_trace("UnitsTrace", events, timeout=3000)
    chk.cov["transitions"] += v["states"]
    chk.notes.setdefault("trace_runs", []).append(
        {"label": label, "events": len(events), "wall_s": round(v["wall_s"], 1)})
    return v["rejects"], v["out"]


def batched(chk, events, label, size=600):
    rejects, outs = [], []
    for i in range(0, len(events), size):
        part = events[i:i + size]
        rj, out = tlc_pass(chk, part, label)
        rejects += [(tid, i + line, clause, detail) for tid, line, clause, detail in rj]
        outs.append(out)
    return rejects, "\n".join(outs)


def unique_requests(out):
    seen, reqs = set(), []
    for r in vlib.parse_printed(out, "REQ"):
        if not isinstance(r, dict):
            raise vlib.Machinery("unparsable REQ line from TLC: %r" % (r,))
        k = json.dumps([r["tid"], r["lam"], r["mu"], r["ov"]])
        if k not in seen:
            seen.add(k)
            reqs.append(r)
    return reqs


def evaluate_requests(reqs, work, per_job=12):
    """Evaluate TLC's requests with the worker (model libraries were built in the base stage, so
    several read-only workers may share a model's directory)."""
    by_model = {}
    for k, r in enumerate(reqs):
        r["rid"] = k
        by_model.setdefault(r["model"], []).append(r)
    jobs = []
    for m, rs in by_model.items():
        for i in range(0, len(rs), per_job):
            part = [{"rid": r["rid"], "model": m, "dim": r["dim"], "pars": r["pars"], "qs": r["qs"]}
                    for r in rs[i:i + per_job]]
            jobs.append((WORKER, {"op": "eval", "requests": part}, os.path.join(work, "m_" + m), "eval " + m))
    res = {}
    for evs in parallel(jobs):
        for e in evs:
            res[e["rid"]] = e["res"]
    missing = [r["rid"] for r in reqs if r["rid"] not in res]
    if missing:
        raise vlib.Machinery("no evaluation for %d requests" % len(missing))
    return res


def pair_events(kind, bases, reqs, res):
    by_tid = {b["tid"]: b for b in bases}
    out = []
    for r in reqs:
        b = by_tid[r["tid"]]
        out.append({"ev": kind, "tid": r["tid"], "model": r["model"], "dim": r["dim"],
                    "table": b["table"], "lam": r["lam"], "mu": r["mu"], "ov": r["ov"],
                    "base": {"pars": b["pars"], "qs": b["qs"], "res": b["res"]},
                    "scaled": {"pars": r["pars"], "qs": r["qs"], "res": res[r["rid"]]}})
    return out


def nontrivial(b):
    bkg = float(b["pars"]["background"])
    return any(x == x and abs(x) != float("inf") and x != bkg for x in map(float, b["res"]["I"]))


def diagnose(chk, model, bases, work):
    """Ask TLC which relabelling would make `model` consistent.  Returns the DIAGNOSIS record."""
    # two 1-D base observations, restricted to two of their q values (q*size = 0.4 and 5): a
    # sub-observation of what was recorded, to keep the candidate sweep cheap
    dbase = []
    def mesh_points(b):
        n = 1
        for k, v in b["pars"].items():
            if k.endswith("_pd_n"):
                n *= max(1, int(float(v)))
        return n
    cands = [x for x in bases if x["model"] == model and x["dim"] == "1d" and not x["res"]["raised"]]
    cands.sort(key=lambda b: (mesh_points(b) > 100, b["tid"]))       # large meshes last: the sweep has many requests
    for b in cands[:2]:
        d = dict(b, ev="DiagBase", qs={"q": [b["qs"]["q"][1], b["qs"]["q"][3]]})
        d["res"] = dict(b["res"], I=[b["res"]["I"][1], b["res"]["I"][3]])
        dbase.append(d)
    if not dbase:
        return {"model": model, "tried": 0}
    _, out = tlc_pass(chk, dbase, "diagnosis requests " + model)
    reqs = unique_requests(out)
    if not reqs:
        return {"model": model, "tried": 0, "all": [], "intensity": [], "other_degree": [],
                "reff_fails_under": [], "volume_fails_under": []}
    res = evaluate_requests(reqs, work, per_job=max(12, len(reqs) // 12))
    evs = pair_events("DiagPair", dbase, reqs, res)
    evs.append({"ev": "DiagEnd", "tid": dbase[-1]["tid"], "model": model})
    rejects, out = tlc_pass(chk, evs, "diagnosis " + model)
    if rejects:
        raise vlib.Machinery("diagnosis trace rejected for %s: %s" % (model, rejects[:2]))
    d = vlib.parse_printed(out, "DIAGNOSIS")
    if not d or not isinstance(d[-1], dict):
        raise vlib.Machinery("no DIAGNOSIS line for %s" % model)
    return d[-1]


def design_runs(chk):
    if chk.tier == "thorough":
        r = vlib.tlc_must_pass("Units", "Units.cfg", timeout=1800)
        chk.add_tlc(r, "Units algebra exhaustive (3 parameters x 8 dimensions, 2 rescalings)")
    else:
        r = vlib.tlc_must_pass("Units", "Units_quick.cfg", timeout=1800)
        chk.add_tlc(r, "Units algebra exhaustive (2 parameters x 8 dimensions, 3 rescalings)")
    if r["violated"]:
        chk.design_violation(r, "Units", {"class": "design"})
    w = vlib.tlc("Units", "Units_mislabel.cfg", timeout=600)
    if w["violated"] != "Law":
        raise vlib.Machinery("vacuity control: a mislabelled parameter must violate Law, got %s / %s"
                             % (w["violated"], w["error"]))
    chk.notes["vacuity_control"] = "Units_mislabel.cfg (label one power off) violates Law as it must"


def unit_of(table, name):
    for r in table["rows"]:
        if r["name"] == name:
            return r["units"]
    return None


def report_model(chk, model, clauses, first, diag, table, scen):
    """Turn TLC's rejects + diagnosis for one model into violations keyed by (model, parameter)."""
    label_fault = [c for c in clauses if c in LAW_CLAUSES]
    for c in clauses:
        if c not in LAW_CLAUSES:
            chk.violation({"model": model, "parameter-or-class": c},
                          {"scenario": scen, "clause": c, "first": first.get(c)})
    if not label_fault:
        return
    base_detail = {"scenario": scen, "clauses": label_fault, "diagnosis": diag,
                   "first": {c: first.get(c) for c in label_fault}}
    cands_all = diag.get("all") or []
    cands_I = diag.get("intensity") or []
    other = diag.get("other_degree") or []
    degree = None
    if cands_all:
        cands, restores = cands_all, "all laws"
    elif cands_I and "intensity-law" in label_fault:
        cands, restores = cands_I, "the intensity law only: R_eff/volume use the parameter differently"
    elif other and "intensity-law" in label_fault:
        degs = sorted({d for _, d in other})
        ovs = [ov for ov, d in other if d == degs[0]]
        degree = degs[0] if len(degs) == 1 else None
        cands = ovs if degree is not None else []
        restores = "homogeneity of I - bkg, but with length degree %s instead of 3" % degree
    else:
        cands, restores = [], ""
    if not cands and degree is None:
        chk.violation({"model": model, "parameter-or-class": "no-consistent-relabelling:" + "+".join(label_fault)},
                      dict(base_detail, note="no relabelling of at most two parameters makes the outputs homogeneous"))
        return
    if degree is not None:
        chk.violation({"model": model, "parameter-or-class": "intensity-degree:%d" % degree},
                      dict(base_detail, note="I - bkg scales as lambda^%d, not lambda^3, under the relabelling %s"
                           % (degree, cands)))
    cands = [c for c in cands if c]
    if cands:
        # parameters named by every minimal candidate are the mislabelled ones; when the candidates
        # disagree the class is reported as ambiguous with all of them
        names = sorted({tuple(sorted(n for n, _ in c)) for c in cands})
        if len(names) != 1:
            chk.violation({"model": model, "parameter-or-class": "ambiguous:" + "|".join(sorted({n for c in names for n in c}))},
                          dict(base_detail, candidates=cands))
        else:
            for name in names[0]:
                fits = sorted({e for c in cands for n, e in c if n == name})
                chk.violation({"model": model, "parameter-or-class": name},
                              dict(base_detail, parameter=name, declared_unit=unit_of(table, name),
                                   length_exponent_consistent_with_kernel=fits, restores=restores,
                                   candidates=cands))
    if not cands_all:
        # outputs that stay inconsistent under the relabelling that repairs the intensity
        for field, c in (("reff_fails_under", "reff-law"), ("volume_fails_under", "volume-law")):
            if diag.get(field):
                chk.violation({"model": model, "parameter-or-class": "output:" + c},
                              dict(base_detail, note="%s does not hold under the relabelling %s that makes "
                                   "the intensity homogeneous" % (c, diag[field])))


def run(chk, args):
    thorough = chk.tier == "thorough"
    n_sets, n_sets_2d = (20, 20) if thorough else (3, 2)
    # VERIF_MODELS=a,b restricts the run to these models (self-tests on scratch copies)
    only = [m for m in os.environ.get("VERIF_MODELS", "").split(",") if m] or None
    if args.replay:
        with open(args.replay) as f:
            rp = json.load(f)
        sc = rp["detail"]["scenario"]
        only, n_sets, n_sets_2d, chk.seed = sc["models"], sc["n_sets"], sc["n_sets_2d"], sc["seed"]
    stages = Stages(chk)
    if not args.replay:
        design_runs(chk)
    stages.mark("design")
    work = vlib.scratch("c13")
    try:
        # ---- pass 0: tables of the working tree, eligibility decided by TLC
        tables = worker_events(WORKER, {"op": "tables", "models": only}, os.path.join(work, "tables"), "tables")
        rejects, out = tlc_pass(chk, tables, "tables")
        for tid, line, clause, detail in rejects:
            if clause != "shown-unit-differs-from-declared":
                raise vlib.Machinery("table events rejected: %s" % rejects[:3])
            t = tables[line - 1]
            chk.violation({"clause": clause, "model": t["model"]},
                          {"scenario": {"models": [t["model"]], "n_sets": 1, "n_sets_2d": 0, "seed": chk.seed},
                           "clause": clause, "detail": detail[:1500]})
        verdict = {v["model"]: v for v in vlib.parse_printed(out, "ELIGIBLE")}
        if set(verdict) != set(t["model"] for t in tables):
            raise vlib.Machinery("TLC did not judge every table")
        stages.mark("tables")
        tab = {t["model"]: t for t in tables}
        shape = sorted(m for m in tab if tab[m]["cat_head"] == "shape")
        eligible = [m for m in shape if verdict[m]["eligible"]]
        chk.notes["shape_models"] = len(shape)
        chk.notes["eligible_models"] = eligible
        chk.notes["excluded_shape_models"] = {m: verdict[m]["why"] for m in shape if not verdict[m]["eligible"]}
        if only is None and len(eligible) < 30:
            raise vlib.Machinery("only %d eligible shape models - table export broken?" % len(eligible))

        # ---- pass 1: base observations; TLC computes the rescaled requests
        jobs, tid = [], 1
        for m in eligible:
            jobs.append((WORKER, {"op": "base", "model": m, "n_sets": n_sets, "n_sets_2d": n_sets_2d,
                                  "seed": chk.seed, "first_tid": tid}, os.path.join(work, "m_" + m), "base " + m))
            tid += n_sets + n_sets_2d
        bases = [e for evs in parallel(jobs) for e in evs]
        bases.sort(key=lambda e: e["tid"])
        stages.mark("base observations")
        rejects, out = batched(chk, bases, "base -> requests", 400)
        if rejects:
            raise vlib.Machinery("base events rejected: %s" % rejects[:3])
        reqs = unique_requests(out)
        skipped = vlib.tla_value_scan(out, "SKIP")
        chk.notes["base_sets"] = len(bases)
        chk.notes["base_sets_skipped_unusable"] = len(set(skipped))
        chk.notes["requests_from_tlc"] = len(reqs)
        if len(reqs) < 9 * (len(bases) - len(set(skipped))):
            raise vlib.Machinery("TLC produced %d requests for %d usable base sets" % (len(reqs), len(bases)))

        # ---- pass 2: evaluate exactly the requests, TLC judges the pairs
        stages.mark("requests from TLC")
        res = evaluate_requests(reqs, work)
        stages.mark("evaluate requests")
        pairs = pair_events("Pair", bases, reqs, res)
        rejects, out = batched(chk, pairs, "pairs", 600)
        chk.cov["traces_validated_against_impl"] += len(pairs)
        stages.mark("pairs judged by TLC")
        by_tid = {b["tid"]: b for b in bases}
        for p in pairs:
            b = by_tid[p["tid"]]
            npd = sum(1 for k in b["pars"] if k.endswith("_pd_n"))
            chk.case([p["model"], p["dim"], p["tid"], p["lam"], p["mu"]], nontrivial(b),
                     sample={"model": p["model"], "dim": p["dim"], "lambda": p["lam"], "mu": p["mu"],
                             "dispersed_parameters": npd, "nq": len(b["res"]["I"])})
        placeholder = sorted({p["model"] for p in pairs
                              if p["base"]["res"]["vshell"] == "1.0" and p["scaled"]["res"]["vshell"] == "1.0"
                              and any(r["type"] == "volume" for r in p["table"]["rows"])})
        chk.notes["models_with_constant_unit_volume_not_subject_to_volume_law"] = placeholder

        # ---- verdicts
        per_model, first = {}, {}
        for tid_, line, clause, detail in rejects:
            p = pairs[line - 1]
            if clause in ("request-not-followed", "request-not-followed-q", "q-outside-window",
                          "not-eligible", "base-unusable", "factor-not-in-spec", "background-changed"):
                raise vlib.Machinery("harness fault flagged by UnitsTrace: %s %s %s" % (clause, p["model"], detail[:500]))
            per_model.setdefault(p["model"], set()).add(clause)
            first.setdefault(p["model"], {}).setdefault(clause, {
                "tid": p["tid"], "dim": p["dim"], "lambda": p["lam"], "mu": p["mu"],
                "base_pars": p["base"]["pars"], "qs": p["base"]["qs"], "detail": detail[:1500]})
        chk.notes["models_violating"] = {m: sorted(c) for m, c in sorted(per_model.items())}
        chk.notes["models_consistent"] = [m for m in eligible if m not in per_model]
        todo = [m for m in sorted(per_model) if per_model[m] & set(LAW_CLAUSES)]
        with ThreadPoolExecutor(max_workers=max(1, min(8, len(todo)))) as ex:
            diags = dict(zip(todo, ex.map(lambda m: diagnose(chk, m, bases, work), todo)))
        chk.notes["diagnoses"] = diags
        for m in sorted(per_model):
            scen = {"models": [m], "n_sets": n_sets, "n_sets_2d": n_sets_2d, "seed": chk.seed}
            report_model(chk, m, sorted(per_model[m]), first[m], diags.get(m, {}), tab[m], scen)
        stages.mark("diagnosis")
    finally:
        shutil.rmtree(work, ignore_errors=True)
    chk.cov["rule"] = (
        "design: TLC exhaustive over Units (3 parameters over all 8 declared dimensions, every "
        "sequence of 2 rescalings with lambda, mu in {1/2,1,2,4}); binding: every shape:* model TLC "
        "judges Eligible x parameter sets from the model's random() (or compare.randomize_pars) x "
        "{mono, 2 dispersed sizes, non-zero background} x (lambda, mu) in {1/2,2,4}^2 x 5 q with "
        "q*size in [0.1, 20], 1-D and (oriented models) 2-D; one case = one (base, request, "
        "observation) pair judged by UnitsTrace; non-trivial when some I-bkg is finite and non-zero.")
    chk.assumptions += [
        "lambda, mu are powers of two: the rescaled evaluation repeats the same binary64 operations on exactly scaled operands (observed <= 5e-15), tolerance 1e-12 in the spec",
        "scale and background are common parameters, not model parameters: both are left unchanged and the law is stated on I - background",
        "magnetic parameters stay at their defaults (0): the property is about nuclear scattering",
        "a constant form_volume of exactly 1 is a declared placeholder (lamellar phases, raspberry), not a reported volume",
        "weak fit: TLC evaluates closed-form laws on observations; the exhaustive part is the exponent algebra only",
        "TLC operator overrides in spec/IEEE.java implement IEEE-754 binary64 as java does",
    ]


if __name__ == "__main__":
    vlib.main(PROP, "exploration", run)
