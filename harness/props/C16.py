"""C16 - a reparameterised model equals its base model at the translated parameters.

1. TLC, exhaustive (Reparam.tla over ReparamCore): every derivation of a 2-4 parameter base table
   with 1-2 removed and 1-2 new parameters and every insert_after placement (incl. erroneous ones:
   unknown name, placed twice, not placed): untouched parameters keep name and order, each new
   parameter appears once, the default block replaces the first removed parameter, errors rejected.
2. Replay: TLC-exported program shapes are instantiated on generated probe bases (exact arithmetic;
   Fq, hollow, effective-radius modes, validity region) and on builtin bases (spherical, oriented,
   hollow, constrained, triaxial) with translations drawn from an expression grammar (affine,
   product, quotient, intermediate variable).
3. Trace validation: ReparamTrace checks the derived table against Derive, evaluates the
   translation itself over IEEE, checks the base model was evaluated at T(x), and requires the
   derived model's I (1-D and 2-D), <F>, <F^2>, R_eff, volume and ratio to equal the base model's;
   dispersity on new parameters is validated by MeanTrace with base evaluations at T(mesh point) as
   the points (so invalid regions are the base model's region expressed in the new parameters).
"""
import json
import os
import random
import shutil
import sys

sys.path.insert(0, os.path.dirname(os.path.dirname(os.path.abspath(__file__))))
import vlib
import probe
from pdmesh_common import split

PROP = "C16"
BASES = ["sphere", "ellipsoid", "cylinder", "hollow_cylinder", "capped_cylinder", "barbell", "core_shell_sphere",
         "parallelepiped", "triaxial_ellipsoid", "vesicle"]


def run(chk, args):
    thorough = chk.tier == "thorough"
    r = vlib.tlc_must_pass("Reparam", "Reparam.cfg", timeout=1200)
    chk.add_tlc(r, "Reparam derivations (650 program shapes)")
    if r["violated"]:
        chk.design_violation(r, "Reparam")
    rs = vlib.tlc_must_pass("Subst", "Subst.cfg", timeout=1200)
    chk.add_tlc(rs, "Subst: pasted translation text means the substituted tree (every expression of depth <= 2)")
    if rs["violated"]:
        chk.design_violation(rs, "Subst", {"class": "design-subst"})
    ws = vlib.tlc("Subst", "Subst_bare.cfg", timeout=600)
    if ws["violated"] != "PasteMeansSubstitution":
        raise vlib.Machinery("vacuity control: Subst_bare (translations pasted without parentheses) should violate "
                             "PasteMeansSubstitution, got %s / %s" % (ws["violated"], ws["error"]))
    chk.notes["vacuity_control_subst"] = "Subst_bare.cfg violates PasteMeansSubstitution as it must"
    progs = vlib.parse_printed(r["out"], "PROGRAMS")[0]["progs"]
    progs.sort(key=lambda p: json.dumps(p, sort_keys=True))
    rng = random.Random(chk.seed)
    if args.replay:
        scen = [json.load(open(args.replay))["detail"]["scenario"]]
    else:
        rng.shuffle(progs)
        n = len(progs) if thorough else 72
        scen = []
        for k, p in enumerate(progs[:n]):
            tid = k + 1
            if k % 3 == 0:
                types = (["volume", "volume", "", "volume"] if k % 2 else ["volume", "", "", ""])[:max(2, len(p["base"]))]
                d = probe.make_def("vrb%d" % tid, types, haveFq=(k % 2 == 0), hollow=(k % 4 == 0), nmodes=2,
                                   valid=rng.choice([(0,), (2, 0, 1)]))
                scen.append({"tid": tid, "probe": d, "shape": p, "seed": rng.randrange(1 << 30)})
                if k % 12 == 0:
                    # the base's validity region is a difference of two parameters bounded from above and the
                    # translation of the subtracted one is a sum written without enclosing parentheses
                    d["valid"] = [3, 0, 1, 0.5]
                    scen[-1]["directed"] = "valid-region"
            else:
                scen.append({"tid": tid, "base": BASES[k % len(BASES)], "shape": p, "seed": rng.randrange(1 << 30)})
            # every fourth derivation: an intermediate variable in the translation and a new parameter that keeps the
            # (dispersible) type of the one it replaces, so that the dispersity mean over a new parameter is taken
            if k % 4 == 1:
                scen[-1]["directed"] = "intermediate+dispersed"
    work = vlib.scratch("c16")
    try:
        reqs = [{"workdir": os.path.join(work, "m%d" % k), "scenarios": part} for k, part in enumerate(split(scen, vlib.NCPU))]
        outs = vlib.run_workers_parallel("w_reparam.py", reqs, work, timeout=3000)
        evs = sorted([e for o in outs for e in o], key=lambda e: e["tid"])
        herr = [e for e in evs if e["ev"] == "HarnessError"]
        if herr:
            raise vlib.Machinery("reparam worker: %s %s\n%s" % (herr[0]["model"], herr[0]["error"], herr[0]["tb"]))
        by = {s["tid"]: s for s in scen}
        ra = [e for e in evs if e.get("trace") == "reparam"]
        me = [{k: v for k, v in e.items() if k != "trace"} for e in evs if e.get("trace") == "mean"]
        for module, part in (("ReparamTrace", ra), ("MeanTrace", me)):
            if not part:
                continue
            v = vlib.validate_trace(module, part, timeout=3000)
            chk.cov["traces_validated_against_impl"] += len(part)
            chk.cov["transitions"] += v["states"]
            for tid, line, clause, detail in v["rejects"]:
                e = part[line - 1]
                chk.violation({"clause": clause, "event": e["ev"], "base": e["model"] if not by[tid].get("probe") else "probe"},
                              {"scenario": by[tid], "clause": clause, "detail": detail[:2500],
                               "translation": e.get("translation")})
        for e in evs:
            if e["ev"] == "Derive":
                chk.case(["derive", e["base"], e["remove"], e["new"], e["ia"]], nontrivial=True,
                         sample={"base": e["model"], "remove": e["remove"], "new": e["new"], "insert_after": e["ia"],
                                 "outcome": e["outcome"], "table": e["table"], "translation": e["translation"]})
            elif e["ev"] == "Point":
                chk.case(["point", e["model"], e["dim"], e["env"], e["translation"]], nontrivial=True)
            else:
                chk.case(["mean", e["model"], e["weights"]], nontrivial=True)
    finally:
        shutil.rmtree(work, ignore_errors=True)
    chk.cov["rule"] = (
        "design: TLC over all 650 program shapes; replay: shapes instantiated on probe bases (every third) and on "
        "10 builtin bases with translations from the grammar {c*x, c1*x+c2*y, x*y, x/y, intermediate variable}; "
        "per derivation one Derive event, Point events in 1-D and 2-D, and a Mean event with dispersity on a new "
        "volume parameter.")
    chk.assumptions += [
        "probe arithmetic is exact (bit equality); builtin bases compared at 1e-13 (same base code in two translation units)",
        "translations use + - * / of parameters and dyadic constants; C math functions in translations are not generated",
        "vector parameters and orientation parameters are never the removed ones",
    ]


if __name__ == "__main__":
    vlib.main(PROP, "model_checking", run)
