"""C18 - building a model is atomic under concurrent first use and crashes.

1. TLC, exhaustive: Build.tla with the atomic protocol (3-4 processes, <= 2 kills, compiler child
   dying or surviving) satisfies NoPartialLoad, EveryoneGetsAKernel, NothingPartialLeft,
   FinalNeverPartial and termination; the in-place protocol must fail (vacuity control).
2. Specification -> code: schedules exported by TLC (BuildGen) are executed by real processes
   running kerneldll.make_dll / DllModel._load_dll against one cache directory; a scripted
   compiler (harness/fakecc) and wrapped seams (os.path.exists, os.replace, os.unlink, ct.CDLL as
   seen by kerneldll) stop at sync points which the scheduler releases in TLC's order, with
   SIGKILL at the schedule's crash steps.
3. Code -> specification: after every step the state of the final library path and of private
   compiler outputs is logged; BuildTrace requires every event to be the named Build action,
   enabled, with the observed files equal to the specification's next state, and every surviving
   process to return the solitary reference value.
"""
import json
import os
import random
import shutil
import signal
import subprocess
import sys
import time
from concurrent.futures import ThreadPoolExecutor

sys.path.insert(0, os.path.dirname(os.path.dirname(os.path.abspath(__file__))))
import vlib
import probe

PROP = "C18"
STEP_TIMEOUT = 25.0


def make_model(directory, version=1):
    """version 2 differs in one constant (c0), so sources, library names and values all differ"""
    d = probe.make_def("vpbuild", ["volume", ""])
    d["c0"] = float(version)
    return probe.write_c(d, directory)


def reference(work, modelpath, tag=""):
    """Solitary load in a fresh cache with the normal compiler: value, final file name, size."""
    cache = os.path.join(work, "refcache" + tag)
    os.makedirs(cache)
    code = ("import json, numpy as np\nfrom sasmodels import core\n"
            "from sasmodels.direct_model import call_kernel\n"
            "m = core.load_model(%r, dtype='double', platform='dll')\n"
            "k = m.make_kernel([np.array([0.125, 0.5])])\n"
            "v = call_kernel(k, {'p1': 2.0, 'p2': 3.0, 'scale': 1.0, 'background': 0.0})\n"
            "print(json.dumps([repr(float(x)) for x in v]))\n" % modelpath)
    p = subprocess.run([vlib.VENV_PY, "-c", code], capture_output=True, text=True,
                       env=vlib.worker_env(cache), timeout=300)
    if p.returncode != 0:
        raise vlib.Machinery("reference build failed: " + p.stderr[-2000:])
    value = json.loads(p.stdout.strip().splitlines()[-1])
    names = [f for f in os.listdir(cache) if f.endswith(".so")]
    if len(names) != 1:
        raise vlib.Machinery("reference cache holds %s" % names)
    return value, names[0], os.path.getsize(os.path.join(cache, names[0]))


class Sched:
    """Executes one schedule with real processes."""
    MKDIR_STEP = True       # the cache directory does not exist beforehand; its creation is a step of the schedule

    def __init__(self, tid, steps, work, modelpath, refvalue, finalname):
        self.tid = tid
        self.steps = steps
        self.dir = os.path.join(work, "s%d" % tid)
        self.ctl = os.path.join(self.dir, "ctl")
        self.cache = os.path.join(self.dir, "cache")
        self.tmp = os.path.join(self.dir, "tmp")
        for d in (self.ctl, self.tmp) + (() if self.MKDIR_STEP else (self.cache,)):
            os.makedirs(d)
        self.modelpath = modelpath
        self.ref = refvalue
        self.finalname = finalname
        self.procs = {}
        self.seen = {}
        self.released = {}
        self.events = [{"tid": tid, "ev": "begin"}]
        self.stuck = ""

    # -- file system observation
    def observe(self):
        full = None
        fs = os.path.join(self.ctl, "fullsize")
        if os.path.exists(fs):
            try:
                full = int(open(fs).read())
            except ValueError:
                full = None
        final = "absent"
        npp = 0
        for f in (os.listdir(self.cache) if os.path.isdir(self.cache) else []):
            path = os.path.join(self.cache, f)
            try:
                size = os.path.getsize(path)
            except OSError:
                continue
            complete = full is not None and size == full
            if f == self.finalname:
                final = "complete" if complete else "partial"
            elif not f.endswith(".c"):
                if not complete:
                    npp += 1
        return final, npp

    def reached(self, p):
        return set(f for f in os.listdir(self.ctl) if f.startswith(p + ".") and
                   (f.endswith(".reached") or f.endswith(".result")))

    def wait_new(self, p, want=None):
        """Wait until process p shows sync point `want` (or, without `want`, any sync point or
        result not yet acknowledged, or exits)."""
        t0 = time.time()
        ack = self.seen.setdefault(p, set())
        while time.time() - t0 < STEP_TIMEOUT:
            now = self.reached(p)
            if want is not None:
                if (p + "." + want) in now:
                    ack.add(p + "." + want)
                    return want
            else:
                new = sorted(now - ack)
                if new:
                    ack.add(new[0])
                    return new[0]
                pr = self.procs.get(p)
                if pr is not None and pr.poll() is not None:
                    time.sleep(0.05)
                    if not (self.reached(p) - ack):
                        return "exit"
            time.sleep(0.002)
        return None

    def release(self, p, point):
        open(os.path.join(self.ctl, "%s.%s.go" % (p, point)), "w").close()
        self.released.setdefault(p, set()).add(point)

    def spawn(self, p):
        env = vlib.worker_env(self.cache, {
            "VERIF_CTL": self.ctl, "VERIF_PROC": p, "CC": os.path.join(vlib.VERIF, "harness", "fakecc"),
            "VERIF_REALCC": "cc", "TMPDIR": self.tmp})
        if self.MKDIR_STEP:
            env["VERIF_MKDIR_SYNC"] = "1"
        self.procs[p] = subprocess.Popen(
            [vlib.VENV_PY, os.path.join(vlib.VERIF, "harness", "w_build.py"), self.ctl, p, self.modelpath],
            env=env, cwd=self.dir, stdout=subprocess.DEVNULL, stderr=subprocess.DEVNULL,
            start_new_session=True)

    def cc_pid(self, p):
        for point in ("ccend", "cchalf", "ccbegin"):
            f = os.path.join(self.ctl, "%s.%s.reached" % (p, point))
            if os.path.exists(f):
                try:
                    return int(open(f).read())
                except ValueError:
                    return None
        return None

    def _one_step(self, st):
        """Execute one schedule step on the real processes; False if a process did not get there."""
        p, label, kill = st["proc"], st["label"], st["kill"]
        ok = True
        if label == "idle":
            self.spawn(p)
            ok = self.wait_new(p, "start.reached") is not None
            if ok:
                self.release(p, "start")
                ok = self.wait_new(p) is not None
        elif label in ("lookup", "mkdir", "writesrc", "publish", "unlink", "dlopen", "ccbegin", "cchalf", "ccend"):
            if (p + "." + label + ".reached") not in self.reached(p):
                ok = self.wait_new(p, label + ".reached") is not None
            if ok:
                self.release(p, label)
                if label == "ccend":
                    ok = self.wait_new(p, "ccexit.reached") is not None
                    if ok:
                        ok = self.wait_new(p) is not None
                elif label in ("ccbegin", "cchalf"):
                    ok = self.wait_new(p, ("cchalf" if label == "ccbegin" else "ccend") + ".reached") is not None
                else:
                    ok = self.wait_new(p) is not None
        elif label == "crash":
            pr = self.procs[p]
            ccpid = self.cc_pid(p)
            began = "ccbegin" in self.released.get(p, set())
            done = os.path.exists(os.path.join(self.ctl, p + ".ccexit.reached"))
            try:
                os.kill(pr.pid, signal.SIGKILL)
            except OSError:
                pass
            pr.wait()
            if ccpid and not done and (kill or not began):
                try:
                    os.kill(ccpid, signal.SIGKILL)
                except OSError:
                    pass
                time.sleep(0.05)
        elif label == "cckill":
            # the compiler child alone is killed; its parent lives and must notice (it raises, or - wrongly - goes on)
            ccpid = self.cc_pid(p)
            if ccpid:
                try:
                    os.kill(ccpid, signal.SIGKILL)
                except OSError:
                    pass
            ok = self.wait_new(p) is not None
            time.sleep(0.05)
        elif label == "orphan":
            for point in ("cchalf", "ccend"):
                self.release(p, point)
            ok = self.wait_new(p, "ccexit.reached") is not None
        return ok

    def classify(self, value):
        return "ok" if value == self.ref else "wrong-value"

    def results(self):
        results = {}
        for p in ("p1", "p2", "p3", "p4"):
            pr = self.procs.get(p)
            if pr is None:
                results[p] = "idle"
                continue
            rf = os.path.join(self.ctl, p + ".result")
            t0 = time.time()
            while pr.poll() is None and time.time() - t0 < 20 and not self.stuck:
                time.sleep(0.01)
            if os.path.exists(rf):
                r = json.load(open(rf))
                if r["status"] == "ok":
                    results[p] = self.classify(r["value"])
                else:
                    results[p] = "error"
                    self.events[0].setdefault("errors", {})[p] = r.get("error", "")[:500]
            elif pr.poll() is not None and pr.returncode == -signal.SIGKILL:
                results[p] = "dead"
            else:
                results[p] = "no-result"
        return results

    def cleanup(self):
        for pr in self.procs.values():
            if pr.poll() is None:
                try:
                    os.killpg(pr.pid, signal.SIGKILL)
                except OSError:
                    pass
        # stray compilers
        for f in os.listdir(self.ctl):
            if f.endswith(".reached") and ".cc" in f:
                try:
                    os.kill(int(open(os.path.join(self.ctl, f)).read()), signal.SIGKILL)
                except (OSError, ValueError):
                    pass
        shutil.rmtree(self.dir, ignore_errors=True)

    def special_step(self, st):
        return False

    def end_event(self, results):
        return {"tid": self.tid, "ev": "end", "results": results, "stuck": self.stuck}

    def run(self):
        try:
            for st in self.steps:
                if not self.special_step(st):
                    if not self._one_step(st):
                        self.stuck = "%s before/after %s" % (st["proc"], st["label"])
                        break
                final, npp = self.observe()
                self.events.append({"tid": self.tid, "ev": "step", "proc": st["proc"], "label": st["label"],
                                    "kill": bool(st["kill"]), "v": st.get("v", 0), "final": final, "nprivpartial": npp})
            self.events.append(self.end_event(self.results()))
        finally:
            self.cleanup()
        return self.events


class PipeSched(Sched):
    MKDIR_STEP = False

    """Sched + Edit steps (growth: Pipeline.tla): the definition file is rewritten between process
    steps; one final library name per source version."""

    def __init__(self, tid, steps, work):
        self.mdir = os.path.join(work, "pm%d" % tid)
        os.makedirs(self.mdir)
        # library names embed the hash of the generated source, which names the definition file's
        # path: the solitary references are taken at this schedule's own path, for both versions
        refs = {}
        for v in (2, 1):
            modelpath = make_model(self.mdir, v)
            refs[v] = reference(work, modelpath, tag="-%d-v%d" % (tid, v))
        Sched.__init__(self, tid, steps, work, modelpath, refs[1][0], refs[1][1])
        self.refs = refs
        self.t0 = int(time.time()) - 100000
        os.utime(modelpath, (self.t0, self.t0))
        self.nedit = 0

    def observe(self):
        full = (self.refs[1][2], self.refs[2][2])
        final = {1: "absent", 2: "absent"}
        npp = 0
        for f in os.listdir(self.cache):
            try:
                size = os.path.getsize(os.path.join(self.cache, f))
            except OSError:
                continue
            hit = [v for v in (1, 2) if f == self.refs[v][1]]
            if hit:
                final[hit[0]] = "complete" if size == self.refs[hit[0]][2] else "partial"
            elif not f.endswith(".c") and size not in full:
                npp += 1
        return [final[1], final[2]], npp

    def special_step(self, st):
        if st["label"] != "edit":
            return False
        self.nedit += 1
        make_model(self.mdir, st["v"])
        t = self.t0 + 10 * self.nedit
        os.utime(self.modelpath, (t, t))
        return True

    def classify(self, value):
        return "ok1" if value == self.refs[1][0] else "ok2" if value == self.refs[2][0] else "wrong-value"

    def end_event(self, results):
        return dict(Sched.end_event(self, results), okname=["ok1", "ok2"])


def schedules(tier, seed):
    thorough = tier == "thorough"
    out = []
    seen = set()
    for cfg, num in (("BuildGen.cfg", 1500 if thorough else 150), ("BuildGen2.cfg", 1500 if thorough else 150),
                     ("BuildGenCk.cfg", 1500 if thorough else 200)):
        r = vlib.tlc("BuildGen", cfg, workers=1, simulate="num=%d" % num, depth=80, seed=seed, timeout=900)
        if not r["ok"]:
            raise vlib.Machinery("BuildGen failed: %s" % r["error"])
        for b in vlib.parse_printed(r["out"], "BEHAVIOUR"):
            k = json.dumps(b["steps"])
            nproc = len(set(s["proc"] for s in b["steps"]))
            if k in seen or nproc < 2:
                continue
            seen.add(k)
            out.append(b["steps"])
    rng = random.Random(seed)
    rng.shuffle(out)
    # prefer complete schedules with races: at least two compilers or a crash
    def score(steps):
        labels = [s["label"] for s in steps]
        return (labels.count("ccbegin") >= 2) + 2 * ("crash" in labels) + ("orphan" in labels)
    n = 400 if thorough else 48
    # a quarter of the schedules have the compiler child killed alone
    ck = [s for s in out if any(x["label"] == "cckill" for x in s)][: n // 4]
    out = [s for s in out if s not in ck]
    out.sort(key=lambda s: -score(s))
    n -= len(ck)
    head = out[: n * 3 // 4]
    tail = out[n * 3 // 4:]
    rng.shuffle(tail)
    return ck + head + tail[: n - len(head)]


def pipeline(chk, args, work):
    """Growth beyond C18/C17: Pipeline.tla = Build + edits of the definition file, one cache entry
    per source version.  Reported under C18 (atomic build is what makes the composition safe)."""
    thorough = chk.tier == "thorough"
    r = vlib.tlc_must_pass("Pipeline", "Pipeline.cfg", timeout=1800)
    chk.add_tlc(r, "Pipeline (Build + Edit, 3 processes, 2 versions)")
    if r["violated"]:
        chk.design_violation(r, "Pipeline")
    w = vlib.tlc("Pipeline", "Pipeline_unhashed.cfg", timeout=600)
    if w["violated"] != "Coherent":
        raise vlib.Machinery("vacuity control: Pipeline_unhashed should violate Coherent, got %s" % w["violated"])
    if args.replay:
        rp = json.load(open(args.replay))["detail"]["scenario"]
        if not rp.get("pipeline"):
            return
        scheds = [rp["steps"]]
    else:
        n = 80 if thorough else 10
        g = vlib.tlc("PipelineGen", "PipelineGen.cfg", workers=1, simulate="num=%d" % (40 * n), depth=90,
                     seed=chk.seed, timeout=900)
        if not g["ok"]:
            raise vlib.Machinery("PipelineGen failed: %s" % g["error"])
        scheds, seen = [], set()
        for b in vlib.parse_printed(g["out"], "BEHAVIOUR"):
            st = b["steps"]
            labels = [x["label"] for x in st]
            k = json.dumps(st)
            if k in seen or "edit" not in labels or labels.count("idle") < 2 or labels.count("dlopen") < 2:
                continue
            seen.add(k)
            scheds.append(st)
        scheds.sort(key=lambda st: -(2 * ("crash" in [x["label"] for x in st]) + [x["label"] for x in st].count("ccbegin")))
        scheds = scheds[:n]
    with ThreadPoolExecutor(max_workers=max(2, vlib.NCPU // 3)) as ex:
        results = list(ex.map(lambda kst: PipeSched(1000 + kst[0], kst[1], work).run(), list(enumerate(scheds))))
    events = [e for evs in results for e in evs]
    v = vlib.validate_trace("PipelineTrace", events, timeout=1800)
    chk.cov["traces_validated_against_impl"] += len(scheds)
    chk.notes["pipeline_schedules"] = len(scheds)
    for tid, line, clause, detail in v["rejects"]:
        ev = events[line - 1]
        chk.violation({"clause": clause, "label": ev.get("label", ev["ev"]), "pipeline": True},
                      {"scenario": {"pipeline": True, "steps": scheds[tid - 1000]}, "clause": clause, "detail": detail,
                       "event": ev})
    for st in scheds:
        chk.case(["pipeline", st], nontrivial=True,
                 sample={"pipeline-schedule": ["%s:%s%s" % (x["proc"], x["label"], x["v"] or "") for x in st]})


def run(chk, args):
    thorough = chk.tier == "thorough"
    # ---- design level
    r = vlib.tlc_must_pass("Build", "Build_big.cfg" if thorough else "Build.cfg", timeout=1800)
    chk.add_tlc(r, "Build atomic protocol (%s)" % ("4 processes" if thorough else "3 processes"))
    if r["violated"]:
        chk.design_violation(r, "Build")
    w = vlib.tlc("Build", "Build_inplace.cfg", timeout=600)
    if not w["violated"]:
        raise vlib.Machinery("vacuity control: the in-place protocol should violate a property")
    chk.notes["vacuity_control"] = "Build_inplace.cfg violates %s as it must" % w["violated"]
    w3 = vlib.tlc("Build", "Build_mkdirExclusive.cfg", timeout=600)
    if w3["violated"] != "NoneBroken":
        raise vlib.Machinery("vacuity control: test-then-create of the cache directory should violate NoneBroken")
    chk.notes["vacuity_control_mkdir"] = "Build_mkdirExclusive.cfg violates NoneBroken as it must"
    w2 = vlib.tlc("Build", "Build_signalOk.cfg", timeout=600)
    if not w2["violated"]:
        raise vlib.Machinery("vacuity control: taking a compiler killed by a signal for a success should violate a property")
    chk.notes["vacuity_control_signal"] = "Build_signalOk.cfg violates %s as it must" % w2["violated"]
    # ---- binding
    work = vlib.scratch("c18")
    try:
        mdir = os.path.join(work, "model")
        os.makedirs(mdir)
        modelpath = make_model(mdir)
        refvalue, finalname, _size = reference(work, modelpath)
        if args.replay:
            rp = json.load(open(args.replay))
            scheds = [] if rp["detail"]["scenario"].get("pipeline") else [rp["detail"]["scenario"]["steps"]]
        else:
            scheds = schedules(chk.tier, chk.seed)
        jobs = [Sched(k + 1, s, work, modelpath, refvalue, finalname) for k, s in enumerate(scheds)]
        with ThreadPoolExecutor(max_workers=max(2, vlib.NCPU // 3)) as ex:
            results = list(ex.map(lambda j: j.run(), jobs))
        events = [e for evs in results for e in evs]
        v = vlib.validate_trace("BuildTrace", events, timeout=1800)
        chk.cov["traces_validated_against_impl"] += len(scheds)
        chk.cov["transitions"] += v["states"]
        for tid, line, clause, detail in v["rejects"]:
            steps = scheds[tid - 1]
            ev = events[line - 1]
            key = {"clause": clause, "label": ev.get("label", ev["ev"]),
                   "crash": any(s["label"] in ("crash", "cckill") for s in steps)}
            errs = results[tid - 1][0].get("errors")
            chk.violation(key, {"scenario": {"steps": steps}, "clause": clause, "detail": detail,
                                "event": ev, "errors": errs})
        for s in scheds:
            labels = [x["label"] for x in s]
            chk.case(s, nontrivial=(labels.count("ccbegin") >= 2 or "crash" in labels or "cckill" in labels),
                     sample={"schedule": ["%s:%s%s" % (x["proc"], x["label"], "!" if x["kill"] else "") for x in s]})
        pipeline(chk, args, work)
    finally:
        shutil.rmtree(work, ignore_errors=True)
    chk.cov["rule"] = (
        "design: TLC exhaustive over Build (every interleaving of 3-4 processes x kill points x compiler "
        "child dies/survives, compiler child killed alone); replay: TLC-simulated complete schedules executed by real processes with a "
        "scripted compiler, each step's file-system observation validated by BuildTrace.  A schedule is "
        "non-trivial when two compilers run or a process is killed.")
    chk.assumptions += [
        "os.replace is atomic on the cache file system (POSIX rename)",
        "the scripted compiler imitates ld: unlink existing output, create, write sequentially",
        "sync points are placed by wrapping kerneldll's view of os / tempfile / ctypes from the worker",
    ]


if __name__ == "__main__":
    vlib.main(PROP, "model_checking", run)
