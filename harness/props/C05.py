"""C05 - orientation and angular jitter follow the documented rotation convention.

1. TLC, exhaustive (Orientation.tla, exact integers over Pythagorean angle triples):
   R = Rz(phi)Ry(theta)Rz(psi)Rx(dphi)Ry(dtheta)Rz(dpsi) is orthonormal (so R^-1 = R^T), rotating the
   detector point and phi together leaves the particle-frame vector unchanged, inversion.
2. Replay: all oriented builtin models and two oriented probe models, view angles over the full
   range incl. 0, 90, 180, 270 and Pythagorean angles, jitter meshes in 0..3 angles with gaussian /
   rectangle / uniform distributions, detector points in all four quadrants and on the axes.
3. Trace validation (OrientTrace): the specification recomputes R and (qa,qb,qc) = R^T(qx,qy,0),
   checks that the model's own Iqac/Iqabc was evaluated there, forms the jitter average with weights
   w|cos dtheta| and compares with the 2-D kernel; `Same` events check detector rotation, I(-q)=I(q),
   |q|-only dependence of unoriented models, and that 1-D kernels ignore orientation parameters
   (bit-identical).
"""
import json
import os
import random
import shutil
import subprocess
import sys

sys.path.insert(0, os.path.dirname(os.path.dirname(os.path.abspath(__file__))))
import vlib
import probe
import builtin_mean
from pdmesh_common import split

PROP = "C05"
QUICK = ["cylinder", "parallelepiped", "ellipsoid", "triaxial_ellipsoid", "core_shell_bicelle", "barbell",
         "core_shell_parallelepiped", "stacked_disks"]
UNORIENTED = ["sphere", "fractal", "core_shell_sphere", "lamellar", "broad_peak"]


def oriented_models():
    code = ("import json\nfrom sasmodels import core\nout=[]\n"
            "for n in core.list_models():\n"
            "    i=core.load_model_info(n)\n"
            "    if i.parameters.orientation_parameters and not callable(i.Iq) and not isinstance(i.Iqxy, str):\n"
            "        out.append(n)\nprint(json.dumps(out))\n")
    d = vlib.scratch("om")
    try:
        p = subprocess.run([vlib.VENV_PY, "-c", code], capture_output=True, text=True, env=vlib.worker_env(d), timeout=600)
        if p.returncode != 0:
            raise vlib.Machinery("listing oriented models failed: " + p.stderr[-1500:])
        return json.loads(p.stdout.strip().splitlines()[-1])
    finally:
        shutil.rmtree(d, ignore_errors=True)


def run(chk, args):
    thorough = chk.tier == "thorough"
    r = vlib.tlc_must_pass("Orientation", "Orientation_big.cfg" if thorough else "Orientation.cfg", timeout=2400)
    chk.add_tlc(r, "Orientation (%d angle triples)" % (6 if thorough else 4))
    if r["violated"]:
        chk.design_violation(r, "Orientation")
    if args.replay:
        scen = [json.load(open(args.replay))["detail"]["scenario"]]
        if "kind" not in scen[0]:            # a sizes-at-view-angle scenario (MeanTrace)
            builtin_mean.run(chk, PROP, scen, "replay")
            return
    else:
        rng = random.Random(chk.seed)
        models = oriented_models()
        chk.notes["oriented_models"] = models
        use = models
        scen = []
        tid = 0
        nrep = 24 if thorough else 6
        for m in use:
            for k in range(nrep):
                tid += 1
                scen.append({"tid": tid, "kind": "orient", "model": m, "seed": rng.randrange(1 << 30), "njit": k % 4,
                             "size": k % 3 == 2, "cutoff": k % 2 == 1})
            tid += 1
            scen.append({"tid": tid, "kind": "orient", "model": m, "seed": rng.randrange(1 << 30), "njit": 0, "onaxis": True})
            for directed in ("zero-view", "near-limit"):
                tid += 1
                scen.append({"tid": tid, "kind": "orient", "model": m, "seed": rng.randrange(1 << 30), "njit": 0, "directed": directed})
            for law in ("detector-rotation", "inversion", "one-d-ignores-orientation"):
                for _ in range(4 if thorough else 1):
                    tid += 1
                    scen.append({"tid": tid, "kind": "sym", "model": m, "seed": rng.randrange(1 << 30), "law": law})
        for orient in ("ac", "abc"):
            d = probe.make_def("vpo" + orient, ["volume", "", "sld"], orient=orient)
            for k in range(nrep):
                tid += 1
                scen.append({"tid": tid, "kind": "orient", "model": d["name"], "probe": d, "seed": rng.randrange(1 << 30), "njit": k % 4})
        for m in UNORIENTED:
            for law in ("inversion", "modulus-only"):
                tid += 1
                scen.append({"tid": tid, "kind": "sym", "model": m, "seed": rng.randrange(1 << 30), "law": law})
    work = vlib.scratch("c05")
    try:
        by_model = {}
        for s in scen:
            by_model.setdefault(s["model"], []).append(s)
        groups = split(sorted(by_model), vlib.NCPU)
        reqs = [{"workdir": os.path.join(work, "m%d" % k), "scenarios": [s for m in g for s in by_model[m]]}
                for k, g in enumerate(groups)]
        outs = vlib.run_workers_parallel("w_orient.py", reqs, work, timeout=3000)
        evs = sorted([e for o in outs for e in o], key=lambda e: e["tid"])
        herr = [e for e in evs if e["ev"] == "HarnessError"]
        if herr:
            raise vlib.Machinery("orientation worker: %s %s\n%s" % (herr[0]["model"], herr[0]["error"], herr[0]["tb"]))
        by = {s["tid"]: s for s in scen}
        slim = [{k: v for k, v in e.items() if k != "pars"} for e in evs]
        B = 250
        for i in range(0, len(slim), B):
            part = slim[i:i + B]
            v = vlib.validate_trace("OrientTrace", part, timeout=3000)
            chk.cov["traces_validated_against_impl"] += len(part)
            chk.cov["transitions"] += v["states"]
            for tid, line, clause, detail in v["rejects"]:
                e = evs[i + line - 1]
                chk.violation({"clause": clause, "model": e["model"], "sym": e.get("sym", "")},
                              {"scenario": by[tid], "clause": clause, "detail": detail[:2500], "pars": e.get("pars")})
        for e in evs:
            if e["ev"] == "Orient":
                njit = sum(1 for k in ("jt", "jp", "js") if len(e[k]["v"]) > 1)
                chk.case([e["model"], e["theta"], e["phi"], e["psi"], e["jt"], e["jp"], e["js"]], nontrivial=True,
                         sample={"model": e["model"], "sym": e["sym"], "view": [e["theta"], e["phi"], e["psi"]],
                                 "jitter_lengths": [len(e["jt"]["v"]), len(e["jp"]["v"]), len(e["js"]["v"])]})
            elif e["law"] != "not-applicable":
                chk.case([e["model"], e["law"], e["a"]], nontrivial=True, sample={"model": e["model"], "law": e["law"]})
    finally:
        shutil.rmtree(work, ignore_errors=True)
    if not args.replay:
        # combined size + angle dispersity: 3..5 sizes dispersed at once at view angles away from zero (the
        # orientation parameters then are not among the distributions the kernel loops over); the dispersed
        # 2-D result against the per-mesh-point evaluations at the same view angles, judged by MeanTrace
        reqs = []
        t0 = 100000
        for m in use:
            reqs.append({"models": [m], "per_model": 8 if thorough else 2, "seed": chk.seed, "first_tid": t0, "style": "oriented"})
            t0 += 10
        builtin_mean.run(chk, PROP, reqs, "sizes-at-view-angle")
    chk.cov["rule"] = (
        "design: TLC over all 7-tuples of angle triples; replay: oriented models x random view angles from a set "
        "containing the right angles and Pythagorean angles x jitter on 0..3 angles (2-4 points, three distribution "
        "types; one-point and zero-width requests must give zero jitter) x 5 detector points; symmetry scenarios per model; every event "
        "validated by OrientTrace.  Combined size + angle dispersity: 3..5 sizes dispersed at once at non-zero view angles, "
        "validated by MeanTrace against per-mesh-point evaluations.")
    chk.assumptions += [
        "the particle-frame function is reached through a wrapper appended to generate.make_source of the working tree "
        "(binds arguments through the same CALL_IQ_AC/ABC macro the kernel uses)",
        "symmetric shapes are compared through (sqrt(qa^2+qb^2), qc)",
        "tolerances: particle-frame vector 1e-12 |q| (libm vs StrictMath), intensity 1e-9",
    ]


if __name__ == "__main__":
    vlib.main(PROP, "model_checking", run)
