"""C20 - legacy parameter sets convert to valid parameter sets of the current model.

1. The conversion tables and the parameter tables of every current model are exported from the
   working tree (w_convert.py, mode export) into a JSON file that the TLA+ modules read.
2. TLC, exhaustive (spec/Convert.tla): table-level checks of every entry and row (stale rows,
   duplicate names, missing targets) and the conversion pipeline as a state machine over every
   scenario (entry x parameter-set class x use_underscore x model_version) with symbolic values;
   invariants NameOfCurrentModel, AllNamesExist, ValuesCarried, NoCollision, DefaultsHold,
   Identity.  The as-written variant (Convert_asWritten.cfg) MUST fail (vacuity control).
3. Specification -> code: the scenarios TLC enumerated (exported by the same run) are given
   concrete values and run through sasmodels.convert.convert_model.
4. Code -> specification: every recorded call is validated by spec/ConvertTrace.tla, which
   evaluates the pipeline on the recorded input and checks the postconditions on the recorded
   output (or exception).
Python never computes an expected key or value.
"""
import json
import os
import random
import re
import shutil
import sys

sys.path.insert(0, os.path.dirname(os.path.dirname(os.path.abspath(__file__))))
import vlib

PROP = "C20"
FUNC_INTER = ["Erf(|nu|*z)", "RPower(z^|nu|)", "LPower(z^|nu|)", "RExp(-|nu|*z)", "LExp(-|nu|*z)"]
PD_TYPES = ["gaussian", "rectangle", "lognormal", "schulz"]


# ------------------------------------------------------------------ data for the inputs
def value_for(key, dot, k, rng):
    """A value old SasView could have stored under `key` (data only, nothing is expected of it)."""
    if key.startswith("func_inter") and dot == "":
        return {"t": "s", "v": rng.choice(FUNC_INTER)}
    if dot == ".type":
        return {"t": "s", "v": rng.choice(PD_TYPES)}
    if dot == ".npts":
        return {"t": "i", "v": str(rng.choice([1, 5, 10, 35]) + k)}
    # distinct dyadic doubles (so that exchanged or lost values are visible); a third of the
    # plain values at the magnitude of a 3.x SLD
    num = 2 * k + 3 + 64 * rng.randrange(1, 40)
    v = num / 16.0
    if dot == "" and rng.random() < 0.35:
        v = num * 2.0 ** -26
    if dot == ".width":
        v = num / 4096.0
    return {"t": "f", "v": repr(float(v))}


def concretise(base, items, us, mv, tid, seed, origin):
    rng = random.Random("%s-%s-%s-%s" % (seed, base["eid"], base["cls"], tid))
    pars = {}
    for k, it in enumerate(sorted(items, key=lambda x: x["key"])):
        pars[it["key"]] = value_for(it["key"], it["dot"], k, rng)
    return {"tid": tid, "name": base["name"], "pars": pars, "use_underscore": bool(us),
            "model_version": list(mv), "eid": base["eid"], "cls": base["cls"], "origin": origin,
            "model": base["model"], "version": base["version"]}


def make_scenarios(export, tier, seed):
    rng = random.Random(seed)
    scen = []
    tid = 0
    uss = sorted(export["us"])
    mvs = sorted(tuple(m) for m in export["mv"])
    fulls = {}
    for base in export["base"]:
        if base["cls"] in ("full", "all"):
            fulls.setdefault(base["eid"], base)
        if base["cls"] == "full":
            fulls[base["eid"]] = base
        for us in uss:
            for mv in mvs:
                tid += 1
                scen.append(concretise(base, base["items"], us, mv, tid, seed, "tlc-class"))
    # "any subset": random subsets of the largest set TLC defined for the entry (a subset of a
    # sound set is sound: the items are independent of each other)
    nsub = 40 if tier == "thorough" else 4
    for eid in sorted(fulls):
        base = fulls[eid]
        items = sorted(base["items"], key=lambda x: x["key"])
        if len(items) < 2:
            continue
        for j in range(nsub):
            p = rng.choice([0.15, 0.5, 0.85])
            sub = [it for it in items if rng.random() < p]
            tid += 1
            b = dict(base, cls="subset")
            scen.append(concretise(b, sub, rng.choice(uss), rng.choice(mvs), tid, seed, "random-subset"))
    return scen


# ------------------------------------------------------------------ verdicts
def _unquote(txt):
    """TLA+ string literal as printed by TLC -> python str."""
    txt = txt.strip()
    if txt.startswith('"') and txt.endswith('"'):
        txt = txt[1:-1]
    return re.sub(r'\\(.)', lambda m: {"n": "\n", "t": "\t"}.get(m.group(1), m.group(1)), txt)


def parse_fails(detail):
    try:
        v = json.loads(_unquote(detail))
        if isinstance(v, dict):
            v = [v]
        return [(f["c"], f["n"]) for f in v]
    except Exception:
        return None


def fail_key(sc, clause, name):
    """Key of the failing input class (matched against findings/known_findings.json)."""
    key = {"defect-class": clause, "version": sc["version"], "model": sc["model"]}
    if clause == "Total":
        # "KeyError: 'scale' @_hand_convert_3_1_2_to_4_1:309" -> error type and function
        m = re.match(r"(\w+): (.*) @(\w+):\d+$", name, re.S)
        if m:
            key["error"] = m.group(1)
            key["where"] = m.group(3)
            key["name"] = m.group(2)[:80]
        else:
            key["error"] = name[:80]
    else:
        key["name"] = name
        # coarse label of the name's form, for registering a whole family as one known finding
        # (labelling only; the verdict is TLC's)
        key["form"] = "tag:par" if ":" in name else ("up_theta" if name == "up_theta" else "plain")
    return key


def run_and_validate(chk, scen, data_path, label, record=True):
    """Run the scenarios on the implementation, validate the log; returns (events, rejects)."""
    work = vlib.scratch("c20w")
    try:
        nw = max(1, min(4, len(scen) // 500))
        chunks = [scen[i::nw] for i in range(nw)]
        reqs = [{"mode": "run", "scenarios": [
            {k: sc[k] for k in ("tid", "name", "pars", "use_underscore", "model_version")}
            for sc in part]} for part in chunks]
        outs = vlib.run_workers_parallel("w_convert.py", reqs, work, timeout=1800, nproc=nw)
    finally:
        shutil.rmtree(work, ignore_errors=True)
    events = sorted((e for o in outs for e in o), key=lambda e: e["tid"])
    by_tid = {sc["tid"]: sc for sc in scen}
    missing = set(by_tid) - set(e["tid"] for e in events)
    if missing:
        raise vlib.Machinery("worker produced no event for tids %s" % sorted(missing)[:5])
    rejects = []
    B = 2500
    for i in range(0, len(events), B):
        evs = events[i:i + B]
        v = vlib.validate_trace("ConvertTrace", evs, env={"C20_DATA": data_path}, timeout=3000)
        if record:
            chk.cov["traces_validated_against_impl"] += len(evs)
            chk.cov["transitions"] += v["states"]
            chk.notes.setdefault("trace_runs", []).append(
                {"label": label, "events": len(evs), "rejected": len(v["rejects"]),
                 "wall_s": round(v["wall_s"], 1)})
        for tid, line, clause, detail in v["rejects"]:
            ev = evs[line - 1] if 0 < line <= len(evs) else None
            rejects.append((by_tid.get(tid), ev, clause, detail))
    return events, rejects


def report_rejects(chk, rejects):
    seen = {}
    for sc, ev, clause, detail in rejects:
        fails = parse_fails(detail)
        if sc is None or fails is None:
            raise vlib.Machinery("unparsable verdict from ConvertTrace: %s %s" % (clause, detail[:300]))
        for c, n in fails:
            key = fail_key(sc, c, n)
            h = json.dumps(key, sort_keys=True)
            if h in seen:
                seen[h] += 1
                continue
            seen[h] = 1
            chk.violation(key, {"scenario": sc, "clause": c, "name": n,
                                "all_failures": fails[:40],
                                "observed": ev["res"] if ev else None,
                                "call": "convert_model(%r, {...%d keys}, use_underscore=%r, model_version=%r)"
                                        % (sc["name"], len(sc["pars"]), sc["use_underscore"],
                                           tuple(sc["model_version"]))})
    chk.notes["violation_classes"] = len(seen)
    chk.notes["violating_events"] = len(rejects)


# ------------------------------------------------------------------ self test of the trace module
OPAQUE_MODELS = {"teubner_strey", "core_shell_ellipsoid:1", "hollow_cylinder", "rpa", "spherical_sld"}


def corruption_selftest(chk, events, rejects, data_path, by_tid):
    """Corrupt one recorded field of accepted events: ConvertTrace must reject each.

    Events of the models whose hand conversion is opaque are not used (some of their values
    are unconstrained by design, so a corrupted value may legitimately be accepted)."""
    bad_tids = set(sc["tid"] for sc, _, _, _ in rejects if sc)
    good = [e for e in events if e["tid"] not in bad_tids and not e["res"]["raised"]
            and e["res"]["name"] != e["name"] and by_tid[e["tid"]]["model"] not in OPAQUE_MODELS]
    if not good:
        chk.notes["corruption_selftest"] = "skipped: no accepted converted event on this tree"
        return
    rng = random.Random(chk.seed)
    rng.shuffle(good)
    withpars = [e for e in good if any(k in e["res"]["pars"] and v["t"] == "f" and k not in ("scale", "background")
                                       for k, v in e["res"]["pars"].items())]
    muts = []
    tid = 0

    def clone(e):
        c = json.loads(json.dumps(e))
        return c

    for e in good[:3]:
        c = clone(e)
        tid += 1
        c["tid"] = tid
        c["res"]["name"] = c["res"]["name"] + "x"
        muts.append(("returned name", c))
        c = clone(e)
        tid += 1
        c["tid"] = tid
        c["res"]["pars"].pop("scale", None)
        muts.append(("scale removed", c))
    for e in withpars[:4]:
        ks = sorted(k for k, v in e["res"]["pars"].items() if v["t"] == "f" and k not in ("scale", "background", "up_theta"))
        if not ks:
            continue
        k = rng.choice(ks)
        c = clone(e)
        tid += 1
        c["tid"] = tid
        c["res"]["pars"][k]["v"] = repr(float(c["res"]["pars"][k]["v"]) * (1 + 1e-9) + 1e-300)
        muts.append(("value of %s * (1+1e-9)" % k, c))
        c = clone(e)
        tid += 1
        c["tid"] = tid
        c["res"]["pars"][k + "_x"] = c["res"]["pars"].pop(k)
        muts.append(("key %s renamed" % k, c))
    v = vlib.validate_trace("ConvertTrace", [c for _, c in muts], env={"C20_DATA": data_path}, timeout=1200)
    rejected = set(t for t, _, _, _ in v["rejects"])
    missed = [what for what, c in muts if c["tid"] not in rejected]
    if missed:
        raise vlib.Machinery("corrupted-trace self test: ConvertTrace accepted %s" % missed)
    chk.notes["corruption_selftest"] = "%d corrupted events (name, key, value, default) all rejected" % len(muts)


# ------------------------------------------------------------------ main
def export_tables(work):
    evs = vlib.run_worker("w_convert.py", {"mode": "export"}, work, timeout=600)
    data = [e for e in evs if e.get("ev") == "Export"]
    if not data:
        raise vlib.Machinery("w_convert.py export produced nothing")
    path = os.path.join(work, "c20_data.json")
    with open(path, "w") as f:
        json.dump(data[0]["data"], f)
    return path, data[0]["data"]


def design_runs(chk, thorough, data_path, scen_path):
    cfg = "Convert_big.cfg" if thorough else "Convert.cfg"
    env = {"C20_DATA": data_path, "C20_SCEN": scen_path}
    # one worker: the memo tables live in TLC registers set by an ASSUME
    r = vlib.tlc("Convert", cfg, workers=1, env=env, timeout=3000, extra=("-continue",))
    if not r["violated"] and not r["ok"]:
        raise vlib.Machinery("TLC failed on Convert/%s: %s\n%s" % (cfg, r["error"], r["out"][-3000:]))
    if r["distinct"] == 0:
        raise vlib.Machinery("TLC explored no states on Convert/%s\n%s" % (cfg, r["out"][-2000:]))
    chk.add_tlc(r, "Convert exhaustive (%s)" % cfg)
    tdef = vlib.parse_printed(r["out"], "TABLE-DEFECT")
    ddef = vlib.parse_printed(r["out"], "DESIGN-DEFECT")
    for d in tdef:
        if not isinstance(d, dict):
            raise vlib.Machinery("unparsable TABLE-DEFECT line: %r" % (d,))
        chk.violation({"defect-class": d["class"], "version": d["version"], "model": d["model"],
                       "name": d["old"], "kind": "table"},
                      {"row": d, "what": "conversion table row %s -> %s of %s (%s): %s"
                                         % (d["old"], d["new"], d["model"], d["version"], d["class"]),
                       "scenario": {"table_defect": d}})
    seen = set()
    for d in ddef:
        if not isinstance(d, dict):
            raise vlib.Machinery("unparsable DESIGN-DEFECT line: %r" % (d,))
        key = {"defect-class": d["class"], "version": d["version"], "model": d["model"],
               "name": d["name"], "kind": "design"}
        h = json.dumps(key, sort_keys=True)
        if h not in seen:
            seen.add(h)
            chk.violation(key, {"scenario": {"design_defect": d}, "tlc_tail": r["out"][-3000:]})
    if r["violated"] and not ddef:
        chk.design_violation(r, "Convert/%s" % cfg, {"defect-class": "design"})
    chk.notes["table_defects"] = len(tdef)
    m = re.search(r'<<"SCENARIOS", (\d+), (\d+)>>', r["out"])
    if m:
        chk.notes["tlc_scenarios"] = {"parameter_sets": int(m.group(1)), "scenarios": int(m.group(2))}
    # vacuity control: convert.py as written must violate the invariants
    w = vlib.tlc("Convert", "Convert_asWritten.cfg", workers=1, env={"C20_DATA": data_path, "C20_SCEN": ""},
                 timeout=3000, extra=("-continue",) if thorough else ())
    if not w["violated"]:
        raise vlib.Machinery("vacuity control: the as-written variant should violate an invariant, got %s / %s\n%s"
                             % (w["violated"], w["error"], w["out"][-2000:]))
    hit = sorted(set(re.findall(r"Invariant (\w+) is violated", w["out"])))
    if thorough:
        need = {"AllNamesExist", "NameOfCurrentModel", "ValuesCarried"}
        if not need <= set(hit):
            raise vlib.Machinery("vacuity control: the as-written variant should violate %s, violated %s"
                                 % (sorted(need), hit))
    chk.notes["vacuity_control"] = "Convert_asWritten.cfg violates %s as it must" % ", ".join(hit)


def run(chk, args):
    thorough = chk.tier == "thorough"
    work = vlib.scratch("c20")
    try:
        data_path, data = export_tables(work)
        if args.replay:
            with open(args.replay) as f:
                rp = json.load(f)
            sc = rp["detail"].get("scenario")
            if sc and "pars" in sc:
                _, rejects = run_and_validate(chk, [sc], data_path, "replay")
                report_rejects(chk, rejects)
            else:       # table-level or design-level verdict: decided by TLC alone
                design_runs(chk, False, data_path, os.path.join(work, "scen.json"))
            return
        scen_path = os.path.join(work, "scen.json")
        design_runs(chk, thorough, data_path, scen_path)
        if not os.path.exists(scen_path):
            raise vlib.Machinery("TLC did not export the scenarios")
        with open(scen_path) as f:
            export = json.load(f)
        scen = make_scenarios(export, chk.tier, chk.seed)
        events, rejects = run_and_validate(chk, scen, data_path, "scenarios")
        # conversion is a function of (name, set, version) alone: the same calls made in another order in fresh
        # processes (newest table first; shuffled) are validated call by call in the same way
        rng2 = random.Random(chk.seed + 5)
        nonempty = [sc for sc in scen if sc["pars"]]
        sample = nonempty if thorough else rng2.sample(nonempty, min(len(nonempty), 1500))
        rev = sorted(sample, key=lambda sc: (tuple(sc["model_version"]), sc["tid"]), reverse=True)
        shuf = list(sample)
        rng2.shuffle(shuf)
        off = 10 ** 7
        scen2 = [dict(sc, tid=sc["tid"] + off) for sc in rev] + [dict(sc, tid=sc["tid"] + 2 * off) for sc in shuf]
        _, rejects2 = run_and_validate(chk, scen2, data_path, "other call orders")
        for sc2, ev, clause, detail in rejects2:
            if sc2 is not None:
                sc2 = dict(sc2, tid=sc2["tid"] % off, order="reversed" if sc2["tid"] < 2 * off else "shuffled")
            rejects.append((sc2, ev, clause, detail))
        report_rejects(chk, rejects)
        corruption_selftest(chk, events, rejects, data_path, {sc["tid"]: sc for sc in scen})
        shown = set()
        for sc in scen:
            kinds = sorted(set(it_dot(k) for k in sc["pars"]))
            show = None
            if sc["cls"] not in shown and sc["pars"] and sc["tid"] % 7 == 3:
                shown.add(sc["cls"])
                show = {"old_model": sc["name"], "class": sc["cls"], "keys": sorted(sc["pars"])[:8],
                        "n_keys": len(sc["pars"]), "use_underscore": sc["use_underscore"],
                        "model_version": sc["model_version"], "attribute_kinds": kinds}
            chk.case([sc["eid"], sc["cls"], sc["use_underscore"], sc["model_version"], sorted(sc["pars"])],
                     nontrivial=len(sc["pars"]) > 0, sample=show)
        chk.notes["table"] = {"entries": len(data["table"]),
                              "rows": sum(len(e["map"]) for e in data["table"]),
                              "versions": data["versions"], "current_models": len(data["current"])}
        chk.cov["exhaustive"] = True
        chk.cov["rule"] = (
            "tables and current parameter tables exported from the working tree; TLC checks every entry and "
            "row of both conversion tables (table level) and explores the pipeline for every entry x "
            "parameter-set class (empty, each single old name, all values, all values + every sound attribute, "
            "+ plain scale/background + hand-conversion inputs%s) x use_underscore x model_version; the same "
            "scenarios plus random subsets of the full set are run through convert_model and each call is "
            "validated by ConvertTrace. A case is distinct by (entry, key set, use_underscore, model_version) "
            "and non-trivial when the set is not empty."
            % (", each single name with all its attributes" if thorough else ""))
        chk.assumptions += [
            "the saved-state model name is element [0] of a table entry (element [2], where present, is the class name used by sasview_model._register_old_models)",
            "old parameter sets carry dispersity attributes only on old names whose target is dispersible in the current model; fit limits on any old name; vector parameters by element; plain scale/background only when the table does not map them",
            "fit limits (.lower/.upper) of parameters whose value is rescaled by 1e6 may be carried unchanged or rescaled (the property does not say)",
            "hand conversions that solve equations or recode text are opaque-but-closed: teubner_strey (scale,c1,c2 -> xi,d,volfraction_a,sld_a,sld_b,scale), core_shell_ellipsoid:1 (equat_shell, polar_core, polar_shell), hollow_cylinder (radius, radius.width), rpa (La..Ld), spherical_sld (func_inter*, n_shells): names must exist, values unconstrained",
            "magnetic keys in tag:name form occur only as intermediate names (no table entry has them as old names); 4.x sets of models without a table entry are outside the quantifier",
            "TLC operator overrides in spec/IEEE.java implement IEEE-754 binary64 as java does (the 1e6 rescale is compared bit for bit)",
        ]
    finally:
        shutil.rmtree(work, ignore_errors=True)


def it_dot(key):
    # coverage label only (which attribute kinds occur); not used for any verdict
    for d in (".width", ".npts", ".nsigmas", ".type", ".lower", ".upper"):
        if key.endswith(d):
            return d
    return "value"


if __name__ == "__main__":
    vlib.main(PROP, "model_checking", run)
