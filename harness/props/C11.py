"""C11 - results do not depend on call history; inputs are not modified.

1. TLC, exhaustive: History.tla (kernels with reused buffers, released/reloaded models, wrappers,
   caller dictionaries) satisfies Purity and ArgsUntouched to depth 6; the as-written variant
   (empty mesh leaves the buffer untouched, call_Fq consumes the mode key) must fail.
2. Specification -> code: TLC-simulated histories of 40 operations over five models sharing one
   process are executed by the real library.
3. Code -> specification: HistoryTrace requires every operation to be an enabled History action
   whose result is bit-identical to the Oracle event for the same request - the value returned
   when the request is the first thing a fresh interpreter does - and whose arguments are unchanged.
"""
import json
import os
import random
import shutil
import subprocess
import sys
from concurrent.futures import ThreadPoolExecutor

sys.path.insert(0, os.path.dirname(os.path.dirname(os.path.abspath(__file__))))
import vlib

PROP = "C11"
MODELS = ["sphere", "cylinder", "broad_peak", "sphere@hardsphere", "sphere+cylinder"]


def keys_of(h):
    wm = dict(h["wmodel"])
    store = {w: "mono" for w in wm}
    keys = []
    expreq = {}
    for e in h["steps"]:
        if e["op"] == "expset":
            expreq.setdefault((e["m"], e["q"]), {"mono"}).add(e["r"])
        elif e["op"] == "exptheory":
            # every request this Experiment has been given so far; which one must be returned is the specification's call
            keys += ["ex|%s|%s|%s" % (e["m"], e["q"], r) for r in sorted(expreq.setdefault((e["m"], e["q"]), {"mono"}))]
        if e["op"] == "call":
            keys.append("%s|%s|%s|%s" % ("fq" if e["f"] else "iq", e["m"], e["q"], e["r"]))
        elif e["op"] == "direct":
            keys.append("dm|%s|%s|%s" % (e["m"], e["q"], e["r"]))
        elif e["op"] == "set":
            store[e["w"]] = e["r"]
        elif e["op"] == "clone":
            wm[e["w2"]] = wm[e["w"]]
            store[e["w2"]] = store[e["w"]]
        elif e["op"] == "eval":
            keys.append("sv|%s|%s|%s" % (wm[e["w"]], e["q"], store[e["w"]]))
    return keys


def run_json(script, req, cache, timeout=600):
    p = subprocess.run([vlib.VENV_PY, os.path.join(vlib.VERIF, "harness", script)], input=json.dumps(req),
                       capture_output=True, text=True, timeout=timeout, env=vlib.worker_env(cache), cwd=cache)
    evs = [json.loads(x) for x in p.stdout.splitlines() if x.startswith("{")]
    return p.returncode, evs, p.stderr


def run(chk, args):
    thorough = chk.tier == "thorough"
    r = vlib.tlc_must_pass("History", "History.cfg", timeout=1800)
    chk.add_tlc(r, "History depth 6")
    if r["violated"]:
        chk.design_violation(r, "History")
    w = vlib.tlc("History", "History_asWritten.cfg", timeout=600)
    if not w["violated"]:
        raise vlib.Machinery("vacuity control: History_asWritten should violate Purity/ArgsUntouched")
    chk.notes["vacuity_control"] = "History_asWritten.cfg violates %s as it must" % w["violated"]
    r2 = vlib.tlc_must_pass("History", "History_held.cfg", timeout=1800)
    chk.add_tlc(r2, "History with the array the caller keeps (HeldStable)")
    if r2["violated"]:
        chk.design_violation(r2, "History", {"class": "design-held"})
    w2 = vlib.tlc("History", "History_view.cfg", timeout=600)
    if w2["violated"] != "HeldStable":
        raise vlib.Machinery("vacuity control: History_view (kernel returns a view of its buffer) should violate HeldStable")
    chk.notes["vacuity_control_view"] = "History_view.cfg violates HeldStable as it must"
    r3 = vlib.tlc_must_pass("History", "History_exp.cfg", timeout=1800)
    chk.add_tlc(r3, "History with Experiment objects (lazy theory / update protocol)")
    if r3["violated"]:
        chk.design_violation(r3, "History", {"class": "design-exp"})
    w3 = vlib.tlc("History", "History_expStale.cfg", timeout=600)
    if w3["violated"] != "Purity":
        raise vlib.Machinery("vacuity control: History_expStale (update() keeps the cached theory) should violate Purity")
    chk.notes["vacuity_control_exp"] = "History_expStale.cfg violates Purity as it must"
    r4 = vlib.tlc_must_pass("Dispersers", "Dispersers.cfg", timeout=1200)
    chk.add_tlc(r4, "Dispersers: caller-owned distribution objects handed to wrappers (CallerUntouched, Independent)")
    if r4["violated"]:
        chk.design_violation(r4, "Dispersers", {"class": "design-dispersers"})
    w4 = vlib.tlc("Dispersers", "Dispersers_alias.cfg", timeout=600)
    if w4["violated"] not in ("CallerUntouched", "Independent"):
        raise vlib.Machinery("vacuity control: Dispersers_alias (the wrapper's table is the object's own attribute dictionary) "
                             "should violate CallerUntouched or Independent, got %s / %s" % (w4["violated"], w4["error"]))
    chk.notes["vacuity_control_dispersers"] = "Dispersers_alias.cfg violates %s as it must" % w4["violated"]

    if args.replay:
        hs = [json.load(open(args.replay))["detail"]["scenario"]]
    else:
        n = 400 if thorough else 30
        g = vlib.tlc("HistoryGen", "HistoryGen.cfg", workers=1, simulate="num=%d" % n, depth=45,
                     seed=chk.seed, timeout=900)
        if not g["ok"]:
            raise vlib.Machinery("HistoryGen failed: %s\n%s" % (g["error"], g["out"][-1500:]))
        prng = random.Random(chk.seed)
        hs = vlib.one_per_trace(vlib.parse_printed(g["out"], "BEHAVIOUR"), prng)[:n]
        if not hs:
            raise vlib.Machinery("HistoryGen produced no behaviour")
        # histories over few objects, so that operations on the same Experiment / kernel / wrapper follow each other
        n2 = 120 if thorough else 12
        g2 = vlib.tlc("HistoryGen", "HistoryGenExp.cfg", workers=1, simulate="num=%d" % n2, depth=41,
                      seed=chk.seed + 7, timeout=900)
        if not g2["ok"]:
            raise vlib.Machinery("HistoryGen (few objects) failed: %s\n%s" % (g2["error"], g2["out"][-1500:]))
        hs += vlib.one_per_trace(vlib.parse_printed(g2["out"], "BEHAVIOUR"), prng)[:n2]
        n3 = 80 if thorough else 12
        g3 = vlib.tlc("HistoryGen", "HistoryGenWrap.cfg", workers=1, simulate="num=%d" % n3, depth=35,
                      seed=chk.seed + 13, timeout=900)
        if not g3["ok"]:
            raise vlib.Machinery("HistoryGen (wrappers) failed: %s\n%s" % (g3["error"], g3["out"][-1500:]))
        hw = vlib.one_per_trace(vlib.parse_printed(g3["out"], "BEHAVIOUR"), prng)[:n3]
        for i, h in enumerate(hw):
            if i % 3 == 0:
                # a definition whose visible parameters depend on an integer argument (rpa): the object used first is
                # one of a case with few components, the other one of the case with all four
                first = [e["w"] for e in h["steps"] if e["op"] in ("set", "eval", "clone")][:1]
                for w in ("w1", "w2"):
                    h["wmodel"][w] = "rpa#0" if [w] == first else "rpa#9"
        hs += hw
        # pure-Python definitions only (few objects): kernels, DirectModel objects, reloads and releases follow each other
        n4 = 80 if thorough else 8
        g4 = vlib.tlc("HistoryGen", "HistoryGenPy.cfg", workers=1, simulate="num=%d" % n4, depth=35,
                      seed=chk.seed + 21, timeout=900)
        if not g4["ok"]:
            raise vlib.Machinery("HistoryGen (python definitions) failed: %s\n%s" % (g4["error"], g4["out"][-1500:]))
        hs += vlib.one_per_trace(vlib.parse_printed(g4["out"], "BEHAVIOUR"), prng)[:n4]
    for h in hs:
        for w in ("w1", "w2"):              # the trace module's wrapper set; unused wrappers get a default model
            h["wmodel"].setdefault(w, "sphere")
    work = vlib.scratch("c11")
    try:
        cache = os.path.join(work, "cache")
        os.makedirs(cache)
        # warm the shared library cache once (no concurrent first builds later)
        code = ("from sasmodels import core\nimport numpy as np\n"
                "for m in %r:\n    core.load_model(m, dtype='double', platform='dll').make_kernel([np.array([0.1])])\n" % (MODELS + ["rpa"]))
        p = subprocess.run([vlib.VENV_PY, "-c", code], capture_output=True, text=True, env=vlib.worker_env(cache), timeout=900)
        if p.returncode != 0:
            raise vlib.Machinery("cache warm-up failed: " + p.stderr[-2000:])
        keys = sorted(set(k for h in hs for k in keys_of(h)))
        with ThreadPoolExecutor(max_workers=vlib.NCPU) as ex:
            ores = list(ex.map(lambda k: run_json("w_history.py", {"mode": "oracle", "key": k}, cache), keys))
        events = []
        for k, (rc, evs, err) in zip(keys, ores):
            if rc != 0 or len(evs) != 1:
                raise vlib.Machinery("oracle process for %s failed: %s" % (k, err[-1500:]))
            events += evs
        with ThreadPoolExecutor(max_workers=vlib.NCPU) as ex:
            hres = list(ex.map(lambda th: run_json("w_history.py", dict(th[1], mode="history", tid=th[0] + 1), cache, 1800),
                               list(enumerate(hs))))
        crashed = {}
        for t, (rc, evs, err) in enumerate(hres):
            herr = [e for e in evs if e["ev"] == "HarnessError"]
            if herr:
                raise vlib.Machinery("history worker error: %s\n%s" % (herr[0]["error"], herr[0]["tb"]))
            events += evs
            if rc != 0:
                crashed[t + 1] = (rc, err[-800:])
        v = vlib.validate_trace("HistoryTrace", events, timeout=3000)
        chk.cov["traces_validated_against_impl"] += len(hs)
        chk.cov["transitions"] += v["states"]
        chk.notes["oracle_requests"] = len(keys)
        for tid, line, clause, detail in v["rejects"]:
            e = events[line - 1]
            kind = e.get("key", "").split("|")
            chk.violation({"clause": clause, "op": e.get("op"), "kind": kind[0] if kind else "",
                           "model": kind[1] if len(kind) > 1 else "", "request": kind[3] if len(kind) > 3 else ""},
                          {"scenario": hs[tid - 1], "clause": clause, "detail": detail[:2500], "event_index": e.get("n")})
        for tid, (rc, err) in crashed.items():
            chk.violation({"clause": "process-died", "rc": rc}, {"scenario": hs[tid - 1], "stderr": err})
        for h in hs:
            ops = [e["op"] for e in h["steps"]]
            chk.case(h, nontrivial=ops.count("call") + ops.count("eval") + ops.count("direct") + ops.count("exptheory") >= 5,
                     sample={"ops": ["%s(%s)" % (e["op"], ",".join(str(e[k]) for k in ("s", "m", "q", "r", "w", "w2") if e[k] != ""))
                                     for e in h["steps"][:14]], "wrappers": h["wmodel"]})
    finally:
        shutil.rmtree(work, ignore_errors=True)
    chk.cov["rule"] = (
        "TLC-simulated histories (40 operations: make_kernel, call_kernel, call_Fq, release, model release, "
        "SasviewModel setParam/evalDistribution/clone, DirectModel calls, reload, bumps Experiment set values/update/theory) over sphere, cylinder, broad_peak (pure Python), a pure-Python plugin whose Iq takes one q at a time, "
        "sphere@hardsphere, sphere+cylinder with 3 q vectors (incl. 2-D) and 6 request kinds (mono, dispersed, "
        "two dispersed + cutoff, empty mesh, effective-radius mode, magnetic); each evaluating step compared "
        "bit-for-bit with a fresh-interpreter oracle. Non-trivial: at least 5 evaluating operations.")
    chk.assumptions += [
        "bit identity across processes is legitimate: same library, same inputs, single-threaded kernels, PYTHONHASHSEED=0",
        "a model's library is released only when no kernel of it is alive (History!ReleaseModel precondition)",
        "the shared library cache is warmed once before the histories run",
    ]


if __name__ == "__main__":
    vlib.main(PROP, "model_checking", run)
