"""C03 - resolution smearing is a normalised non-negative average with full support.

1. TLC, exhaustive: Resolution.tla (integer-lattice model of the q_calc extension algorithms,
   cutoff, bin edges, windows, rows) with the invariants Constructs, QcalcPositive, NonNegative,
   Covers, RowsSumToOne, ZeroWidthIdentity; four single-defect variants and the as-written
   variant must fail (vacuity controls).
2. Specification -> code: the configuration lattice is exported by TLC (ResolutionLattice);
   for each selected cell the harness draws concrete grids / widths (data) and drives the real
   constructors, apply() and DirectModel (worker w_resolution.py).
3. Code -> specification: every recorded object is validated by ResolutionTrace over IEEE
   doubles (q_calc > 0, coverage, weights >= 0, rows sum to one, apply = W.theory, constant
   preserved, zero-width identity bit-exact, DirectModel linear in scale/background).
"""
import json
import math
import os
import random
import shutil
import sys
from concurrent.futures import ThreadPoolExecutor

sys.path.insert(0, os.path.dirname(os.path.dirname(os.path.abspath(__file__))))
import vlib

PROP = "C03"
VARIANTS = [("swap", "Covers"), ("geozero", "Constructs"), ("nonorm", "RowsSumToOne"),
            ("single", "Constructs")]


# ------------------------------------------------------------------ design level
def design_runs(chk, thorough):
    r = vlib.tlc_must_pass("Resolution", "Resolution_big.cfg" if thorough else "Resolution.cfg", timeout=3000)
    chk.add_tlc(r, "Resolution exhaustive (%s)" % ("q in 1..12, <=4 points" if thorough else "q in 1..8, <=3 points"))
    if r["violated"]:
        chk.design_violation(r, "Resolution", {"class": "design"})
    got = {}
    for name, inv in VARIANTS:
        w = vlib.tlc("Resolution", "Resolution_%s.cfg" % name, timeout=1200)
        if w["violated"] != inv:
            raise vlib.Machinery("vacuity control %s: expected a violation of %s, got %s / %s"
                                 % (name, inv, w["violated"], w["error"]))
        got[name] = inv
    w = vlib.tlc("Resolution", "Resolution_asWritten.cfg", timeout=1200)
    if not w["violated"]:
        raise vlib.Machinery("vacuity control: the as-written variant should violate an invariant (%s)" % w["error"])
    got["asWritten"] = w["violated"]
    rx = vlib.tlc_must_pass("Extrapolate", "Extrapolate.cfg", timeout=1200)
    chk.add_tlc(rx, "Extrapolate: default grid extension below / above the data (repeated end points, single point)")
    if rx["violated"]:
        chk.design_violation(rx, "Extrapolate", {"class": "design-extrapolate"})
    wx = vlib.tlc("Extrapolate", "Extrapolate_singleOnly.cfg", timeout=600)
    if wx["violated"] != "Constructs":
        raise vlib.Machinery("vacuity control: Extrapolate_singleOnly (fixed count for a single point only) should violate "
                             "Constructs, got %s / %s" % (wx["violated"], wx["error"]))
    got["extrapolate_singleOnly"] = "Constructs"
    chk.notes["vacuity_controls"] = got


def lattice():
    r = vlib.tlc("ResolutionLattice", "ResolutionLattice.cfg", workers=1, timeout=600)
    if not r["ok"]:
        raise vlib.Machinery("ResolutionLattice failed: %s\n%s" % (r["error"], r["out"][-2000:]))
    cells = vlib.parse_printed(r["out"], "CELL")
    if len(cells) < 1000:
        raise vlib.Machinery("lattice export incomplete: %d cells" % len(cells))
    cells.sort(key=lambda c: json.dumps(c, sort_keys=True))
    return cells


# ------------------------------------------------------------------ concrete data (inputs only)
SIZES = {"one": (1, 1), "two": (2, 2), "few": (3, 9), "some": (10, 60), "many": (61, 200), "huge": (201, 500)}
MAGS = {"zero": 0.0, "tiny": 1e-3, "small": 0.03, "medium": 0.3, "large": 1.0}
MINSTEP = 2e-7     # > 3*MINIMUM_RESOLUTION: a zero-width pinhole window holds its own point only
MINWIDTH = 1e-7    # a width is zero or >= 10*MINIMUM_RESOLUTION (narrower ones are zero to the code, by design)


def make_grid(family, size, rng):
    lo, hi = SIZES[size]
    n = rng.randint(lo, hi)
    q0 = rng.choice([1e-5, 1e-4, 1e-3, 0.01, 0.05])
    if n == 1:
        return [q0]
    span = rng.choice([2.0, 10.0, 100.0, 1000.0])
    while q0 * (span - 1) / (n - 1) < 4 * MINSTEP or (family == "log" and q0 * (span ** (1.0 / (n - 1)) - 1) < MINSTEP):
        span *= 10.0
    if family == "linear":
        step = q0 * (span - 1) / (n - 1)
        q = [q0 + i * step for i in range(n)]
    elif family == "log":
        r = span ** (1.0 / (n - 1))
        q = [q0 * r ** i for i in range(n)]
    else:   # irregular: steps are small multiples of a base step (lattice-like, as measured grids often are)
        base = max(q0 * (span - 1) / (n - 1) / 4.0, MINSTEP) if rng.random() < 0.5 else max(q0 / 4.0, MINSTEP)
        q = [q0]
        for _ in range(n - 1):
            q.append(q[-1] + rng.choice([1, 2, 3, 5, 8]) * base)
    q = sorted(set(float(x) for x in q))
    return q


def make_widths(q, pat, mag, rng):
    """Per-point widths (list) and, for the scalar pattern, the scalar itself."""
    n = len(q)
    f = MAGS[mag]
    if mag == "large":
        f = rng.choice([1.0, 1.5, 2.0])
    if f == 0.0:
        return [0.0] * n, 0.0
    if pat == "scalar":
        v = max(f * q[rng.randrange(n)] * rng.choice([0.75, 1.0, 1.25]), MINWIDTH)
        return [v] * n, v
    w = [f * x * rng.choice([0.5, 1.0, 1.5]) for x in q] if rng.random() < 0.5 else [f * x for x in q]
    w = [max(x, MINWIDTH) for x in w]
    if pat == "mixedzero":
        k = rng.randrange(n)
        w = [0.0 if (i == k or rng.random() < 0.3) else x for i, x in enumerate(w)]
    return w, None


def windows(kind, q, a, b):
    """(lo, hi) of the union of all resolution windows - used only to lay out a user-supplied
    q_calc grid (an input), never as an expected value."""
    if kind == "pinhole":
        return min(x - 2.5 * s for x, s in zip(q, a)), max(x + 3 * s for x, s in zip(q, a))
    return min(x - w for x, w in zip(q, b)), max(math.hypot(x + w, l) for x, l, w in zip(q, a, b))


def supplied_grid(kind, q, a, b, rng):
    lo, hi = windows(kind, q, a, b)
    pad = 0.1 * (hi - lo) + 0.5 * q[0]
    npts = rng.choice([40, 150, 400])
    style = rng.choice(["linear", "log"])
    gl = lo - pad
    if kind != "pinhole" or rng.random() < 0.5:
        gl = max(gl, q[0] * rng.choice([0.001, 0.02, 0.1]))
    gh = hi + pad
    # a caller may also hand over a grid that stops at the last data point (the library's own tests
    # pass q_calc = q): the weights must still be a normalised non-negative average
    if rng.random() < 0.25:
        gh = max(q)
    if style == "log" and gl > 0:
        g = [gl * (gh / gl) ** (i / (npts - 1.0)) for i in range(npts)]
    else:
        g = [gl + (gh - gl) * i / (npts - 1.0) for i in range(npts)]
    if kind == "pinhole" and rng.random() < 0.3:
        g += [0.0, -q[0] * 0.01, q[0] * 0.01]          # below the cutoff: must be dropped
    out = set(q)
    for x in g:
        if all(abs(x - y) > max(MINSTEP, 1e-9 * y) for y in q if abs(x - y) < 1e-3 * y + MINSTEP):
            out.add(float(x))
    # keep a safe distance between any two supplied points
    pts = sorted(out)
    keep = []
    qs = set(q)
    for x in pts:
        if keep and abs(x - keep[-1]) < MINSTEP:
            if x in qs:
                if keep[-1] in qs:
                    keep.append(x)
                else:
                    keep[-1] = x
            continue
        keep.append(x)
    return keep


def encode_scalar(vec, scalar, rng, allow_none):
    """How a width is passed to Slit1D: python float, vector, or None (zero)."""
    if scalar is not None:
        if scalar == 0.0 and allow_none:
            return rng.choice([None, 0.0, [0.0] * len(vec)])
        return rng.choice([scalar, list(vec)])
    return list(vec)


def concretise(cell, tid, rng):
    kind, via = cell["kind"], cell["via"]
    job = {"tid": tid, "cell": cell, "seed": rng.randrange(1 << 30), "const": rng.choice([2.0, 0.75, 5.0]),
           "ramp": [rng.choice([1.0, 0.5]), rng.choice([2.0, 3.0])], "nbasis": 0, "rowlimit": 40000}
    if kind == "pinhole2d":
        if cell["family"] == "mesh":
            k = {"one": 1, "few": rng.choice([2, 3]), "some": rng.choice([4, 5, 6, 7])}[cell["size"]]
            qm = rng.choice([0.02, 0.1, 0.3])
            ax = [-qm + 2 * qm * i / (k - 1.0) for i in range(k)] if k > 1 else [qm]
            pts = [(x, y) for y in ax for x in ax if math.hypot(x, y) > 1e-6 * qm]
        else:
            k = {"one": 1, "few": rng.randint(3, 9), "some": rng.randint(10, 40)}[cell["size"]]
            pts = [(rng.choice([-1, 1]) * rng.uniform(0.002, 0.3), rng.choice([-1, 1]) * rng.uniform(0.002, 0.3))
                   for _ in range(k)]
            if k > 2:
                pts[0] = (0.0, pts[0][1])       # on the qy axis
        qx = [p[0] for p in pts]
        qy = [p[1] for p in pts]
        qa = [math.hypot(x, y) for x, y in pts]
        f = {"small": 0.03, "medium": 0.3, "large": 1.0}[cell["mag"]]
        g = f if cell["pat"] == "isotropic" else f * rng.choice([0.25, 0.5, 2.0])
        dqx = [f * x for x in qa]
        dqy = [g * x for x in qa]
        if cell["pat"] == "mixedzero":
            i = rng.randrange(len(qa))
            dqx[i] = 0.0
            dqy[rng.randrange(len(qa))] = 0.0
        job.update({"qx": qx, "qy": qy, "dqx": dqx, "dqy": dqy,
                    "acc": rng.choice([cell["acc"], cell["acc"].capitalize()]), "ramp2": [1.0, 2.0, 3.0]})
        if via == "ctor":
            job["op"] = "res2d"
        else:
            job.update({"op": "direct", "dkind": "2d", "intercept": 2.5, "slope": rng.choice([0.0, 3.0]),
                        "calls": [[2.0, 0.25], [0.25, 8.0], [3.0, 0.7]]})
        return job
    q = make_grid(cell["family"], cell["size"], rng)
    n = len(q)
    a = [0.0] * n
    b = [0.0] * n
    sa = sb = 0.0
    if kind == "pinhole":
        a, sa = make_widths(q, cell["pat"], cell["mag"], rng)
    elif kind == "slitL":
        a, sa = make_widths(q, cell["pat"], cell["mag"], rng)
    elif kind == "slitW":
        b, sb = make_widths(q, cell["pat"], cell["mag"], rng)
    elif kind == "slitLW":
        a, sa = make_widths(q, cell["pat"], cell["mag"], rng)
        b, sb = make_widths(q, rng.choice(["scalar", cell["pat"]]), rng.choice([cell["mag"], "small", "medium", "large"]), rng)
    job["q"] = q
    qc = supplied_grid("pinhole" if kind == "pinhole" else "slit", q, a, b, rng) if cell["src"] == "supplied" else None
    if n > 200:
        job["nbasis"] = 24
    if via == "ctor":
        job["op"] = "res1d"
        job["qcalc"] = qc
        if kind == "pinhole":
            job.update({"cls": "pinhole", "sigma": a})
            # a caller-chosen cut-off of the Gaussian (scalar or (low, high)); None = the documented default
            job["nsigma"] = rng.choice([None, None, 5.0, 4.0, [3.0, 6.0], 2.0])
        elif kind == "perfect":
            job.update({"cls": "perfect"})
        else:
            job.update({"cls": "slit", "L": encode_scalar(a, sa, rng, True), "W": encode_scalar(b, sb, rng, True)})
    else:
        job.update({"op": "direct", "intercept": 2.5, "slope": rng.choice([0.0, 3.0]),
                    "calls": [[2.0, 0.25], [0.25, 8.0], [3.0, 0.7]]})
        if kind == "pinhole":
            job.update({"dkind": "pinhole", "sigma": a})
        elif kind == "perfect":
            job.update({"dkind": "none"})
        else:
            L = a if any(a) or rng.random() < 0.5 else None
            W = b if any(b) or L is None or rng.random() < 0.5 else None
            job.update({"dkind": "slit", "L": L, "W": W})
    return job


def anchors(first_tid):
    """Harness-chosen scenarios: the inputs named in DESIGN section 5 (D3, D4) and boundary
    grids of the lattice cells that random draws hit rarely."""
    lin = [0.01 + 0.01 * i for i in range(10)]
    base = {"seed": 7, "const": 2.0, "ramp": [1.0, 2.0], "nbasis": 0, "rowlimit": 40000, "qcalc": None}
    A = [
        dict(op="res1d", cls="slit", q=lin, L=None, W=0.005, note="D3"),
        dict(op="res1d", cls="slit", q=lin, L=None, W=0.05, note="D3 wide"),
        dict(op="res1d", cls="slit", q=lin, L=0.01, W=None, note="D4: min(q - length) == 0"),
        dict(op="res1d", cls="slit", q=lin, L=None, W=0.01, note="min(q - width) == 0"),
        dict(op="res1d", cls="slit", q=lin, L=0.02, W=0.01, note="length+width, min(q - width) == 0"),
        dict(op="res1d", cls="slit", q=lin, L=0.005, W=0.03, note="width > q: reflected part"),
        dict(op="res1d", cls="slit", q=lin, L=0.2, W=0.05, note="length+width, window below the cutoff"),
        dict(op="res1d", cls="slit", q=[0.01], L=0.0, W=0.0, note="single point, zero widths"),
        dict(op="res1d", cls="slit", q=[0.01], L=0.002, W=None, note="single point"),
        dict(op="res1d", cls="slit", q=[0.01], L=None, W=0.002, note="single point"),
        dict(op="res1d", cls="pinhole", q=[0.01], sigma=[0.0], note="single point, zero width"),
        dict(op="res1d", cls="pinhole", q=[0.01], sigma=[0.003], note="single point"),
        dict(op="res1d", cls="pinhole", q=lin, sigma=[2 * x for x in lin], note="sigma = 2q"),
        dict(op="res1d", cls="pinhole", q=lin, sigma=[0.0] * 10, note="zero width"),
        dict(op="res1d", cls="slit", q=lin, L=0.0, W=0.0, note="zero widths"),
        # data merged from two settings: the smallest / largest q occurs twice (the step at that end is zero)
        dict(op="res1d", cls="pinhole", q=[lin[0]] + lin, sigma=[0.05 * x for x in [lin[0]] + lin],
             note="first point repeated"),
        dict(op="res1d", cls="pinhole", q=lin + [lin[-1]], sigma=[0.3 * x for x in lin + [lin[-1]]],
             note="last point repeated"),
        dict(op="res1d", cls="pinhole", q=[lin[0]] + lin + [lin[-1]], sigma=[0.05 * x for x in [lin[0]] + lin + [lin[-1]]],
             note="both ends repeated"),
        dict(op="direct", dkind="pinhole", q=[lin[0]] + lin + [lin[-1]], sigma=[0.1 * x for x in [lin[0]] + lin + [lin[-1]]],
             intercept=2.5, slope=3.0, calls=[[2.0, 0.25], [3.0, 0.7]], note="both ends repeated through DirectModel"),
        # a shifted centre q + k*W/30 falls exactly on a bin edge
        dict(op="res1d", cls="slit",
             q=[1e-05, 1.25e-05, 2.5e-05, 3.7500000000000003e-05, 5.75e-05, 6.25e-05, 8.25e-05, 8.75e-05, 9e-05, 0.00011],
             L=[2.25e-05] * 10,
             W=[5.000000000000001e-07, 6.25e-07, 1.25e-06, 1.8750000000000003e-06, 2.8750000000000004e-06,
                3.125e-06, 4.125e-06, 4.3750000000000005e-06, 4.5e-06, 5.500000000000001e-06],
             note="shifted centre on a bin edge"),
        dict(op="direct", dkind="slit", q=lin, L=None, W=[0.005] * 10, intercept=2.5, slope=0.0,
             calls=[[2.0, 0.25], [0.25, 8.0], [3.0, 0.7]], note="D3 through DirectModel"),
        dict(op="direct", dkind="slit", q=lin, L=[0.01] * 10, W=None, intercept=2.5, slope=3.0,
             calls=[[2.0, 0.25], [0.25, 8.0], [3.0, 0.7]], note="D4 through DirectModel"),
        dict(op="direct", dkind="slit", q=[0.01], L=[0.0], W=[0.0], intercept=2.5, slope=3.0,
             calls=[[2.0, 0.25], [3.0, 0.7]], note="single point zero widths through DirectModel"),
        dict(op="direct", dkind="pinhole", q=lin, sigma=[0.0] * 10, intercept=2.5, slope=3.0,
             calls=[[2.0, 0.25], [3.0, 0.7]], note="all-zero dx selects Perfect1D"),
    ]
    jobs = []
    for k, j in enumerate(A):
        d = dict(base)
        d.update(j)
        d["tid"] = first_tid + k
        d["cell"] = {"kind": "anchor", "note": j["note"], "via": "direct" if j["op"] == "direct" else "ctor",
                     "src": "default"}
        jobs.append(d)
    return jobs


def select_cells(cells, tier, seed):
    rng = random.Random(seed)
    if tier == "thorough":
        out = []
        for c in cells:
            reps = 3
            if c["size"] == "huge":
                reps = 2
            out += [c] * reps
        return out
    # quick: stratified sample - every (kind, via, src) stratum and every size / pattern appears
    strata = {}
    for c in cells:
        strata.setdefault((c["kind"], c["via"], c["src"]), []).append(c)
    out = []
    per = max(6, 380 // len(strata))
    for key in sorted(strata):
        group = strata[key]
        rng.shuffle(group)
        small = [c for c in group if c["size"] != "huge"]
        huge = [c for c in group if c["size"] == "huge"]
        out += small[:per - 1] + huge[:1]
    return out


# ------------------------------------------------------------------ classification of violations
def shape_of(job):
    if job.get("op") == "res2d" or job.get("dkind") == "2d":
        return "2d"
    if job.get("cls") == "pinhole" or job.get("dkind") == "pinhole":
        return "pinhole"
    if job.get("cls") == "perfect" or job.get("dkind") == "none":
        return "none"

    def nz(x):
        if x is None:
            return False
        if isinstance(x, (int, float)):
            return x != 0
        return any(v != 0 for v in x)
    L, W = nz(job.get("L")), nz(job.get("W"))
    return {(True, True): "length+width", (True, False): "length-only", (False, True): "width-only",
            (False, False): "zero"}[(L, W)]


def classify(job, ev, clause):
    shape = shape_of(job)
    ctor = ev.get("cls") or ev.get("rescls") or {"pinhole": "Pinhole1D", "slit": "Slit1D", "2d": "Pinhole2D",
                                                 "none": "Perfect1D"}.get(job.get("dkind", ""), "")
    if ev["ev"] == "Res2D":
        ctor = "Pinhole2D"
    key = {"ctor": ctor, "via": "DirectModel" if ev["ev"] == "Direct" else "ctor", "shape": shape, "clause": clause,
           "width-only": shape == "width-only"}
    n = len(job.get("q") or job.get("qx") or [])
    if clause == "constructs":
        key["error"] = ev.get("error", "").split(":")[0]
        key["single_point"] = n == 1
    if clause in ("weights-finite", "apply-finite"):
        key["clause"] = "weights-finite"
    return key


# ------------------------------------------------------------------ run
def event_weight(ev):
    w = 200
    for k in ("qcalc", "qxc", "qyc", "unsmeared", "q", "base", "weights"):
        w += len(ev.get(k) or [])
    for r in ev.get("rows") or []:
        w += len(r)
    for p in ev.get("probes") or []:
        w += len(p.get("theory") or []) + len(p.get("out") or [])
    for c in ev.get("calls") or []:
        w += len(c["out"])
    return w


def run_jobs(chk, jobs, label, keep=None):
    if not jobs:
        return []
    work = vlib.scratch("c03")
    try:
        nparts = min(vlib.NCPU, max(1, len(jobs) // 4))
        order = sorted(range(len(jobs)), key=lambda i: -len(jobs[i].get("q") or jobs[i].get("qx") or []))
        parts = [[] for _ in range(nparts)]
        for k, i in enumerate(order):
            parts[k % nparts].append(jobs[i])
        outs = vlib.run_workers_parallel("w_resolution.py", [{"jobs": p} for p in parts], work, timeout=3000)
        events = sorted((e for o in outs for e in o), key=lambda e: e["tid"])
    finally:
        shutil.rmtree(work, ignore_errors=True)
    by_tid = {j["tid"]: j for j in jobs}
    if set(e["tid"] for e in events) != set(by_tid):
        raise vlib.Machinery("worker lost events: %d jobs, %d events" % (len(jobs), len(events)))
    for e in events:
        e.pop("where", None)
    # batches of bounded size, validated by a few JVMs in parallel
    batches, cur, size = [], [], 0
    for e in events:
        w = event_weight(e)
        if cur and size + w > 1500000:
            batches.append(cur)
            cur, size = [], 0
        cur.append(e)
        size += w
    if cur:
        batches.append(cur)
    with ThreadPoolExecutor(max_workers=min(6, len(batches))) as ex:
        results = list(ex.map(lambda b: vlib.validate_trace("ResolutionTrace", b, timeout=3000, heap="3g",
                                                            keep=keep if len(batches) == 1 else None), batches))
    seen = {}
    for batch, v in zip(batches, results):
        chk.cov["traces_validated_against_impl"] += len(batch)
        chk.cov["transitions"] += v["states"]
        chk.notes.setdefault("trace_runs", []).append(
            {"label": label, "objects": len(batch), "wall_s": round(v["wall_s"], 1)})
        for tid, line, clause, detail in v["rejects"]:
            job = by_tid[tid]
            ev = batch[line - 1]
            key = classify(job, ev, clause)
            ks = json.dumps(key, sort_keys=True)
            seen[ks] = seen.get(ks, 0) + 1
            if seen[ks] == 1 and ks not in chk.notes.get("violations_by_key", {}):
                small = {k: (v2 if not isinstance(v2, list) or len(v2) <= 40 else v2[:40] + ["..."])
                         for k, v2 in ev.items() if k not in ("rows", "probes", "calls")}
                chk.violation(key, {"scenario": job, "clause": clause, "detail": detail[:1500], "event": small})
    if seen:
        tot = chk.notes.setdefault("violations_by_key", {})
        for ks, cnt in seen.items():
            tot[ks] = tot.get(ks, 0) + cnt
    rejected = set()
    for batch, v in zip(batches, results):
        rejected |= set(batch[line - 1]["tid"] for _, line, _, _ in v["rejects"])
    for e in events:
        e["_accepted"] = e["tid"] not in rejected
    for j in jobs:
        c = j["cell"]
        n = len(j.get("q") or j.get("qx") or [])
        sig = [c, n if n < 10 else int(math.log(n, 1.5)), shape_of(j)]
        chk.case(sig, shape_of(j) not in ("zero", "none"),
                 sample={"cell": c, "npoints": n, "shape": shape_of(j)})
    return events


def bump(x, rel=1e-9):
    return repr(float(x) * (1.0 + rel))


def corrupted_trace_selftest(chk, events):
    """DESIGN section 6.1: one recorded field of one accepted event is perturbed; the trace module
    must reject exactly that event with the expected clause."""
    import copy
    cases = []

    def pick(pred):
        for e in events:
            if e.get("_accepted") and pred(e):
                return copy.deepcopy(e)
        return None
    e = pick(lambda e: e["ev"] == "Res1D" and e["haverows"] and e["cls"] != "Perfect1D" and len(e["q"]) >= 3
             and all(len(r) > 2 for r in e["rows"]))
    if e is not None:
        a = copy.deepcopy(e)
        i = len(a["rows"]) // 2
        k = max(range(len(a["rows"][i])), key=lambda t: float(a["rows"][i][t]))
        a["rows"][i][k] = bump(a["rows"][i][k], 1e-8)
        cases.append((a, "rows-sum-to-one"))
        b = copy.deepcopy(e)
        b["qcalc"][0] = repr(-abs(float(b["qcalc"][0])))
        cases.append((b, "qcalc-positive"))
        c = copy.deepcopy(e)
        c["probes"][1]["out"][0] = bump(c["probes"][1]["out"][0])
        cases.append((c, "apply-is-weighted-average"))
        d = copy.deepcopy(e)
        i = len(d["rows"]) // 2
        d["rows"][i][0] = repr(-1e-6)
        cases.append((d, "weights-nonnegative"))
    e = pick(lambda e: e["ev"] == "Res1D" and e["cls"] == "Slit1D" and not e["supplied"] and len(e["q"]) >= 3
             and any(float(x) > 0 for x in e["W"]))
    if e is not None:
        # keep only the calculation points below the first data point: no window can be covered
        m = min(float(x) for x in e["q"])
        e["qcalc"] = [x for x in e["qcalc"] if float(x) < m] or e["qcalc"][:1]
        e["haverows"] = False
        e["rows"], e["off"], e["probes"] = [], [], []
        cases.append((e, "covers-high"))
    e = pick(lambda e: e["ev"] == "Direct" and e["calls"] and e["rescls"] in ("Pinhole1D", "Slit1D"))
    if e is not None:
        e["calls"][0]["out"][0] = bump(e["calls"][0]["out"][0])
        cases.append((e, "linear-in-scale-and-background"))
    e = pick(lambda e: e["ev"] == "Res2D" and e["haswidth"])
    if e is not None:
        e["weights"][0] = repr(-float(e["weights"][0]) - 1e-3)
        cases.append((e, "weights-nonnegative"))
    e = pick(lambda e: e["ev"] == "Res1D" and e["cls"] == "Perfect1D")
    if e is not None:
        e["probes"][1]["out"][0] = bump(e["probes"][1]["out"][0], 1e-15)
        cases.append((e, "zero-width-identity"))
    if not cases:
        raise vlib.Machinery("corrupted-trace self test: no accepted event to perturb")
    evs = []
    for k, (e, _) in enumerate(cases):
        e = {kk: vv for kk, vv in e.items() if kk != "_accepted"}
        e["tid"] = 900000 + k
        evs.append(e)
    v = vlib.validate_trace("ResolutionTrace", evs, timeout=1200, heap="3g")
    got = {}
    for tid, line, clause, detail in v["rejects"]:
        got.setdefault(tid, set()).add(clause)
    for k, (e, want) in enumerate(cases):
        if want not in got.get(900000 + k, set()):
            raise vlib.Machinery("corrupted-trace self test: %s of a %s event was not rejected with '%s' (got %s)"
                                 % (want, e["ev"], want, sorted(got.get(900000 + k, []))))
    chk.notes["corrupted_trace_selftest"] = "%d perturbed events, each rejected with the expected clause: %s" % (
        len(cases), ", ".join(sorted(set(w for _, w in cases))))


def run(chk, args):
    thorough = chk.tier == "thorough"
    if args.replay:
        with open(args.replay) as f:
            rp = json.load(f)
        run_jobs(chk, [rp["detail"]["scenario"]], "replay")
        return
    design_runs(chk, thorough)
    cells = lattice()
    chk.notes["lattice_cells"] = len(cells)
    rng = random.Random(chk.seed)
    jobs = []
    tid = 0
    for c in select_cells(cells, chk.tier, chk.seed):
        tid += 1
        jobs.append(concretise(c, tid, rng))
    jobs += anchors(tid + 1)
    chk.notes["objects"] = len(jobs)
    # bounded memory: a few thousand objects per round
    R = 1500
    first = None
    for i in range(0, len(jobs), R):
        evs = run_jobs(chk, jobs[i:i + R], "lattice")
        if first is None:
            first = evs
    corrupted_trace_selftest(chk, first)
    chk.cov["rule"] = (
        "design: TLC exhaustive over Resolution (every data grid q subset of 1..QMax with <= MaxPts points, every "
        "per-point width vector over {0,1,2,4,8}, pinhole / slit length / width / both, default and user-supplied "
        "q_calc); replay: cells of the TLC-exported configuration lattice (grid family x size class x kind x width "
        "pattern x magnitude x accuracy x q_calc source x entry point) concretised with seeded random grids, plus "
        "harness-chosen boundary inputs; every recorded object validated by ResolutionTrace. A case is distinct by "
        "(lattice cell, size bucket, width shape) and non-trivial when some width is non-zero.")
    chk.assumptions += [
        "data grids are strictly increasing with spacing > 2e-7 (3*MINIMUM_RESOLUTION), so a zero-width pinhole "
        "window contains its own point only",
        "a width is either zero or >= 1e-7 (10*MINIMUM_RESOLUTION): narrower widths are treated as zero by "
        "linear_extrapolation by design; 2-D data points have |q| >= 1e-6 of the mesh size (DirectModel masks q < 1e-16)",
        "a user-supplied q_calc contains the data points (resolution.py: 'assumes that q is a subset of q_calc'), "
        "is positive for the slit classes, and has no two points closer than 2e-7",
        "coverage is required with one bin of slack and only for the default q_calc (DESIGN C03 soundness note)",
        "Slit2D (oriented USANS) is not exercised: its apply() calls np.trapz, which the installed numpy no longer "
        "has, and DirectModel's 'Iq-oriented' branch calls it with keyword names it does not accept",
        "2-D zero width is tested through the no-resolution path (dqx_data None); explicit zeros become SIGMA_ZERO=1e-10",
        "TLC operator overrides in spec/IEEE.java implement IEEE-754 binary64 as java does",
    ]


if __name__ == "__main__":
    vlib.main(PROP, "model_checking", run)
