"""C10 - every calling interface yields the same theory; unknown parameters are refused.

1. TLC (Interfaces.tla): the accept/refuse matrix (parameter kind x written form, keyword and dotted
   schemes) as a request/answer state machine - an unknown name is never silently ignored, a
   dispersity suffix is accepted only on dispersible parameters - and all selection patterns
   (mask, NaN, qmin, qmax) on 4 points; both are exported for replay.
2. Replay on the real interfaces: direct calculator, keyword functions Iq/Iqxy, call_kernel, the
   bumps Experiment wrapper (with a stub bumps.parameter), the SasView-style model object.
3. Trace validation (InterfacesTrace): Name events (each matrix cell offered to each interface of
   each model), Select events (theory returned for exactly the selected points, in order,
   bit-identical to the unrestricted theory), Agree events (same request through all interfaces:
   bit-identical for the keyword-scheme interfaces, 1e-13 for the SasView wrapper).
"""
import json
import os
import random
import shutil
import subprocess
import sys

sys.path.insert(0, os.path.dirname(os.path.dirname(os.path.abspath(__file__))))
import vlib
from pdmesh_common import split

PROP = "C10"
IFACES = ["kernel", "direct", "keyword", "bumps", "sasview"]
QUICK = ["cylinder", "sphere", "core_multi_shell", "hardsphere", "broad_peak", "parallelepiped", "onion", "lamellar",
         "hayter_msa", "ellipsoid", "stacked_disks", "core_shell_sphere", "rpa", "line"]


def all_models():
    code = "import json\nfrom sasmodels import core\nprint(json.dumps(core.list_models()))\n"
    d = vlib.scratch("lm")
    try:
        p = subprocess.run([vlib.VENV_PY, "-c", code], capture_output=True, text=True, env=vlib.worker_env(d), timeout=600)
        if p.returncode != 0:
            raise vlib.Machinery("listing models failed: " + p.stderr[-1500:])
        return json.loads(p.stdout.strip().splitlines()[-1])
    finally:
        shutil.rmtree(d, ignore_errors=True)


def run(chk, args):
    thorough = chk.tier == "thorough"
    r = vlib.tlc_must_pass("Interfaces", "Interfaces.cfg", timeout=900)
    chk.add_tlc(r, "Interfaces accept/refuse matrix")
    if r["violated"]:
        chk.design_violation(r, "Interfaces")
    cells = vlib.parse_printed(r["out"], "CELLS")[0]["cells"]
    sel = vlib.parse_printed(r["out"], "SELCASES")[0]["cases"]
    sel.sort(key=lambda c: json.dumps(c, sort_keys=True))
    rng = random.Random(chk.seed)
    if args.replay:
        scen = [json.load(open(args.replay))["detail"]["scenario"]]
    else:
        models = all_models() if thorough else QUICK
        scen = []
        tid = 0
        for m in models:
            tid += 1
            scen.append({"tid": tid, "kind": "names", "model": m, "cells": cells,
                         "ifaces": IFACES if (thorough or m in QUICK[:4]) else ["kernel", "sasview", "bumps"]})
            for k in range(12 if thorough else 4):
                tid += 1
                scen.append({"tid": tid, "kind": "agree", "model": m, "seed": rng.randrange(1 << 30),
                             "dim": "2d" if k % 4 == 3 else "1d"})
        rng.shuffle(sel)
        for c in (sel if thorough else sel[:120]):
            tid += 1
            sc = {"tid": tid, "kind": "select", "model": rng.choice(["sphere", "cylinder"]), "case": c}
            # q vectors are not always stored in increasing order (two detector banks, a reversed scan) and the window
            # is often left at the data object's default
            if tid % 3 == 0:
                sc["order"] = rng.choice([[3, 2, 1, 0], [2, 3, 0, 1], [1, 0, 3, 2], [0, 2, 1, 3]])
            if tid % 2 == 0:
                sc["default_window"] = True
            scen.append(sc)
    work = vlib.scratch("c10")
    try:
        outs = vlib.run_workers_parallel("w_interfaces.py", [{"scenarios": p} for p in split(scen, vlib.NCPU)], work, timeout=3000)
        evs = sorted([e for o in outs for e in o], key=lambda e: e["tid"])
        herr = [e for e in evs if e["ev"] == "HarnessError"]
        if herr:
            raise vlib.Machinery("interfaces worker: %s %s\n%s" % (herr[0]["model"], herr[0]["error"], herr[0]["tb"]))
        by = {s["tid"]: s for s in scen}
        slim = [{k: v for k, v in e.items() if k != "pars"} for e in evs]
        B = 4000
        for i in range(0, len(slim), B):
            part = slim[i:i + B]
            v = vlib.validate_trace("InterfacesTrace", part, timeout=3000)
            chk.cov["traces_validated_against_impl"] += len(part)
            chk.cov["transitions"] += v["states"]
            for tid, line, clause, detail in v["rejects"]:
                e = evs[i + line - 1]
                sc = dict(by[tid])
                if sc["kind"] == "names":
                    sc = dict(sc, cells=[{"kind": e["kind"], "form": e["form"]}], ifaces=[e["iface"]])
                chk.violation({"clause": clause, "event": e["ev"], "iface": e.get("iface", ""), "kind": e.get("kind", ""),
                               "form": e.get("form", ""), "dim": e.get("dim", ""),
                               "model": e["model"] if e["ev"] != "Name" else ""},
                              {"scenario": sc, "clause": clause, "detail": detail[:2500], "model": e["model"],
                               "name": e.get("name"), "pars": e.get("pars")})
        for e in evs:
            if e["ev"] == "Name":
                chk.case(["name", e["model"], e["iface"], e["kind"], e["form"]], nontrivial=e["form"] != "bare",
                         sample={"model": e["model"], "iface": e["iface"], "name": e["name"], "outcome": e["outcome"]})
            elif e["ev"] == "Select":
                chk.case(["select", e["dim"], e["iface"], e["mask"], e["isnan"], e["qmin"], e["qmax"]], nontrivial=True,
                         sample={"select": {"mask": e["mask"], "isnan": e["isnan"], "qmin": e["qmin"], "qmax": e["qmax"],
                                            "returned": len(e["got"])}})
            else:
                chk.case(["agree", e["model"], e["dim"], sorted((k, str(x)) for k, x in e["pars"].items())], nontrivial=True,
                         sample={"agree": e["model"], "dim": e["dim"], "pars": e["pars"]})
    finally:
        shutil.rmtree(work, ignore_errors=True)
    chk.cov["rule"] = (
        "names: every cell of the TLC matrix (10 kinds x 14 written forms) for one representative parameter of each "
        "kind present in each model, offered to each interface; selection: TLC-enumerated mask/NaN/qmin/qmax patterns "
        "on 4 points, 1-D and 2-D, through DirectModel and the bumps wrapper; agreement: random requests (dispersity "
        "on up to 2 parameters, 1-D/2-D, multiplicity models, structure factors) through five interfaces, plus the SasView-style object with array distributions (parametric points, and free-form points with unnormalised and zero weights).")
    chk.assumptions += [
        "bumps is not installed: a 20-line stub of bumps.parameter (Parameter.default, Reference) stands in, as the property allows",
        "array distributions exist only in the SasView-style interface: they are compared with the parametric request "
        "whose points and weights they carry, and free-form ones with the same mesh handed to the kernel directly",
        "the same cutoff (1e-5) is forced in all interfaces; the SasView wrapper builds its own mesh (tolerance 1e-13)",
        "vector elements beyond the multiplicity are not offered to the SasView-style instance",
    ]


if __name__ == "__main__":
    vlib.main(PROP, "model_checking", run)
