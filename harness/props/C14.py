"""C14 - amplitude outputs are mutually consistent for every form factor  (weak fit).

1. TLC, exhaustive (spec/Amplitude.tla): accumulation + normalisation of the dispersity loop
   applied to per-point amplitudes f with F2 = f^2: 0 <= <F>^2 <= <F^2> at every prefix and after
   normalisation, equality exactly for uniform amplitudes (so for a single point), intensity from
   the parts independent of the weight normalisation; <= 9 points, weights 0..3, amplitudes -2..2.
   Amplitude_wrong.cfg (weight forgotten in the F^2 accumulator) MUST violate CauchySchwarz.
2. Binding (spec/AmplitudeTrace.tla): every model of the working tree with have_Fq x parameter
   sets (defaults + the model's random()) x dispersity off/on x every effective-radius mode x q
   from 1e-5/size to 20/size through call_Fq / call_kernel; TLC evaluates every clause of the
   property on every observation.  Mono / spherical / equal-volume-mode are derived by the spec
   from the exported table and the logged parameter set.
"""
import json
import os
import shutil
import sys
from concurrent.futures import ThreadPoolExecutor

sys.path.insert(0, os.path.dirname(os.path.dirname(os.path.abspath(__file__))))
import vlib

PROP = "C14"
HARNESS_CLAUSES = ("harness-model-without-Fq", "harness-mode", "harness-q-grid", "unknown-event")


def worker_events(script, req, dll_dir, what):
    os.makedirs(dll_dir, exist_ok=True)
    evs = vlib.run_worker(script, req, dll_dir, timeout=3000)
    for e in evs:
        if e.get("ev") == "HarnessError":
            raise vlib.Machinery("%s worker error (%s): %s\n%s" % (script, what, e["error"], e.get("tb", "")))
    return evs


def design_runs(chk):
    r = vlib.tlc_must_pass("Amplitude", "Amplitude.cfg", timeout=1800)
    chk.add_tlc(r, "Amplitude exhaustive (<= 9 points, weights 0..3, amplitudes -2..2)")
    if r["violated"]:
        chk.design_violation(r, "Amplitude", {"class": "design"})
    w = vlib.tlc("Amplitude", "Amplitude_wrong.cfg", timeout=600)
    if w["violated"] != "CauchySchwarz":
        raise vlib.Machinery("vacuity control: the unweighted F^2 accumulator must violate CauchySchwarz, got %s / %s"
                             % (w["violated"], w["error"]))
    chk.notes["vacuity_control"] = "Amplitude_wrong.cfg (weight forgotten in the F^2 sum) violates CauchySchwarz as it must"


def judge(chk, events, label):
    """AmplitudeTrace over the events; returns (rejects, facts by tid)."""
    rejects, facts = [], {}
    B = 1500
    for i in range(0, len(events), B):
        part = events[i:i + B]
        v = vlib.validate_trace("AmplitudeTrace", part, timeout=3000)
        chk.cov["transitions"] += v["states"]
        chk.cov["traces_validated_against_impl"] += len(part)
        chk.notes.setdefault("trace_runs", []).append(
            {"label": label, "events": len(part), "wall_s": round(v["wall_s"], 1)})
        rejects += [(tid, i + line, clause, detail) for tid, line, clause, detail in v["rejects"]]
        for f in vlib.parse_printed(v["out"], "FACTS"):
            facts[f["tid"]] = f
    return rejects, facts


def scenario_of(e):
    return {"tid": e["tid"], "model": e["model"], "pars": e["pars"], "q": e["q"], "mode": e["mode"]}


def run(chk, args):
    thorough = chk.tier == "thorough"
    work = vlib.scratch("c14")
    try:
        if args.replay:
            with open(args.replay) as f:
                rp = json.load(f)
            events = worker_events("w_amplitude.py", {"op": "replay", "scenarios": [rp["detail"]["scenario"]]},
                                   os.path.join(work, "replay"), "replay")
        else:
            design_runs(chk)
            tables = worker_events("w_units.py", {"op": "tables", "models": None}, os.path.join(work, "tables"), "tables")
            models = sorted(t["model"] for t in tables if t["have_Fq"])
            chk.notes["models_with_amplitude_output"] = models
            # VERIF_MODELS=a,b restricts the run to these models (self-tests on scratch copies)
            only = [m for m in os.environ.get("VERIF_MODELS", "").split(",") if m]
            if only:
                models = [m for m in models if m in only]
            elif len(models) < 20:
                raise vlib.Machinery("only %d models with have_Fq - table export broken?" % len(models))
            n_sets = 25 if thorough else 3
            jobs, tid = [], 1
            for m in models:
                jobs.append(("w_amplitude.py", {"op": "obs", "model": m, "n_sets": n_sets, "seed": chk.seed,
                                                "first_tid": tid}, os.path.join(work, "m_" + m), "obs " + m))
                tid += n_sets * 2 * 12
            with ThreadPoolExecutor(max_workers=vlib.NCPU) as ex:
                futs = [ex.submit(worker_events, *j) for j in jobs]
                events = [e for f in futs for e in f.result()]
            events.sort(key=lambda e: e["tid"])
        rejects, facts = judge(chk, events, "observations")
        if len(facts) != len(events):
            raise vlib.Machinery("AmplitudeTrace reported facts for %d of %d observations" % (len(facts), len(events)))
        seen = {}
        for tid_, line, clause, detail in rejects:
            e = events[line - 1]
            if clause in HARNESS_CLAUSES:
                raise vlib.Machinery("harness fault flagged by AmplitudeTrace: %s %s %s" % (clause, e["model"], detail[:400]))
            f = facts[e["tid"]]
            mode_name = e["table"]["modes"][e["mode"] - 1]
            key = {"model": e["model"], "clause": clause, "mono": f["mono"]}
            if clause in ("reff-positive-finite", "equivalent-volume-sphere"):
                key["mode"] = mode_name
            k = json.dumps(key, sort_keys=True)
            if k in seen:
                continue
            seen[k] = True
            chk.violation(key, {"scenario": scenario_of(e), "clause": clause, "mode_name": mode_name,
                                "detail": detail[:3000], "res": e["res"]})
        counts = {"mono": 0, "mono_spherical": 0, "mono_equal_volume_mode": 0, "dispersed": 0}
        for e in events:
            f = facts[e["tid"]]
            counts["mono" if f["mono"] else "dispersed"] += 1
            counts["mono_spherical"] += int(f["mono"] and f["spherical"])
            counts["mono_equal_volume_mode"] += int(f["mono"] and f["equiv"])
            strict = (not e["res"]["raised"]) and any(float(a) != 0.0 for a in e["res"]["F2"])
            chk.case([e["model"], e["mode"], f["mono"], e["pars"]], strict,
                     sample={"model": e["model"], "mode": e["table"]["modes"][e["mode"] - 1], "mono": f["mono"],
                             "spherical": f["spherical"], "nq": len(e["q"])})
        chk.notes["antecedents_exercised"] = counts
        chk.notes["spherical_models_by_spec"] = sorted({e["model"] for e in events if facts[e["tid"]]["spherical"]})
        if not args.replay and not os.environ.get("VERIF_MODELS") and min(counts.values()) == 0:
            raise vlib.Machinery("a clause of the property was never exercised: %s" % counts)
    finally:
        shutil.rmtree(work, ignore_errors=True)
    chk.cov["rule"] = (
        "design: TLC exhaustive over Amplitude (every sequence of <= 9 mesh points with weight 0..3 and "
        "amplitude -2..2); binding: every model with have_Fq x {defaults, random() sets} x dispersity "
        "off/on x every effective-radius mode x 8 q from 1e-5/size to 20/size; one case = one "
        "call_Fq + call_kernel observation judged by AmplitudeTrace; non-trivial when <F^2> is not "
        "identically zero.")
    chk.assumptions += [
        "tolerances (in spec/Amplitude.tla, with justification): eps 1e-12 on <F>^2 <= <F^2>, 1e-13 on the intensity relation, 1e-6 at q*size = 1e-5, 1e-10 for spherical equality, 1e-12 for the equal-volume sphere",
        "spherically symmetric = no orientation parameters, no Iqac/Iqabc, category shape:sphere (derived by the spec from the exported table)",
        "size of a parameter set = its largest parameter declared in Ang",
        "weak fit: TLC evaluates closed-form relations on observations; the exhaustive part is the accumulation algebra only",
        "TLC operator overrides in spec/IEEE.java implement IEEE-754 binary64 as java does",
    ]


if __name__ == "__main__":
    vlib.main(PROP, "exploration", run)
