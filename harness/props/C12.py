"""C12 - 1-D intensity is the orientational average of the model's 2-D intensity  (weak fit).

The orientational average has no closed form, so the specification (OrientAvgTrace) states it as
the limit of a refinement ladder of product quadratures (Gauss-Legendre in cos(theta) x periodic
trapezoid in phi), verifies every quadrature rule it is given (Legendre recurrence), verifies the
direction vectors at which the model's own particle-frame function was evaluated, requires three
rules with different node sets to agree to 1e-6 (the property's convergence premise; scenarios that
do not meet it are counted and skipped), and then requires the model's 1-D <F^2> and I(q) to equal
the average within the accuracy of the model's own quadrature.  TLC's role is evaluation of that law
on recorded observations; there is no state space to explore (level: exploration).
"""
import json
import os
import random
import re
import shutil
import sys

sys.path.insert(0, os.path.dirname(os.path.dirname(os.path.abspath(__file__))))
sys.path.insert(0, os.path.dirname(os.path.abspath(__file__)))
import vlib
from pdmesh_common import split
import C05

PROP = "C12"
QUICK = ["cylinder", "parallelepiped", "ellipsoid", "triaxial_ellipsoid", "core_shell_bicelle", "barbell",
         "core_shell_parallelepiped", "capped_cylinder", "elliptical_cylinder", "hollow_cylinder"]


def run(chk, args):
    thorough = chk.tier == "thorough"
    if args.replay:
        scen = [json.load(open(args.replay))["detail"]["scenario"]]
    else:
        models = C05.oriented_models()
        chk.notes["oriented_models"] = models
        use = models
        rng = random.Random(chk.seed)
        scen = []
        tid = 0
        for m in use:
            for k in range(12 if thorough else 3):
                tid += 1
                kind = "default" if k == 0 else ("perturbed" if k % 2 else "random")
                scen.append({"tid": tid, "model": m, "seed": rng.randrange(1 << 30), "kind": kind})
    work = vlib.scratch("c12")
    try:
        by_model = {}
        for s in scen:
            by_model.setdefault(s["model"], []).append(s)
        groups = split(sorted(by_model), vlib.NCPU)
        reqs = [{"workdir": os.path.join(work, "m%d" % k), "scenarios": [s for m in g for s in by_model[m]],
                 "rules": [20, 24, 37, 48] if k == 0 else []} for k, g in enumerate(groups)]
        outs = vlib.run_workers_parallel("w_orientavg.py", reqs, work, timeout=3000)
        evs = [e for o in outs for e in o]
        herr = [e for e in evs if e["ev"] == "HarnessError"]
        if herr:
            raise vlib.Machinery("orientavg worker: %s %s\n%s" % (herr[0]["model"], herr[0]["error"], herr[0]["tb"]))
        evs.sort(key=lambda e: (e["ev"] != "Rule", e["tid"]))
        by = {s["tid"]: s for s in scen}
        rules = [e for e in evs if e["ev"] == "Rule"]
        avgs = [e for e in evs if e["ev"] == "Avg"]
        nconv = 0
        B = 40
        for i in range(0, len(avgs), B):
            part = rules + [{k: v for k, v in e.items() if k != "pars"} for e in avgs[i:i + B]]
            v = vlib.validate_trace("OrientAvgTrace", part, timeout=3000)
            chk.cov["traces_validated_against_impl"] += len(part) - len(rules)
            conv = dict((int(a), int(b)) for a, b in re.findall(r'<<\s*"CONVERGED",\s*(\d+),\s*(\d+)\s*>>', v["out"]))
            nconv += sum(1 for x in conv.values() if x)
            chk.notes["q_points_meeting_convergence_premise"] = chk.notes.get("q_points_meeting_convergence_premise", 0) + sum(conv.values())
            for tid, line, clause, detail in v["rejects"]:
                e = part[line - 1]
                full = next((a for a in avgs if a["tid"] == tid), {})
                key = {"clause": clause, "model": e.get("model", "")}
                fp = full.get("pars") or {}
                if "x_core" in fp and "thick_rim" in fp:
                    # the known difference between the 1-D and 2-D functions of the elliptical bicelles exists only
                    # for an elliptical cross-section with a rim; anything else about these models is judged normally
                    key["elliptical-with-rim"] = bool(float(fp["x_core"]) != 1.0 and float(fp["thick_rim"]) > 0.0)
                chk.violation(key,
                              {"scenario": by.get(tid), "clause": clause, "detail": detail[:2500], "pars": full.get("pars")})
            for e in avgs[i:i + B]:
                chk.case([e["model"], sorted((k, str(x)) for k, x in e["pars"].items())], nontrivial=conv.get(e["tid"], 0) > 0,
                         sample={"model": e["model"], "sym": e["sym"], "q": e["q"], "converged_q_points": conv.get(e["tid"], 0)})
        chk.notes["scenarios_meeting_convergence_premise"] = nconv
        chk.notes["scenarios_skipped_not_converged"] = len(avgs) - nconv
        if nconv < max(2, len(avgs) // 3) and not args.replay and not chk.violations:
            raise vlib.Machinery("vacuous: only %d of %d scenarios met the convergence premise" % (nconv, len(avgs)))
    finally:
        shutil.rmtree(work, ignore_errors=True)
    chk.cov["rule"] = (
        "oriented models x (default, default with sizes and ratios moved by independent factors 0.6..1.6, random() parameter sets) x q with q*size in {0.5, 2, 6}; the particle-frame "
        "function is evaluated on 24x16, 37x24 and 48x32 product rules (x1, x1, x2 in phi for symmetric shapes); a case "
        "counts as non-trivial when the three rules agree to 1e-6 (convergence premise).")
    chk.assumptions += [
        "weak fit: the specification is a quadrature law evaluated by TLC, not a state space",
        "the model's internal quadrature is taken as converged when reference rules with 20, 24, 37 and 48 nodes agree to "
        "1e-6 (the models' own rules have 20, 76 or 150 nodes); it cannot be re-run with more Gauss points from outside",
        "ModelTol = 2e-5 = 20 x ConvTol (observed agreement on the unchanged tree: <= 1e-12 on all converged scenarios)",
        "quadrature nodes, weights and direction vectors computed by numpy are verified by the specification (Legendre recurrence)",
    ]


if __name__ == "__main__":
    vlib.main(PROP, "exploration", run)
