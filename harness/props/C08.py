"""C08 - sum and product mixtures equal the stated combination of their parts.

1. TLC, exhaustive: Mixture.tla - the accumulation loop of MixtureKernel.Iq as a state machine over
   component values in {0,1,2} at two q points for 2-3 parts (SumLaw / ProductLaw for all values
   incl. zeros; the as-written loop must fail), and the routing of every part's parameters,
   per-part scale, shared spin state and magnetic triples through _MixtureParts' slices
   (a wrong slice variant must fail).
2. Replay: model expressions with 2-4 components (sums, products, nested products inside sums,
   P@S components, vector-parameter, oriented and magnetic components, permutations of the same
   components, components that are exactly zero at q = 0) evaluated by the real library, and each
   leaf evaluated alone with scale 1, background 0 and its own parameters.
3. Trace validation (MixtureTrace): I = scale * Val(tree) + background with Val recombined by the
   specification.
"""
import json
import os
import random
import shutil
import sys

sys.path.insert(0, os.path.dirname(os.path.dirname(os.path.abspath(__file__))))
import vlib
from pdmesh_common import split

PROP = "C08"
LEAVES = ["sphere", "cylinder", "ellipsoid", "line", "core_multi_shell", "barbell", "sphere@hardsphere",
          "cylinder@hayter_msa", "parallelepiped", "lamellar", "power_law", "core_shell_sphere", "guinier",
          "vesicle@hardsphere", "mono_gauss_coil", "squarewell"]
FIXED = ["sphere+mono_gauss_coil", "mono_gauss_coil*cylinder+sphere", "sphere+cylinder+ellipsoid", "sphere+vesicle@hardsphere", "core_multi_shell+ellipsoid", "core_multi_shell*sphere+cylinder", "sphere+cylinder", "sphere*cylinder", "cylinder+sphere", "line*sphere", "sphere*line",
         "barbell+sphere*cylinder@hardsphere", "line*sphere*cylinder", "sphere*cylinder+ellipsoid*line",
         "sphere+sphere", "core_multi_shell+sphere", "sphere@hardsphere+cylinder"]


def expressions(tier, seed):
    rng = random.Random(seed)
    out = list(FIXED)
    n = 200 if tier == "thorough" else 24
    while len(out) < len(FIXED) + n:
        k = rng.choice([2, 2, 3, 3, 4])
        leaves = [rng.choice(LEAVES) for _ in range(k)]
        ops = [rng.choice(["+", "*"]) for _ in range(k - 1)]
        e = leaves[0]
        for o, l in zip(ops, leaves[1:]):
            e += o + l
        out.append(e)
        # the same components in another order (prefixes relabelled)
        if len(set(ops)) == 1:
            perm = leaves[:]
            rng.shuffle(perm)
            out.append(ops[0].join(perm))
    return out


def run(chk, args):
    thorough = chk.tier == "thorough"
    r = vlib.tlc_must_pass("Mixture", "Mixture.cfg", timeout=1800)
    chk.add_tlc(r, "Mixture accumulation + routing (2-3 parts)")
    if r["violated"]:
        chk.design_violation(r, "Mixture")
    ctl = []
    for c in ("Mixture_asWritten.cfg", "Mixture_badslice.cfg"):
        w = vlib.tlc("Mixture", c, timeout=900)
        if not w["violated"]:
            raise vlib.Machinery("vacuity control %s should violate (%s)" % (c, w["error"]))
        ctl.append("%s violates %s" % (c, w["violated"]))
    chk.notes["vacuity_controls"] = ctl
    if args.replay:
        scen = [json.load(open(args.replay))["detail"]["scenario"]]
    else:
        rng = random.Random(chk.seed)
        scen = []
        tid = 0
        for e in expressions(chk.tier, chk.seed):
            for dim, mag in (("1d", False), ("2d", False), ("2d", True)):
                for zero in ((True, False) if "line" in e else (False,)):
                    tid += 1
                    scen.append({"tid": tid, "expr": e, "seed": rng.randrange(1 << 30), "dim": dim, "zero": zero, "mag": mag,
                                 "manypd": tid % 4 == 1})
    work = vlib.scratch("c08")
    try:
        outs = vlib.run_workers_parallel("w_mixture.py", [{"scenarios": p} for p in split(scen, vlib.NCPU)], work, timeout=3000)
        evs = sorted([e for o in outs for e in o], key=lambda e: e["tid"])
        if len(evs) != 2 * len(scen):
            raise vlib.Machinery("mixture worker returned %d of %d events" % (len(evs), len(scen)))
        by = {s["tid"] + k: s for s in scen for k in (0, 500000)}
        slim = [{k: v for k, v in e.items() if k not in ("pars", "tb")} for e in evs]
        v = vlib.validate_trace("MixtureTrace", slim, timeout=3000)
        chk.cov["traces_validated_against_impl"] += len(evs)
        chk.cov["transitions"] += v["states"]
        for tid, line, clause, detail in v["rejects"]:
            e = evs[line - 1]
            ops = sorted(set(c for c in e["expr"] if c in "+*"))
            chk.violation({"clause": clause, "ops": "".join(ops), "dim": e["dim"], "zero-component": bool(by[tid]["zero"]),
                           "raised": e["raised"][:60]},
                          {"scenario": by[tid], "clause": clause, "detail": detail[:2500], "pars": e.get("pars"),
                           "tb": e.get("tb", "")})
        for e in evs:
            chk.case([e["expr"], e["dim"], by[e["tid"]]["zero"], sorted((k, str(x)) for k, x in e.get("pars", {}).items())],
                     nontrivial=True, sample={"expr": e["expr"], "dim": e["dim"], "names": e["names"][:12]})
    finally:
        shutil.rmtree(work, ignore_errors=True)
    chk.cov["rule"] = (
        "design: TLC over Mixture (all part values in {0,1,2}^2 for 2-3 parts, both operators, all part shapes); "
        "replay: fixed and generated model expressions (2-4 leaves from 13 leaf models incl. P@S, vector-parameter, "
        "oriented and magnetic ones, permutations, zero-valued components; positive, negative and zero part scales), 1-D, 2-D and 2-D polarised with a magnitude on a random SLD of every part, dispersity in several "
        "components; every kernel is called twice (other values, other dispersity meshes the second time); MixtureTrace recombines the separately evaluated leaves.")
    chk.assumptions += [
        "when polarisation is on every SLD-bearing component is given a non-zero magnetic magnitude: a component "
        "with all magnitudes zero is computed by the plain kernel when alone but by the magnetic kernel inside a "
        "magnetic mixture (sasmodels' documented on/off switch), which the property does not speak about",
        "2-D magnetic scenarios avoid q = (0,0) (magnetic kernels return 0 there by a guard outside the property)",
        "tolerance 1e-13 relative: per-part scale is applied inside the kernel in the mixture and outside in the law",
    ]


if __name__ == "__main__":
    vlib.main(PROP, "model_checking", run)
