"""C19 - the SESANS transform is the Hankel transform G(xi) - G(0).

1. TLC, exhaustive (design level): Sesans.tla - Construct (geometric q grid, one-sided weights,
   acceptance mask) and Apply over exact integers: NonEmpty, PositiveQ, StrictlyIncreasingQ, Covers,
   WeightsPositive, MaskUpClosed, FullAcceptsReachable, ZeroMasksAll, Linear, ZeroIsMinusG0,
   NonPositive, Bounded; the inverted-mask variant must fail (vacuity control).
2. Specification -> code: TLC enumerates the configuration lattice defined in Sesans.tla (spin-echo
   grid family x size x span x wavelength class x acceptance class; through DirectModel also the
   model and a mid acceptance); the harness concretises each record and drives
   sesans.SesansTransform / DirectModel on SESANS data (w_sesans.py).
3. Code -> specification: every recorded construction and application is validated by SesansTrace,
   which evaluates the closed forms, preconditions and tolerances of SesansCore over IEEE doubles.

Weak fit (level "exploration"): the analytic law is checked by TLC on observations of sampled
configurations, it is not model-checked.
"""
import json
import math
import os
import random
import re
import shutil
import sys
from concurrent.futures import ThreadPoolExecutor

sys.path.insert(0, os.path.dirname(os.path.dirname(os.path.abspath(__file__))))
import vlib

PROP = "C19"
NPROC = max(2, min(8, vlib.NCPU // 2))
MASK_INVARIANTS = ("MaskUpClosed", "FullAcceptsReachable", "ZeroMasksAll")


# ------------------------------------------------------------------ design level
def design_runs(chk, thorough):
    r = vlib.tlc_must_pass("Sesans", "Sesans_big.cfg" if thorough else "Sesans.cfg", timeout=3000)
    chk.add_tlc(r, "Sesans exhaustive (%s)" % ("MaxXi=6, MaxN=4" if thorough else "MaxXi=5, MaxN=3"))
    if r["violated"]:
        chk.design_violation(r, "Sesans", {"class": "design"})
    w = vlib.tlc("Sesans", "Sesans_invertedMask.cfg", timeout=1200)
    if w["violated"] not in MASK_INVARIANTS:
        raise vlib.Machinery("vacuity control: the inverted-mask variant should violate a mask invariant, got %s / %s"
                             % (w["violated"], w["error"]))
    chk.notes["vacuity_control"] = "Sesans_invertedMask.cfg violates %s as it must" % w["violated"]


def export_lattice(chk):
    r = vlib.tlc_must_pass("Sesans", "SesansGen.cfg", timeout=1200)
    out = {}
    for tag in ("LATTICE", "DMLATTICE", "GAUSS", "MIXTURES"):
        got = vlib.parse_printed(r["out"], tag)
        if len(got) < 1 or not isinstance(got[0], list) or not got[0]:
            raise vlib.Machinery("lattice export: no %s in the TLC output" % tag)
        out[tag] = got[0]
    canon = lambda x: json.dumps(x, sort_keys=True)
    for tag in out:
        out[tag] = sorted(out[tag], key=canon)
    out["GAUSS"].sort(key=lambda g: (g["where"] != "in", g["name"]))
    chk.notes["lattice"] = {"transform": len(out["LATTICE"]), "directmodel": len(out["DMLATTICE"]),
                            "gauss_classes": len(out["GAUSS"]), "mixtures": len(out["MIXTURES"])}
    return out


# ------------------------------------------------------------------ lattice record -> numbers (inputs only)
SIZE_BAND = {1: (1, 1), 2: (2, 2), 3: (3, 4), 5: (5, 9), 10: (10, 39), 40: (40, 99), 100: (100, 199), 200: (150, 200)}
AMPS = [0.5, 1.0, 2.0, 3.5, 0.25, 8.0]
COEFS = [[2.0, -0.75], [-1.5, 0.5], [0.25, 3.0], [1.0, 1.0], [-1.0, 4.0]]
BKGS = [0.25, 1.0, 0.001, 7.5]


def concretise(rec, level, tid, rng, variant, lat, fullq=False, shuffled=False):
    n = rec["size"]
    lo10, hi10 = rec["span"]
    lo, hi = 10.0 ** lo10, 10.0 ** hi10
    if variant:
        a, b = SIZE_BAND[n]
        n = rng.randint(a, b)
        lo = 10.0 ** (lo10 + rng.uniform(0.0, 0.4))
        hi = 10.0 ** (hi10 - rng.uniform(0.0, 0.4))
    if n == 1:
        xi = [math.sqrt(lo * hi)]
    elif rec["family"] == "lin":
        xi = [lo + (hi - lo) * i / (n - 1) for i in range(n)]
    else:
        xi = [lo * (hi / lo) ** (i / (n - 1)) for i in range(n)]
    xi[-1] = min(xi[-1], hi)
    if shuffled and n >= 5:
        # the interior lengths in another order (first, second and last - from which the calculated q range is
        # chosen - stay where they are): each returned value belongs to the length at the same position
        mid = xi[2:-1]
        r = rng.randrange(1, len(mid))
        xi = xi[:2] + mid[r:] + mid[:r] + xi[-1:]
    lamc = rec["lam"]
    if lamc == "tof":
        lam = [2.0 + 10.0 * i / (n - 1) for i in range(n)] if n > 1 else [7.0]
    else:
        lam = [{"l2": 2.0, "l5": 5.0, "l10": 10.0}[lamc]] * n
    sc = {"tid": tid, "level": level, "cfg": rec, "variant": variant, "xi": xi, "shuffled": bool(shuffled and n >= 5), "lam": lam, "acc": rec["acc"],
          "fullq": bool(fullq), "amps": rng.sample(AMPS, 4), "coefs": rng.sample(COEFS, 3),
          "bkg": rng.sample(BKGS, 4), "gauss": lat["GAUSS"], "mixtures": lat["MIXTURES"],
          "lam_scalar": rng.random() < 0.5}
    if level == "transform":
        # "full" under either reading of the constructor's zaccept: as an angle (>= pi/2) and as a
        # scattering vector (>= 2 pi / min(lam) = pi for the shortest wavelength of the lattice)
        sc["zaccept"] = 0.0 if rec["acc"] == "zero" else rng.choice([1000.0, 4.0, 3.5])
    return sc


def cover_then_fill(records, k, rng):
    """k records: first a greedy cover of every attribute value, then random fill."""
    pool = list(records)
    rng.shuffle(pool)
    need = set()
    for r in pool:
        for a, v in r.items():
            need.add((a, json.dumps(v)))
    chosen = []
    while need and pool and len(chosen) < k:
        best = max(pool, key=lambda r: len(need & {(a, json.dumps(v)) for a, v in r.items()}))
        chosen.append(best)
        pool.remove(best)
        need -= {(a, json.dumps(v)) for a, v in best.items()}
    chosen += pool[:max(0, k - len(chosen))]
    return chosen


def make_scenarios(chk, lat):
    rng = random.Random(chk.seed)
    thorough = chk.tier == "thorough"
    scen = []
    tid = 0
    if thorough:
        # every record canonically; every second one also with seeded jitter of size and span
        plan = [("transform", r, v) for i, r in enumerate(lat["LATTICE"]) for v in (0, 1) if v == 0 or i % 2 == 0]
        plan += [("dm", r, v) for i, r in enumerate(lat["DMLATTICE"]) for v in (0, 1) if v == 0 or i % 4 == 0]
    else:
        plan = [("transform", r, i % 2) for i, r in enumerate(cover_then_fill(lat["LATTICE"], 56, rng))]
        plan += [("dm", r, i % 2) for i, r in enumerate(cover_then_fill(lat["DMLATTICE"], 24, rng))]
    nfull = ndefault = 0
    for level, rec, variant in plan:
        tid += 1
        # the whole q_calc is logged for a bounded number of traces (it has 1e4..7e4 elements)
        fullq = (tid % (40 if thorough else 7) == 1)
        nfull += fullq
        # every second data set through DirectModel / Gxi and every fourth transform has its interior lengths
        # in a non-increasing order
        shuffled = (tid % 2 == 0) if level == "dm" else (tid % 4 == 0)
        if level == "dm" and rec["acc"] == "full" and rec["lam"] == "l5" and rec["size"] >= 5:
            # the set-up that direct_model.Gxi builds by itself: alternately shuffled and increasing
            ndefault += 1
            shuffled = (ndefault % 2 == 1)
        scen.append(concretise(rec, level, tid, rng, variant, lat, fullq, shuffled))
    chk.notes["whole_q_calc_logged_for"] = nfull
    return scen


# ------------------------------------------------------------------ run + validate
def classify(sc, clause):
    cfg = sc.get("cfg", {}) if sc else {}
    return {"clause": clause, "level": sc.get("level") if sc else None, "acc": cfg.get("acc"),
            "lam": cfg.get("lam")}


def weight(sc):
    n = len(sc["xi"])
    return 1.0 + n / 20.0


def split_balanced(scenarios, k):
    parts = [[] for _ in range(k)]
    load = [0.0] * k
    for sc in sorted(scenarios, key=weight, reverse=True):
        i = load.index(min(load))
        parts[i].append(sc)
        load[i] += weight(sc)
    return [p for p in parts if p]


_STAT = re.compile(r'<<"STAT",\s*(-?\d+),\s*(\d+),\s*(\d+),\s*(\d+),\s*(\d+),\s*(\d+),\s*(\d+)>>')


def run_scenarios(chk, scenarios, label):
    if not scenarios:
        return
    work = vlib.scratch("c19")
    try:
        reqs = [{"scenarios": part} for part in split_balanced(scenarios, NPROC * 2)]
        outs = vlib.run_workers_parallel("w_sesans.py", reqs, work, timeout=3000, nproc=NPROC)
        events = [e for o in outs for e in o]
        herr = [e for e in events if e["ev"] == "HarnessError"]
        if herr:
            raise vlib.Machinery("w_sesans worker error: %s\n%s" % (herr[0]["error"], herr[0]["tb"]))
        events.sort(key=lambda e: e["tid"])          # stable: keeps per-tid order
        by_tid = {sc["tid"]: sc for sc in scenarios}
        missing = set(by_tid) - set(e["tid"] for e in events if e["ev"] == "Construct")
        if missing:
            raise vlib.Machinery("worker produced no Construct event for tids %s" % sorted(missing)[:5])
        # batches of whole traces, bounded by size (a logged q_calc has up to 7e4 doubles)
        batches, cur, cost = [], [], 0
        for e in events:
            c = 1 + len(e.get("res", {}).get("qfull", [])) // 400 + len(e.get("res", {}).get("P", [])) // 50
            if cur and cost + c > 900 and e["ev"] == "Construct":
                batches.append(cur)
                cur, cost = [], 0
            cur.append(e)
            cost += c
        if cur:
            batches.append(cur)

        def validate(evs):
            return evs, vlib.validate_trace("SesansTrace", evs, timeout=3000, heap="3g")

        stats = {}
        with ThreadPoolExecutor(max_workers=6) as ex:
            results = list(ex.map(validate, batches))
        for evs, v in results:
            chk.cov["traces_validated_against_impl"] += len(set(e["tid"] for e in evs))
            chk.cov["transitions"] += v["states"]
            chk.notes.setdefault("trace_runs", []).append(
                {"label": label, "traces": len(set(e["tid"] for e in evs)), "events": len(evs),
                 "wall_s": round(v["wall_s"], 1)})
            seen = set()
            for m in _STAT.finditer(v["out"]):
                key = (int(m.group(1)), int(m.group(2)))
                if key in seen:                      # TLC may evaluate an action more than once
                    continue
                seen.add(key)
                s = stats.setdefault(key[0], [0, 0, 0, 0, 0])
                for i in range(5):
                    s[i] += int(m.group(3 + i))
            for tid, line, clause, detail in v["rejects"]:
                sc = by_tid.get(tid)
                if clause.startswith("harness-"):
                    raise vlib.Machinery("SesansTrace rejected the harness' own input (%s) tid=%s: %s"
                                         % (clause, tid, detail[:500]))
                chk.violation(classify(sc, clause),
                              {"scenario": sc, "clause": clause, "detail": detail[:3000],
                               "event": _short(evs[line - 1]) if 0 < line <= len(evs) else None})
        tot = [0, 0, 0, 0, 0]
        for sc in scenarios:
            s = stats.get(sc["tid"], [0, 0, 0, 0, 0])
            for i in range(5):
                tot[i] += s[i]
            cfg = sc["cfg"]
            chk.case([sc["level"], sorted(cfg.items()), sc["variant"]],
                     nontrivial=(s[0] + s[1] + s[3]) > 0,
                     sample={"level": sc["level"], "cfg": cfg, "n": len(sc["xi"]),
                             "xi": [sc["xi"][0], sc["xi"][-1]],
                             "applied": dict(zip(["closed_full", "closed_zero", "single", "kernel", "linear"], s))})
        t = chk.notes.setdefault("clauses_applied", {"closed_form_full_points": 0, "closed_form_zero_points": 0,
                                                     "single_point_pairs": 0, "matrix_elements": 0,
                                                     "linearity_points": 0})
        for name, v in zip(list(t), tot):
            t[name] += v
        if not (tot[0] and tot[1] and tot[2] and tot[3] and tot[4]) and len(scenarios) > 20 and not chk.violations:
            raise vlib.Machinery("vacuous run: a clause was never applied %s" % tot)
    finally:
        shutil.rmtree(work, ignore_errors=True)


def _short(ev):
    """The offending event without the bulky whole-grid vector."""
    ev = json.loads(json.dumps(ev))
    if isinstance(ev.get("res"), dict) and len(ev["res"].get("qfull", [])) > 50:
        ev["res"]["qfull"] = ev["res"]["qfull"][:5] + ["..."]
    return ev


def run(chk, args):
    thorough = chk.tier == "thorough"
    if args.replay:
        with open(args.replay) as f:
            rp = json.load(f)
        sc = rp["detail"].get("scenario")
        if sc:
            run_scenarios(chk, [sc], "replay")
        else:
            design_runs(chk, thorough)
        return
    design_runs(chk, thorough)
    lat = export_lattice(chk)
    scen = make_scenarios(chk, lat)
    run_scenarios(chk, scen, "lattice")
    chk.cov["rule"] = (
        "design: TLC exhaustive over Sesans (every increasing xi sequence over 1..MaxXi of length <= MaxN x "
        "3 wavelength patterns x 3 acceptance classes x 6 inputs x 2 coefficient pairs). replay: records of "
        "the lattice exported by TLC (grid family x size x decade span x wavelength class x acceptance class; "
        "through DirectModel also model and mid acceptance), each concretised canonically or with seeded "
        "jitter of size and span; per record 7 Gaussian width classes + 5 mixtures, 3 linear combinations, "
        "up to 40x12 matrix elements and up to 16 single-point pairs; every event validated by SesansTrace. "
        "A case is distinct by (level, lattice record, variant) and non-trivial when a closed-form or "
        "matrix-element clause was actually applied to it (the preconditions are evaluated by TLC).")
    chk.assumptions += [
        "weak fit: the Hankel-pair law is evaluated by TLC on observations of sampled configurations (closed forms, "
        "preconditions and tolerances are in spec/SesansCore.tla); it is not model-checked",
        "tolerance 5e-4 = stated quadrature accuracy (log_spacing - 1 = 3e-4) with margin; measured 1.5e-4..2.0e-4 "
        "in range on the unchanged tree; plus 1e-12 G(0) for the cancellation in G(xi) - G(0)",
        "acceptance at the level of SesansTransform is exercised only as full (zaccept >= pi/2) or vanishing (0); "
        "an intermediate acceptance is exercised through DirectModel with a single wavelength, where "
        "'theta <= theta_max' has one reading",
        "the wavelength is an array with one value per spin-echo length (a scalar raises IndexError in the mask; "
        "outside the property)",
        "whole q_calc vectors are logged for a bounded number of traces; for the others Positive / "
        "StrictlyIncreasing are decided by TLC from the logged minimum, minimal step and a 32-point sample",
        "FJ0 of spec/IEEE.java is accurate to 1e-8 absolute; matrix elements are compared at 1e-7 of the weight",
    ]


if __name__ == "__main__":
    vlib.main(PROP, "exploration", run)
