"""C15 - precision conversion changes only floating types and literals.

1. TLC, exhaustive (spec/CLex.tla over spec/CLexCore.tla): the C99 pp-token lexer as a state
   machine fed with every string over two alphabets up to MaxLen characters and with every
   catalogue line (first, separator, second); invariants TypeOK, StateIsRun, Relex, ConvertLaws,
   AllFloatsTagged; CLex_asWritten.cfg (hexadecimal constants untouched, as the implementation
   does) MUST violate AllFloatsTagged (vacuity control).  TLC prints every well-formed text with
   the expected rewrite.
2. Specification -> code: every printed text is given to generate.convert_type for float32,
   float64 and long double.
3. Code -> specification: spec/CLexTrace.tla lexes input and output itself and demands
   tokens(output) = Convert(tokens(double source), prec); all builtin kernel sources are fed
   line by line (the lexer state is carried), every distinct piece once; every spelling of a
   precision request is checked against DtypeOf down to the values the library returns; models
   declared single are compared at float32 / long double with double on their own test points.

Python never computes an expected value: it moves data between TLC and the real code.
"""
import json
import os
import random
import re
import shutil
import sys
from concurrent.futures import ThreadPoolExecutor

sys.path.insert(0, os.path.dirname(os.path.dirname(os.path.abspath(__file__))))
import vlib

PROP = "C15"
WORKER = "w_clex.py"
BATCH = 4000            # events per trace-validation JVM
PAR = max(2, vlib.NCPU // 2)


# ------------------------------------------------------------------ design level
def design_runs(chk, thorough):
    runs = [("strings-num", "CLex5.cfg" if thorough else "CLex.cfg"),
            ("strings-struct", "CLexStruct5.cfg" if thorough else "CLexStruct.cfg"),
            ("catalogue", "CLexCat.cfg" if thorough else "CLexCatQuick.cfg")]
    vlib.ensure_classes()
    with ThreadPoolExecutor(max_workers=4) as ex:
        futs = {lab: ex.submit(vlib.tlc_must_pass, "CLex", cfg, workers=max(2, vlib.NCPU // 3), timeout=3000)
                for lab, cfg in runs}
        fw = ex.submit(vlib.tlc, "CLex", "CLex_asWritten.cfg", workers=2, timeout=1200)
        res = {lab: f.result() for lab, f in futs.items()}
        w = fw.result()
    if w["violated"] != "AllFloatsTagged":
        raise vlib.Machinery("vacuity control: CLex_asWritten.cfg should violate AllFloatsTagged, got %s / %s"
                             % (w["violated"], w["error"]))
    chk.notes["vacuity_control"] = ("CLex_asWritten.cfg (hexadecimal constants left untagged, as the "
                                    "implementation does) violates AllFloatsTagged as it must")
    cases, spellings = {}, None
    for lab, cfg in runs:
        r = res[lab]
        chk.add_tlc(r, "CLex %s (%s)" % (lab, cfg))
        if r["violated"]:
            chk.design_violation(r, "CLex/" + cfg, {"class": "design"})
        n = 0
        for c in vlib.parse_printed(r["out"], "CASE"):
            if not isinstance(c, dict):
                raise vlib.Machinery("unreadable CASE line from %s: %r" % (cfg, c))
            n += 1
            cases.setdefault(c["s"], dict(c, family=lab))
        if n == 0:
            raise vlib.Machinery("design run %s exported no case" % cfg)
        sp = vlib.parse_printed(r["out"], "SPELLINGS")
        if sp:
            spellings = sorted(sp[0])
        chk.notes.setdefault("exported", {})[lab] = n
    if not spellings:
        raise vlib.Machinery("the design run did not print the spellings")
    return cases, spellings


# ------------------------------------------------------------------ trace validation helpers
def validate_batches(chk, batches, label):
    """batches: list of event lists.  Returns [(event, clause, detail)] and the ill-formed count."""
    def one(evs):
        return vlib.validate_trace("CLexTrace", evs, timeout=3000, heap="2g")
    rejects, ill, wall = [], 0, 0.0
    with ThreadPoolExecutor(max_workers=PAR) as ex:
        for evs, v in zip(batches, ex.map(one, batches)):
            chk.cov["transitions"] += v["states"]
            wall += v["wall_s"]
            m = re.search(r'<<"CLEX-ILLFORMED",\s*(\d+)>>', v["out"])
            if not m:
                raise vlib.Machinery("CLexTrace did not report its ill-formed count")
            ill += int(m.group(1))
            for tid, line, clause, detail in v["rejects"]:
                if not 0 < line <= len(evs):
                    raise vlib.Machinery("reject without line: %r" % ((tid, line, clause),))
                rejects.append((evs[line - 1], clause, detail))
    chk.notes.setdefault("trace_runs", []).append(
        {"label": label, "batches": len(batches), "events": sum(len(b) for b in batches),
         "rejected": len(rejects), "ill_formed_skipped": ill, "jvm_wall_s": round(wall, 1)})
    return rejects, ill


_uniq = [0]


def subdir(work, name):
    """A fresh directory per worker batch (libraries are never shared between batches)."""
    _uniq[0] += 1
    return os.path.join(work, "%s%d" % (name, _uniq[0]))


def split(seq, size):
    return [seq[i:i + size] for i in range(0, len(seq), size)]


def key_of(clause):
    """rewrite/hexfloat -> {"clause": "rewrite", "token-class": "hexfloat"}"""
    head, _, cls = clause.partition("/")
    key = {"clause": head}
    if cls:
        key["token-class" if head in ("rewrite", "double-source") else "what"] = cls
    return key


def _size(example):
    sc = example["scenario"]
    return (len(sc["s"]) if "s" in sc else 0, len(json.dumps(sc)))


class Tally:
    """One violation per key, with a count and a few examples (thousands of strings share a class)."""

    def __init__(self):
        self.groups = {}

    def add(self, key, scenario, clause, detail):
        k = json.dumps(key, sort_keys=True)
        g = self.groups.setdefault(k, {"key": key, "count": 0, "examples": []})
        g["count"] += 1
        g["examples"].append({"scenario": scenario, "clause": clause, "detail": detail[:1500]})
        if len(g["examples"]) > 64:        # keep the shortest
            g["examples"] = sorted(g["examples"], key=_size)[:8]

    def report(self, chk):
        for g in sorted(self.groups.values(), key=lambda g: json.dumps(g["key"], sort_keys=True)):
            ex = sorted(g["examples"], key=_size)[:8]
            chk.violation(g["key"], {"scenario": ex[0]["scenario"], "count": g["count"], "examples": ex})


# ------------------------------------------------------------------ (a) fragments
def run_conv(chk, tally, cases, work, label="fragments"):
    items = []
    for tid, s in enumerate(sorted(cases), 1):
        items.append({"tid": tid, "s": s})
        if cases[s].get("e32") is not None:
            items[-1]["e32"] = cases[s]["e32"]
    if not items:
        return
    reqs = [{"mode": "conv", "items": part} for part in split(items, max(1, -(-len(items) // vlib.NCPU)))]
    outs = vlib.run_workers_parallel(WORKER, reqs, subdir(work, "conv"), timeout=900)
    events = sorted((e for o in outs for e in o), key=lambda e: e["tid"])
    if len(events) != len(items):
        raise vlib.Machinery("conv worker returned %d events for %d items" % (len(events), len(items)))
    rejects, ill = validate_batches(chk, split(events, BATCH), label)
    chk.cov["traces_validated_against_impl"] += len(events)
    if ill and label == "fragments":
        raise vlib.Machinery("%d exported texts are ill-formed for the trace module" % ill)
    for ev, clause, detail in rejects:
        key = dict(key_of(clause), input="fragment")
        tally.add(key, {"kind": "conv", "s": ev["src"], "family": cases.get(ev["src"], {}).get("family")},
                  clause, detail)
    for s in sorted(cases):
        c = cases[s]
        chk.case(["conv", s], c.get("chg", 1) > 0,
                 sample={"family": c.get("family"), "text": s, "expected_float32_tokens": c.get("e32"),
                         "tokens_changed": c.get("chg")} if c.get("chg", 0) > 0 and len(s) > 3 else None)


# ------------------------------------------------------------------ (b) builtin sources
def run_sources(chk, tally, models, work, cut=True, depth=0):
    groups = [models[i::vlib.NCPU] for i in range(vlib.NCPU)]
    reqs = [{"mode": "sources", "models": g, "cut": cut} for g in groups if g]
    outs = vlib.run_workers_parallel(WORKER, reqs, subdir(work, "src"), timeout=3000)
    heads, uses, chunks = [], [], {}
    for o in outs:
        for e in o:
            if e["ev"] == "Heads":
                heads.append(e)
            elif e["ev"] == "Use":
                uses.append(e)
            elif e["ev"] == "Chunk":
                chunks.setdefault(e["key"], e)
    if sorted(h["model"] for h in heads) != sorted(models):
        raise vlib.Machinery("sources worker did not report every model")
    # bookkeeping of the harness itself: every line of every model lies in exactly one piece
    aligned = set()
    for h in heads:
        mine = sorted((u for u in uses if u["model"] == h["model"]), key=lambda u: u["idx"])
        if not mine:
            continue                      # line counts differ: the Heads event is rejected below
        aligned.add(h["model"])
        pos = 1
        for u in mine:
            if u["first_line"] != pos or u["key"] not in chunks:
                raise vlib.Machinery("pieces of %s do not tile its source" % h["model"])
            pos += u["nlines"]
        if pos != h["nraw"] + 1:
            raise vlib.Machinery("pieces of %s cover %d of %d lines" % (h["model"], pos - 1, h["nraw"]))
    events = list(heads)
    batches, cur, n = [], [], 0
    for key in sorted(chunks):
        c = chunks[key]
        evs = [{"tid": key, "ev": "Begin", "model": c["model"], "first_line": c["first_line"], "n": len(c["rows"])}]
        for k, (r, d, s, q) in enumerate(c["rows"]):
            evs.append({"tid": key, "ev": "Line", "k": k, "r": r, "d": d, "s": s, "q": q})
        evs.append({"tid": key, "ev": "End"})
        if n + len(evs) > BATCH and cur:
            batches.append(cur)
            cur, n = [], 0
        cur += evs
        n += len(evs)
    batches.append(events + cur)
    rejects, ill = validate_batches(chk, batches, "builtin sources%s" % ("" if cut else " (uncut)"))
    chk.notes["source_lines_ill_formed_skipped"] = chk.notes.get("source_lines_ill_formed_skipped", 0) + ill
    users = {}
    for u in uses:
        users.setdefault(u["key"], []).append(u["model"])
    # A cut that fell inside a comment (End rejected): every later piece of the models using that
    # piece was read from the wrong lexer state, so those models are fed again whole and what the
    # pieces said about them is discarded (a piece shared with another model stays valid there).
    redo = set()
    for ev, clause, detail in rejects:
        if clause == "chunk-not-closed" and cut:
            redo.update(users[ev["tid"]])
    for ev, clause, detail in rejects:
        if clause == "chunk-not-closed" and cut:
            continue
        if ev["ev"] == "Heads":
            tally.add(dict(key_of(clause), input="builtin-source"),
                      {"kind": "sources", "models": [ev["model"]]}, clause, detail)
            continue
        valid_for = sorted(set(users[ev["tid"]]) - redo)
        if not valid_for:
            continue
        c = chunks[ev["tid"]]
        line = c["first_line"] + ev.get("k", 0)
        tally.add(dict(key_of(clause), input="builtin-source"),
                  {"kind": "sources", "models": valid_for[:3], "piece_of": c["model"],
                   "line": line, "text": {k: ev.get(k) for k in ("r", "d", "s", "q")}}, clause, detail)
    if redo:
        chk.notes.setdefault("models_fed_uncut", []).extend(sorted(redo))
        run_sources(chk, tally, sorted(redo), work, cut=False, depth=depth + 1)
    nlines = sum(len(c["rows"]) for c in chunks.values())
    chk.notes.setdefault("sources", []).append(
        {"models": len(models), "total_lines": sum(h["nraw"] for h in heads), "pieces_used": len(uses),
         "distinct_pieces": len(chunks), "distinct_piece_lines": nlines, "cut": cut})
    chk.cov["traces_validated_against_impl"] += len(chunks) + len(heads)
    for h in heads:
        if h["model"] in redo:
            continue
        chk.case(["source", h["model"], cut], True,
                 sample={"family": "builtin-source", "model": h["model"], "lines": h["nraw"],
                         "pieces": sum(1 for u in uses if u["model"] == h["model"])})


def guarded(chk, tally, part, fn, *args):
    """Run a part that executes compiled kernels.  A worker killed by a signal (SIGSEGV, SIGABRT)
    while doing nothing but loading and calling the libraries built from the converted source is
    a failure of "the resulting kernels build and agree", not of the machinery."""
    try:
        return fn(chk, tally, *args)
    except vlib.Machinery as ex:
        m = re.search(r"worker \S+ failed rc=(-\d+)", str(ex))
        if not m:
            raise
        tally.add({"clause": "kernel-crash", "part": part}, {"kind": part, "args": [a for a in args if isinstance(a, list)][:2]},
                  "kernel-crash/" + part, "worker process killed by signal %s: %s" % (m.group(1)[1:], str(ex)[-800:]))


def run_dtypec(chk, tally, exprs, spellings, work):
    """Composite models: the request reaches every part."""
    reqs = [{"mode": "dtypec", "models": [e], "spellings": spellings, "first_tid": 1 + k * 1000} for k, e in enumerate(exprs)]
    outs = vlib.run_workers_parallel(WORKER, reqs, subdir(work, "dtypec"), timeout=3000)
    events = sorted((e for o in outs for e in o), key=lambda e: e["tid"])
    if len(events) != len(exprs) * len(spellings):
        raise vlib.Machinery("composite dtype worker returned %d events" % len(events))
    rejects, _ = validate_batches(chk, [events], "precision requests on composite models")
    chk.cov["traces_validated_against_impl"] += len(events)
    for ev, clause, detail in rejects:
        tally.add(dict(key_of(clause), spelling=ev["spelling"]),
                  {"kind": "dtypec", "args": [[ev["model"]], [ev["spelling"]]], "event": ev}, clause, detail)
    for ev in events:
        chk.case(["dtypec", ev["model"], ev["spelling"]], True, sample=None)
    return events


# ------------------------------------------------------------------ (c) precision requests
def run_dtype(chk, tally, models, spellings, work):
    reqs, tid = [], 1
    per = max(1, -(-len(spellings) // max(1, vlib.NCPU // len(models))))
    for m in models:
        for part in split(spellings, per):
            reqs.append({"mode": "dtype", "model": m, "spellings": part, "first_tid": tid})
            tid += len(part)
    outs = vlib.run_workers_parallel(WORKER, reqs, subdir(work, "dtype"), timeout=3000)
    events = sorted((e for o in outs for e in o), key=lambda e: e["tid"])
    if len(events) != len(models) * len(spellings):
        raise vlib.Machinery("dtype worker returned %d events" % len(events))
    rejects, _ = validate_batches(chk, [events], "precision requests")
    chk.cov["traces_validated_against_impl"] += len(events)
    for ev, clause, detail in rejects:
        tally.add(dict(key_of(clause), spelling=ev["spelling"]),
                  {"kind": "dtype", "model": ev["model"], "spelling": ev["spelling"], "event":
                   {k: v for k, v in ev.items() if not k.startswith("ref")}}, clause, detail)
    for ev in events:
        chk.case(["dtype", ev["model"], ev["spelling"]], True,
                 sample={"family": "precision-request", "model": ev["model"], "spelling": ev["spelling"],
                         "library": ev.get("lib"), "compiled": ev.get("compiled")}
                 if ev["spelling"] in ("quad!", "f") else None)
    return events


# ------------------------------------------------------------------ (d) numeric agreement
def run_agree(chk, tally, models, work):
    groups = [models[i::vlib.NCPU] for i in range(vlib.NCPU)]
    reqs = [{"mode": "agree", "models": g, "first_tid": 10000 * k} for k, g in enumerate(groups) if g]
    outs = vlib.run_workers_parallel(WORKER, reqs, subdir(work, "agree"), timeout=3000)
    events = sorted((e for o in outs for e in o), key=lambda e: e["tid"])
    if set(e["model"] for e in events) != set(models):
        raise vlib.Machinery("agree worker did not report every model")
    rejects, _ = validate_batches(chk, [events], "numeric agreement")
    chk.cov["traces_validated_against_impl"] += len(events)
    for ev, clause, detail in rejects:
        tally.add(dict(key_of(clause), model=ev["model"]),
                  {"kind": "agree", "model": ev["model"], "point": ev["point"]}, clause, detail)
    for ev in events:
        chk.case(["agree", ev["model"], ev["point"]], bool(ev["single"]),
                 sample={"family": "agreement", "model": ev["model"], "point": ev["point"], "double": ev["ref"][:3],
                         "float32": ev["i32"][:3], "long double": ev["i128"][:3]}
                 if ev["single"] and ev["point"] == "test0" and ev["model"] in ("sphere", "cylinder") else None)
    chk.notes["agreement"] = {"models": len(models), "single_models": len(set(e["model"] for e in events if e["single"])),
                              "points": len(events)}


# ------------------------------------------------------------------ driver
QUICK_SOURCES = ["sphere", "cylinder", "core_shell_parallelepiped"]
DTYPE_MODELS = ["sphere", "cylinder", "guinier"]


def run(chk, args):
    thorough = chk.tier == "thorough"
    work = vlib.scratch("c15")
    tally = Tally()
    try:
        if args.replay:
            with open(args.replay) as f:
                rp = json.load(f)
            exs = rp["detail"].get("examples") or [rp["detail"]]
            scs = [e["scenario"] for e in exs]
            conv = {sc["s"]: {"family": "replay"} for sc in scs if sc["kind"] == "conv"}
            if conv:
                run_conv(chk, tally, conv, work, "replay")
            for sc in scs:
                if sc["kind"] == "sources":
                    run_sources(chk, tally, sc["models"], work)
                elif sc["kind"] == "dtype" and "model" in sc:
                    guarded(chk, tally, "dtype", run_dtype, [sc["model"]], [sc["spelling"]], work)
                elif sc["kind"] == "agree" and "model" in sc:
                    guarded(chk, tally, "agree", run_agree, [sc["model"]], work)
                elif sc["kind"] == "agree":
                    guarded(chk, tally, "agree", run_agree, sc["args"][0], work)
                elif sc["kind"] == "dtypec":
                    guarded(chk, tally, "dtypec", run_dtypec, sc["args"][0], sc["args"][1], work)
                elif sc["kind"] == "dtype" and "args" in sc:
                    guarded(chk, tally, "dtype", run_dtype, sc["args"][0], sc["args"][1], work)
            tally.report(chk)
            return
        cases, spellings = design_runs(chk, thorough)
        listing = vlib.run_worker(WORKER, {"mode": "list"}, work)[0]
        names, single = listing["names"], listing["single"]
        rng = random.Random(chk.seed)
        run_conv(chk, tally, cases, work)
        if thorough:
            src_models = names
        else:
            rest = [n for n in names if n not in QUICK_SOURCES]
            src_models = [n for n in QUICK_SOURCES if n in names] + rng.sample(rest, min(3, len(rest)))
        run_sources(chk, tally, src_models, work)
        guarded(chk, tally, "dtype", run_dtype,
                [m for m in (DTYPE_MODELS if thorough else DTYPE_MODELS[:1]) if m in names], spellings, work)
        guarded(chk, tally, "dtypec", run_dtypec,
                ["sphere@hardsphere", "sphere+cylinder", "sphere*cylinder"] if thorough else ["sphere@hardsphere", "sphere+cylinder"],
                spellings, work)
        if thorough:
            agree_models = names
        else:
            agree_models = sorted(rng.sample(single, min(6, len(single))))
        guarded(chk, tally, "agree", run_agree, agree_models, work)
        tally.report(chk)
        chk.cov["exhaustive"] = True
        chk.cov["rule"] = (
            "design: TLC exhaustive over every string of length <= %d over two alphabets (13 and 11 symbols) "
            "and every catalogue line first+separator+second; each state is a text, its lexer state and tokens. "
            "replay: every well-formed text TLC printed goes through generate.convert_type at float32, float64, "
            "long double and CLexTrace compares tokens(output) with Convert(tokens(double source)); builtin "
            "kernel sources (%d models) are fed line by line, each distinct piece once; every spelling of a "
            "precision request on %d model(s); numeric agreement on the models' own test points. A fragment "
            "is distinct by its text and non-trivial when the specification changes at least one of its tokens; "
            "a source, a (model, spelling) pair and a test point of a model declared single count as non-trivial."
            % (5 if thorough else 4, len(src_models), len(DTYPE_MODELS if thorough else DTYPE_MODELS[:1])))
        chk.assumptions += [
            "the lexer abstracts trigraphs, digraphs, '...' and universal character names (same lexer on both sides of every comparison)",
            "well-formed input: no unterminated literal, every pp-number is a C constant, no constant glued to a preceding identifier (x.5); other texts are skipped and counted",
            "tokens inside directives are compared like any other token (a floating constant in a #define body is a floating constant); header names are single tokens",
            "double source = convert_type(source, float64) without its FLOAT_SIZE line; against the raw text it may only differ by the documented f(2) -> f(2.) promotion of generate._fix_tgmath_int",
            "half precision (float16) and the 'fast' request are outside the property and not exercised; no GPU in the sandbox (platform is always dll)",
            "numeric agreement tolerances: 5e-5 relative for float32 (sasmodels' own single/double criterion), 1e-12 for long double; only models declared single",
        ]
    finally:
        shutil.rmtree(work, ignore_errors=True)


if __name__ == "__main__":
    vlib.main(PROP, "model_checking", run)
