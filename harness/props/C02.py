"""C02 - distribution weights match their documented densities, limits and widths.

1. TLC, exhaustive (spec/Weights.tla over exact rationals): every clause of the property on every
   configuration of a dyadic lattice (6 types x centres x PD x npts 0..6 x nsigma x 10 limit
   patterns x relative/absolute); five deliberately wrong readings of the documentation must each
   violate an invariant (vacuity control).
2. Specification -> code: TLC exports a wider lattice of configurations (WeightsGen.cfg); they are
   replayed on weights.get_weights, direct_model._pop_par_weights / get_mesh (generated and real
   parameter tables) and SasviewModel._get_weights, together with harness-drawn non-dyadic
   configurations inside the stated ranges.
3. Code -> specification: every recorded call is validated by spec/WeightsTrace.tla, which
   evaluates the documented densities over IEEE doubles (the only oracle).
"""
import json
import math
import os
import random
import shutil
import sys
from concurrent.futures import ThreadPoolExecutor

sys.path.insert(0, os.path.dirname(os.path.dirname(os.path.abspath(__file__))))
import vlib

PROP = "C02"
# several single-worker JVMs validate in parallel: keep their collectors from fighting for cores
JVM_ENV = {"JAVA_TOOL_OPTIONS": "-XX:ParallelGCThreads=2"}
TYPES = ["gaussian", "rectangle", "uniform", "lognormal", "schulz", "boltzmann"]
WRONG = {
    "exclusive_limits": {"DegenerateIsCentre", "EveryInLimitPointPresent", "WidthMeaning",
                         "AbsoluteCentredOnZero", "RelativeWidthScalesWithCentre"},
    "normalise_before_cut": {"SumsToOne", "Proportional"},
    "absolute_keeps_centre": {"AbsoluteCentredOnZero", "DefinedWhereDocumented", "WidthMeaning"},
    "degenerate_ignores_limits": {"InsideLimits", "DegenerateIsCentre"},
    "width_not_relative": {"RelativeWidthScalesWithCentre", "WidthMeaning"},
}


# ------------------------------------------------------------------ design level
def design_runs(chk):
    jobs = [("documented", "Weights.cfg")] + [(v, "Weights_wrong_%s.cfg" % v) for v in sorted(WRONG)]
    with ThreadPoolExecutor(max_workers=len(jobs)) as ex:
        futs = {name: ex.submit(vlib.tlc, "Weights", cfg, workers=max(2, vlib.NCPU // 3), timeout=1800)
                for name, cfg in jobs}
        res = {name: f.result() for name, f in futs.items()}
    r = res["documented"]
    if not r["ok"] and not r["violated"]:
        raise vlib.Machinery("TLC failed on Weights/Weights.cfg: %s\n%s" % (r["error"], r["out"][-3000:]))
    if r["distinct"] < 30000:
        raise vlib.Machinery("Weights.cfg explored only %d states" % r["distinct"])
    chk.add_tlc(r, "Weights exhaustive (documented reading, 30 240 configurations)")
    chk.cov["exhaustive"] = True
    if r["violated"]:
        chk.design_violation(r, "Weights", {"class": "design"})
    controls = {}
    for v, allowed in WRONG.items():
        w = res[v]
        if w["violated"] not in allowed:
            raise vlib.Machinery("vacuity control: the wrong reading %s should violate one of %s, got %s / %s"
                                 % (v, sorted(allowed), w["violated"], w["error"]))
        controls[v] = w["violated"]
    chk.notes["vacuity_controls"] = controls


# ------------------------------------------------------------------ scenarios (data only)
def rat(p):
    """<<num, den>> exported by TLC -> float (den = 0: infinity)."""
    n, d = p
    if d == 0:
        return math.inf if n > 0 else -math.inf
    return float(n) / float(d)


def fs(x):
    return repr(float(x))


def export_lattice(per_combo, seed):
    d = vlib.scratch("c02exp")
    path = os.path.join(d, "export.json")
    try:
        r = vlib.tlc("Weights", "WeightsGen.cfg", workers=1, seed=seed, timeout=1800, heap="6g",
                     env={"EXPORT_FILE": path, "EXPORT_PER_COMBO": per_combo})
        if not r["ok"] or not os.path.exists(path):
            raise vlib.Machinery("lattice export failed: %s\n%s" % (r["error"], r["out"][-2000:]))
        with open(path) as f:
            recs = json.load(f)
    finally:
        shutil.rmtree(d, ignore_errors=True)
    out = []
    for c in recs:
        out.append({"type": c["type"], "n": c["n"], "width": fs(rat(c["width"])),
                    "nsigma": fs(rat(c["nsigma"])), "value": fs(rat(c["value"])),
                    "lb": fs(rat(c["lb"])), "ub": fs(rat(c["ub"])), "relative": c["relative"],
                    "pat": c["pat"]})
    out.sort(key=lambda q: json.dumps(q, sort_keys=True))
    return out, r


def qonly(q):
    return {k: q[k] for k in ("type", "n", "width", "nsigma", "value", "lb", "ub", "relative")}


def random_config(rng):
    """A configuration inside the property's stated ranges, not on any lattice."""
    t = rng.choice(TYPES)
    edge = rng.random()
    c = 10 ** rng.uniform(-1, 4)
    pd = 10 ** rng.uniform(-3, math.log10(2))
    n = rng.randint(1, 200)
    ns = rng.uniform(0.5, 10)
    if edge < 0.1:
        c = rng.choice([0.1, 1e4])
    elif edge < 0.2:
        pd = rng.choice([1e-3, 2.0])
    elif edge < 0.3:
        n = rng.choice([1, 2, 3, 199, 200])
    elif edge < 0.4:
        ns = rng.choice([0.5, 10.0])
    rel = rng.random() < 0.75
    sigma = pd * c if rel else pd
    ce = c if rel else 0.0
    h = sigma if t == "uniform" else ns * sigma
    pat = rng.choice(["none", "zero", "cutlow", "cuthigh", "cutboth", "cutboth"])
    lb, ub = -math.inf, math.inf
    if pat == "zero":
        lb = 0.0
    if pat in ("cutlow", "cutboth"):
        lb = ce - h * rng.random()
    if pat in ("cuthigh", "cutboth"):
        ub = ce + h * rng.random()
    return {"type": t, "n": n, "width": fs(pd), "nsigma": None if (t == "uniform" and rng.random() < 0.3) else fs(ns),
            "value": fs(c), "lb": fs(lb), "ub": fs(ub), "relative": rel, "pat": "random-" + pat}


GIVEN_KEYS = ("value", "n", "width", "nsigma", "type")


def given_from(q, rng, full=False):
    g = {"value": q["value"], "n": q["n"], "width": q["width"], "type": q["type"]}
    if q["nsigma"] is not None:
        g["nsigma"] = q["nsigma"]
    if not full:
        # leave entries out so that the documented defaults of the call are exercised
        for k in ("nsigma", "type", "value", "n", "width"):
            if k in g and rng.random() < 0.08:
                del g[k]
    return g


def pick_table_parameters(tables):
    """Up to two parameters per (type, limits, dispersible, control) class of the real tables."""
    cls = {}
    for p in sorted(tables, key=lambda p: (p["model"], p["name"])):
        k = (p["ptype"], p["lb"], p["ub"], p["disp"], p["control"])
        cls.setdefault(k, [])
        if len(cls[k]) < 2:
            cls[k].append(p)
    pars = [p for k in sorted(cls) for p in cls[k]]
    # always the everyday ones
    for m, nme in (("cylinder", "radius"), ("cylinder", "length"), ("cylinder", "theta"), ("cylinder", "phi"),
                   ("cylinder", "sld"), ("sphere", "radius"), ("parallelepiped", "psi"),
                   ("raspberry", "penetration"), ("elliptical_cylinder", "axis_ratio"),
                   ("core_multi_shell", "n"), ("hardsphere", "volfraction"),
                   # numbered members of vector parameters (their limits are those of the vector's table row)
                   ("core_multi_shell", "thickness1"), ("core_multi_shell", "thickness3"), ("onion", "thickness2"),
                   ("spherical_sld", "thickness1"), ("spherical_sld", "interface2")):
        for p in tables:
            if p["model"] == m and p["name"] == nme and p not in pars:
                pars.append(p)
    return pars


MESH_MODELS = [("cylinder", "1d"), ("cylinder", "2d"), ("sphere", "1d"), ("core_shell_parallelepiped", "2d"),
               ("ellipsoid", "2d"), ("raspberry", "1d"), ("core_multi_shell", "1d"), ("onion", "1d")]


def make_calls(chk, lattice, tables, rng):
    thorough = chk.tier == "thorough"
    calls = []

    def add(c):
        c["tid"] = len(calls) + 1
        calls.append(c)

    # (a) the TLC lattice on get_weights; a share of it also as scale / angle pairs
    for i, q in enumerate(lattice):
        add({"kind": "getw", "q": qonly(q), "pat": q["pat"], "origin": "tlc-lattice"})
        if i % 6 == 0:
            if q["relative"]:
                add({"kind": "scalepair", "q": qonly(q), "f": fs(rng.choice([2.0, 0.25, 0.5, 1024.0, 2.0 ** -7])),
                     "pat": q["pat"], "origin": "tlc-lattice"})
            else:
                add({"kind": "abspair", "q": qonly(q), "value2": fs(rng.choice([0.0, -30.0, 45.5, 720.0])),
                     "pat": q["pat"], "origin": "tlc-lattice"})
    # (b) non-dyadic configurations inside the stated ranges
    for _ in range(8000 if thorough else 700):
        q = random_config(rng)
        add({"kind": "getw", "q": qonly(q), "pat": q["pat"], "origin": "harness-random"})
    # (c) _pop_par_weights on generated parameters carrying the lattice's limits
    share = [q for q in lattice if float(q["lb"]) < float(q["ub"])]
    rng.shuffle(share)
    for q in share[:(8000 if thorough else 700)]:
        ce = float(q["value"]) if q["relative"] else 0.0
        lb, ub = float(q["lb"]), float(q["ub"])
        default = min(max(ce, lb), ub)
        synth = {"name": "p", "ptype": "volume" if q["relative"] else "orientation", "lb": q["lb"],
                 "ub": q["ub"], "default": fs(default)}
        add({"kind": "poppar", "par": {"synthetic": synth}, "given": given_from(q, rng),
             "active": rng.random() >= 0.08, "pat": q["pat"], "origin": "tlc-lattice"})
    # (d) real tables: _pop_par_weights and SasviewModel._get_weights
    base = [q for q in lattice if q["pat"] in ("none", "zero")]
    pars = pick_table_parameters(tables)
    per = 24 if thorough else 5
    for p in pars:
        rel = p["ptype"] == "volume"
        cands = [q for q in base if q["relative"] == rel] or base
        for q in rng.sample(cands, min(per, len(cands))):
            g = given_from(q, rng)
            if not p["disp"] and rng.random() < 0.7:
                g = {k: v for k, v in g.items() if k == "value"}
            add({"kind": "poppar", "par": {"model": p["model"], "name": p["name"]}, "given": g,
                 "active": rng.random() >= 0.1, "pat": "table", "origin": "model-table",
                 "q": dict(qonly(q), lb=p["lb"], ub=p["ub"])})
            a = given_from(q, rng, full=True)
            a.setdefault("nsigma", None)
            add({"kind": "sasview", "model": p["model"], "name": p["name"], "a": a, "pat": "table",
                 "origin": "model-table", "q": dict(qonly(q), lb=p["lb"], ub=p["ub"])})
    # (e) whole meshes through get_mesh
    bymodel = {}
    for p in tables:
        bymodel.setdefault(p["model"], []).append(p)
    for model, dim in MESH_MODELS:
        for _ in range(12 if thorough else 2):
            d = {}
            for p in bymodel.get(model, []):
                if not p["disp"]:
                    if rng.random() < 0.3:
                        d[p["name"]] = p["default"]
                    continue
                rel = p["ptype"] == "volume"
                cands = [q for q in base if q["relative"] == rel]
                if rng.random() < 0.75 and cands:
                    q = rng.choice(cands)
                    for k, v in given_from(q, rng).items():
                        suffix = {"value": "", "n": "_pd_n", "width": "_pd", "nsigma": "_pd_nsigma",
                                  "type": "_pd_type"}[k]
                        d[p["name"] + suffix] = v
            add({"kind": "mesh", "model": model, "dim": dim, "pars": d, "pat": "table", "origin": "model-table"})
    return calls


# ------------------------------------------------------------------ run + validate
def run_calls(calls):
    work = vlib.scratch("c02")
    try:
        nproc = min(vlib.NCPU, max(1, len(calls) // 50))
        parts = [calls[k::nproc] for k in range(nproc)]
        outs = vlib.run_workers_parallel("w_weights.py", [{"calls": p} for p in parts], work, timeout=3000)
    finally:
        shutil.rmtree(work, ignore_errors=True)
    events = [e for o in outs for e in o]
    events.sort(key=lambda e: e["tid"])
    return events


def validate(events):
    """Validate in parallel JVMs; events are dealt round-robin so that the batches cost the same."""
    nb = max(1, min(12, vlib.NCPU - 2, (len(events) + 299) // 300))
    while len(events) / nb > 4000:
        nb += 1
    batches = [events[k::nb] for k in range(nb)]
    with ThreadPoolExecutor(max_workers=min(12, max(1, vlib.NCPU - 2))) as ex:
        res = list(ex.map(lambda b: vlib.validate_trace("WeightsTrace", b, timeout=3000, heap="3g", env=JVM_ENV), batches))
    return batches, res


ENTRY = {"GetW": "weights.get_weights", "ScalePair": "weights.get_weights", "AbsPair": "weights.get_weights",
         "PopPar": "direct_model._pop_par_weights", "SasviewGW": "SasviewModel._get_weights"}


def classify(call, ev, clause):
    q = call.get("q") or {}
    if ev["ev"] == "PopPar":
        dist = ev["given"].get("type", "gaussian")
        rel = ev["par"]["ptype"] == "volume"
    elif ev["ev"] == "SasviewGW":
        dist = ev["a"]["type"]
        rel = ev["par"]["ptype"] == "volume"
    else:
        dist = q.get("type")
        rel = q.get("relative")
    key = {"clause": clause, "dist": dist, "relative": rel, "entry": ENTRY.get(ev["ev"], ev["ev"])}
    if clause == "undefined-density-not-refused":
        # lognormal / Schulz (support x > 0, median / mean = centre) asked for with a centre <= 0,
        # i.e. on an angle, whose distribution is centred on zero
        key["class"] = "positive-distribution-with-centre-not-positive"
        res = ev.get("res") or ev.get("res1")
        if res["raised"]:
            key["outcome"] = res["error"]
        elif any(not math.isfinite(float(w)) for w in res["w"]):
            key["outcome"] = "non-finite weights returned"
        else:
            key["outcome"] = "finite weights returned"
    else:
        key["class"] = clause
    return key


def check_events(chk, calls, events, label):
    by_tid = {c["tid"]: c for c in calls}
    got = set(e["tid"] for e in events)
    missing = set(by_tid) - got
    if missing:
        raise vlib.Machinery("worker produced no event for tids %s" % sorted(missing)[:5])
    nskip = sum(1 for e in events if e["ev"] == "HarnessSkip")
    if nskip:
        chk.notes["sasview_hidden_parameters_skipped"] = chk.notes.get("sasview_hidden_parameters_skipped", 0) + nskip
    events = [e for e in events if e["ev"] != "HarnessSkip"]
    batches, results = validate(events)
    agg = {}
    skips = {}
    rejected = set()
    for evs, v in zip(batches, results):
        chk.cov["traces_validated_against_impl"] += len(evs)
        chk.cov["transitions"] += v["states"]
        chk.notes.setdefault("trace_runs", []).append(
            {"label": label, "events": len(evs), "wall_s": round(v["wall_s"], 1)})
        for txt in vlib.tla_value_scan(v["out"], "SKIP"):
            reason = txt.rsplit('"', 2)[-2] if '"' in txt else txt
            skips[reason] = skips.get(reason, 0) + 1
        for tid, line, clause, detail in v["rejects"]:
            rejected.add(tid)
            ev = evs[line - 1] if 0 < line <= len(evs) else None
            call = by_tid.get(tid, {})
            key = classify(call, ev, clause) if ev else {"clause": clause}
            k = json.dumps(key, sort_keys=True)
            if k not in agg:
                agg[k] = {"key": key, "count": 0,
                          "detail": {"scenario": call, "clause": clause, "detail": detail[:3000], "event": ev}}
            agg[k]["count"] += 1
    for k in sorted(agg):
        a = agg[k]
        a["detail"]["occurrences_in_this_run"] = a["count"]
        chk.violation(a["key"], a["detail"])
    for reason, n in skips.items():
        chk.notes.setdefault("not_judged", {})
        chk.notes["not_judged"][reason] = chk.notes["not_judged"].get(reason, 0) + n
    return rejected


def selftest_corruption(chk, events, rejected):
    """Binding self-test: a corrupted field of a recorded (and accepted) event must be rejected by
    the trace module."""
    def pick(pred):
        for e in events:
            if e["ev"] == "GetW" and e["tid"] not in rejected and not e["res"]["raised"] and pred(e):
                return json.loads(json.dumps(e))
        return None
    tests = []
    e = pick(lambda e: e["q"]["type"] == "gaussian" and e["q"]["relative"] and len(e["res"]["w"]) >= 5)
    if e:
        k = len(e["res"]["w"]) // 2
        e["res"]["w"][k] = repr(float(e["res"]["w"][k]) * (1 + 1e-9))
        tests.append(("weight * (1 + 1e-9)", e, {"weights", "proportional", "sums-to-one"}))
    e = pick(lambda e: e["q"]["type"] == "boltzmann" and len(e["res"]["x"]) >= 5
             and float(e["q"]["value"]) in (1.0, 64.0) and float(e["q"]["width"]) in (0.125, 0.5)
             and e["q"]["n"] in (3, 5, 9, 17, 33, 65, 129) and e["q"]["nsigma"] in ("1.0", "2.0", "8.0", "0.5"))
    if e:
        x = float(e["res"]["x"][1])
        e["res"]["x"][1] = repr(math.nextafter(x, math.inf))
        tests.append(("one value moved by one ulp on an exact grid", e, {"values", "inside-support", "proportional", "weights"}))
    e = pick(lambda e: e["q"]["type"] == "uniform" and len(e["res"]["x"]) >= 4
             and float(e["q"]["value"]) in (1.0, 64.0) and float(e["q"]["width"]) in (0.125, 0.5)
             and e["q"]["n"] in (5, 9, 17, 33, 65, 129))
    if e:
        del e["res"]["x"][0]
        del e["res"]["w"][0]
        n = len(e["res"]["w"])
        e["res"]["w"] = [repr(1.0 / n)] * n
        tests.append(("first in-limit point dropped, weights renormalised", e, {"values"}))
    e = pick(lambda e: e["q"]["type"] == "lognormal" and e["q"]["relative"] and len(e["res"]["w"]) >= 5
             and float(e["q"]["width"]) >= 0.1)
    if e:
        e["q"]["value"] = repr(float(e["q"]["value"]) * 1.01)
        tests.append(("lognormal centre off by 1%", e, {"values", "weights", "proportional", "inside-support"}))
    if len(tests) < 3:
        if rejected:     # the implementation is being rejected wholesale: nothing sound to corrupt
            chk.notes["corruption_selftest"] = "skipped: too few accepted events"
            return
        raise vlib.Machinery("corruption self-test: not enough suitable events")
    for k, (_, e, _) in enumerate(tests):
        e["tid"] = k + 1
    v = vlib.validate_trace("WeightsTrace", [t[1] for t in tests])
    rej = {tid: clause for tid, line, clause, detail in v["rejects"]}
    report = []
    for k, (what, e, allowed) in enumerate(tests):
        if rej.get(k + 1) not in allowed:
            raise vlib.Machinery("corruption self-test: '%s' was not rejected (%s)" % (what, rej.get(k + 1)))
        report.append({"corruption": what, "rejected_by": rej[k + 1]})
    chk.notes["corruption_selftest"] = report


def run(chk, args):
    thorough = chk.tier == "thorough"
    rng = random.Random(chk.seed)
    if args.replay:
        with open(args.replay) as f:
            rp = json.load(f)
        call = rp["detail"]["scenario"]
        call["tid"] = 1
        events = run_calls([call])
        check_events(chk, [call], events, "replay")
        return
    design_runs(chk)
    lattice, r = export_lattice(450 if thorough else 30, chk.seed)
    chk.add_tlc(r, "Weights export (replay lattice, %d configurations)" % len(lattice))
    work = vlib.scratch("c02tab")
    try:
        tab = vlib.run_worker("w_weights.py", {"tables": True}, work, timeout=1200)
    finally:
        shutil.rmtree(work, ignore_errors=True)
    tables = tab[0]["pars"]
    calls = make_calls(chk, lattice, tables, rng)
    events = run_calls(calls)
    rejected = check_events(chk, calls, events, "replay")
    selftest_corruption(chk, events, rejected)
    # coverage bookkeeping
    nres = {}
    for e in events:
        res = e.get("res") or e.get("res1")
        if res is not None:
            nres.setdefault(e["tid"], []).append(len(res["x"]))
    for c in calls:
        q = c.get("q") or {}
        g = c.get("given") or c.get("a") or {}
        sig = [c["kind"], c.get("pat"), q, g, c.get("par"), c.get("model"), c.get("name"), c.get("active"),
               c.get("f"), c.get("value2"), c.get("pars"), c.get("dim")]
        n = q.get("n", g.get("n", 0))
        w = q.get("width", g.get("width", "0.0"))
        nontrivial = c["kind"] == "mesh" or (n >= 2 and float(w) != 0.0)
        chk.case(sig, nontrivial,
                 sample={"kind": c["kind"], "origin": c["origin"], "pattern": c.get("pat"), "q": q or g,
                         "points_returned": nres.get(c["tid"])})
    kinds = {}
    for c in calls:
        kinds[c["kind"]] = kinds.get(c["kind"], 0) + 1
    chk.notes["calls_by_kind"] = kinds
    chk.notes["table_parameters"] = len(pick_table_parameters(tables))
    chk.cov["rule"] = (
        "design: TLC exhaustive over Weights.tla (exact rationals): 6 types x 3 centres x 4 PD x npts 0..6 x "
        "3 nsigma x 10 limit patterns x relative/absolute, all clauses as invariants, 5 wrong readings must fail; "
        "replay: configurations exported by TLC from a wider lattice (centres 0.1..10000, PD 1/1024..2, npts 1..200, "
        "nsigma 0.5..10, same limit patterns; every type x pattern x relative/absolute combination), "
        "harness-drawn non-dyadic configurations inside the stated ranges, generated and real parameter tables; "
        "every recorded call validated by WeightsTrace over IEEE doubles. A case is distinct by (entry point, "
        "distribution type, npts, width, nsigma, centre, limits, relative, parameter) and non-trivial when it is "
        "not degenerate (npts >= 2 and width != 0).")
    chk.assumptions += [
        "TLC operator overrides in spec/IEEE.java implement IEEE-754 binary64 (java StrictMath for exp/log; Lanczos lnGamma is used only inside a tolerance)",
        "weights are compared at the logged values once these are accepted, so value rounding does not amplify into the weights",
        "configurations whose grid is not exactly representable and has a point within 1e-13 (relative to |centre|+half range) of a limit or support edge are checked on their own arrays only (counted under not_judged)",
        "the monodisperse short cut of _pop_par_weights with a centre outside the limits is outside the stated quantifier (limits cut tails, not the centre); it is mirrored, counted and not judged",
        "array distributions and user-defined distributions are outside the property (6 parametric types)",
    ]


if __name__ == "__main__":
    vlib.main(PROP, "model_checking", run)
