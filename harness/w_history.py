"""Worker for C11.  Two modes:
  {"mode": "history", "tid": t, "wmodel": {...}, "steps": [...]}  run a whole history in this process
  {"mode": "oracle", "keys": [...]}   each key is evaluated ... in THIS fresh process, first thing
                                      (the orchestrator starts one process per key)
Events: Oracle(key, val) / begin / Op(...).
"""
import copy
import json
import sys
import traceback

import numpy as np

QS = {"q1": [np.array([0.01, 0.05, 0.2])],
      "q2": [np.array([0.002, 0.01, 0.03, 0.1, 0.3])],
      "qxy": [np.array([0.02, -0.05, 0.1]), np.array([0.03, 0.04, -0.07])]}


def fvec(v):
    return [repr(float(x)) for x in np.asarray(v, dtype="d").ravel()]


def emit(ev):
    sys.stdout.write(json.dumps(ev, separators=(",", ":")) + "\n")
    sys.stdout.flush()


_models = {}


VSCALAR = '''r"""history probe: a pure-Python definition whose Iq takes one q at a time (no `Iq.vectorized`)"""
import math
from numpy import inf
name = "vscalar"
title = "history probe"
description = "history probe"
category = "shape:probe"
parameters = [
    ["radius", "Ang", 40.0, [0, inf], "volume", "probe"],
    ["slope", "", 2.0, [-inf, inf], "", "probe"],
]
def form_volume(radius):
    return 4.0/3.0*math.pi*radius**3
def Iq(q, radius, slope):
    return math.exp(-(q*radius)**2/3.0)*(1.0 + slope*q)
'''


def model(name, reload=False):
    from sasmodels import core
    if reload or name not in _models:
        path = name
        if name == "vscalar":
            import os
            path = os.path.join(os.getcwd(), "vscalar.py")
            if not os.path.exists(path):
                tmp = path + ".%d" % os.getpid()
                with open(tmp, "w") as f:
                    f.write(VSCALAR)
                os.replace(tmp, path)
        _models[name] = core.load_model(path, dtype="double", platform="dll")
    return _models[name]


def request(info, r, fq):
    """Parameter dictionary for request r of this model (input data only)."""
    P = info.parameters
    pars = {k: v for k, v in P.defaults.items()}
    names = [p.name for p in P.call_parameters[2:] if p.type not in ("orientation", "magnetic")
             and not p.name.endswith(("_M0", "_mtheta", "_mphi")) and not p.name.startswith("up_")]
    out = {}
    k = 0
    for nm in names:
        p = P[nm]
        if getattr(p, "is_control", False) or p.choices:
            continue
        out[nm] = float(pars[nm]) * (1.0625 if k % 2 == 0 else 0.9375)
        k += 1
        if k >= 3:
            break
    if info.id == "rpa":
        # the defaults of this definition give no contrast between the components: a blend with contrast
        out = dict(N1=420., N2=650., N3=800., N4=1200., Phi1=0.2, Phi2=0.3, Phi3=0.3, v1=90., v2=110., v3=100., v4=120.,
                   L1=12., L2=7., L3=10., L4=-2., b1=6., b2=4.5, b3=5., b4=5.5, K12=-0.0002, K13=-0.0003, K14=-0.0001,
                   K23=-0.0005, K24=-0.0006, K34=-0.0004)
    out["scale"] = 1.5
    out["background"] = 0.125
    pd = [p.name for p in P.call_parameters if p.polydisperse and p.type not in ("orientation", "magnetic")]
    cutoff = 0.0
    if r in ("pd", "pdn", "arr", "pdc", "mode", "pd2", "mag") and pd:
        out[pd[0] + "_pd"] = 0.125
        out[pd[0] + "_pd_n"] = 10
    if r == "pdn" and pd:
        out[pd[0] + "_pd_nsigma"] = 1.5      # the same request as "pd" except for the number of sigmas
    if r == "pdc":
        cutoff = 1e-2          # the same request as "pd" except for the cutoff
    if r == "pd2" and len(pd) > 1:
        out[pd[0] + "_pd_n"] = 11
        out[pd[1] + "_pd"] = 0.25
        out[pd[1] + "_pd_n"] = 9
        out[pd[1] + "_pd_nsigma"] = 2.0
        out[pd[1] + "_pd_type"] = "rectangle"
        cutoff = 1e-3
    if r == "empty" and pd:
        out[pd[0]] = -abs(float(pars[pd[0]])) - 1.0
        out[pd[0] + "_pd"] = 0.125
        out[pd[0] + "_pd_n"] = 4
    if r == "mode" and fq:
        nm = len(info.radius_effective_modes or [])
        if nm:
            out["radius_effective_mode"] = min(2, nm)
    if r == "mag":
        m0 = [p.name for p in P.call_parameters if p.name.endswith("_M0")]
        if m0:
            base = m0[0][:-3]
            out.update({base + "_M0": 2.0, base + "_mtheta": 30.0, base + "_mphi": 40.0,
                        "up_frac_i": 0.25, "up_frac_f": 0.75, "up_theta": 20.0})
    return out, cutoff


def same(a, b):
    if isinstance(a, dict):
        return isinstance(b, dict) and list(a.keys()) == list(b.keys()) and all(same(a[k], b[k]) for k in a)
    if isinstance(a, (list, tuple)):
        return len(a) == len(b) and all(same(x, y) for x, y in zip(a, b))
    if isinstance(a, np.ndarray):
        return isinstance(b, np.ndarray) and a.shape == b.shape and a.tobytes() == b.tobytes()
    return a == b and type(a) == type(b)


def value_of(x):
    if x is None:
        return ["none"]
    if isinstance(x, tuple):
        out = []
        for y in x:
            out += value_of(y) + ["|"]
        return out
    return fvec(x)


class State:
    def __init__(self, wmodel):
        self.held = []          # (step, object as returned, its value when it was returned)
        self.recycle = False    # histories overwrite the q arrays they passed to make_kernel
        self.kern = {}
        self.exp = {}
        self.dm = {}
        self.wrap = {}
        self.wmodel = wmodel


def sv_instance(name):
    from sasmodels.sasview_model import _make_standard_model
    # "rpa#9": the object for case 9 of a definition whose parameter table depends on an integer argument
    name, _, mult = name.partition("#")
    cls = sv_instance.cache.get(name)
    if cls is None:
        cls = sv_instance.cache[name] = _make_standard_model(name)
    return cls(int(mult)) if mult else cls()
sv_instance.cache = {}


ARR_W = [12.0, 31.0, 45.0, 22.0, 7.0]      # counts, not fractions


def sv_array(inst):
    """Request "arr" on a SasView-style object: the first dispersible size gets an array distribution whose
    points and (unnormalised) weights the caller supplies as float64 arrays.  Returns True if the caller's arrays
    were changed."""
    from sasmodels import weights as wmod
    info = inst._model_info
    pd = [p.name for p in info.parameters.call_parameters if p.polydisperse and p.type not in ("orientation", "magnetic")
          and p.name in inst.params]
    if not pd:
        return False
    c = float(inst.params[pd[0]])
    vals = np.array([c * f for f in (0.8, 0.9, 1.0, 1.1, 1.2)], dtype="d")
    wts = np.array(ARR_W, dtype="d")
    v0, w0 = vals.copy(), wts.copy()
    # one distribution object may be handed to several objects of the same definition (it is the caller's, and it is
    # an input: what one object is told later must not reach another through it, nor change it)
    key = (info.id, pd[0], repr(c))
    if key not in sv_array.shared:
        disp = wmod.ArrayDispersion()
        disp.set_weights(vals, wts)
        sv_array.shared[key] = (disp, vals, wts, v0, w0, snapshot(disp))
    disp, vals, wts, v0, w0, d0 = sv_array.shared[key]
    inst.set_dispersion(pd[0], disp)
    inst._verif_arrays = (vals, wts, v0, w0)
    inst._verif_disp = (disp, d0)
    return not (same(vals, v0) and same(wts, w0) and snapshot(disp) == d0)
sv_array.shared = {}


def snapshot(disp):
    """The distribution object's own attributes, as text."""
    return sorted((k, value_of(v) if isinstance(v, np.ndarray) else repr(v)) for k, v in vars(disp).items())


def sv_apply(inst, pars, cutoff):
    info = inst._model_info
    for p in info.parameters.call_parameters:
        if p.name in inst.params:
            inst.setParam(p.name, info.parameters.defaults[p.name])
        if p.name in inst.dispersion:
            inst.setParam(p.name + ".width", 0.0)
            inst.setParam(p.name + ".npts", 35)
            inst.setParam(p.name + ".nsigmas", 3.0)
            inst.dispersion[p.name]["type"] = "gaussian"
    for k, v in pars.items():
        if k.endswith("_pd_type"):
            inst.dispersion[k[:-8]]["type"] = v
        elif k.endswith("_pd_nsigma"):
            inst.setParam(k[:-10] + ".nsigmas", v)
        elif k.endswith("_pd_n"):
            inst.setParam(k[:-5] + ".npts", v)
        elif k.endswith("_pd"):
            inst.setParam(k[:-3] + ".width", v)
        elif k in inst.params:
            inst.setParam(k, v)          # as the GUI does: every value whose name the object offers
    inst.cutoff = cutoff


def make_experiment(m, q, r):
    import os
    sys.path.insert(0, os.path.join(os.path.dirname(os.path.abspath(__file__)), "stubs"))
    from sasmodels import bumps_model
    from sasmodels.data import empty_data1D, Data2D
    qv = QS[q]
    data = empty_data1D(qv[0]) if len(qv) == 1 else Data2D(x=qv[0], y=qv[1])
    mod = model(m)
    pars, cutoff = request(mod.info, r, False)
    return bumps_model.Experiment(data, bumps_model.Model(mod, **pars), cutoff=cutoff)


def experiment(st, m, q):
    if (m, q) not in st.exp:
        st.exp[(m, q)] = make_experiment(m, q, "mono")
    return st.exp[(m, q)]


def exp_apply(ex, r):
    """Set the fit parameters of an existing Experiment to request r (values only; update() is the caller's business)."""
    bm = ex.model
    info = bm.sasmodel.info
    for p in info.parameters.call_parameters:
        getattr(bm, p.name).value = p.default
        if p.polydisperse:
            getattr(bm, p.name + "_pd").value = 0.0
            getattr(bm, p.name + "_pd_n").value = 35.0
            getattr(bm, p.name + "_pd_nsigma").value = 3.0
            setattr(bm, p.name + "_pd_type", "gaussian")
    pars, cutoff = request(info, r, False)
    for k, v in pars.items():
        if k.endswith("_pd_type"):
            setattr(bm, k, v)
        else:
            getattr(bm, k).value = v
    ex.cutoff = cutoff


def do_op(st, e):
    """Execute one operation; returns (key, val, args_changed)."""
    from sasmodels.direct_model import call_kernel, call_Fq
    op = e["op"]
    if op == "make":
        # the caller's own q arrays: after the kernel exists the caller recycles its buffers (histories only - the
        # fresh-process oracle leaves them alone); the kernel must have taken what it needs
        qv = [a.copy() for a in QS[e["q"]]]
        st.kern[e["s"]] = (model(e["m"]).make_kernel(qv), e["m"], e["q"])
        if st.recycle:
            for a in qv:
                a *= 1.7
                a += 0.01
        return "", [], False
    if op == "call":
        kernel, m, q = st.kern[e["s"]]
        pars, cutoff = request(kernel.info, e["r"], e["f"])
        before = copy.deepcopy(pars)
        key = "%s|%s|%s|%s" % ("fq" if e["f"] else "iq", m, q, e["r"])
        try:
            res = (call_Fq if e["f"] else call_kernel)(kernel, pars, cutoff=cutoff)
            val = value_of(res)
            st.held.append((e.get("n", -1), res, val))
        except Exception as exc:
            val = ["raised", type(exc).__name__]
        return key, val, not same(before, pars)
    if op == "direct":
        from sasmodels.direct_model import DirectModel
        from sasmodels.data import empty_data1D, Data2D
        k = (e["m"], e["q"])
        if k not in st.dm:
            q = QS[e["q"]]
            data = empty_data1D(q[0]) if len(q) == 1 else Data2D(x=q[0], y=q[1])
            st.dm[k] = DirectModel(data, model(e["m"]))
        calc = st.dm[k]
        pars, cutoff = request(calc.model.info, e["r"], False)
        calc.cutoff = cutoff
        before = copy.deepcopy(pars)
        key = "dm|%s|%s|%s" % (e["m"], e["q"], e["r"])
        try:
            res = calc(**pars)
            val = value_of(res)
            st.held.append((e.get("n", -1), res, val))
        except Exception as exc:
            val = ["raised", type(exc).__name__]
        return key, val, not same(before, pars)
    if op in ("expset", "expupdate", "exptheory"):
        ex = experiment(st, e["m"], e["q"])
        if op == "expset":
            exp_apply(ex, e["r"])
            return "", [], False
        if op == "expupdate":
            ex.update()
            return "", [], False
        try:
            res = ex.theory()
            val = value_of(res)
            st.held.append((e.get("n", -1), res, val))
        except Exception as exc:
            val = ["raised", type(exc).__name__]
        return "", val, False
    if op == "reload":
        model(e["m"], reload=True)
        return "", [], False
    if op == "release":
        st.kern.pop(e["s"])[0].release()
        return "", [], False
    if op == "relmodel":
        if e["m"] in _models:
            _models[e["m"]].release()
        return "", [], False
    if op == "set":
        w = e["w"]
        if w not in st.wrap:
            st.wrap[w] = [sv_instance(st.wmodel[w]), "mono"]
        st.wrap[w][1] = e["r"]
        inst = st.wrap[w][0]
        pars, cutoff = request(inst._model_info, e["r"], False)
        sv_apply(inst, pars, cutoff)
        changed = sv_array(inst) if e["r"] == "arr" else False
        return "", [], changed
    if op == "eval":
        w = e["w"]
        if w not in st.wrap:
            st.wrap[w] = [sv_instance(st.wmodel[w]), "mono"]
            pars, cutoff = request(st.wrap[w][0]._model_info, "mono", False)
            sv_apply(st.wrap[w][0], pars, cutoff)
        inst, r = st.wrap[w]
        q = QS[e["q"]]
        arg = q[0].copy() if len(q) == 1 else [q[0].copy(), q[1].copy()]
        before = copy.deepcopy(arg)
        key = "sv|%s|%s|%s" % (st.wmodel[w], e["q"], r)
        try:
            res = inst.evalDistribution(arg)
            val = value_of(res)
            st.held.append((e.get("n", -1), res, val))
        except Exception as exc:
            val = ["raised", type(exc).__name__]
        arrs = getattr(inst, "_verif_arrays", None)
        arr_changed = arrs is not None and not (same(arrs[0], arrs[2]) and same(arrs[1], arrs[3]))
        dsp = getattr(inst, "_verif_disp", None)
        arr_changed = arr_changed or (dsp is not None and snapshot(dsp[0]) != dsp[1])
        return key, val, (not same(before, arg)) or arr_changed
    if op == "clone":
        w, w2 = e["w"], e["w2"]
        if w not in st.wrap:
            st.wrap[w] = [sv_instance(st.wmodel[w]), "mono"]
            pars, cutoff = request(st.wrap[w][0]._model_info, "mono", False)
            sv_apply(st.wrap[w][0], pars, cutoff)
        st.wrap[w2] = [st.wrap[w][0].clone(), st.wrap[w][1]]
        st.wmodel[w2] = st.wmodel[w]
        return "", [], False
    raise ValueError(op)


def oracle(key):
    kind, m, q, r = key.split("|")
    if kind == "ex":
        ex = make_experiment(m, q, r)
        return value_of(ex.theory())
    if kind == "dm":
        st = State({})
        k, val, _ = do_op(st, {"op": "direct", "m": m, "q": q, "r": r})
        assert k == key, (k, key)
        return val
    if kind == "sv":
        st = State({"w1": m})
        do_op(st, {"op": "set", "w": "w1", "r": r})
        k, val, _ = do_op(st, {"op": "eval", "w": "w1", "q": q})
    else:
        st = State({})
        do_op(st, {"op": "make", "s": "k1", "m": m, "q": q})
        k, val, _ = do_op(st, {"op": "call", "s": "k1", "r": r, "f": kind == "fq"})
    assert k == key, (k, key)
    return val


def main():
    req = json.load(sys.stdin)
    if req["mode"] == "oracle":
        emit({"tid": 0, "ev": "Oracle", "key": req["key"], "val": oracle(req["key"])})
        return
    st = State(dict(req["wmodel"]))
    st.recycle = True
    emit({"tid": req["tid"], "ev": "begin", "wmodel": req["wmodel"]})
    for n, e in enumerate(req["steps"]):
        try:
            key, val, changed = do_op(st, dict(e, n=n))
            held_changed = [k for k, obj, snap in st.held if value_of(obj) != snap]
        except Exception as exc:
            emit({"tid": req["tid"], "ev": "HarnessError", "error": repr(exc), "tb": traceback.format_exc()[-1500:], "step": e})
            return
        emit(dict(e, tid=req["tid"], ev="Op", key=key, val=val, args_changed=bool(changed), n=n, held_changed=held_changed))


if __name__ == "__main__":
    main()
