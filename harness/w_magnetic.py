"""Worker for C06: magnetic 2-D kernel vs non-magnetic 2-D kernel at effective SLDs.

The effective SLDs are computed here only to know where to evaluate the non-magnetic model;
MagneticTrace recomputes them from the documented formulas and rejects the event if they differ.
"""
import json
import random
import sys
import traceback
from math import radians, sin, cos, sqrt

import numpy as np


def fstr(x):
    return repr(float(x))


def fvec(v):
    return [repr(float(x)) for x in np.asarray(v, dtype="d").ravel()]


def emit(ev):
    sys.stdout.write(json.dumps(ev, separators=(",", ":")) + "\n")


_m = {}


def get(name):
    from sasmodels import core
    if name not in _m:
        _m[name] = core.load_model(name, dtype="double", platform="dll")
    return _m[name]


def dot(a, b):
    return a[0] * b[0] + a[1] * b[1] + a[2] * b[2]


def eff(rho, M0, mt, mp, upt, upp, qx, qy):
    t, p = radians(upt), radians(upp)
    P = (sin(t) * cos(p), sin(t) * sin(p), cos(t))
    e1 = (-sin(p), cos(p), 0.0)
    e2 = (-cos(t) * cos(p), -cos(t) * sin(p), sin(t))
    a, b = radians(mt), radians(mp)
    M = (M0 * sin(a) * cos(b), M0 * sin(a) * sin(b), M0 * cos(a))
    n = sqrt(qx * qx + qy * qy)
    qh = (qx / n, qy / n, 0.0)
    d = dot(qh, M)
    mperp = (M[0] - qh[0] * d, M[1] - qh[1] * d, M[2] - qh[2] * d)
    return [rho - dot(P, mperp), rho + dot(P, mperp), dot(e1, mperp), dot(e2, mperp)]


def run(sc):
    from sasmodels.direct_model import call_kernel
    rng = random.Random(sc["seed"])
    model = get(sc["model"])
    info = model.info
    P = info.parameters
    slds = [p.name for p in P.call_parameters if p.type == "sld"]
    pars = dict(P.defaults)
    if info.random is not None and rng.random() < 0.5:
        np.random.seed(rng.randrange(2 ** 31))
        try:
            pars.update(info.random())
        except Exception:
            pass
    pars = {k: float(v) for k, v in pars.items() if not k.startswith("up_") and not k.endswith(("_M0", "_mtheta", "_mphi"))}
    for p in P.call_parameters:
        if p.type == "orientation":
            pars[p.name] = rng.choice([0.0, 20.0, 65.0, 90.0, 130.0])
    pars["scale"] = 1.0
    pars["background"] = 0.0
    # dispersity: one size parameter and (sometimes) one angle
    pd = [p.name for p in P.call_parameters if p.polydisperse and p.type == "volume"]
    if pd and rng.random() < 0.5:
        name = rng.choice(pd)
        pars.update({name + "_pd": 0.125, name + "_pd_n": 4})
    opd = [p.name for p in P.call_parameters if p.type == "orientation"]
    if opd and rng.random() < 0.3:
        name = rng.choice(opd)
        pars.update({name + "_pd": 10.0, name + "_pd_n": 3})
    qx = [0.03, -0.06, 0.0, 0.05]
    qy = [0.04, 0.02, 0.07, -0.05]
    kernel = model.make_kernel([np.array(qx), np.array(qy)])
    zero = sc.get("zero", False)
    M0 = [0.0 if zero else rng.choice([0.0, 0.5, 1.0, 2.0, -1.5]) for _ in slds]
    if not zero and all(m == 0.0 for m in M0):
        M0[0] = 1.0
    mt = [rng.choice([0.0, 30.0, 90.0, -45.0, 60.0]) for _ in slds]
    mp = [rng.choice([0.0, 45.0, 90.0, -120.0, 10.0]) for _ in slds]
    upi = rng.choice([0.0, 0.25, 0.5, 0.75, 1.0, -0.2, 1.3])
    upf = rng.choice([0.0, 0.25, 0.5, 0.75, 1.0, -0.2, 1.3])
    upt = rng.choice([0.0, 30.0, 90.0, 120.0])
    upp = rng.choice([0.0, 45.0, 90.0, 160.0])
    rho = [pars[s] for s in slds]
    ev = {"tid": sc["tid"], "ev": "Mag", "model": sc["model"], "nsld": len(slds), "raised": "",
          "rho": fvec(rho), "M0": fvec(M0), "mtheta": fvec(mt), "mphi": fvec(mp),
          "upi": fstr(upi), "upf": fstr(upf), "uptheta": fstr(upt), "upphi": fstr(upp),
          "qx": fvec(qx), "qy": fvec(qy), "pars": pars}
    try:
        ev["Inomag"] = fvec(call_kernel(kernel, dict(pars)))
        mag = dict(pars, up_frac_i=upi, up_frac_f=upf, up_theta=upt, up_phi=upp)
        for s, a, b, c in zip(slds, M0, mt, mp):
            mag[s + "_M0"], mag[s + "_mtheta"], mag[s + "_mphi"] = a, b, c
        ev["Imag"] = fvec(call_kernel(kernel, mag))
        chan = []
        for j in range(len(qx)):
            k1 = model.make_kernel([np.array([qx[j]]), np.array([qy[j]])])
            per = [eff(r, a, b, c, upt, upp, qx[j], qy[j]) for r, a, b, c in zip(rho, M0, mt, mp)]
            row = []
            for c in range(4):
                sl = [per[k][c] for k in range(len(slds))]
                p2 = dict(pars)
                for s, v in zip(slds, sl):
                    p2[s] = v
                row.append({"sld": fvec(sl), "I": fstr(call_kernel(k1, p2)[0])})
            chan.append(row)
            k1.release()
        ev["chan"] = chan
    except Exception as exc:
        ev["raised"] = (type(exc).__name__ + ": " + str(exc))[:300].replace('"', "'")
        ev.setdefault("Inomag", [])
        ev.setdefault("Imag", [])
        ev.setdefault("chan", [])
    kernel.release()
    emit(ev)


def main():
    req = json.load(sys.stdin)
    for sc in req["scenarios"]:
        try:
            run(sc)
        except Exception as exc:
            emit({"tid": sc["tid"], "ev": "HarnessError", "error": repr(exc), "tb": traceback.format_exc()[-1500:], "model": sc["model"]})


if __name__ == "__main__":
    main()
