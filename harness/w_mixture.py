"""Worker for C08: evaluate a model expression and each of its leaf components alone.

stdin: {"scenarios": [{tid, expr, seed, dim, zero}]}
"""
import json
import random
import sys
import traceback

import numpy as np


def fstr(x):
    return repr(float(x))


def fvec(v):
    return [repr(float(x)) for x in np.asarray(v, dtype="d").ravel()]


def emit(ev):
    sys.stdout.write(json.dumps(ev, separators=(",", ":")) + "\n")


def expand(info):
    """(combined-table id, kernel parameter) pairs in call order for the kernel parameters."""
    out = []
    for p in info.parameters.kernel_parameters:
        if p.length == 1:
            out.append(p.id)
        else:
            out += [p.id + str(k) for k in range(1, p.length + 1)]
    return out


def leaf_values(info, rng, dim, zero, use_mag, manypd=False):
    """Input data for one leaf: its own parameter dictionary."""
    P = info.parameters
    pars = {}
    dflt = dict(P.defaults)
    if info.random is not None and rng.random() < 0.4:
        np.random.seed(rng.randrange(2 ** 31))
        try:
            dflt.update(info.random())
        except Exception:
            pass
    for p in P.call_parameters[2:]:
        pars[p.name] = float(dflt.get(p.name, p.default))
    pd = sorted(p.name for p in P.call_parameters if p.polydisperse and p.type not in ("orientation", "magnetic")) if dim == "1d" else sorted(p.name for p in P.call_parameters if p.polydisperse)
    rng.shuffle(pd)
    # components with vector parameters: prefer dispersity on a later vector element
    vec = [nm for nm in pd if any(q.length > 1 and nm.startswith(q.id) and nm[len(q.id):].isdigit()
                                  and int(nm[len(q.id):]) >= 2 for q in P.kernel_parameters)]
    if vec and rng.random() < 0.7:
        ctl = {q.length_control for q in P.kernel_parameters if q.length_control}
        nmax = min([int(dflt.get(c, 1)) for c in ctl] or [1])
        live = [nm for nm in vec if int("".join(ch for ch in nm if ch.isdigit()) or 1) <= max(nmax, 2)]
        if live:
            pick = rng.choice(live)
            pd = [pick] + [nm for nm in pd if nm != pick]
    # (manypd: two dispersed parameters in every component - each component has its own limit of simultaneous
    # distributions, the mixture as a whole has none)
    for name in pd[:(2 if manypd else rng.choice([0, 1, 1, 2]))]:
        rel = P[name].relative_pd
        pars[name + "_pd"] = rng.choice([0.1, 0.25]) if rel else rng.choice([5.0, 15.0])
        pars[name + "_pd_n"] = rng.choice([3, 6])
        pars[name + "_pd_type"] = rng.choice(["gaussian", "rectangle"])
    if dim == "2d":
        for p in P.call_parameters:
            if p.type == "orientation":
                pars[p.name] = rng.choice([0.0, 25.0, 70.0, 110.0])
        m0 = [p.name for p in P.call_parameters if p.name.endswith("_M0")]
        # soundness: with polarisation on, a component whose magnitudes are all zero is computed
        # by the magnetic kernel inside the mixture but by the plain kernel alone (sasmodels'
        # documented magnetic on/off switch), so every SLD-bearing component gets a magnitude
        if m0 and use_mag == "pure-unmagnetised":
            # a component without magnetisation in a polarised mixture (pure spin state, see below): magnitudes
            # zero, but angles set (tied to another component's, say) - they must not matter
            for nm in m0:
                pars[nm[:-3] + "_mtheta"] = rng.choice([20.0, 60.0])
                pars[nm[:-3] + "_mphi"] = rng.choice([10.0, 80.0])
        elif m0 and use_mag:
            # one magnitude on a randomly chosen SLD (for vector SLDs often a later element), sometimes two
            ctl = {q.length_control for q in P.kernel_parameters if q.length_control}
            nmax = min([int(dflt.get(c, 1)) for c in ctl] or [99])
            live = [nm for nm in m0 if int("".join(ch for ch in nm[:-3] if ch.isdigit()) or 1) <= max(nmax, 1)]
            rng.shuffle(live)
            for nm in live[:rng.choice([1, 1, 2])]:
                pars[nm] = rng.choice([1.0, 3.0])
                pars[nm[:-3] + "_mtheta"] = rng.choice([20.0, 60.0])
                pars[nm[:-3] + "_mphi"] = rng.choice([10.0, 80.0])
    if zero and info.id == "line":
        pars["intercept"] = 0.0
        pars["slope"] = 2.0
    return pars


def run(sc):
    from sasmodels import core
    from sasmodels.direct_model import call_kernel
    rng = random.Random(sc["seed"])
    expr, dim = sc["expr"], sc["dim"]
    use_mag = dim == "2d" and (sc["mag"] if "mag" in sc else rng.random() < 0.5)
    if dim == "2d":
        q = ([np.array([0.01, -0.04, 0.08]), np.array([0.02, 0.03, -0.05])] if use_mag else
             [np.array([0.0, 0.01, -0.04, 0.08]), np.array([0.0, 0.02, 0.03, -0.05])])
    else:
        q = [np.array([0.0, 0.005, 0.02, 0.08, 0.2])] if sc.get("zero") else [np.array([0.005, 0.02, 0.08, 0.2])]
    spin = {"up_frac_i": rng.choice([0.0, 0.25]), "up_frac_f": rng.choice([0.0, 0.75]),
            "up_theta": rng.choice([90.0, 30.0]), "up_phi": rng.choice([0.0, 40.0])}
    # In a pure non-flip spin state (up_frac_i = up_frac_f in {0, 1}) a component without magnetisation scatters
    # as it does alone; one component may then be left unmagnetised (with mixed states the library weights an
    # unmagnetised component by the non-flip fractions only, which the property does not speak about).
    pure = bool(use_mag) and rng.random() < 0.4
    if pure:
        v = rng.choice([0.0, 1.0])
        spin["up_frac_i"] = spin["up_frac_f"] = v
    leaf_counter = [0]
    unmag_leaf = rng.randrange(0, 4) if pure else -1
    kernel = None
    # the same kernel object is called twice, with other values and other dispersity meshes the second time
    for rep in (0, 1):
        leaf_counter[0] = 0
        ev = {"tid": sc["tid"] + 500000 * rep, "ev": "Mix", "expr": expr, "dim": dim, "raised": "", "out": [], "names": [],
              "again": bool(rep)}
        try:
            if kernel is None:
                info = core.load_model_info(expr)
                model = core.build_model(info, dtype="double", platform="dll")
                kernel = model.make_kernel(q)
            ev["names"] = [p.name for p in info.parameters.call_parameters]
            pars = {"scale": rng.choice([1.0, 0.5, 2.0]), "background": rng.choice([0.0, 0.125])}
            has_mag = any(p.name == "up_frac_i" for p in info.parameters.call_parameters)
            if has_mag and use_mag:
                pars.update(spin)

            def walk(node_info, names):
                comp = node_info.composition
                if comp and comp[0] == "mixture":
                    op = node_info.operation
                    kids, scales = [], []
                    idx = 0
                    for part in comp[1]:
                        if op == "+":
                            sname = names[idx]
                            idx += 1
                            # (a negative scale is how a difference of two models is written; zero switches a part off)
                            s = rng.choice([1.0, 0.5, 3.0, -0.75, 0.0, 2.0])
                            pars[sname] = s
                            scales.append(fstr(s))
                        n = len(expand(part))
                        kids.append(walk(part, names[idx:idx + n]))
                        idx += n
                    return {"op": op, "scales": scales, "kids": kids, "I": []}
                # leaf (plain model or P@S): evaluate alone with its own parameter names
                own = expand(node_info)
                assert len(own) == len(names), (own, names)
                k_leaf = leaf_counter[0]
                leaf_counter[0] += 1
                lp = leaf_values(node_info, rng, dim, sc.get("zero"),
                                 "pure-unmagnetised" if (use_mag and k_leaf % 4 == unmag_leaf and k_leaf > 0) else use_mag,
                                 manypd=bool(sc.get("manypd")))
                ren = dict(zip(own, names))
                leaf_call = dict(lp, scale=1.0, background=0.0)
                if use_mag and any(p.name == "up_frac_i" for p in node_info.parameters.call_parameters):
                    leaf_call.update(spin)
                for k, v in lp.items():
                    base, suffix = k, ""
                    for sfx in ("_pd_type", "_pd_nsigma", "_pd_n", "_pd", "_M0", "_mtheta", "_mphi"):
                        if k.endswith(sfx) and k[:-len(sfx)] in ren:
                            base, suffix = k[:-len(sfx)], sfx
                            break
                    if base in ren:
                        pars[ren[base] + suffix] = v
                    elif k.startswith("up_"):
                        pass
                    else:
                        raise KeyError("cannot map %s of %s" % (k, node_info.id))
                lm = core.build_model(node_info, dtype="double", platform="dll")
                lk = lm.make_kernel(q)
                I = call_kernel(lk, leaf_call)
                lk.release()
                return {"op": "leaf", "scales": [], "kids": [], "I": fvec(I), "model": node_info.id}

            tree = walk(info, expand(info))
            ev["tree"] = tree
            ev["scale"], ev["background"] = fstr(pars["scale"]), fstr(pars["background"])
            ev["pars"] = {k: (v if isinstance(v, str) else float(v)) for k, v in pars.items()}
            out = call_kernel(kernel, dict(pars))
            ev["out"] = fvec(out)
        except Exception as exc:
            ev["raised"] = (type(exc).__name__ + ": " + str(exc))[:300].replace('"', "'")
            ev["tb"] = traceback.format_exc()[-1200:]
            ev.setdefault("tree", {"op": "leaf", "scales": [], "kids": [], "I": []})
            ev.setdefault("scale", "1.0")
            ev.setdefault("background", "0.0")
        emit(ev)
    if kernel is not None:
        kernel.release()


def main():
    req = json.load(sys.stdin)
    for sc in req["scenarios"]:
        run(sc)


if __name__ == "__main__":
    main()
