class Parameter(object):
    def __init__(self, value=0.0, name=None, limits=None):
        self.value, self.name, self.limits = value, name, limits

    @classmethod
    def default(cls, value, name=None, limits=None, **kw):
        if isinstance(value, cls):
            return value
        return cls(value, name=name, limits=limits)


class Reference(Parameter):
    def __init__(self, obj, attr, name=None, **kw):
        self.obj, self.attr, self.name = obj, attr, name

    @property
    def value(self):
        return getattr(self.obj, self.attr)

    @value.setter
    def value(self, v):
        setattr(self.obj, self.attr, v)
