"""Minimal stand-in for the bumps package (not installed in this sandbox): just enough of
bumps.parameter for sasmodels.bumps_model, as property C10 describes."""
