"""Worker for C20: exports the conversion tables and current parameter tables of the working
tree, and runs sasmodels.convert.convert_model on scenarios, logging input and output.

stdin (one JSON object):
  {"mode": "export"}
      -> one line {"ev": "Export", "data": {...}} (see export() for the layout)
  {"mode": "run", "scenarios": [{"tid", "name", "pars": {key: value}, "use_underscore",
                                 "model_version": [a, b, c], ...}]}
      -> one line per scenario:
         {"tid", "ev": "Convert", "name", "pars", "use_underscore", "model_version",
          "res": {"raised": bool, "error": str, "name": str, "pars": {key: value}}}
A value is {"t": "f"|"i"|"s"|"b"|"o", "v": text}: float (repr), int, string, bool, other.
Nothing is interpreted here: no expected value is computed, keys are not parsed.
"""
import json
import sys
import traceback


def emit(ev):
    sys.stdout.write(json.dumps(ev, separators=(",", ":")) + "\n")


def enc(v):
    """Python value -> tagged text (data only)."""
    import numpy as np
    if isinstance(v, (bool, np.bool_)):
        return {"t": "b", "v": str(bool(v))}
    if isinstance(v, (int, np.integer)):
        return {"t": "i", "v": str(int(v))}
    if isinstance(v, (float, np.floating)):
        return {"t": "f", "v": repr(float(v))}
    if isinstance(v, str):
        return {"t": "s", "v": v}
    return {"t": "o", "v": repr(v)}


def dec(r):
    t, v = r["t"], r["v"]
    if t == "f":
        return float(v)
    if t == "i":
        return int(v)
    if t == "b":
        return v == "True"
    return v


def export():
    from sasmodels.conversion_table import CONVERSION_TABLE
    from sasmodels import convert
    from sasmodels.core import load_model_info, list_models
    versions = sorted(CONVERSION_TABLE.keys())
    table = []
    wanted = []
    for ver in versions:
        for new, ent in CONVERSION_TABLE[ver].items():
            rows = []
            for k, v in ent[1].items():
                rows.append({"new": k if k is not None else "", "newnone": k is None,
                             "old": v if v is not None else "", "oldnone": v is None})
            table.append({"version": list(ver), "new": new, "old": ent[0],
                          "alias": ent[2] if len(ent) > 2 else "", "map": rows})
            wanted.append(new)
    current = sorted(list_models("all"))
    models = {}
    missing = []
    # every current model is exported (targets of the table and all others): the spec decides
    # which one an entry names
    for name in current:
        try:
            info = load_model_info(name)
        except Exception as exc:       # a listed model that does not load
            missing.append({"model": name, "error": repr(exc)})
            continue
        P = info.parameters
        models[name] = {
            "sf": bool(info.structure_factor),
            "nmag": int(P.nmagnetic),
            "call": [{"id": p.id, "pd": bool(p.polydisperse), "sld": p.type == "sld",
                      "kind": p.type} for p in P.call_parameters],
            "kernel": [{"id": p.id, "length": int(p.length), "control": bool(p.is_control),
                        "sld": p.type == "sld", "pd": bool(p.polydisperse)}
                       for p in P.kernel_parameters],
        }
    return {"versions": [list(v) for v in versions], "table": table, "models": models,
            "current": current, "unloadable": missing,
            "magnetic_listed": list(convert.MAGNETIC_SASVIEW_MODELS)}


def run(scenarios):
    from sasmodels import convert
    import warnings
    warnings.simplefilter("ignore")
    for sc in scenarios:
        pars_in = {k: dec(v) for k, v in sc["pars"].items()}
        res = {"raised": False, "error": "", "name": "", "pars": {}}
        try:
            # convert_model works in place on its argument: hand it a private copy
            newname, newpars = convert.convert_model(
                sc["name"], dict(pars_in), use_underscore=bool(sc["use_underscore"]),
                model_version=tuple(sc["model_version"]))
            res["name"] = newname if isinstance(newname, str) else repr(newname)
            res["pars"] = {str(k): enc(v) for k, v in newpars.items()}
        except Exception as exc:
            tb = traceback.extract_tb(sys.exc_info()[2])
            where = "%s:%d" % (tb[-1].name, tb[-1].lineno) if tb else ""
            res.update(raised=True, error="%s: %s @%s" % (type(exc).__name__, exc, where))
        ev = {"tid": sc["tid"], "ev": "Convert", "name": sc["name"], "pars": sc["pars"],
              "use_underscore": bool(sc["use_underscore"]),
              "model_version": list(sc["model_version"]), "res": res}
        emit(ev)


def main():
    req = json.load(sys.stdin)
    if req.get("mode") == "export":
        emit({"ev": "Export", "data": export()})
    else:
        run(req["scenarios"])


if __name__ == "__main__":
    main()
