"""Worker (runs under /venv/bin/python with PYTHONPATH=/repo): drive probe models through
details.make_kernel_args and the kernel entry points, logging PdMeshTrace events.

stdin: {"workdir": dir, "scenarios": [ {tid, def, engine, mesh, scale, background, dim,
        q | qx,qy, cutoff, mode, partition, kind} ... ]}
stdout: one JSON event per line.
"""
import json
import os
import sys
import traceback

import numpy as np

import probe


def fstr(x):
    return repr(float(x))


def fvec(v):
    return [repr(float(x)) for x in np.asarray(v, dtype="d").ravel()]


def def_for_trace(d):
    t = dict(d)
    for k in ("c0", "cq", "aq"):
        t[k] = fstr(d[k])
    for k in ("c", "d", "e", "r", "a", "defaults"):
        t[k] = fvec(d[k])
    v = d["valid"]
    t["valid"] = [v[0], v[1], fstr(v[2])] if v[0] == 1 else (list(v) if v[0] == 2 else [0])
    t["orient"] = d.get("orient") or ""
    t["names"] = probe.par_names(d)
    return {k: v for k, v in t.items() if v is not None}


_models = {}


def get_model(d, engine, workdir):
    from sasmodels import core
    key = (d["name"], engine)
    if key not in _models:
        path = probe.write_c(d, workdir) if engine == "c" else probe.write_py(d, workdir)
        info = core.load_model_info(path)
        _models[key] = core.build_model(info, dtype="double", platform="dll")
    return _models[key]


def emit(ev):
    sys.stdout.write(json.dumps(ev, separators=(",", ":")) + "\n")


def run_scenario(sc, workdir):
    from sasmodels.details import make_kernel_args
    tid = sc["tid"]
    d = sc["def"]
    model = get_model(d, sc.get("engine", "c"), workdir)
    info = model.info
    pars = info.parameters
    if sc["dim"] == "2d":
        qx = np.asarray(sc["qx"], "d")
        qy = np.asarray(sc["qy"], "d")
        qv = [qx, qy]
        qrec = {"qx": fvec(qx), "qy": fvec(qy), "q": []}
    else:
        q = np.asarray(sc["q"], "d")
        qv = [q]
        qrec = {"q": fvec(q), "qx": [], "qy": []}
    kernel = model.make_kernel(qv)
    # ---- mesh for every call parameter
    given = sc["mesh"]
    mesh = [(sc["scale"], [sc["scale"]], [1.0]), (sc["background"], [sc["background"]], [1.0])]
    ptypes = ["", ""]
    k = 0
    for p in pars.call_parameters[2:]:
        if k < len(given) and k < pars.npars:
            m = given[k]
            mesh.append((float(m["v"]), np.asarray(m["d"], "d"), np.asarray(m["w"], "d")))
        else:
            mesh.append((float(p.default), np.asarray([p.default], "d"), np.asarray([1.0])))
        ptypes.append(p.type)
        k += 1
    ev = {"tid": tid, "ev": "MakeArgs", "def": def_for_trace(d), "npars": pars.npars,
          "nvalues": pars.nvalues, "maxpd": pars.max_pd, "ptypes": ptypes,
          "engine": sc.get("engine", "c"),
          "mesh": [{"v": fstr(v), "d": fvec(dd), "w": fvec(ww)} for v, dd, ww in mesh]}
    try:
        details, values, magnetic = make_kernel_args(kernel, mesh)
    except ValueError as exc:
        ev["res"] = {"refused": True, "error": str(exc)}
        emit(ev)
        return
    ev["res"] = {"refused": False,
                 "pd_par": [int(x) for x in details.pd_par],
                 "pd_length": [int(x) for x in details.pd_length],
                 "pd_offset": [int(x) for x in details.pd_offset],
                 "pd_stride": [int(x) for x in details.pd_stride],
                 "num_eval": int(details.num_eval), "num_weights": int(details.num_weights),
                 "num_active": int(details.num_active), "values": fvec(values)}
    emit(ev)

    cutoff = float(sc["cutoff"])
    mode = int(sc.get("mode", 0))
    common = dict(qrec, tid=tid, dim=sc["dim"], cutoff=fstr(cutoff), mode=mode)

    # ---- instrument the kernel entry points (a seam: DllKernel.kernel is a list of ctypes
    # callables; PyKernel has only _call_kernel)
    is_dll = hasattr(kernel, "kernel")
    if is_dll:
        raw = list(kernel.kernel)

        def wrap(fn):
            def logged(*args):
                rc = fn(*args)
                emit(dict(common, ev="KernelCall", start=int(args[1]), stop=int(args[2]),
                          cutoff=fstr(args[7]), mode=int(args[8]), res=fvec(kernel.result)))
                return rc
            return logged
        kernel.kernel = [wrap(f) for f in raw]
        part = sc.get("partition", "driver")
        if part != "driver":
            orig_call = kernel._call_kernel

            def custom(call_details, vals, cut, mag, rmode):
                fn = kernel.kernel[1 if mag else 0]
                start = 0
                for stop in part:
                    fn(kernel.q_input.nq, start, stop, call_details.buffer.ctypes.data,
                       vals.ctypes.data, kernel.q_input.q.ctypes.data, kernel.result.ctypes.data,
                       kernel._as_dtype(cut), rmode)
                    start = stop
            kernel._call_kernel = custom
    else:
        orig = kernel._call_kernel

        def logged_py(call_details, vals, cut, mag, rmode):
            orig(call_details, vals, cut, mag, rmode)
            if call_details.num_eval > 0:
                emit(dict(common, ev="KernelCall", start=0, stop=int(call_details.num_eval),
                          cutoff=fstr(cut), mode=int(rmode), res=fvec(kernel.result)))
        kernel._call_kernel = logged_py

    try:
        if sc.get("kind", "Iq") == "Fq":
            F1, F2, reff, vshell, ratio = kernel.Fq(details, values, cutoff, magnetic, mode)
            res = {"F1": fvec(F1) if F1 is not None else [], "F2": fvec(F2), "reff": fstr(reff),
                   "vshell": fstr(vshell), "ratio": fstr(ratio)}
            emit(dict(common, ev="Result", kind="Fq", res=res))
        else:
            Iq = kernel.Iq(details, values, cutoff, magnetic)
            emit(dict(common, ev="Result", kind="Iq", mode=0, res=fvec(Iq)))
    except Exception as exc:
        emit(dict(common, ev="Result", kind="raised", res=[], error=repr(exc),
                  tb=traceback.format_exc()[-800:]))
    finally:
        kernel.release()


def main():
    req = json.load(sys.stdin)
    workdir = req["workdir"]
    os.makedirs(workdir, exist_ok=True)
    for sc in req["scenarios"]:
        run_scenario(sc, workdir)


if __name__ == "__main__":
    main()
