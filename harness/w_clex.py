"""Worker for C15 (precision conversion): drives the real code and logs what happened.

stdin: one JSON request
  {"mode": "conv", "items": [{"tid": n, "s": text, ["e32": text]}, ...]}
        -> one Conv event per item: generate.convert_type(s, float32 / float64 / long double)
  {"mode": "list"} -> the compiled builtin models and those declared safe for single precision
  {"mode": "sources", "models": [...], ["cut": false]}
        -> per model a Heads event (first line of each converted source, line counts) and the
           model's source cut into chunks of whole lines; every distinct chunk is emitted once
           ("Chunk": the four versions of each line), every use is recorded ("Use")
  {"mode": "dtype", "model": name, "spellings": [...], "first_tid": n}
        -> one Dtype event per spelling (core.parse_dtype, core.build_model, the library that
           was built and the C source that was compiled for it, and its values)
  {"mode": "agree", "models": [...], "first_tid": n}
        -> Agree events: the model's own test points evaluated by the float32, float64 and
           long double libraries

Nothing here computes an expected value; CLexTrace.tla decides.
"""
import hashlib
import json
import os
import sys
import traceback

import numpy as np


def emit(ev):
    sys.stdout.write(json.dumps(ev, separators=(",", ":")) + "\n")


def fvec(v):
    return [repr(float(x)) for x in np.asarray(v).ravel()]


PRECS = (("o32", "float32"), ("o64", "float64"), ("o128", "longdouble"))


def do_conv(req):
    from sasmodels import generate
    for it in req["items"]:
        ev = {"tid": it["tid"], "ev": "Conv", "src": it["s"], "raised": False}
        if "e32" in it:
            ev["e32"] = it["e32"]
        try:
            for key, name in PRECS:
                ev[key] = generate.convert_type(it["s"], np.dtype(name))
        except Exception as exc:
            ev["raised"] = True
            ev["error"] = "%s: %s" % (type(exc).__name__, exc)
            for key, _ in PRECS:
                ev.setdefault(key, "")
        emit(ev)


def lines_of(text):
    """The lines of a text, each with its new-line character (only "\\n" separates lines)."""
    if not text.endswith("\n"):
        text += "\n"
    return [x + "\n" for x in text.split("\n")[:-1]]


def cut(lines):
    """Chunk starts: a line that begins with '#' and does not continue the previous line.

    Only a way to cut the text into pieces that repeat between models: the trace module
    checks that every piece starts and ends between tokens, so the choice cannot hide anything.
    """
    starts = [i for i, l in enumerate(lines)
              if l.startswith("#") and (i == 0 or not lines[i - 1].endswith("\\\n"))]
    if not starts or starts[0] != 0:
        starts = [0] + starts
    return starts + [len(lines)]


def do_sources(req):
    from sasmodels import core, generate
    seen = set()
    for name in req["models"]:
        info = core.load_model_info(name)
        raw = generate.make_source(info)["dll"]
        heads, L = {}, {"r": lines_of(raw)}
        for key, dt in PRECS:
            head, sep, body = generate.convert_type(raw, np.dtype(dt)).partition("\n")
            heads[key] = head + sep
            L[key] = lines_of(body)
        n = {k: len(v) for k, v in L.items()}
        emit({"tid": "src:" + name, "ev": "Heads", "model": name, "h32": heads["o32"], "h64": heads["o64"],
              "h128": heads["o128"], "nraw": n["r"], "n32": n["o32"], "n64": n["o64"], "n128": n["o128"]})
        if len(set(n.values())) != 1:
            continue        # the Heads event is rejected by the specification; lines cannot be aligned
        bounds = cut(L["r"]) if req.get("cut", True) else [0, len(L["r"])]
        for idx, (a, b) in enumerate(zip(bounds, bounds[1:])):
            rows = [[L["r"][i], L["o64"][i], L["o32"][i], L["o128"][i]] for i in range(a, b)]
            key = hashlib.sha1(json.dumps(rows).encode()).hexdigest()
            emit({"ev": "Use", "model": name, "idx": idx, "first_line": a + 1, "nlines": b - a, "key": key})
            if key not in seen:
                seen.add(key)
                emit({"ev": "Chunk", "key": key, "model": name, "first_line": a + 1, "rows": rows})


def test_points(info):
    """(pars, q_vectors, label) for the 1-D and 2-D test points declared by the model itself."""
    from sasmodels.modelinfo import expand_pars
    out = []
    for k, test in enumerate(info.tests or []):
        user_pars, x = test[0], test[1]
        if any(key.startswith("@") for key in user_pars):
            continue        # points of the product with a structure factor belong to another model
        if not isinstance(x, list):
            x = [x]
        if isinstance(x[0], tuple):
            qx, qy = zip(*x)
            qv = [np.array(qx, dtype="d"), np.array(qy, dtype="d")]
        else:
            qv = [np.array(x, dtype="d")]
        pars = expand_pars(info.parameters, user_pars)
        out.append((pars, qv, "test%d%s" % (k, ":Fq" if len(test) == 7 else "")))
    # the smoke-test points of model_test (defaults) when the model declares none
    if not out:
        out.append((expand_pars(info.parameters, {}), [np.array([0.01, 0.1, 0.2], dtype="d")], "defaults"))
    # one point with a dispersed size and a cutoff that removes the tails of the mesh: the scalar arguments of the
    # kernel call (cutoff) travel in the kernel's precision too
    pd = [p.name for p in info.parameters.call_parameters if p.polydisperse and p.type == "volume"]
    if pd:
        pars = expand_pars(info.parameters, {pd[0] + "_pd": 0.2, pd[0] + "_pd_n": 10, pd[0] + "_pd_nsigma": 3.0})
        out.append((pars, [np.array([0.01, 0.1, 0.2], dtype="d")], "cutoff"))
    return out


def evaluate(model, pars, qv, label=""):
    """I(q) at the point, or <F^2> for the points the model states for call_Fq."""
    from sasmodels.direct_model import call_kernel, call_Fq
    kernel = model.make_kernel([np.asarray(q, dtype="d") for q in qv])
    try:
        if label.endswith(":Fq"):
            return np.asarray(call_Fq(kernel, dict(pars))[1], dtype="d")
        return np.asarray(call_kernel(kernel, dict(pars), cutoff=(0.01 if label == "cutoff" else 0.0)), dtype="d")
    finally:
        kernel.release()


def do_dtype(req):
    from sasmodels import core, generate, kerneldll
    name = req["model"]
    info = core.load_model_info(name)
    source = generate.make_source(info)["dll"]
    base = os.environ["SAS_DLL_PATH"]
    pars, qv, label = test_points(info)[0]
    # reference observations: the three libraries built directly from numpy dtypes
    refs = {}
    kerneldll.SAS_DLL_PATH = os.path.join(base, "ref")
    tid = req.get("first_tid", 1)
    try:
        for bits, dt in ((32, "float32"), (64, "float64"), (128, "longdouble")):
            m = kerneldll.load_dll(source, info, np.dtype(dt))
            refs[bits] = fvec(evaluate(m, pars, qv, label))
    except Exception as exc:          # "the resulting kernels build": the specification rejects these events
        for k, sp in enumerate(req["spellings"]):
            emit({"tid": tid + k, "ev": "Dtype", "model": name, "spelling": sp, "raised": True,
                  "error": "building the reference libraries: %s: %s" % (type(exc).__name__, str(exc)[-1500:])})
        return
    compiled = []
    real_compile = kerneldll.compile_model

    def spy(source, output):
        with open(source) as f:
            compiled.append((os.path.basename(output), f.readline()))
        return real_compile(source=source, output=output)
    kerneldll.compile_model = spy
    for sp in req["spellings"]:
        ev = {"tid": tid, "ev": "Dtype", "model": name, "spelling": sp, "raised": False,
              "ref32": refs[32], "ref64": refs[64], "ref128": refs[128]}
        tid += 1
        del compiled[:]
        kerneldll.SAS_DLL_PATH = os.path.join(base, "sp%d" % tid)
        try:
            dt, fast, platform = core.parse_dtype(info, sp, None)
            ev["parsed_bits"] = int(dt.itemsize * 8)
            ev["parsed_kind"] = dt.kind
            ev["platform"] = platform
            model = core.build_model(info, dtype=sp)
            ev["model_class"] = type(model).__name__
            ev["model_bits"] = int(np.dtype(model.dtype).itemsize * 8)
            ev["lib"] = os.path.basename(model.dllpath)
            ev["compiled"] = [list(c) for c in compiled]
            kernel = model.make_kernel([np.asarray(q, dtype="d") for q in qv])
            ev["kernel_bytes"] = int(kernel.q_input.dtype.itemsize)
            ev["result_bytes"] = int(kernel.result.dtype.itemsize)
            kernel.release()
            ev["I"] = fvec(evaluate(model, pars, qv, label))
        except Exception as exc:
            ev["raised"] = True
            ev["error"] = "%s: %s" % (type(exc).__name__, exc)
            ev["trace"] = traceback.format_exc()[-1500:]
        emit(ev)
    kerneldll.compile_model = real_compile


def leaf_bits(model):
    """Precision (bits) of every compiled leaf of a possibly composite model object."""
    out = []
    for attr in ("parts",):
        if hasattr(model, attr):
            for p in getattr(model, attr):
                out += leaf_bits(p)
            return out
    if hasattr(model, "P") and hasattr(model, "S"):
        return leaf_bits(model.P) + leaf_bits(model.S)
    return [int(np.dtype(model.dtype).itemsize * 8)]


def do_dtypec(req):
    """Composite models (P@S, A+B, A*B): a precision request reaches every part as it reaches a plain model."""
    from sasmodels import core
    tid = req.get("first_tid", 1)
    for expr in req["models"]:
        first_leaf = expr.replace("@", "+").replace("*", "+").split("+")[0]
        for sp in req["spellings"]:
            ev = {"tid": tid, "ev": "DtypeC", "model": expr, "spelling": sp, "raised": False, "error": "",
                  "plain_bits": 0, "model_bits": 0, "part_bits": []}
            tid += 1
            try:
                ev["plain_bits"] = int(np.dtype(core.load_model(first_leaf, dtype=sp, platform="dll").dtype).itemsize * 8)
                m = core.load_model(expr, dtype=sp, platform="dll")
                ev["model_bits"] = int(np.dtype(m.dtype).itemsize * 8)
                ev["part_bits"] = leaf_bits(m)
            except Exception as exc:
                ev.update(raised=True, error="%s: %s" % (type(exc).__name__, str(exc)[-800:]))
            emit(ev)


def do_agree(req):
    from sasmodels import core, generate, kerneldll
    tid = req.get("first_tid", 1)
    for name in req["models"]:
        info = core.load_model_info(name)
        source = generate.make_source(info)["dll"]
        ev0 = {"ev": "Agree", "model": name, "single": bool(info.single), "raised": False}
        try:
            models = {bits: kerneldll.load_dll(source, info, np.dtype(dt))
                      for bits, dt in ((32, "float32"), (64, "float64"), (128, "longdouble"))}
        except Exception as exc:
            emit(dict(ev0, tid=tid, raised=True, error="%s: %s" % (type(exc).__name__, str(exc)[-1500:]),
                      point="build", ref=[], i32=[], i128=[]))
            tid += 1
            continue
        for pars, qv, label in test_points(info):
            ev = dict(ev0, tid=tid, point=label, dim=len(qv), nq=len(qv[0]))
            tid += 1
            try:
                ev["ref"] = fvec(evaluate(models[64], pars, qv, label))
                ev["i32"] = fvec(evaluate(models[32], pars, qv, label))
                ev["i128"] = fvec(evaluate(models[128], pars, qv, label))
            except Exception as exc:
                ev.update(raised=True, error="%s: %s" % (type(exc).__name__, str(exc)[-1500:]))
                for k in ("ref", "i32", "i128"):
                    ev.setdefault(k, [])
            emit(ev)


def do_list(req):
    from sasmodels import core
    names = sorted(core.list_models(kind="c"))
    emit({"ev": "Models", "names": names,
          "single": [n for n in names if core.load_model_info(n).single]})


def main():
    req = json.load(sys.stdin)
    {"list": do_list, "conv": do_conv, "sources": do_sources, "dtype": do_dtype, "dtypec": do_dtypec, "agree": do_agree}[req["mode"]](req)
    sys.stdout.flush()


if __name__ == "__main__":
    main()
