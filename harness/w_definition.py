"""Worker for C09 (ill-formed definitions): emit each exported definition record as a plugin
(embedded C or Python) and report whether sasmodels loads, builds and evaluates it."""
import json
import os
import sys
import traceback

import numpy as np


def plugin_text(d, engine, name):
    rows = []
    for r in d["rows"]:
        nm = r["name"] + ("[%s]" % r["ctl"] if r["ctl"] else "")
        rows.append('    ["%s", "", %r, [%r, %r], "%s", "generated"],'
                    % (nm, float(r["dflt"]), float(r["lo"]), float(r["hi"]), r["kind"]))
    s = ('r"""definition probe"""\nimport numpy as np\nfrom numpy import inf\n'
         'name = "%s"\ntitle = "t"\ndescription = "d"\ncategory = "shape:probe"\n'
         'parameters = [\n%s\n]\n' % (name, "\n".join(rows)))
    has_vol = any(r["kind"] == "volume" for r in d["rows"])
    if engine == "c":
        if has_vol:
            s += 'form_volume = "return 1.0;"\n'
        s += 'Iq = "return 1.0 + q;"\n'
        if d["fn2d"] == "Iqac":
            s += 'Iqac = "return 1.0 + qab + qc;"\n'
        elif d["fn2d"] == "Iqabc":
            s += 'Iqabc = "return 1.0 + qa + qb + qc;"\n'
    else:
        if has_vol:
            s += "def form_volume(*args):\n    return 1.0\n"
        s += "def Iq(q, *args):\n    return 1.0 + q\nIq.vectorized = True\n"
    return s


def main():
    req = json.load(sys.stdin)
    work = req["workdir"]
    os.makedirs(work, exist_ok=True)
    from sasmodels import core
    from sasmodels.direct_model import call_kernel
    for item in req["items"]:
        d, engine, tid = item["def"], item["engine"], item["tid"]
        name = "vd%s%d" % (engine, tid)
        path = os.path.join(work, name + ".py")
        with open(path, "w") as f:
            f.write(plugin_text(d, engine, name))
        ev = {"tid": tid, "ev": "Define", "engine": engine, "def": d, "outcome": "loaded", "error": ""}
        try:
            info = core.load_model_info(path)
            model = core.build_model(info, dtype="double", platform="dll")
            k1 = model.make_kernel([np.array([0.125, 0.5])])
            call_kernel(k1, {})
            k2 = model.make_kernel([np.array([0.125, 0.5]), np.array([0.25, 0.0])])
            call_kernel(k2, {})
        except Exception as exc:
            ev["outcome"] = "rejected"
            ev["error"] = (type(exc).__name__ + ": " + str(exc))[:200].replace('"', "'")
        sys.stdout.write(json.dumps(ev) + "\n")


if __name__ == "__main__":
    main()
