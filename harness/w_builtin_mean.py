"""Worker: builtin models through the public path; logs MeanTrace events.

stdin: {"models": [...], "per_model": n, "seed": s, "first_tid": t}  or  {"scenarios": [...]}
A scenario: {tid, model, pars, cutoff, dim, mode}
"""
import itertools
import json
import random
import sys
import traceback

import numpy as np


def fstr(x):
    return repr(float(x))


def fvec(v):
    return [repr(float(x)) for x in np.asarray(v, dtype="d").ravel()]


def emit(ev):
    sys.stdout.write(json.dumps(ev, separators=(",", ":")) + "\n")


_models = {}


def get_model(name):
    from sasmodels import core
    if name not in _models:
        info = core.load_model_info(name)
        _models[name] = core.build_model(info, dtype="double", platform="dll")
    return _models[name]


PD_TYPES = ["gaussian", "rectangle", "lognormal", "schulz", "uniform", "boltzmann"]
SHAPES = [(2,), (3,), (10,), (99,), (100,), (101,), (250,), (10, 10), (11, 9), (34, 3), (50, 4),
          (5, 5, 4), (7, 3, 5), (3, 3, 3, 3), (5, 2, 2, 2, 5), (2, 2, 2, 2, 2), (4, 5, 5, 2)]


def plan(model_name, n, seed, first_tid):
    """Scenario data for one model (inputs only; no expected values are computed here)."""
    model = get_model(model_name)
    info = model.info
    P = info.parameters
    rng = random.Random("%s-%s" % (model_name, seed))
    out = []
    for k in range(n):
        dim = "2d" if (rng.random() < 0.25) else "1d"
        pars = dict(P.defaults)
        if info.random is not None and rng.random() < 0.5:
            np.random.seed(rng.randrange(2 ** 31))
            try:
                pars.update(info.random())
            except Exception:
                pass
        # (a model's random() may name things that are not parameters, e.g. be_polyelectrolyte's
        # 'contrast_fact'; only real parameters are passed on)
        known = set(p.name for p in P.call_parameters)
        pars = {kk: float(v) for kk, v in pars.items() if kk in known}
        if dim == "1d":
            cands = sorted(p.name for p in P.call_parameters if p.polydisperse and p.type not in ("orientation", "magnetic"))
        else:
            cands = sorted(p.name for p in P.call_parameters
                           if p.polydisperse and p.type != "orientation")
            for p in P.call_parameters:
                if p.type == "orientation":
                    pars[p.name] = rng.choice([0.0, 30.0, 90.0, 145.0, -60.0])
        rng.shuffle(cands)
        shape = rng.choice(SHAPES)
        special = rng.random()
        if special < 0.12 and len(cands) > P.max_pd:
            shape = (2,) * (P.max_pd + 1)            # one more than supported: must be refused
        shape = shape[:len(cands)]
        for name, npts in zip(cands, shape):
            t = rng.choice(PD_TYPES)
            pars[name + "_pd_type"] = t
            pars[name + "_pd_n"] = npts
            pars[name + "_pd"] = rng.choice([0.05, 0.1, 0.25, 0.5])
            pars[name + "_pd_nsigma"] = rng.choice([2.0, 3.0, 4.0])
        # limits that cut a distribution down to 2, 1 or 0 points
        if cands and 0.12 <= special < 0.45:
            name = cands[len(shape) - 1] if shape else cands[0]
            kind = rng.choice(["tail", "one", "one", "zero"])
            pars[name + "_pd_type"] = rng.choice(["gaussian", "rectangle"])
            if kind == "tail":
                pars[name + "_pd"] = 0.9
                pars[name + "_pd_n"] = rng.choice([5, 8, 21])
                pars[name + "_pd_nsigma"] = 3.0
            elif kind == "one":
                pars[name + "_pd"] = 2.0
                pars[name + "_pd_n"] = 2
                pars[name + "_pd_nsigma"] = 1.0
            else:
                pars[name] = -abs(pars.get(name, 1.0)) - 1.0
                pars[name + "_pd"] = 0.1
                pars[name + "_pd_n"] = 4
            # a further one-point distribution on another parameter (matters when the model has
            # more dispersible parameters than loop levels)
            if len(cands) > len(shape) and rng.random() < 0.7:
                other = cands[-1]
                pars[other + "_pd_type"] = "rectangle"
                pars[other + "_pd"] = 2.0
                pars[other + "_pd_n"] = 2
                pars[other + "_pd_nsigma"] = 1.0
        nmodes = len(info.radius_effective_modes or [])
        out.append({"tid": first_tid + k, "model": model_name, "pars": pars,
                    "cutoff": rng.choice([0.0, 0.0, 1e-5, 1e-3, 0.2]), "dim": dim,
                    "mode": rng.randint(0, nmodes) if nmodes else 0})
    return out


def plan_oriented(model_name, n, seed, first_tid):
    """C05: 2-D, view angles away from zero, no jitter, dispersity on 3..5 sizes at once, so that the
    orientation parameters are not among the distributions the kernel loops over."""
    model = get_model(model_name)
    info = model.info
    P = info.parameters
    rng = random.Random("o-%s-%s" % (model_name, seed))
    sizes = sorted(p.name for p in P.call_parameters if p.polydisperse and p.type == "volume")
    out = []
    for k in range(n):
        pars = {kk: float(v) for kk, v in P.defaults.items()
                if not kk.startswith("up_") and not kk.endswith(("_M0", "_mtheta", "_mphi"))}
        for p in P.call_parameters:
            if p.type == "orientation":
                pars[p.name] = rng.choice([30.0, 60.0, 90.0, 145.0, -60.0, 20.0])
        rng.shuffle(sizes)
        nd = min(len(sizes), rng.choice([3, 4, 5, 5]), P.max_pd)
        for name in sizes[:nd]:
            pars[name + "_pd_type"] = rng.choice(["gaussian", "rectangle"])
            pars[name + "_pd_n"] = rng.choice([2, 2, 3])
            pars[name + "_pd"] = rng.choice([0.05, 0.1, 0.2])
            pars[name + "_pd_nsigma"] = 2.0
        out.append({"tid": first_tid + k, "model": model_name, "pars": pars, "cutoff": 0.0, "dim": "2d", "mode": 0})
    return out


def run_scenario(sc):
    from sasmodels.direct_model import call_kernel, call_Fq, get_mesh
    from sasmodels.details import make_kernel_args
    model = get_model(sc["model"])
    info = model.info
    P = info.parameters
    if sc["dim"] == "2d":
        qx = np.array([0.01, -0.05, 0.1, 0.0])
        qy = np.array([0.02, 0.05, -0.03, 0.08])
        kernel = model.make_kernel([qx, qy])
    else:
        kernel = model.make_kernel([np.array([0.001, 0.01, 0.1, 0.3])])
    nq = kernel.q_input.nq
    pars = sc["pars"]
    cutoff = sc["cutoff"]
    mode = sc["mode"]
    both = bool(info.have_Fq and kernel.dim == "1d")
    ev = {"tid": sc["tid"], "ev": "Mean", "model": sc["model"], "dim": sc["dim"], "nq": nq,
          "both": both, "cutoff": fstr(cutoff), "mode": mode, "maxpd": P.max_pd,
          "scale": fstr(pars.get("scale", 1.0)), "background": fstr(pars.get("background", 0.0)),
          "engine": "py" if callable(info.Iq) else "c"}
    mesh = get_mesh(info, pars, dim=kernel.dim)
    kmesh = mesh[2:2 + P.npars]
    ev["weights"] = [fvec(w) for _, _, w in kmesh]
    ev["values"] = [fvec(d) for _, d, _ in kmesh]
    # declared hard limits, from the definition's own table rows (a numbered member of a vector parameter has
    # the limits of the vector's row); only dispersible parameters are subject to them
    lims = []
    for p, (_, d, _) in zip(P.call_parameters[2:2 + P.npars], kmesh):
        lim = (-np.inf, np.inf)
        if p.polydisperse:
            lim = p.limits
            for k in P.kernel_parameters:
                if k.length > 1 and p.name.startswith(k.id) and p.name[len(k.id):].isdigit():
                    lim = k.limits
        lims.append([fstr(lim[0]), fstr(lim[1])])
    ev["limits"] = lims
    # the mesh the mean is taken over must itself be the documented one: every requested distribution and what
    # get_mesh returned for it is handed to the weights specification (WeightsTrace, shared with C02)
    for p, (v0, d, wts), lim in zip(P.call_parameters[2:2 + P.npars], kmesh, lims):
        # (positive centres only: the weights property is stated for centres in [0.1, 1e4]; a relative width about a
        # negative centre gives a mesh in decreasing order, which the mean does not care about)
        if (p.polydisperse and pars.get(p.name + "_pd_n", 0) and pars.get(p.name + "_pd", 0.0) and p.type != "orientation"
                and float(pars.get(p.name, p.default)) > 0.0):
            emit({"tid": sc["tid"], "ev": "GetW", "model": sc["model"], "dim": sc["dim"],
                  "q": {"type": str(pars.get(p.name + "_pd_type", "gaussian")), "n": int(pars[p.name + "_pd_n"]),
                        "width": fstr(pars[p.name + "_pd"]), "nsigma": fstr(pars.get(p.name + "_pd_nsigma", 3.0)),
                        "value": fstr(pars.get(p.name, p.default)), "lb": lim[0], "ub": lim[1], "relative": True},
                  "res": {"raised": False, "error": "", "x": fvec(d), "w": fvec(wts), "value": fstr(v0)}})
    ev["lens"] = [len(w) for _, _, w in kmesh]
    res = {"refused": False, "raised": False, "error": "", "Iq": [], "F1": [], "F2": [],
           "reff": "0.0", "vshell": "0.0", "ratio": "0.0"}
    try:
        # the kernel object has been used before (as in a fit): one ordinary call with the defaults first
        call_kernel(kernel, {k: float(v) for k, v in P.defaults.items() if not k.startswith("up_")
                             and not k.endswith(("_M0", "_mtheta", "_mphi"))}, cutoff=0.0)
        Iq = call_kernel(kernel, dict(pars), cutoff=cutoff)
        fq_pars = dict(pars)
        fq_pars["radius_effective_mode"] = mode
        F1, F2, reff, vshell, ratio = call_Fq(kernel, fq_pars, cutoff=cutoff)
        res.update(Iq=fvec(Iq), F1=fvec(F1) if F1 is not None else [], F2=fvec(F2),
                   reff=fstr(reff), vshell=fstr(vshell), ratio=fstr(ratio))
    except ValueError as exc:
        if "Too many polydisperse" in str(exc):
            res["refused"] = True
        else:
            res.update(raised=True, error=repr(exc))
    except Exception as exc:
        res.update(raised=True, error=repr(exc) + traceback.format_exc()[-400:])
    ev["res"] = res
    pts = []
    n_total = 1
    for _, _, w in kmesh:
        n_total *= len(w)
    if not res["refused"] and not res["raised"] and n_total <= 4000:
        tail = mesh[2 + P.npars:]
        types = [p.type for p in P.call_parameters[2:2 + P.npars]]
        for idx in itertools.product(*[range(len(w)) for _, _, w in kmesh]):
            one = [(1.0, [1.0], [1.0]), (0.0, [0.0], [1.0])]
            for (v, d, w), j, t in zip(kmesh, idx, types):
                if t == "orientation":
                    one.append((v, [d[j]], [1.0]))
                else:
                    one.append((d[j], [d[j]], [1.0]))
            for v, d, w in tail:
                one.append((v, [v], [1.0]))
            details, values, magnetic = make_kernel_args(kernel, one)
            kernel._call_kernel(details, values, 0.0, magnetic, mode)
            buf = np.array(kernel.result, dtype="d")
            if both:
                f2, f1 = buf[0:2 * nq:2], buf[1:2 * nq:2]
                rest = buf[2 * nq:2 * nq + 4]
            else:
                f2, f1 = buf[0:nq], []
                rest = buf[nq:nq + 4]
            pts.append({"F2": fvec(f2), "F1": fvec(f1), "norm": fstr(rest[0]), "vform": fstr(rest[1]),
                        "vshell": fstr(rest[2]), "reff": fstr(rest[3])})
    elif n_total > 4000:
        res["refused"] = False
        ev["skipped"] = "mesh too large"
    ev["pts"] = pts
    ev["pars"] = {k: (v if isinstance(v, str) else float(v)) for k, v in pars.items()}
    kernel.release()
    if "skipped" not in ev:
        emit(ev)


def main():
    req = json.load(sys.stdin)
    if "scenarios" in req:
        scen = req["scenarios"]
    else:
        scen = []
        tid = req["first_tid"]
        for m in req["models"]:
            s = (plan_oriented if req.get("style") == "oriented" else plan)(m, req["per_model"], req["seed"], tid)
            tid += req["per_model"]
            scen += s
    for sc in scen:
        try:
            run_scenario(sc)
        except Exception as exc:
            emit({"tid": sc["tid"], "ev": "HarnessError", "model": sc["model"], "error": repr(exc),
                  "tb": traceback.format_exc()[-1500:], "pars": sc["pars"]})


if __name__ == "__main__":
    main()
