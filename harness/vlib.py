"""Shared machinery: TLC runner, trace validation, workers, evidence, known findings.

Standard library only; runs under any python >= 3.8.
Exit codes used by checks: 0 held, 1 violation, 2 machinery failure.
"""
import hashlib
import json
import os
import re
import shutil
import subprocess
import sys
import tempfile
import time

VERIF = os.path.dirname(os.path.dirname(os.path.abspath(__file__)))
REPO = os.environ.get("VERIF_REPO", "/repo")
SPEC = os.path.join(VERIF, "spec")
CLASSES = os.path.join(SPEC, "classes")
BUILD = os.path.join(VERIF, ".build")
TLA_JAR = "/opt/veriftools/tla/tla2tools.jar"
CM_JAR = "/opt/veriftools/tla/CommunityModules-deps.jar"
VENV_PY = "/venv/bin/python"
NCPU = os.cpu_count() or 4


class Machinery(Exception):
    """The verification machinery itself failed (exit 2)."""


class WorkerKilled(Machinery):
    """A worker process - an interpreter running the library under check - was killed by a signal (SIGSEGV,
    SIGFPE, SIGBUS ...).  The library crashed the interpreter: reported as a violation, not as a machinery fault."""

    def __init__(self, script, signum, request, stderr):
        Machinery.__init__(self, "worker %s was killed by signal %d\n%s" % (script, signum, stderr[-2000:]))
        self.script, self.signum, self.request = script, signum, request


class NotEvaluable(Machinery):
    """TLC could not evaluate a trace module on the recorded events."""


def log(*a):
    print(*a, flush=True)


def scratch(prefix):
    os.makedirs(BUILD, exist_ok=True)
    return tempfile.mkdtemp(prefix=prefix + "-", dir=BUILD)


def ensure_classes():
    """Compile every spec/*.java operator-override class that is newer than its .class file."""
    import glob
    os.makedirs(CLASSES, exist_ok=True)
    stale = []
    for src in glob.glob(os.path.join(SPEC, "*.java")):
        cls = os.path.join(CLASSES, os.path.basename(src)[:-5] + ".class")
        if not os.path.exists(cls) or os.path.getmtime(cls) < os.path.getmtime(src):
            stale.append(src)
    if stale:
        r = subprocess.run(["javac", "-cp", TLA_JAR + os.pathsep + CLASSES, "-d", CLASSES] + stale,
                           capture_output=True, text=True)
        if r.returncode != 0:
            raise Machinery("javac failed: " + r.stderr)


# ------------------------------------------------------------------ TLC
_STATES_RE = re.compile(r"(\d+) states generated, (\d+) distinct states found")
_DEPTH_RE = re.compile(r"The depth of the complete state graph search is (\d+)")


def tlc(module, cfg=None, workers=None, env=None, timeout=3600, extra=(), cwd=SPEC,
        deadlock=False, simulate=None, depth=None, seed=None, dfs=False, coverage=False,
        heap="4g"):
    """Run TLC on spec/<module>.tla with spec/<cfg>.  Returns a result dict.

    result: ok (no error reported), states, distinct, depth_reached, violated (name or None),
    out (full stdout), wall_s, error (first error text or None)
    """
    ensure_classes()
    meta = scratch("tlc")
    # TLC makes an (empty) tlc-<n> directory under java.io.tmpdir on every start: keep it in the scratch directory
    cmd = ["java", "-XX:+UseParallelGC", "-Xss512m", "-Xmx" + heap, "-Djava.io.tmpdir=" + meta]
    if dfs:
        cmd.append("-Dtlc2.tool.queue.IStateQueue=StateDeque")
    cmd += ["-cp", os.pathsep.join([CLASSES, TLA_JAR, CM_JAR]), "tlc2.TLC",
            "-metadir", meta, "-noGenerateSpecTE"]
    if workers is None:
        workers = NCPU
    cmd += ["-workers", str(workers)]
    if not deadlock:
        cmd.append("-deadlock")   # -deadlock = do NOT check for deadlock
    if coverage:
        cmd += ["-coverage", "1"]
    if simulate is not None:
        cmd += ["-simulate", simulate]
        if depth:
            cmd += ["-depth", str(depth)]
    if seed is not None:
        cmd += ["-seed", str(seed)]
    cmd += list(extra)
    cmd += ["-config", cfg or (module + ".cfg"), module + ".tla"]
    e = dict(os.environ)
    e.pop("JAVA_TOOL_OPTIONS", None)
    if env:
        e.update({k: str(v) for k, v in env.items()})
    t0 = time.time()
    try:
        p = subprocess.run(cmd, cwd=cwd, env=e, capture_output=True, text=True, timeout=timeout)
        out = p.stdout + p.stderr
        rc = p.returncode
    except subprocess.TimeoutExpired as ex:
        out = (ex.stdout or b"").decode("utf8", "replace") if isinstance(ex.stdout, bytes) else (ex.stdout or "")
        out += "\nTLC TIMEOUT after %ss" % timeout
        rc = -9
    finally:
        shutil.rmtree(meta, ignore_errors=True)
    res = {"rc": rc, "out": out, "wall_s": time.time() - t0, "cmd": " ".join(cmd)}
    m = None
    for m in _STATES_RE.finditer(out):
        pass
    res["states"] = int(m.group(1)) if m else 0
    res["distinct"] = int(m.group(2)) if m else 0
    m = _DEPTH_RE.search(out)
    res["depth"] = int(m.group(1)) if m else 0
    viol = re.search(r"Error: Invariant (\S+) is violated", out)
    if not viol:
        viol = re.search(r"Error: Action property (\S+) is violated", out)
    if not viol and "Temporal properties were violated" in out:
        viol = re.search(r"(Temporal properties) were violated", out)
    res["violated"] = viol.group(1) if viol else None
    err = re.search(r"Error: (.*)", out)
    res["error"] = err.group(1) if err else None
    res["ok"] = (rc == 0 and err is None)
    return res


def tlc_must_pass(module, cfg=None, what="", **kw):
    """Run a design-level TLC check that is expected to pass; Machinery on tool failure."""
    r = tlc(module, cfg, **kw)
    if r["violated"]:
        return r
    if not r["ok"]:
        raise Machinery("TLC failed on %s/%s: %s\n%s" % (module, cfg, r["error"], r["out"][-3000:]))
    if r["distinct"] == 0 and kw.get("simulate") is None:
        raise Machinery("TLC explored no states on %s/%s\n%s" % (module, cfg, r["out"][-2000:]))
    return r


def parse_printed(out, tag):
    """Extract TLC PrintT output of the form <<"TAG", ...>> (as JSON strings inside).

    Trace specs print verdict lines as  <<"TAG", "json-text">>  where json-text is produced
    by ToJson; this returns the list of decoded objects.
    """
    res = []
    pat = re.compile(r'<<\s*"%s",\s*"((?:[^"\\]|\\.)*)"\s*>>' % re.escape(tag))
    for m in pat.finditer(out):
        txt = m.group(1).encode("utf8").decode("unicode_escape")
        try:
            res.append(json.loads(txt))
        except Exception:
            res.append(txt)
    return res


def tla_value_scan(out, tag):
    """Return the raw text of every printed tuple that starts with <<"tag", (bracket matched).
    TLC pretty-prints long tuples over several lines as `<< "tag",\n   ...  >>`."""
    res = []
    pat = re.compile(r'<<\s*"%s"' % re.escape(tag))
    pos = 0
    while True:
        m = pat.search(out, pos)
        if not m:
            break
        i = m.start()
        depth = 0
        j = i
        instr = False
        while j < len(out):
            c = out[j]
            if instr:
                if c == "\\":
                    j += 1
                elif c == '"':
                    instr = False
            else:
                if c == '"':
                    instr = True
                elif out.startswith("<<", j):
                    depth += 1
                    j += 1
                elif out.startswith(">>", j):
                    depth -= 1
                    j += 1
                    if depth == 0:
                        break
            j += 1
        res.append(out[i:j + 1])
        pos = j + 1
    return res


# ------------------------------------------------------------------ trace validation
def _validate_once(module, events, cfg=None, env=None, timeout=3600, keep=None, heap="6g"):
    """Validate a list of event dicts with spec/<module>.tla (a *Trace module).

    Protocol of every trace module (see spec/TraceBase.tla):
      * the log is read with ndJsonDeserialize(IOEnv.TRACE_FILE);
      * one TLC step per event; a step never blocks: if the event is not a step of the
        specification the module records <<tid, line, clause>> in variable `bad` and
        prints <<"REJECT", tid, line, clause, detail>>;
      * POSTCONDITION checks that every line was consumed;
      * the final line printed is <<"TRACE-DONE", consumed, nbad>>.
    Returns dict(consumed, n, rejects=[(tid, line, clause, detail)], out, wall_s).
    """
    d = scratch("trace")
    path = os.path.join(d, "trace.ndjson")
    with open(path, "w") as f:
        for ev in events:
            f.write(json.dumps(ev, separators=(",", ":")) + "\n")
    e = {"TRACE_FILE": path}
    if env:
        e.update(env)
    try:
        r = tlc(module, cfg or (module + ".cfg"), workers=1, env=e, timeout=timeout, heap=heap)
    finally:
        if keep:
            shutil.copy(path, keep)
        shutil.rmtree(d, ignore_errors=True)
    out = r["out"]
    done = tla_value_scan(out, "TRACE-DONE")
    rejects = []
    for txt in tla_value_scan(out, "REJECT"):
        m = re.match(r'<<\s*"REJECT",\s*(-?\d+|"[^"]*"),\s*(\d+),\s*"([^"]*)"(?:,\s*(.*?))?\s*>>$', txt, re.S)
        if m:
            tid = m.group(1)
            tid = int(tid) if not tid.startswith('"') else tid.strip('"')
            rejects.append((tid, int(m.group(2)), m.group(3), (m.group(4) or "").strip()))
        else:
            rejects.append((None, -1, "unparsed", txt))
    # dedupe (TLC may evaluate an action more than once)
    seen = set()
    uniq = []
    for x in rejects:
        k = x[:4]
        if k not in seen:
            seen.add(k)
            uniq.append(x)
    consumed = None
    nbad = -1
    if done:
        m = re.match(r'<<\s*"TRACE-DONE",\s*(\d+),\s*(\d+)\s*>>', done[-1], re.S)
        if m:
            consumed = int(m.group(1))
            nbad = int(m.group(2))
    if consumed is None or not r["ok"] and not r["violated"] and consumed != len(events):
        crashed = ("unexpected exception" in out or "evaluating" in out or "Attempted to" in out) and "TLC TIMEOUT" not in out
        m = (re.search(r"produced the following error:\s*\n?([^\n]*)", out)
             or re.search(r"The exception was a [^\n]*\n:? ?([^\n]*(?:\n[^\n]*){0,2})", out)
             or re.search(r"Error: ([^\n]*(?:\n[^\n]*){0,3})", out))
        raise (NotEvaluable if crashed else Machinery)("trace validation with %s did not complete: %s\n%s"
                        % (module, (m.group(1) if m else r["error"]), out[-4000:]))
    if consumed != len(events):
        raise Machinery("trace module %s consumed %s of %d lines\n%s"
                        % (module, consumed, len(events), out[-3000:]))
    # every rejection TLC counted must have been parsed (a verdict may never be lost in transit)
    if len(uniq) != nbad or any(x[1] < 0 for x in uniq):
        raise Machinery("trace module %s counted %d rejected events but %d were parsed\n%s"
                        % (module, nbad, len(uniq), out[-3000:]))
    return {"consumed": consumed, "n": len(events), "rejects": uniq, "out": out,
            "wall_s": r["wall_s"], "states": r["states"], "distinct": r["distinct"]}


def one_per_trace(behaviours, rng, key="steps"):
    """Behaviours printed from an invariant during `tlc -simulate` when the invariant fires at a step COUNT:
    TLC evaluates the invariant on every candidate successor of the last step, so each simulated trace is
    printed once per candidate - many behaviours that differ in their last step only.  Keep one per trace
    (grouped by everything but the last step, in order of appearance; the member is drawn with *rng*)."""
    groups, order = {}, []
    for b in behaviours:
        k = json.dumps(b[key][:-1], sort_keys=True)
        if k not in groups:
            groups[k] = []
            order.append(k)
        groups[k].append(b)
    return [rng.choice(groups[k]) for k in order]


def validate_trace(module, events, cfg=None, env=None, timeout=3600, keep=None, heap="6g"):
    """_validate_once, made total.  A trace module is written to give a verdict on every event, but an
    observation of a shape the module does not foresee (a result vector of another length, a missing field)
    makes TLC's evaluation fail instead.  In that case the log is split at trace-id boundaries (leading
    events with tid 0 are a header kept in every part) until the groups that cannot be evaluated are
    isolated; each is reported as a rejected event with clause "not-evaluable".  More than 20 such groups
    are taken as a fault of the machinery, not of the observations."""
    try:
        return _validate_once(module, events, cfg, env, timeout, keep, heap)
    except NotEvaluable as first:
        nh = 0
        while nh < len(events) and events[nh].get("tid") in (0, None):
            nh += 1
        header = events[:nh]
        groups = []          # (start index in events, end index)
        i = nh
        while i < len(events):
            j = i
            while j < len(events) and events[j].get("tid") == events[i].get("tid"):
                j += 1
            groups.append((i, j))
            i = j
        if not groups:
            raise Machinery(str(first))
        total = {"consumed": len(events), "n": len(events), "rejects": [], "out": "", "wall_s": 0.0, "states": 0, "distinct": 0}
        bad_groups = []

        def solve(a, b):
            lo, hi = groups[a][0], groups[b - 1][1]
            try:
                v = _validate_once(module, header + events[lo:hi], cfg, env, timeout, None, heap)
            except NotEvaluable as exc:
                if b - a == 1:
                    bad_groups.append((a, str(exc)))
                    if len(bad_groups) > 20:
                        raise Machinery("more than 20 event groups cannot be evaluated by %s: %s" % (module, str(exc)[:3000]))
                    return
                mid = (a + b) // 2
                solve(a, mid)
                solve(mid, b)
                return
            for tid, line, clause, detail in v["rejects"]:
                orig = line if line <= nh else lo + (line - nh)
                total["rejects"].append((tid, orig, clause, detail))
            total["out"] += v["out"]
            total["wall_s"] += v["wall_s"]
            total["states"] += v["states"]
        solve(0, len(groups))
        for a, msg in bad_groups:
            lo = groups[a][0]
            total["rejects"].append((events[lo].get("tid"), lo + 1, "not-evaluable", msg.split("\n")[0][:400]))
        seen, uniq = set(), []
        for x in sorted(total["rejects"], key=lambda x: x[1]):
            if x[:4] not in seen:
                seen.add(x[:4])
                uniq.append(x)
        total["rejects"] = uniq
        return total


# ------------------------------------------------------------------ workers (import sasmodels)
def worker_env(dll_dir, extra=None):
    e = dict(os.environ)
    e["PYTHONPATH"] = REPO + os.pathsep + os.path.join(VERIF, "harness")
    e["SAS_OPENCL"] = "none"
    e["SAS_DLL_PATH"] = dll_dir
    e["PYTHONHASHSEED"] = "0"
    e["SASMODELS_VERIF"] = "1"
    e["OMP_NUM_THREADS"] = "1"
    e["PYTHONDONTWRITEBYTECODE"] = "1"
    e.pop("SAS_COMPILER", None)
    if extra:
        e.update({k: str(v) for k, v in extra.items()})
    return e


def run_worker(script, request, dll_dir, timeout=3600, extra_env=None, python=VENV_PY):
    """Run harness/<script> under the repo's interpreter; JSON request on stdin, JSON lines on stdout.

    Returns the list of decoded JSON lines (events).  stderr is passed through on failure.
    """
    path = script if os.path.isabs(script) else os.path.join(VERIF, "harness", script)
    p = subprocess.run([python, path], input=json.dumps(request), capture_output=True,
                       text=True, timeout=timeout, env=worker_env(dll_dir, extra_env),
                       cwd=dll_dir)
    if p.returncode < 0 and -p.returncode not in (9, 15):      # killed by a signal that nobody sent: a crash
        raise WorkerKilled(os.path.basename(script), -p.returncode, request, p.stderr)
    if p.returncode != 0:
        raise Machinery("worker %s failed rc=%s\n%s" % (script, p.returncode, p.stderr[-4000:]))
    out = []
    for line in p.stdout.splitlines():
        line = line.strip()
        if line.startswith("{"):
            out.append(json.loads(line))
    return out


def run_workers_parallel(script, requests, dll_dir, timeout=3600, nproc=None, extra_env=None):
    """Run several worker requests concurrently (each its own process, shared dll dir)."""
    from concurrent.futures import ThreadPoolExecutor
    nproc = nproc or NCPU
    # every worker process gets a private cache directory: concurrent first builds of one
    # model in a shared directory are exactly the C18 hazard and must not disturb other checks
    dirs = []
    for k in range(len(requests)):
        d = os.path.join(dll_dir, "w%d" % k)
        os.makedirs(d, exist_ok=True)
        dirs.append(d)
    with ThreadPoolExecutor(max_workers=nproc) as ex:
        futs = [ex.submit(run_worker, script, rq, d, timeout, extra_env) for rq, d in zip(requests, dirs)]
        return [f.result() for f in futs]


# ------------------------------------------------------------------ doubles <-> strings
def fstr(x):
    return repr(float(x))


def fvec(v):
    return [repr(float(x)) for x in v]


# ------------------------------------------------------------------ findings
class Findings:
    """Known findings: /verif/findings/known_findings.json (never written at run time)."""

    def __init__(self, prop):
        self.prop = prop
        path = os.path.join(VERIF, "findings", "known_findings.json")
        self.entries = []
        if os.path.exists(path):
            with open(path) as f:
                data = json.load(f)
            for e in data.get("findings", []):
                if e.get("property") == prop and e.get("status", "open") == "open":
                    self.entries.append(e)
        self.hit = {}

    def match(self, key):
        """key: dict describing the violation (call site / input class).  An entry matches when
        every field of the entry's 'key' equals the same field of `key`."""
        for e in self.entries:
            if all(key.get(k) == v for k, v in e["key"].items()):
                self.hit.setdefault(e["id"], e)
                return e
        return None

    def report(self):
        for e in self.hit.values():
            log("KNOWN-FINDING: property=%s %s [%s]" % (self.prop, e["what"], e["id"]))


# ------------------------------------------------------------------ check context
class Check:
    def __init__(self, prop, level, tier, seed):
        self.prop = prop
        self.level = level
        self.tier = tier
        self.seed = seed
        self.t0 = time.time()
        self.cov = {"evaluations": 0, "distinct_nontrivial": 0, "rule": "", "samples": [],
                    "states": 0, "transitions": 0, "traces_validated_against_impl": 0,
                    "exhaustive": False}
        self.assumptions = []
        self.violations = []
        self.findings = Findings(prop)
        self.notes = {}
        self._distinct = set()

    # --- TLC bookkeeping
    def add_tlc(self, r, label=None):
        self.cov["states"] += r["distinct"]
        self.cov["transitions"] += r["states"]
        if label:
            self.notes.setdefault("tlc_runs", []).append(
                {"run": label, "distinct": r["distinct"], "generated": r["states"],
                 "depth": r.get("depth", 0), "wall_s": round(r["wall_s"], 2)})

    def design_violation(self, r, label, key=None):
        """A design-level invariant failed in TLC."""
        self.violation(dict(key or {}, kind="design", run=label, invariant=r["violated"]),
                       {"tlc_tail": r["out"][-6000:]})

    # --- case bookkeeping
    def case(self, sig, nontrivial=True, sample=None):
        self.cov["evaluations"] += 1
        if nontrivial:
            h = hashlib.sha1(json.dumps(sig, sort_keys=True, default=str).encode()).hexdigest()
            if h not in self._distinct:
                self._distinct.add(h)
        if sample is not None and len(self.cov["samples"]) < 6:
            self.cov["samples"].append(sample)

    def violation(self, key, detail):
        """Record a violation.  `key` identifies the failing input class for known-finding matching."""
        e = self.findings.match(key)
        if e is not None:
            return False
        h = hashlib.sha1(json.dumps(key, sort_keys=True, default=str).encode()).hexdigest()[:12]
        d = os.path.join(VERIF, "replays", self.prop)
        os.makedirs(d, exist_ok=True)
        path = os.path.join(d, h + ".json")
        with open(path, "w") as f:
            json.dump({"property": self.prop, "key": key, "detail": detail, "seed": self.seed,
                       "tier": self.tier}, f, indent=1, default=str)
        if len(self.violations) < 50:
            log("VIOLATION property=%s replay=%s" % (self.prop, path))
            log("  key=%s" % json.dumps(key, default=str)[:600])
        self.violations.append(path)
        return True

    def finish(self):
        self.findings.report()
        self.cov["distinct_nontrivial"] = len(self._distinct)
        ev = {
            "property_id": self.prop, "tier": self.tier, "seed": self.seed, "level": self.level,
            "coverage": dict(self.cov, **self.notes),
            "assumptions": self.assumptions,
            "wall_s": round(time.time() - self.t0, 2),
            "violations": len(self.violations),
            "known_findings_hit": sorted(self.findings.hit),
        }
        os.makedirs(os.path.join(VERIF, "evidence"), exist_ok=True)
        with open(os.path.join(VERIF, "evidence", self.prop + ".json"), "w") as f:
            json.dump(ev, f, indent=1, default=str)
        log("%s tier=%s seed=%s: evaluations=%d distinct=%d states=%d traces=%d violations=%d wall=%.1fs"
            % (self.prop, self.tier, self.seed, self.cov["evaluations"], self.cov["distinct_nontrivial"],
               self.cov["states"], self.cov["traces_validated_against_impl"], len(self.violations),
               time.time() - self.t0))
        return 1 if self.violations else 0


def main(prop, level, run):
    """Entry point used by harness/props/<id>.py."""
    import argparse
    ap = argparse.ArgumentParser()
    ap.add_argument("--tier", default=os.environ.get("VERIF_TIER", "quick"))
    ap.add_argument("--seed", type=int, default=int(os.environ.get("VERIF_SEED", "1")))
    ap.add_argument("--replay", default=None)
    a = ap.parse_args(sys.argv[2:] if len(sys.argv) > 1 and sys.argv[1] == prop else None)
    tier = "thorough" if a.tier.startswith("t") else "quick"
    chk = Check(prop, level, tier, a.seed)
    try:
        run(chk, a)
        rc = chk.finish()
    except WorkerKilled as ex:
        # the interpreter running the library died from a signal while working through its scenarios
        req = ex.request if isinstance(ex.request, dict) else {}
        small = json.loads(json.dumps(req))
        for k in ("scenarios", "jobs"):
            if isinstance(small.get(k), list) and len(small[k]) > 40:
                small[k] = small[k][:40]
        chk.violation({"clause": "library-crashed-the-interpreter", "signal": ex.signum, "worker": ex.script},
                      {"scenario": {"worker": ex.script, "request": small}, "clause": "library-crashed-the-interpreter",
                       "detail": str(ex)[:1500]})
        rc = chk.finish()
    except Machinery as ex:
        log("MACHINERY-FAILURE property=%s: %s" % (prop, ex))
        rc = 2
    sys.exit(rc)
