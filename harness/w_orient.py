"""Worker for C05: 2-D kernels vs the model's own particle-frame function.

The particle-frame function Iqac / Iqabc is static in the generated source; it is reached by
appending an exported wrapper to generate.make_source(info)['dll'] of the working tree and
compiling that with kerneldll.compile_model.  Rotations computed here only decide WHERE the
particle-frame function is evaluated; OrientTrace recomputes them and rejects a mismatch.
"""
import ctypes as ct
import json
import os
import random
import re
import sys
import traceback
from math import radians, sin, cos

import numpy as np

import probe


def fstr(x):
    return repr(float(x))


def fvec(v):
    return [repr(float(x)) for x in np.asarray(v, dtype="d").ravel()]


def emit(ev):
    sys.stdout.write(json.dumps(ev, separators=(",", ":")) + "\n")


WRAP = r"""
%(define)s
double verif_particle(double qa, double qb, double qc, const double *pars);
double verif_particle(double qa, double qb, double qc, const double *pars) {
    ParameterBlock lv;
    for (int i=0; i < NUM_PARS; i++) lv.vector[i] = pars[i];
#if defined(CALL_IQ_ABC)
    return CALL_IQ_ABC(qa, qb, qc, lv.table);
#else
    return CALL_IQ_AC(sqrt(qa*qa+qb*qb), qc, lv.table);
#endif
}
"""

_cache = {}


def particle_fn(info, workdir):
    from sasmodels import generate, kerneldll
    if info.id in _cache:
        return _cache[info.id]
    src = generate.make_source(info)["dll"]
    m = re.search(r"^#define CALL_IQ_A(C|BC)\(.*$", src, flags=re.MULTILINE)
    if m is None:
        raise RuntimeError("no particle-frame function in %s" % info.id)
    text = generate.convert_type(src + WRAP % {"define": m.group(0)}, generate.F64)
    cfile = os.path.join(workdir, "verif_particle_%s.c" % info.id)
    so = os.path.join(workdir, "verif_particle_%s.so" % info.id)
    with open(cfile, "w") as f:
        f.write(text)
    kerneldll.compile_model(source=cfile, output=so)
    lib = ct.CDLL(so)
    fn = lib.verif_particle
    fn.restype = ct.c_double
    fn.argtypes = [ct.c_double, ct.c_double, ct.c_double, ct.c_void_p]
    _cache[info.id] = (fn, lib, "abc" if m.group(1) == "BC" else "ac")
    return _cache[info.id]


def Rz(a):
    c, s = cos(radians(a)), sin(radians(a))
    return np.array([[c, -s, 0], [s, c, 0], [0, 0, 1.0]])


def Ry(a):
    c, s = cos(radians(a)), sin(radians(a))
    return np.array([[c, 0, s], [0, 1.0, 0], [-s, 0, c]])


def Rx(a):
    c, s = cos(radians(a)), sin(radians(a))
    return np.array([[1.0, 0, 0], [0, c, -s], [0, s, c]])


ANGLES = [0.0, 90.0, 180.0, 270.0, 30.0, 53.13010235415598, 36.86989764584402, -67.38013505195957, 143.13010235415598,
          -45.0, 70.0, 25.0, 110.0, -150.0]
QX = [0.0625, -0.03125, 0.0, -0.046875, 0.09375]
QY = [0.03125, 0.0625, 0.078125, -0.0234375, 0.0]

_models = {}


def load(name, workdir):
    from sasmodels import core
    if name not in _models:
        if isinstance(name, dict):
            raise TypeError
        info = core.load_model_info(name)
        _models[name] = core.build_model(info, dtype="double", platform="dll")
    return _models[name]


def base_pars(info, rng):
    P = info.parameters
    pars = dict(P.defaults)
    if info.random is not None and rng.random() < 0.5:
        np.random.seed(rng.randrange(2 ** 31))
        try:
            pars.update(info.random())
        except Exception:
            pass
    pars = {k: float(v) for k, v in pars.items() if not k.startswith("up_") and not k.endswith(("_M0", "_mtheta", "_mphi"))}
    pars["scale"], pars["background"] = 1.0, 0.0
    return pars


def run_orient(sc, workdir):
    from sasmodels.direct_model import call_kernel, call_Fq, get_mesh
    from sasmodels.details import make_kernel_args
    rng = random.Random(sc["seed"])
    name = sc["model"]
    if sc.get("probe"):
        name = probe.write_c(sc["probe"], workdir)
    model = load(name, workdir)
    info = model.info
    P = info.parameters
    fn, _lib, sym = particle_fn(info, workdir)
    pars = base_pars(info, rng)
    if sc.get("onaxis"):
        # default sizes: on the axis the in-plane component is a rounding residue, which extreme aspect ratios
        # (random sets reach 1000:1) would amplify beyond the comparison tolerance
        pars = {k: float(v) for k, v in P.defaults.items()
                if not k.startswith("up_") and not k.endswith(("_M0", "_mtheta", "_mphi"))}
        pars["scale"], pars["background"] = 1.0, 0.0
    theta, phi, psi = rng.choice(ANGLES), rng.choice(ANGLES), rng.choice(ANGLES)
    pars["theta"], pars["phi"] = theta, phi
    if sym == "abc":
        pars["psi"] = psi
    else:
        psi = 0.0
    njit = sc.get("njit", 0)
    jnames = ["theta", "phi"] + (["psi"] if sym == "abc" else [])
    rng.shuffle(jnames)
    for nm in jnames[:njit]:
        pars[nm + "_pd"] = rng.choice([5.0, 15.0, 30.0, 50.0, 70.0])      # wide meshes reach beyond 90 degrees
        pars[nm + "_pd_n"] = rng.choice([1, 2, 3, 4])        # one point: the jitter is zero, not the view angle
        pars[nm + "_pd_type"] = rng.choice(["gaussian", "rectangle", "uniform"])
        pars[nm + "_pd_nsigma"] = rng.choice([2.0, 3.0])
    if sc.get("directed") == "zero-view":
        # jitter about a view angle that is exactly zero (the default of most models)
        nm = rng.choice(["theta", "phi"])
        pars[nm] = 0.0
        theta, phi = pars["theta"], pars["phi"]
        pars.update({nm + "_pd": 20.0, nm + "_pd_n": 3, nm + "_pd_type": "gaussian", nm + "_pd_nsigma": 2.0})
    elif sc.get("directed") == "near-limit":
        # a view angle close to the end of the parameter's range: the jitter is about zero all the same
        phi = pars["phi"] = rng.choice([330.0, -330.0])
        pars.update({"phi_pd": 15.0, "phi_pd_n": 4, "phi_pd_type": "gaussian", "phi_pd_nsigma": 3.0})
    # combined size + angle dispersity: one size parameter with more points than any angle (so that it is the
    # innermost loop of the kernel), low-weight end points, and a cutoff that removes some mesh points
    sizes = sorted(p.name for p in P.call_parameters if p.polydisperse and p.type == "volume")
    szname = ""
    if sc.get("size") and sizes:
        szname = rng.choice(sizes)
        pars[szname + "_pd"] = rng.choice([0.05, 0.1])
        pars[szname + "_pd_n"] = rng.choice([6, 8])
        pars[szname + "_pd_type"] = "gaussian"
        pars[szname + "_pd_nsigma"] = 3.0
    cutoff = rng.choice([0.0, 1e-5, 1e-3, 1e-2]) if sc.get("cutoff") else 0.0
    qx, qy = np.array(QX), np.array(QY)
    if sc.get("onaxis"):
        # the particle's axis lies in the detector plane and some detector points lie exactly along it (both
        # directions): |q|^2 - qc^2 is then a rounding residue of either sign
        theta = pars["theta"] = 90.0
        phi = pars["phi"] = rng.choice([5.0, 33.0, 45.0, 70.0, 128.0, -17.0])
        for nm in ("theta", "phi", "psi"):
            for sfx in ("_pd", "_pd_n", "_pd_type", "_pd_nsigma"):
                pars.pop(nm + sfx, None)
        ax = np.array([cos(radians(phi)), sin(radians(phi))])
        ts = np.array([0.03125, -0.03125, 0.0625, -0.09375, 0.046875, -0.0546875, 0.0703125, -0.015625])
        qx, qy = np.concatenate([ts * ax[0], qx[:2]]), np.concatenate([ts * ax[1], qy[:2]])
    kernel = model.make_kernel([qx, qy])
    ev = {"tid": sc["tid"], "ev": "Orient", "model": info.id, "sym": sym, "raised": "", "cutoff": fstr(cutoff),
          "theta": fstr(theta), "phi": fstr(phi), "psi": fstr(psi), "qx": fvec(qx), "qy": fvec(qy), "pars": pars}
    I2d = call_kernel(kernel, dict(pars), cutoff=cutoff)
    ev["I2d"] = fvec(I2d)
    mono = {k: v for k, v in pars.items() if "_pd" not in k}
    nq = kernel.q_input.nq
    nmodes = len(info.radius_effective_modes or [])
    # orientation jitter leaves every size as it is: the effective radius and the volumes reported with jitter
    # (angles only) must be those of the monodisperse particle
    ermode = rng.randint(1, nmodes) if nmodes else 0
    angles_only = {k: v for k, v in pars.items() if not k.startswith(szname + "_pd")} if szname else dict(pars)
    _, _, rj, vj, _ = call_Fq(kernel, dict(angles_only, radius_effective_mode=ermode), cutoff=0.0)
    _, _, rm, vm, _ = call_Fq(kernel, dict(mono, radius_effective_mode=ermode), cutoff=0.0)
    ev["ermode"], ev["reffj"], ev["reffm"], ev["vj"], ev["vm"] = ermode, fstr(rj), fstr(rm), fstr(vj), fstr(vm)
    # the model's own validity verdict at these (monodisperse) parameters: total weight of the mono call
    ev["valid"] = bool(float(kernel.result[nq]) != 0.0)
    mesh = get_mesh(info, dict(pars), dim="2d")
    byname = {p.name: m for p, m in zip(P.call_parameters, mesh)}
    if szname:
        _, sd, sw = byname[szname]
        sd, sw = list(sd), list(sw)
    else:
        sd, sw = [None], [1.0]

    def jit(nm):
        if nm in byname:
            v, d, w = byname[nm]
            return {"v": fvec(d), "w": fvec(w)}, list(d), list(w)
        return {"v": ["0.0"], "w": ["1.0"]}, [0.0], [1.0]
    ev["jreq"] = {nm: {"n": int(pars.get(nm + "_pd_n", 0)), "width": fstr(pars.get(nm + "_pd", 0.0)),
                       "type": str(pars.get(nm + "_pd_type", "gaussian")), "nsigma": fstr(pars.get(nm + "_pd_nsigma", 3.0))}
                  for nm in ("theta", "phi", "psi")}
    ev["jt"], dt, _ = jit("theta")
    ev["jp"], dp, _ = jit("phi")
    ev["js"], ds, _ = jit("psi")
    szV, szvalid, szpts = [], [], []
    for sval in sd:
        pairs = [((sval if p.name == szname else m[0]), [(sval if p.name == szname else m[0])], [1.0])
                 for p, m in zip(P.call_parameters, mesh)]
        _, values, _ = make_kernel_args(kernel, pairs)
        vals = np.ascontiguousarray(values[2:2 + P.npars], dtype="d")
        if szname:
            _, _, _, vs, _ = call_Fq(kernel, dict(mono, radius_effective_mode=0, **{szname: sval}))
            szV.append(fstr(vs))
            szvalid.append(bool(float(kernel.result[nq]) != 0.0))
        else:
            szV.append(fstr(vm))
            szvalid.append(True)
        pts = []
        for a in dt:
            for b in dp:
                for c in ds:
                    R = Rz(phi) @ Ry(theta) @ Rz(psi) @ Rx(b) @ Ry(a) @ Rz(c)
                    row = []
                    for j in range(len(qx)):
                        qa, qb, qc = R.T @ np.array([qx[j], qy[j], 0.0])
                        row.append({"q": fvec([qa, qb, qc]), "F2": fstr(fn(qa, qb, qc, vals.ctypes.data))})
                    pts.append(row)
        szpts.append(pts)
    ev["V"] = fstr(vm)
    ev["sz"] = {"name": szname, "w": fvec(sw), "V": szV, "valid": szvalid}
    ev["pts"] = szpts
    kernel.release()
    emit(ev)


def same(tid, law, a, b, tol, model, extra=None):
    emit(dict({"tid": tid, "ev": "Same", "law": law, "a": fvec(a), "b": fvec(b), "tol": tol, "model": model,
               "raised": ""}, **(extra or {})))


def run_sym(sc, workdir):
    from sasmodels.direct_model import call_kernel
    rng = random.Random(sc["seed"])
    model = load(sc["model"], workdir)
    info = model.info
    P = info.parameters
    pars = base_pars(info, rng)
    oriented = any(p.type == "orientation" for p in P.kernel_parameters)
    qx, qy = np.array(QX), np.array(QY)
    law = sc["law"]
    if oriented:
        for p in P.kernel_parameters:
            if p.type == "orientation":
                pars[p.name] = rng.choice(ANGLES)
        if rng.random() < 0.5:
            pars["theta_pd"], pars["theta_pd_n"] = 10.0, 3
    if law == "detector-rotation" and oriented:
        al = rng.choice([30.0, 90.0, -45.0, 143.13010235415598])
        c, s = cos(radians(al)), sin(radians(al))
        k1 = model.make_kernel([qx, qy])
        k2 = model.make_kernel([c * qx - s * qy, s * qx + c * qy])
        a = call_kernel(k1, dict(pars))
        b = call_kernel(k2, dict(pars, phi=pars["phi"] + al))
        same(sc["tid"], law, a, b, "1e-9", info.id, {"alpha": al})
    elif law == "inversion":
        k1 = model.make_kernel([qx, qy])
        k2 = model.make_kernel([-qx, -qy])
        same(sc["tid"], law, call_kernel(k1, dict(pars)), call_kernel(k2, dict(pars)), "1e-12", info.id)
    elif law == "one-d-ignores-orientation" and oriented:
        q = np.array([0.01, 0.05, 0.2])
        k1 = model.make_kernel([q])
        plain = {k: v for k, v in pars.items() if k not in ("theta", "phi", "psi") and not k.startswith(("theta_", "phi_", "psi_"))}
        withor = dict(pars)
        for nm in ("theta", "phi", "psi"):
            if nm in P:
                withor[nm] = rng.choice(ANGLES)
                withor[nm + "_pd"] = 20.0
                withor[nm + "_pd_n"] = 4
        same(sc["tid"], law, call_kernel(k1, plain), call_kernel(k1, withor), "0.0", info.id)
    elif law == "modulus-only" and not oriented:
        # same |q| in different directions: (3,4,5)/64 triangles are exact in binary
        ax, ay = np.array([0.046875, 0.0, -0.078125]), np.array([0.0625, 0.078125, 0.0])
        bx, by = np.array([-0.0625, 0.078125, 0.046875]), np.array([0.046875, 0.0, -0.0625])
        k1, k2 = model.make_kernel([ax, ay]), model.make_kernel([bx, by])
        same(sc["tid"], law, call_kernel(k1, dict(pars)), call_kernel(k2, dict(pars)), "1e-13", info.id)
    else:
        same(sc["tid"], "not-applicable", [0.0], [0.0], "0.0", info.id)


def main():
    req = json.load(sys.stdin)
    os.makedirs(req["workdir"], exist_ok=True)
    for sc in req["scenarios"]:
        try:
            if sc["kind"] == "orient":
                run_orient(sc, req["workdir"])
            else:
                run_sym(sc, req["workdir"])
        except Exception as exc:
            emit({"tid": sc["tid"], "ev": "HarnessError", "error": repr(exc), "tb": traceback.format_exc()[-1800:], "model": str(sc["model"])})


if __name__ == "__main__":
    main()
