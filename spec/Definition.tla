----------------------------- MODULE Definition -----------------------------
(***************************************************************************)
(* Well-formedness of a model definition (C09, second sentence):           *)
(* modelinfo.parse_parameter, ParameterTable.check_angles /                *)
(* check_duplicates / _set_vector_lengths and generate.make_source's 2-D   *)
(* consistency test, transcribed as one predicate.  A definition is a      *)
(* parameter table (rows [name, kind, lo, hi, dflt, ctl]) and the 2-D      *)
(* function the embedded C defines ("none" | "Iqac" | "Iqabc").            *)
(*                                                                         *)
(*   Load     WellFormed(def)  => the definition is loaded and built       *)
(*   Reject   ~WellFormed(def) => loading or building raises               *)
(*                                                                         *)
(* TLC enumerates well-formed base definitions and every single-fault      *)
(* mutation of them, checks that each fault is seen by the predicate, and  *)
(* exports all of them for replay (DefinitionTrace).                       *)
(***************************************************************************)
EXTENDS Naturals, Sequences, FiniteSets, TLC, Json

KnownKinds == {"", "volume", "sld", "orientation", "magnetic"}
Angles == {"theta", "phi", "psi"}

Pos(rows, nm) == IF \E k \in 1..Len(rows) : rows[k].name = nm
                 THEN CHOOSE k \in 1..Len(rows) : rows[k].name = nm ELSE 0

RowOK(r) == /\ r.lo < r.hi                      \* "require lower limit < upper limit"
            /\ r.dflt >= r.lo /\ r.dflt <= r.hi  \* "default value not in range"
            /\ r.kind \in KnownKinds             \* "unexpected type"
NoDuplicates(rows) == \A a, b \in 1..Len(rows) : a # b => rows[a].name # rows[b].name
\* a vector parameter name[ctl] takes its length from the integral limits of ctl, within [0, 20]
ControlsOK(rows) == \A k \in 1..Len(rows) : rows[k].ctl # "" =>
                        LET c == Pos(rows, rows[k].ctl) IN c > 0 /\ rows[c].lo >= 0 /\ rows[c].hi <= 20
AnglesOK(rows) ==
    LET th == Pos(rows, "theta")  ph == Pos(rows, "phi")  ps == Pos(rows, "psi")  n == Len(rows) IN
    /\ \A k \in 1..n : rows[k].name \in Angles => rows[k].kind = "orientation"
    /\ \A k \in 1..n : rows[k].kind = "orientation" => rows[k].name \in Angles
    /\ IF th > 0 /\ ph > 0
       THEN /\ ph = th + 1
            /\ (ps > 0 => ps = ph + 1)
            /\ (ph = n \/ ps = n)
       ELSE th = 0 /\ ph = 0 /\ ps = 0
Oriented(rows) == \E k \in 1..Len(rows) : rows[k].kind = "orientation"
Asymmetric(rows) == Pos(rows, "psi") > 0
Fn2dOK(d) == CASE d.fn2d = "Iqabc" -> Oriented(d.rows) /\ Asymmetric(d.rows)
               [] d.fn2d = "Iqac"  -> Oriented(d.rows) /\ ~Asymmetric(d.rows)
               [] OTHER            -> ~Oriented(d.rows)
WellFormed(d) == /\ \A k \in 1..Len(d.rows) : RowOK(d.rows[k])
                 /\ NoDuplicates(d.rows)
                 /\ ControlsOK(d.rows)
                 /\ AnglesOK(d.rows)
                 /\ Fn2dOK(d)

\* ---- enumeration
Row(nm, kind) == [name |-> nm, kind |-> kind, lo |-> 0, hi |-> 10, dflt |-> 2, ctl |-> ""]
Names == <<"a", "b", "c">>
PlainTables == UNION {{[k \in 1..n |-> Row(Names[k], ks[k])] : ks \in [1..n -> {"", "volume", "sld"}]} : n \in 1..2}
    \cup {<<Row("a", "volume"), Row("n", ""), [Row("t", "volume") EXCEPT !.ctl = "n"]>>}
OrientBlock(o) == CASE o = "ac"  -> <<Row("theta", "orientation"), Row("phi", "orientation")>>
                    [] o = "abc" -> <<Row("theta", "orientation"), Row("phi", "orientation"), Row("psi", "orientation")>>
                    [] OTHER     -> <<>>
Fn(o) == CASE o = "ac" -> "Iqac" [] o = "abc" -> "Iqabc" [] OTHER -> "none"
Base == {[rows |-> t \o OrientBlock(o), fn2d |-> Fn(o), fault |-> "none"] : t \in PlainTables, o \in {"", "ac", "abc"}}

Swap(s, a, b) == [s EXCEPT ![a] = s[b], ![b] = s[a]]
Faults == {"BadLimits", "EqualLimits", "DefaultBelow", "DefaultAbove", "UnknownType", "DupName",
           "ThetaNotOrientation", "PhiBeforeTheta", "OrientationNotLast", "OnlyTheta",
           "OrientationOtherName", "IqacWithPsi", "IqabcWithoutPsi", "Iq2dUnoriented",
           "OrientedWithoutIq2d", "ControlOutOfRange", "ControlNegative"}
\* the mutated definition, or the base itself when the fault does not apply to it
Mutate(d, f) ==
    LET r == d.rows  n == Len(r)  th == Pos(r, "theta")  ph == Pos(r, "phi")  ps == Pos(r, "psi")
        c == IF \E k \in 1..n : r[k].ctl # "" THEN Pos(r, "n") ELSE 0
        D(rows2) == [d EXCEPT !.rows = rows2, !.fault = f]
    IN CASE f = "BadLimits"    -> D([r EXCEPT ![1].lo = 20, ![1].dflt = 15])
         [] f = "EqualLimits"  -> D([r EXCEPT ![1].lo = 10, ![1].dflt = 10])
         [] f = "DefaultBelow" -> D([r EXCEPT ![1].lo = 3])
         [] f = "DefaultAbove" -> D([r EXCEPT ![1].hi = 1])
         [] f = "UnknownType"  -> D([r EXCEPT ![1].kind = "bogus"])
         [] f = "DupName"      -> IF n >= 2 /\ r[2].ctl = "" /\ r[2].name \notin Angles THEN D([r EXCEPT ![2].name = r[1].name]) ELSE d
         [] f = "ThetaNotOrientation" -> IF th > 0 THEN D([r EXCEPT ![th].kind = "volume"]) ELSE d
         [] f = "PhiBeforeTheta"      -> IF th > 0 THEN D(Swap(r, th, ph)) ELSE d
         [] f = "OrientationNotLast"  -> IF th > 1 THEN D(Swap(Swap(r, th - 1, th), th, ph)) ELSE d
         [] f = "OnlyTheta"           -> IF th > 0 /\ ps = 0 THEN D(SubSeq(r, 1, th)) ELSE d
         [] f = "OrientationOtherName" -> IF th = 0 THEN D([r EXCEPT ![1].kind = "orientation"]) ELSE d
         [] f = "IqacWithPsi"     -> IF ps > 0 THEN [d EXCEPT !.fn2d = "Iqac", !.fault = f] ELSE d
         [] f = "IqabcWithoutPsi" -> IF th > 0 /\ ps = 0 THEN [d EXCEPT !.fn2d = "Iqabc", !.fault = f] ELSE d
         [] f = "Iq2dUnoriented"  -> IF th = 0 THEN [d EXCEPT !.fn2d = "Iqac", !.fault = f] ELSE d
         [] f = "OrientedWithoutIq2d" -> IF th > 0 THEN [d EXCEPT !.fn2d = "none", !.fault = f] ELSE d
         [] f = "ControlOutOfRange" -> IF c > 0 THEN D([r EXCEPT ![c].hi = 25]) ELSE d
         [] f = "ControlNegative"   -> IF c > 0 THEN D([r EXCEPT ![c].lo = 0 - 0, ![c].hi = 30, ![c].dflt = 2]) ELSE d
         [] OTHER -> d
AllDefs == Base \cup {Mutate(d, f) : d \in Base, f \in Faults}

VARIABLES def, status
Init == def \in AllDefs /\ status = "new"
Load == status = "new" /\ WellFormed(def) /\ status' = "loaded" /\ UNCHANGED def
Reject == status = "new" /\ ~WellFormed(def) /\ status' = "rejected" /\ UNCHANGED def
Next == Load \/ Reject
Spec == Init /\ [][Next]_<<def, status>>

\* every base definition is accepted, every applied fault is seen by the predicate
BasesLoad == def.fault = "none" => status # "rejected"
FaultsRejected == def.fault # "none" => status # "loaded"
NeverSilent == status = "loaded" => WellFormed(def)

ASSUME PrintT(<<"DEFS", ToJson([defs |-> AllDefs])>>)

\* the rule for pure-Python definitions: make_source's 2-D consistency test does not apply
\* and oriented pure-Python definitions are refused outright ("oriented python models not supported")
WellFormedPy(d) == /\ \A k \in 1..Len(d.rows) : RowOK(d.rows[k])
                   /\ NoDuplicates(d.rows) /\ ControlsOK(d.rows) /\ AnglesOK(d.rows)
                   /\ ~Oriented(d.rows)
=============================================================================
