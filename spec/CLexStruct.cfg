\* all strings of length <= MaxLen over AlphabetStruct
CONSTANTS
    Alphabet <- AlphabetStruct
    MaxLen = 4
    TagHexFloats = TRUE
INIT Init
NEXT Next
INVARIANT TypeOK
INVARIANT StateIsRun
INVARIANT Relex
INVARIANT ConvertLaws
INVARIANT AllFloatsTagged
INVARIANT Export
CHECK_DEADLOCK FALSE
