\* vacuity control: the wrong reading "absolute-keeps-centre" MUST violate an invariant
SPECIFICATION Spec
CONSTANTS
  Variant = "absolute-keeps-centre"
  Mode = "check"
INVARIANT TypeOK
INVARIANT DefinedWhereDocumented
INVARIANT WellFormed
INVARIANT StrictlyIncreasing
INVARIANT InsideLimits
INVARIANT InsideSupport
INVARIANT FiniteNonNegative
INVARIANT SumsToOne
INVARIANT Proportional
INVARIANT DegenerateIsCentre
INVARIANT EveryInLimitPointPresent
INVARIANT OnlyGridPoints
INVARIANT AbsoluteCentredOnZero
INVARIANT RelativeWidthScalesWithCentre
INVARIANT WidthMeaning
CHECK_DEADLOCK FALSE
