----------------------------- MODULE Resolution -----------------------------
(***************************************************************************)
(* C03 - resolution smearing is a normalised non-negative average with     *)
(* full support.  Design-level model of sasmodels/resolution.py            *)
(*   Pinhole1D / Slit1D constructors, pinhole_extend_q, slit_extend_q,     *)
(*   linear_extrapolation, geometric_extrapolation, the MINIMUM_ABSOLUTE_Q *)
(*   cutoff, bin_edges, the pinhole window [q-2.5s, q+3s] by point         *)
(*   membership, the slit u-bins (_q_perp_weights), the width-only         *)
(*   membership rule, the (2*NL+1)-point rule for length+width and the     *)
(*   normalisation of every row of the weight matrix                       *)
(* over an integer lattice: a data point k is the integer 100*k, a width w *)
(* is 100*w, so 2.5*sigma, the cutoff 0.02*q_min and all mid points are    *)
(* integers.  The only irrational quantity, the upper end                  *)
(* sqrt((q+W)^2+L^2) of the slit extension, is carried by its square.      *)
(*                                                                         *)
(* Abstraction.  The *number and placement* of the extrapolated points     *)
(* inside (q_min, q[0]) and (q[-1], q_max) is exact for the linear rule    *)
(* (up to flooring onto the lattice) and is chosen non-deterministically   *)
(* (1..MaxGeo evenly spaced points) for the geometric rule, whose points   *)
(* q_min*r^k are not representable; the end points, which are all the      *)
(* invariants depend on, are exact.  TLC explores every choice.            *)
(*                                                                         *)
(* The constants SwapArgs, GeoZero, Normalise, SingleBin select the design *)
(* (FALSE, "leq", TRUE, TRUE: what the property requires) or the code as   *)
(* written at the time of writing (TRUE, "lt", FALSE, FALSE), which must   *)
(* violate the invariants (vacuity controls, one per defect).              *)
(***************************************************************************)
EXTENDS Integers, Sequences, FiniteSets, TLC, Json

CONSTANTS
    QMax,        \* data points are subsets of 1..QMax
    MaxPts,      \* 1..MaxPts points
    Widths,      \* widths (sigma, L, W) for grids of <= 3 points
    Widths4,     \* widths for grids of 4 points (bounds the state space)
    PairW,       \* widths used for per-point (L, W) pairs
    MaxGeo,      \* number of geometric extension points explored: 1..MaxGeo
    NL,          \* model of n_length (30 in the code): 2*NL+1 steps over the width; NL divides 100
    SwapArgs,    \* TRUE: slit_extend_q receives (width, length) exchanged, as written
    GeoZero,     \* "leq": q_min <= 0 is replaced (docstring); "lt": only q_min < 0 (as written)
    Normalise,   \* TRUE: every slit row is divided by its sum (pinhole rows always are)
    SingleBin    \* TRUE: a single calculation point is given a bin; FALSE: bin_edges raises

VARIABLES sc, obj, phase
vars == <<sc, obj, phase>>

Abs(x) == IF x < 0 THEN -x ELSE x
Min2(a, b) == IF a < b THEN a ELSE b
Max2(a, b) == IF a > b THEN a ELSE b
CeilDiv(a, b) == (a + b - 1) \div b
RECURSIVE SMin(_, _), SMax(_, _)
SMin(s, k) == IF k = Len(s) THEN s[k] ELSE Min2(s[k], SMin(s, k + 1))
SMax(s, k) == IF k = Len(s) THEN s[k] ELSE Max2(s[k], SMax(s, k + 1))
SeqMin(s) == SMin(s, 1)
SeqMax(s) == SMax(s, 1)
Last(s) == s[Len(s)]
StrictlyIncreasing(s) == \A j \in 1..(Len(s) - 1) : s[j] < s[j + 1]

----------------------------------------------------------------------------
(* Scenarios *)
RECURSIVE SetToSortedSeq(_)
SetToSortedSeq(S) == IF S = {} THEN <<>>
                     ELSE LET m == CHOOSE x \in S : \A y \in S : x <= y
                          IN <<m>> \o SetToSortedSeq(S \ {m})
Grids == {SetToSortedSeq({100 * k : k \in S}) :
            S \in {T \in SUBSET (1..QMax) : Cardinality(T) \in 1..MaxPts}}
WFor(n) == IF n >= 4 THEN Widths4 ELSE Widths
Zeros(n) == [j \in 1..n |-> 0]
Vecs(n, W) == [1..n -> W]

\* q_calc source: "default" (extension algorithms; geo = number of geometric points) or a
\* user-supplied grid = the data points plus extra points (possibly <= 0, possibly below the
\* cutoff): the code's own precondition ("assumes that q is a subset of q_calc")
Sources(s) == (IF s.kind = "slit" THEN {[src |-> "default", geo |-> c] : c \in 1..MaxGeo}
               ELSE {[src |-> "default", geo |-> 1]})
              \cup {[src |-> "supplied", geo |-> v] : v \in 1..4}
Extras(s, v) == LET q1 == s.q[1]
                    qn == Last(s.q)
                IN CASE v = 1 -> {}
                     [] v = 2 -> {0, 1, q1 - 50, qn + 100}
                     [] v = 3 -> {-q1, q1 \div 50, qn + 50, qn + 800}
                     [] v = 4 -> {-(q1 \div 50) + 1, q1 + 50, qn + 2400}

----------------------------------------------------------------------------
(* Extension algorithms *)
N(s) == Len(s.q)

\* linear_extrapolation: exact point count, positions floored onto the lattice
LinLow(q, qmin) ==
    IF qmin < q[1]
    THEN LET delta == IF Len(q) > 1 THEN q[2] - q[1] ELSE 0
             nlow == IF delta > 0 THEN CeilDiv(q[1] - qmin, delta) ELSE 15
         IN [k \in 1..nlow |-> qmin + ((k - 1) * (q[1] - qmin)) \div nlow]
    ELSE <<>>
LinHigh(q, qmax) ==
    LET n == Len(q) IN
    IF qmax > q[n]
    THEN LET delta == IF n > 1 THEN q[n] - q[n - 1] ELSE 0
             nhigh == IF delta > 0 THEN CeilDiv(qmax - q[n], delta) ELSE 15
         IN [k \in 1..nhigh |-> q[n] + (k * (qmax - q[n])) \div nhigh]
    ELSE <<>>

PinLo(s, i) == s.q[i] - 250 * s.a[i]
PinHi(s, i) == s.q[i] + 300 * s.a[i]

\* the two arguments of slit_extend_q(q, width, length): "length" is added in the plane,
\* "width" in quadrature.  The weights (slit_resolution) use W in the plane and L in quadrature.
ExtLin(s, i) == 100 * (IF SwapArgs THEN s.a[i] ELSE s.b[i])
ExtPerp(s, i) == 100 * (IF SwapArgs THEN s.b[i] ELSE s.a[i])
SlitQmin(s) == SeqMin([i \in 1..N(s) |-> s.q[i] - ExtLin(s, i)])
SlitTopSq(s) == SeqMax([i \in 1..N(s) |-> (s.q[i] + ExtLin(s, i)) * (s.q[i] + ExtLin(s, i))
                                          + ExtPerp(s, i) * ExtPerp(s, i)])
SlitTopLow(s) == SeqMax([i \in 1..N(s) |-> s.q[i] + ExtLin(s, i)])   \* integer lower bound of the top

Failed(why) == [ok |-> FALSE, why |-> why, xs |-> <<>>, un |-> <<>>, top |-> [has |-> FALSE, sq |-> 0],
                cut |-> 0]

\* geometric_extrapolation, low side: q_min <= 0 must be replaced by data_min*MINIMUM_ABSOLUTE_Q,
\* otherwise log(q_min) is not finite and the constructor raises (OverflowError)
GeoQmin(s) == LET qm == SlitQmin(s) IN
              IF (GeoZero = "leq" /\ qm <= 0) \/ (GeoZero = "lt" /\ qm < 0) THEN s.q[1] \div 50 ELSE qm
GeoLow(s, c) == LET qm == GeoQmin(s) IN
                IF SlitQmin(s) < s.q[1]
                THEN [k \in 1..c |-> qm + ((k - 1) * (s.q[1] - qm)) \div c]
                ELSE <<>>
GeoHighInts(s, c) == LET qn == Last(s.q)
                         t == SlitTopLow(s)
                     IN IF t > qn THEN [k \in 1..c |-> qn + (k * (t - qn)) \div c] ELSE <<>>

Cut(s) == s.q[1] \div 50                 \* MINIMUM_ABSOLUTE_Q * min(q)
Retain(xs, cut) == SelectSeq(xs, LAMBDA x : Abs(x) >= cut)

Build(s, source) ==
    IF source.src = "supplied"
    THEN LET un == SetToSortedSeq({s.q[i] : i \in 1..N(s)} \cup Extras(s, source.geo))
         IN [ok |-> TRUE, why |-> "", un |-> un, xs |-> Retain(un, Cut(s)),
             top |-> [has |-> FALSE, sq |-> 0], cut |-> Cut(s)]
    ELSE IF s.kind = "pinhole"
    THEN LET qmin == SeqMin([i \in 1..N(s) |-> PinLo(s, i)])
             qmax == SeqMax([i \in 1..N(s) |-> PinHi(s, i)])
             un == LinLow(s.q, qmin) \o s.q \o LinHigh(s.q, qmax)
         IN [ok |-> TRUE, why |-> "", un |-> un, xs |-> Retain(un, Cut(s)),
             top |-> [has |-> FALSE, sq |-> 0], cut |-> Cut(s)]
    ELSE IF SlitQmin(s) < s.q[1] /\ GeoQmin(s) <= 0
    THEN Failed("geometric_extrapolation: log of q_min <= 0")
    ELSE LET un == GeoLow(s, source.geo) \o s.q \o GeoHighInts(s, source.geo)
             tsq == SlitTopSq(s)
         IN [ok |-> TRUE, why |-> "", un |-> un, xs |-> Retain(un, Cut(s)),
             top |-> [has |-> tsq > Last(un) * Last(un), sq |-> tsq], cut |-> Cut(s)]

\* bin_edges needs two points (or the single-bin convention)
NPoints(o) == Len(o.xs) + (IF o.top.has THEN 1 ELSE 0)
Finish(o) == IF ~o.ok THEN o
             ELSE IF NPoints(o) = 0 THEN Failed("no calculation point left")
             ELSE IF NPoints(o) = 1 /\ ~SingleBin THEN Failed("bin_edges: expected an increasing set")
             ELSE o

----------------------------------------------------------------------------
(* Bin edges (doubled, so that mid points are integers) of the integer points *)
E2(xs) == LET n == Len(xs) IN
          IF n = 1 THEN <<xs[1], 3 * xs[1]>>
          ELSE [j \in 1..(n + 1) |-> IF j = 1 THEN 3 * xs[1] - xs[2]
                                     ELSE IF j = n + 1 THEN 3 * xs[n] - xs[n - 1]
                                     ELSE xs[j - 1] + xs[j]]
\* first edge <= t   (with a symbolic top and one integer point the edge lies below that point)
EFirstLeq(o, t) == IF Len(o.xs) >= 2 THEN 3 * o.xs[1] - o.xs[2] <= 2 * t ELSE o.xs[1] <= t
\* last edge >= sqrt(S)   (with a symbolic top the last edge lies above the top)
ELastGeqSq(o, S) == IF o.top.has THEN o.top.sq >= S
                    ELSE LET e == Last(E2(o.xs)) IN e > 0 /\ e * e >= 4 * S

----------------------------------------------------------------------------
(* Rows of the weight matrix *)
La(s, i) == 100 * s.a[i]
Wb(s, i) == 100 * s.b[i]
ZeroWidth(s, i) == s.a[i] = 0 /\ s.b[i] = 0

\* pinhole window by point membership; sigma = 0 stands for MINIMUM_RESOLUTION (only q itself)
PinMembers(s, o, i) == {j \in 1..Len(o.xs) : PinLo(s, i) <= o.xs[j] /\ o.xs[j] <= PinHi(s, i)}

\* points of the in-plane rule  q + k*W/NL, k = -NL..NL
Shifted(s, i) == {s.q[i] + (k * Wb(s, i)) \div NL : k \in (-NL)..NL}
\* u-bins of _q_perp_weights for centre t: bins clipped to [|t|, sqrt(t^2+L^2)]; the row
\* telescopes to (sqrt(u_last)-sqrt(u_first))/L
PerpExact(s, o, i, t) == EFirstLeq(o, Abs(t)) /\ ELastGeqSq(o, t * t + La(s, i) * La(s, i))
PerpMass(s, o, i, t) ==   \* some bin overlaps the interval with positive length
    /\ ELastGeqSq(o, t * t + 1)                     \* last edge above |t|
    /\ IF Len(o.xs) >= 2 THEN (3 * o.xs[1] - o.xs[2]) * Abs(3 * o.xs[1] - o.xs[2]) < 4 * (t * t + La(s, i) * La(s, i))
                         ELSE o.xs[1] * o.xs[1] < t * t + La(s, i) * La(s, i)

\* width-only membership rule:  in_x + abs_x
WMembers(s, o, i) == {j \in 1..Len(o.xs) : s.q[i] - Wb(s, i) <= o.xs[j] /\ o.xs[j] <= s.q[i] + Wb(s, i)}
WReflected(s, o, i) == IF s.q[i] < Wb(s, i) THEN {j \in 1..Len(o.xs) : o.xs[j] < Abs(s.q[i] - Wb(s, i))} ELSE {}
RECURSIVE SumSet(_, _)
SumSet(f, S) == IF S = {} THEN 0 ELSE LET j == CHOOSE x \in S : TRUE IN f[j] + SumSet(f, S \ {j})
WExact(s, o, i) ==
    LET n == Len(o.xs)
        e == E2(o.xs)
        bw == [j \in 1..n |-> e[j + 1] - e[j]]
    IN /\ ~(o.top.has /\ (n \in WMembers(s, o, i) \/ o.top.sq <= (s.q[i] + Wb(s, i)) * (s.q[i] + Wb(s, i))))
       /\ SumSet(bw, WMembers(s, o, i)) + SumSet(bw, WReflected(s, o, i)) = 4 * Wb(s, i)

RowMass(s, o, i) ==
    IF s.kind = "pinhole" THEN PinMembers(s, o, i) # {}
    ELSE IF ZeroWidth(s, i) THEN \E j \in 1..Len(o.xs) : o.xs[j] = s.q[i]
    ELSE IF s.b[i] = 0 THEN PerpMass(s, o, i, s.q[i])
    ELSE IF s.a[i] = 0 THEN WMembers(s, o, i) # {}
    ELSE \E t \in Shifted(s, i) : PerpMass(s, o, i, t)

\* the row sums to one: by explicit normalisation, or because the quadrature weights are exact
RowSumsToOne(s, o, i) ==
    IF s.kind = "pinhole" \/ Normalise THEN RowMass(s, o, i)
    ELSE IF ZeroWidth(s, i) THEN Cardinality({j \in 1..Len(o.xs) : o.xs[j] = s.q[i]}) = 1
    ELSE IF s.b[i] = 0 THEN PerpExact(s, o, i, s.q[i])
    ELSE IF s.a[i] = 0 THEN WExact(s, o, i)
    ELSE \A t \in Shifted(s, i) : PerpExact(s, o, i, t)

\* the row of a zero-width point is the indicator of the point itself
ZeroRowIsIdentity(s, o, i) ==
    IF s.kind = "pinhole" THEN PinMembers(s, o, i) = {j \in 1..Len(o.xs) : o.xs[j] = s.q[i]}
                               /\ Cardinality(PinMembers(s, o, i)) = 1
    ELSE Cardinality({j \in 1..Len(o.xs) : o.xs[j] = s.q[i]}) = 1

\* the window of point i as the *weights* use it
WinLo(s, i) == IF s.kind = "pinhole" THEN PinLo(s, i) ELSE s.q[i] - Wb(s, i)
WinHiSq(s, i) == IF s.kind = "pinhole" THEN PinHi(s, i) * PinHi(s, i)
                 ELSE (s.q[i] + Wb(s, i)) * (s.q[i] + Wb(s, i)) + La(s, i) * La(s, i)

----------------------------------------------------------------------------
(* Behaviour: pick a scenario, construct, apply *)
\* Init picks the data grid and the class of the scenario; Construct picks the widths and the
\* q_calc source and builds the object (so that TLC's workers share the enumeration)
Classes == {"pinhole", "slitL", "slitW", "slitLW"}
ShapesOf(g, c) ==
    CASE c = "pinhole" -> {[kind |-> "pinhole", q |-> g, a |-> v, b |-> Zeros(Len(g))] : v \in Vecs(Len(g), WFor(Len(g)))}
      [] c = "slitL" -> {[kind |-> "slit", q |-> g, a |-> v, b |-> Zeros(Len(g))] : v \in Vecs(Len(g), WFor(Len(g)))}
      [] c = "slitW" -> {[kind |-> "slit", q |-> g, a |-> Zeros(Len(g)), b |-> v] : v \in Vecs(Len(g), WFor(Len(g)))}
      [] c = "slitLW" -> {[kind |-> "slit", q |-> g, a |-> [j \in 1..Len(g) |-> p[1]], b |-> [j \in 1..Len(g) |-> p[2]]] :
                             p \in (Widths \ {0}) \X (Widths \ {0})}
                         \cup (IF Len(g) <= 2
                               THEN {[kind |-> "slit", q |-> g, a |-> va, b |-> vb] :
                                       va \in Vecs(Len(g), PairW), vb \in Vecs(Len(g), PairW)}
                               ELSE {})
NoShape == [kind |-> "none", q |-> <<>>, a |-> <<>>, b |-> <<>>]
Init == /\ \E g \in Grids : \E c \in Classes :
              sc = [grid |-> g, class |-> c, shape |-> NoShape, source |-> [src |-> "none", geo |-> 0]]
        /\ obj = Failed("not built")
        /\ phase = "new"
Construct == /\ phase = "new"
             /\ \E s \in ShapesOf(sc.grid, sc.class) : \E r \in Sources(s) :
                    /\ sc' = [sc EXCEPT !.shape = s, !.source = r]
                    /\ obj' = Finish(Build(s, r))
             /\ phase' = "built"
Apply == /\ phase = "built"
         /\ phase' = "applied"
         /\ UNCHANGED <<sc, obj>>
Next == Construct \/ Apply
Spec == Init /\ [][Next]_vars

Built == phase # "new"
S == sc.shape
Rows == 1..N(S)

(* "any legal width/length combination constructs without error" *)
Constructs == Built => obj.ok
(* "requested only at strictly positive |q|": after the cutoff and abs() *)
QcalcPositive == (Built /\ obj.ok) => /\ \A j \in 1..Len(obj.xs) : Abs(obj.xs[j]) > 0
                                      /\ obj.cut > 0
                                      /\ \A j \in 1..Len(obj.un) : (Abs(obj.un[j]) >= obj.cut) =>
                                             \E k \in 1..Len(obj.xs) : obj.xs[k] = obj.un[j]
(* bins well ordered => every weight (a difference of a monotone function of the edges) is >= 0 *)
NonNegative == (Built /\ obj.ok) => /\ StrictlyIncreasing(obj.xs)
                                    /\ (obj.top.has /\ Len(obj.xs) > 0) => obj.top.sq > Last(obj.xs) * Last(obj.xs)
(* default q_calc: the unfiltered grid spans every point's window as the weights use it; the
   filter only removes |q| < cutoff (QcalcPositive), so the retained grid covers
   [lo_i, hi_i] /\ {|q| >= 0.02 q_min} up to the bins next to the hole *)
Covers == (Built /\ obj.ok /\ sc.source.src = "default") =>
            \A i \in Rows : /\ obj.un[1] <= WinLo(S, i) \/ (S.kind = "slit" /\ WinLo(S, i) <= obj.cut /\ obj.un[1] <= obj.cut)
                            /\ IF obj.top.has THEN obj.top.sq >= WinHiSq(S, i)
                               ELSE Last(obj.un) > 0 /\ Last(obj.un) * Last(obj.un) >= WinHiSq(S, i)
(* no 0/0 row, and every row is an average *)
RowsSumToOne == (Built /\ obj.ok) => \A i \in Rows : RowMass(S, obj, i) /\ RowSumsToOne(S, obj, i)
(* zero width reproduces the unsmeared value exactly *)
ZeroWidthIdentity == (Built /\ obj.ok) =>
            \A i \in Rows : (S.a[i] = 0 /\ S.b[i] = 0) => ZeroRowIsIdentity(S, obj, i)

----------------------------------------------------------------------------
(* Configuration lattice exported for replay on the implementation.  The harness draws
   concrete grids and widths (data) inside each cell. *)
Families == {"linear", "log", "irregular"}
Sizes == {"one", "two", "few", "some", "many", "huge"}        \* 1, 2, 3..9, 10..60, 61..200, 201..500
Mags == {"tiny", "small", "medium", "large"}                   \* width / q: 1e-3, 0.03, 0.3, 1..2
Pats == {"scalar", "perpoint", "mixedzero"}
Lattice1D == {[family |-> f, size |-> z, kind |-> k, pat |-> p, mag |-> m, acc |-> "-", src |-> r, via |-> v] :
                f \in Families, z \in Sizes, k \in {"pinhole", "slitL", "slitW", "slitLW"},
                p \in Pats, m \in Mags, r \in {"default", "supplied"}, v \in {"ctor", "direct"}}
Lattice0 == {[family |-> f, size |-> z, kind |-> k, pat |-> "scalar", mag |-> "zero", acc |-> "-", src |-> r, via |-> v] :
                f \in Families, z \in Sizes, k \in {"pinhole", "slitZero", "perfect"},
                r \in {"default", "supplied"}, v \in {"ctor", "direct"}}
Lattice2D == {[family |-> f, size |-> z, kind |-> "pinhole2d", pat |-> p, mag |-> m, acc |-> a, src |-> "default", via |-> v] :
                f \in {"mesh", "scattered"}, z \in {"one", "few", "some"}, p \in {"isotropic", "anisotropic", "mixedzero"},
                m \in {"small", "medium", "large"}, a \in {"low", "med", "high", "xhigh"}, v \in {"ctor", "direct"}}
Legal(c) == /\ ~(c.via = "direct" /\ c.src = "supplied")      \* DirectModel has no q_calc argument
            /\ ~(c.kind = "perfect" /\ c.src = "supplied")
            /\ ~(c.via = "direct" /\ c.size = "huge")
Lattice == {c \in Lattice1D \cup Lattice0 \cup Lattice2D : Legal(c)}
=============================================================================
