---------------------------- MODULE MixtureCore ----------------------------
(***************************************************************************)
(* Sum and product mixtures (mixture.py).                                  *)
(*  - Layout / PartSlice: the combined call vector of a flat mixture and   *)
(*    the slices _MixtureParts takes from it (tokens, design level).       *)
(*  - Accumulate: MixtureKernel.Iq's accumulation loop, as specified       *)
(*    (AccSpec) and as written before the repair (AccAsWritten), over an   *)
(*    abstract number domain supplied by the instantiating module.         *)
(* A part is a record [npars, nsld]; parameters are tokens <<k, j>>.       *)
(***************************************************************************)
EXTENDS Naturals, Sequences, FiniteSets

CONSTANT SliceVariant   \* "ok" | "sumScaleNotSkipped" (failing control)

RECURSIVE SumNpars(_, _), SumNsld(_, _)
SumNpars(parts, k) == IF k = 0 THEN 0 ELSE parts[k].npars + SumNpars(parts, k - 1)
SumNsld(parts, k) == IF k = 0 THEN 0 ELSE parts[k].nsld + SumNsld(parts, k - 1)

\* combined call vector: scale, background, then per part [X_scale if sum] + its parameters,
\* then (if any part has SLDs) the four spin-state values and three values per SLD, part by part
RECURSIVE PartBlock(_, _, _)
PartBlock(parts, op, k) ==
    IF k > Len(parts) THEN <<>>
    ELSE (IF op = "+" THEN <<<<"scale", k>>>> ELSE <<>>)
         \o [j \in 1..parts[k].npars |-> <<"par", k, j>>] \o PartBlock(parts, op, k + 1)
RECURSIVE MagBlock(_, _)
MagBlock(parts, k) ==
    IF k > Len(parts) THEN <<>>
    ELSE [j \in 1..(3 * parts[k].nsld) |-> <<"mag", k, j>>] \o MagBlock(parts, k + 1)
Spin == <<<<"spin", 1>>, <<"spin", 2>>, <<"spin", 3>>, <<"spin", 4>>>>
Layout(parts, op) ==
    <<"scale", "background">> \o PartBlock(parts, op, 1)
    \o (IF SumNsld(parts, Len(parts)) > 0 THEN Spin \o MagBlock(parts, 1) ELSE <<>>)
\* number of kernel parameters of the combined model (npars)
NPars(parts, op) == SumNpars(parts, Len(parts)) + (IF op = "+" THEN Len(parts) ELSE 0)

Cut(v, from, to) == SubSeq(v, from + 1, to)      \* v[from..to) 0-based
\* mixture.py _MixtureParts.__next__/_part_values transcribed
ParIndex(parts, op, k) == 2 + SumNpars(parts, k - 1) + (IF op = "+" /\ SliceVariant = "ok" THEN k - 1 ELSE 0)
MagIndex(parts, op, k) == NPars(parts, op) + 2 + 4 + 3 * SumNsld(parts, k - 1)
PartValues(v, parts, op, k) ==
    LET pi == ParIndex(parts, op, k)
        diff == IF op = "+" THEN 1 ELSE 0
        spin == NPars(parts, op) + 2
    IN <<IF op = "+" THEN v[pi + 1] ELSE "one", "zero">>
       \o Cut(v, pi + diff, pi + parts[k].npars + diff)
       \o (IF parts[k].nsld > 0
           THEN Cut(v, spin, spin + 4) \o Cut(v, MagIndex(parts, op, k), MagIndex(parts, op, k) + 3 * parts[k].nsld)
           ELSE <<>>)
\* what part k must receive
PartWants(parts, op, k) ==
    <<IF op = "+" THEN <<"scale", k>> ELSE "one", "zero">>
    \o [j \in 1..parts[k].npars |-> <<"par", k, j>>]
    \o (IF parts[k].nsld > 0 THEN Spin \o [j \in 1..(3 * parts[k].nsld) |-> <<"mag", k, j>>] ELSE <<>>)
Routing(parts, op) == \A k \in 1..Len(parts) : PartValues(Layout(parts, op), parts, op, k) = PartWants(parts, op, k)
=============================================================================
