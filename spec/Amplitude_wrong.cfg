\* vacuity control: the weight is forgotten in the F^2 accumulator. CauchySchwarz MUST fail.
SPECIFICATION DSpec
CONSTANTS
  MaxPts = 3
  MaxWt = 3
  MaxAmp = 2
  Variant = "F2unweighted"
INVARIANT CauchySchwarz
CHECK_DEADLOCK FALSE
