\* code before the D1/D7 repairs: DefiningMean must FAIL (vacuity control)
SPECIFICATION Spec
CONSTANTS
  MaxNP = 3
  MaxLen = 3
  MaxPdSet = {0, 1, 2, 3}
  Variant = "asWritten"
INVARIANT TypeOK
INVARIANT OdometerIsIndex
INVARIANT ChunkExact
INVARIANT EachPointOnce
INVARIANT DefiningMean
INVARIANT RefusedNotTruncated
INVARIANT RefusalOnlyWhenTooMany
CHECK_DEADLOCK FALSE
