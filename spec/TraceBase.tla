----------------------------- MODULE TraceBase -----------------------------
(***************************************************************************)
(* Common protocol of all trace-validation modules.                        *)
(*                                                                         *)
(* The implementation log is an ndjson file (one event per line: "tid",    *)
(* "ev", arguments and the full projected result; doubles as strings).     *)
(* A trace module defines                                                  *)
(*     TraceInitState          the specification state before any event    *)
(*     Apply(st, e)            the specification's step for event e from   *)
(*                             state st: [st |-> next state,               *)
(*                             bad |-> <<>> if e is a step the             *)
(*                             specification allows, else <<clause,        *)
(*                             detail>> naming the first conjunct of the   *)
(*                             matching action that fails]                 *)
(* and instantiates the behaviour  TraceSpec  below.  A step never blocks: *)
(* a rejected event is reported as <<"REJECT", tid, line, clause, detail>> *)
(* and validation continues with the next trace id, so one run gives a     *)
(* verdict for every trace in the file.  The POSTCONDITION reports the     *)
(* number of consumed lines; the harness insists that it equals the file   *)
(* length.                                                                 *)
(***************************************************************************)
EXTENDS Naturals, Sequences, TLC, Json, IOUtils

TraceLog == ndJsonDeserialize(IOEnv.TRACE_FILE)
NLines == Len(TraceLog)

Has(e, f) == f \in DOMAIN e
Get(e, f, dflt) == IF f \in DOMAIN e THEN e[f] ELSE dflt

\* register 1: lines consumed; register 2: rejected events
TraceDone ==
    PrintT(<<"TRACE-DONE", TLCGet(1), TLCGet(2)>>) /\ TLCGet(1) = NLines
=============================================================================
