----------------------------- MODULE PipelineGen -----------------------------
(* Behaviour export for replay: complete schedules of Pipeline with at most MaxEdits edits. *)
EXTENDS Pipeline, Sequences, Json
CONSTANT MaxEdits
VARIABLE hist
NEdits == Len(SelectSeq(hist, LAMBDA h : h.label = "edit"))
GenInit == Init /\ hist = <<>>
GenNext ==
    \/ \E p \in Procs :
          \/ Step(p) /\ hist' = Append(hist, [proc |-> p, label |-> IF pc[p] = "dead" THEN "orphan" ELSE pc[p], kill |-> FALSE, v |-> 0])
          \/ Crash(p, TRUE) /\ hist' = Append(hist, [proc |-> p, label |-> "crash", kill |-> TRUE, v |-> 0])
          \/ Crash(p, FALSE) /\ hist' = Append(hist, [proc |-> p, label |-> "crash", kill |-> FALSE, v |-> 0])
    \/ \E v \in Versions : NEdits < MaxEdits /\ Edit(v) /\ hist' = Append(hist, [proc |-> "", label |-> "edit", kill |-> FALSE, v |-> v])
GenSpec == GenInit /\ [][GenNext]_<<vars, hist>>
Quiescent == (\A p \in Procs : pc[p] \in {"done", "dead", "idle"}) /\ ~CompilerRunning
             /\ \E p \in Procs : pc[p] # "idle"
Emit == Quiescent => PrintT(<<"BEHAVIOUR", ToJson([steps |-> hist])>>)
=============================================================================
