\* vacuity control: with the acceptance test inverted the mask invariants MUST fail
SPECIFICATION Spec
CONSTANTS
  MaxXi = 3
  MaxN = 2
  R = 2
  LamA = 1
  LamB = 4
  MidDen = 8
  Variant = "invertedMask"
  Export = FALSE
INVARIANT TypeOK
INVARIANT NonEmpty
INVARIANT PositiveQ
INVARIANT StrictlyIncreasingQ
INVARIANT Covers
INVARIANT WeightsPositive
INVARIANT MaskUpClosed
INVARIANT FullAcceptsReachable
INVARIANT ZeroMasksAll
INVARIANT Linear
INVARIANT ZeroIsMinusG0
INVARIANT NonPositive
INVARIANT Bounded
CHECK_DEADLOCK FALSE
