\* deeper exhaustive run (thorough tier)
SPECIFICATION Spec
CONSTANTS
  MaxNP = 4
  MaxLen = 3
  MaxPdSet = {0, 1, 2, 3}
  Variant = "fixed"
INVARIANT TypeOK
INVARIANT OdometerIsIndex
INVARIANT ChunkExact
INVARIANT EachPointOnce
INVARIANT DefiningMean
INVARIANT RefusedNotTruncated
INVARIANT RefusalOnlyWhenTooMany
CHECK_DEADLOCK FALSE
