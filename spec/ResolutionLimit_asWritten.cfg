\* vacuity control: the width-only rule as written (sum of bin widths / 2W, not normalised) must violate the bound
SPECIFICATION Spec
CONSTANTS
  QSet = {17, 18, 19, 20, 21, 22, 23, 24}
  WSet = {4, 6, 8, 11, 12, 16}
  H0 = 8
  KMax = 3
  KNum = 5
  KDen = 4
  Normalise = FALSE
  Fold = FALSE
  FoldWeight = 2
  Export = FALSE
INVARIANT ErrBound
PROPERTY BoundHalves
CHECK_DEADLOCK FALSE
