\* the documented reading: every clause of the property must hold on the whole lattice
SPECIFICATION Spec
CONSTANTS
  Variant = "documented"
  Mode = "check"
INVARIANT TypeOK
INVARIANT DefinedWhereDocumented
INVARIANT WellFormed
INVARIANT StrictlyIncreasing
INVARIANT InsideLimits
INVARIANT InsideSupport
INVARIANT FiniteNonNegative
INVARIANT SumsToOne
INVARIANT Proportional
INVARIANT DegenerateIsCentre
INVARIANT EveryInLimitPointPresent
INVARIANT OnlyGridPoints
INVARIANT AbsoluteCentredOnZero
INVARIANT RelativeWidthScalesWithCentre
INVARIANT WidthMeaning
CHECK_DEADLOCK FALSE
