import tlc2.value.impl.IntValue;
import tlc2.value.impl.TupleValue;
import tlc2.value.impl.Value;

/** TLC operator overrides for module ResOps (see ResOps.tla); same conventions as IEEE. */
public class ResOps {
    public static Value RMin(Value v) {
        double[] x = IEEE.vec(v);
        if (x.length == 0) throw new RuntimeException("ResOps: RMin of empty vector");
        double m = x[0];
        for (int i = 1; i < x.length; i++) m = Math.min(m, x[i]);
        return IEEE.s(m);
    }
    public static Value RMax(Value v) {
        double[] x = IEEE.vec(v);
        if (x.length == 0) throw new RuntimeException("ResOps: RMax of empty vector");
        double m = x[0];
        for (int i = 1; i < x.length; i++) m = Math.max(m, x[i]);
        return IEEE.s(m);
    }
    public static Value RIndexOf(Value v, Value xv) {
        double[] x = IEEE.vec(v);
        double t = IEEE.d(xv);
        for (int i = 0; i < x.length; i++) if (x[i] == t) return IntValue.gen(i + 1);
        return IntValue.gen(0);
    }
    public static Value RIndicesOf(Value v, Value xv) {
        double[] x = IEEE.vec(v);
        double t = IEEE.d(xv);
        java.util.ArrayList<Value> r = new java.util.ArrayList<>();
        for (int i = 0; i < x.length; i++) if (x[i] == t) r.add(IntValue.gen(i + 1));
        return new tlc2.value.impl.SetEnumValue(r.toArray(new Value[0]), true);
    }
    public static Value RColumn(Value v, Value j, Value stride, Value count) {
        TupleValue t = (TupleValue) v.toTuple();
        int jj = ((IntValue) j).val, st = ((IntValue) stride).val, n = ((IntValue) count).val;
        Value[] e = new Value[n];
        for (int k = 0; k < n; k++) e[k] = t.elems[k * st + jj - 1];
        return new TupleValue(e);
    }
}
