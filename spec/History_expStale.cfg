SPECIFICATION Spec
CONSTANTS
  Models = {"m1"}
  QSets = {"q1"}
  Requests = {"mono", "pd", "empty"}
  Slots = {"k1"}
  Wrappers = {"w1"}
  MaxOps = 7
  EmptyReq = "empty"
  ModeReq = "mode"
  Variant = "updateKeepsCache"
  WithExp = TRUE
  TrackHeld = TRUE
  ReturnsView = FALSE
INVARIANT Purity
INVARIANT ArgsUntouched
INVARIANT HeldStable
CHECK_DEADLOCK FALSE
