---------------------------- MODULE ConvertCore ----------------------------
(***************************************************************************)
(* C20 - conversion of legacy SasView parameter sets (sasmodels/convert.py *)
(* convert_model).  Operators shared by Convert (design-level state        *)
(* machine, symbolic values) and ConvertTrace (validation of recorded      *)
(* convert_model calls, IEEE doubles).                                     *)
(*                                                                         *)
(* Data is NOT part of the specification: the conversion tables and the    *)
(* parameter tables of the current models are exported from the working    *)
(* tree at check time (harness/w_convert.py, mode export) and read here:   *)
(*   Data.versions   sorted keys of CONVERSION_TABLE, <<a, b, c>>          *)
(*   Data.table      one record per entry, in dictionary order:            *)
(*                   version, new (sasmodels name), old (SasView name),    *)
(*                   map = <<[new, newnone, old, oldnone]>> in dict order  *)
(*   Data.models     model name -> [sf, nmag, call = <<[id, pd, sld]>>,    *)
(*                   kernel = <<[id, length, control, sld, pd]>>]          *)
(*   Data.current    names of the current models                           *)
(*                                                                         *)
(* A parameter set is a function from key strings to values.  Keys are     *)
(* only ever built by concatenation and compared; nothing is parsed.       *)
(* A value is [t, v]: t = "f" double, "i" integer, "s" string (text in v), *)
(* "sym" symbolic (design level; v is an expression text), "opaque"        *)
(* (unconstrained: result of a hand conversion that solves equations).     *)
(*                                                                         *)
(* Variant = "intended"   the pipeline the property describes              *)
(* Variant = "asWritten"  convert.py as it stood when this was written     *)
(*                        (deliberately wrong variant, vacuity control)    *)
(***************************************************************************)
EXTENDS Naturals, Sequences, FiniteSets, TLC, Json, IOUtils, IEEE

CONSTANT Variant

Data == JsonDeserialize(IOEnv.C20_DATA)

Versions == Data.versions
NV == Len(Versions)
Entries == Data.table
NE == Len(Entries)
Models == Data.models
ModelNames == DOMAIN Models
Current == {Data.current[i] : i \in 1..Len(Data.current)}

V312 == <<3, 1, 2>>
V420 == <<4, 2, 0>>
V504 == <<5, 0, 4>>
VLeq(a, b) == \/ a[1] < b[1]
              \/ a[1] = b[1] /\ a[2] < b[2]
              \/ a[1] = b[1] /\ a[2] = b[2] /\ a[3] <= b[3]
VLt(a, b) == VLeq(a, b) /\ a # b
VText(v) == ToString(v[1]) \o "." \o ToString(v[2]) \o "." \o ToString(v[3])

SeqSet(s) == {s[i] : i \in 1..Len(s)}
\* TLC keeps [x \in S |-> e] and {x \in S : p} symbolic (closures) and re-evaluates them at
\* every use; Table / Force make the explicit function / set.  The derived tables below
\* (XxxOf) are computed once, in dependency order, by the assumption MemoInit at the end of
\* this module and kept in TLC registers 21.. (an ASSUME sets the registers of every worker);
\* XxxOf == TLCGet(k) reads them back, XxxOfDef is the definition.
Table(f) == f @@ <<>>
Force(S) == DOMAIN ([x \in S |-> TRUE] @@ <<>>)
RestrictTo(f, S) == [k \in S |-> f[k]]
SetKeys(P, K, v) == [k \in DOMAIN P \cup K |-> IF k \in K THEN v ELSE P[k]]

---------------------------------------------------------------------------
(* values *)
NumV(c) == [t |-> "f", v |-> c]
Sym(k) == [t |-> "sym", v |-> k]
OpaqueV == [t |-> "opaque", v |-> ""]
IsNum(x) == x.t \in {"f", "i"}
MulV(x, c) == IF x.t = "sym" THEN [t |-> "sym", v |-> "(" \o x.v \o ")*" \o c]
              ELSE IF IsNum(x) THEN [t |-> "f", v |-> FMul(x.v, c)]
              ELSE IF x.t = "opaque" THEN x
              ELSE [t |-> "error", v |-> "text*" \o c]
DivV(x, c) == IF x.t = "sym" THEN [t |-> "sym", v |-> "(" \o x.v \o ")/" \o c]
              ELSE IF IsNum(x) THEN [t |-> "f", v |-> FDiv(x.v, c)]
              ELSE IF x.t = "opaque" THEN x
              ELSE [t |-> "error", v |-> "text/" \o c]
\* numbers are compared as doubles, bit for bit (90 = 90.0); anything else literally
ValEq(a, b) == IF IsNum(a) /\ IsNum(b) THEN FBits(a.v, b.v) ELSE a = b

---------------------------------------------------------------------------
(* the current models *)
CallIdsOf == TLCGet(21)
CallIdsOfDef == Table([m \in ModelNames |-> Force({Models[m].call[i].id : i \in 1..Len(Models[m].call)})])
PdIdsOf == TLCGet(22)
PdIdsOfDef == Table([m \in ModelNames |->
              Force({Models[m].call[i].id : i \in {j \in 1..Len(Models[m].call) : Models[m].call[j].pd}})])
SldIdsOf == TLCGet(23)
SldIdsOfDef == Table([m \in ModelNames |->
              Force({Models[m].call[i].id : i \in {j \in 1..Len(Models[m].call) : Models[m].call[j].sld}})])

\* attribute suffixes as old SasView wrote them (convert.py PD_DOT, in its order)
Dots == <<".width", ".npts", ".nsigmas", ".type", ".lower", ".upper", ".fittable", ".std",
          ".units", "">>
DotSet == SeqSet(Dots)
PdDots == {".width", ".npts", ".nsigmas", ".type"}
LimDots == {".lower", ".upper"}
AnyDots == DotSet \ PdDots
UnderOf(d) == CASE d = ".width" -> "_pd" [] d = ".npts" -> "_pd_n"
                [] d = ".nsigmas" -> "_pd_nsigma" [] d = ".type" -> "_pd_type" [] OTHER -> d

\* every key that names something the model has: parameter, or an attribute legal for it
LegalKeys(m, us) ==
    {id \o d : id \in CallIdsOf[m], d \in AnyDots}
    \cup {id \o (IF us THEN UnderOf(d) ELSE d) : id \in PdIdsOf[m], d \in PdDots}
LegalKeysOf == TLCGet(24)
LegalKeysOfDef == Table([m \in ModelNames |-> Table([us \in BOOLEAN |-> Force(LegalKeys(m, us))])])

---------------------------------------------------------------------------
(* Target: convert.py _conversion_target and the model_version gate *)
GateOpen(mv, vi) == VLeq(mv, Versions[IF vi = NV THEN vi ELSE vi + 1])
EntryIdx(name, vi) ==
    LET S == {i \in 1..NE : Entries[i].version = Versions[vi] /\ Entries[i].old = name}
    IN IF S = {} THEN 0 ELSE CHOOSE i \in S : \A j \in S : i <= j
\* "core_shell_ellipsoid:1" names a variant of the model core_shell_ellipsoid
ModelOf(new) ==
    IF new \in ModelNames THEN new
    ELSE LET S == {m \in ModelNames : \E k \in 0..9 : new = m \o ":" \o ToString(k)}
         IN IF S = {} THEN "" ELSE CHOOSE m \in S : TRUE
EntryModel == TLCGet(25)
EntryModelDef == Table([i \in 1..NE |-> ModelOf(Entries[i].new)])
ReturnedName(i) == IF Variant = "asWritten" THEN Entries[i].new ELSE EntryModel[i]

---------------------------------------------------------------------------
(* The translation of an entry: the table's rows with vector parameters   *)
(* expanded to their elements (convert.py _get_translation_table).        *)
HasNew(rows, n) == \E i \in 1..Len(rows) : ~rows[i].newnone /\ rows[i].new = n
RECURSIVE AddK(_, _, _, _, _, _)
AddK(rows, newid, oldid, oldnone, k, n) ==
    IF k > n THEN rows
    ELSE LET nk == newid \o ToString(k)
             row == [new |-> nk, newnone |-> FALSE, oldnone |-> oldnone,
                     old |-> IF oldnone THEN "" ELSE oldid \o ToString(k)]
         IN AddK(IF HasNew(rows, nk) THEN rows ELSE Append(rows, row),
                 newid, oldid, oldnone, k + 1, n)
RECURSIVE ExpandK(_, _, _)
ExpandK(rows, kp, j) ==
    IF j > Len(kp) THEN rows
    ELSE IF kp[j].length <= 1 THEN ExpandK(rows, kp, j + 1)
    ELSE LET id == kp[j].id
             hit == {i \in 1..Len(rows) : ~rows[i].newnone /\ rows[i].new = id}
             h == CHOOSE i \in hit : TRUE
             oldid == IF hit = {} THEN id ELSE rows[h].old
             oldnone == hit # {} /\ rows[h].oldnone
             kept == SelectSeq(rows, LAMBDA r : r.newnone \/ r.new # id)
         IN ExpandK(AddK(kept, id, oldid, oldnone, 1, kp[j].length), kp, j + 1)
\* as written, the control parameter's row is replaced by <control id> : "CONTROL"
\* (meant for the backward direction), so the old control name is never renamed
ControlAsWritten(rows, kp) ==
    LET C == {j \in 1..Len(kp) : kp[j].control} IN
    IF C = {} THEN rows
    ELSE LET cid == kp[CHOOSE j \in C : \A k \in C : j <= k].id
             row == [new |-> cid, newnone |-> FALSE, old |-> "CONTROL", oldnone |-> FALSE]
         IN IF HasNew(rows, cid)
            THEN [i \in 1..Len(rows) |-> IF ~rows[i].newnone /\ rows[i].new = cid THEN row ELSE rows[i]]
            ELSE Append(rows, row)
Expand(i) ==
    LET m == EntryModel[i] IN
    IF m = "" THEN Entries[i].map ELSE ExpandK(Entries[i].map, Models[m].kernel, 1)
ExpandW(i) ==
    LET m == EntryModel[i] IN
    IF m = "" \/ Entries[i].new # m THEN Entries[i].map        \* ':' entries use the bare table
    ELSE ControlAsWritten(ExpandK(Entries[i].map, Models[m].kernel, 1), Models[m].kernel)
\* the translation the property means (RowsOf) and the one the code used as written (RowsW)
RowsOf == TLCGet(26)
RowsOfDef == Table([i \in 1..NE |-> Expand(i)])
RowsW == TLCGet(27)
RowsWDef == Table([i \in 1..NE |-> ExpandW(i)])

\* old key -> new key ("" = dropped), for every row and attribute suffix; first row wins
RowMap(r) ==
    IF r.oldnone THEN <<>>
    ELSE [k \in {r.old \o d : d \in DotSet} |->
            IF r.newnone THEN "" ELSE r.new \o (CHOOSE d \in DotSet : r.old \o d = k)]
RECURSIVE MergeRows(_, _)
MergeRows(rows, j) == IF j > Len(rows) THEN <<>> ELSE RowMap(rows[j]) @@ MergeRows(rows, j + 1)
KeyMapOf == TLCGet(28)
KeyMapOfDef == Table([i \in 1..NE |-> MergeRows(RowsOf[i], 1)])
\* new key -> old key of the (first) row producing it
InvRowMap(r) ==
    IF r.oldnone \/ r.newnone THEN <<>>
    ELSE [k \in {r.new \o d : d \in DotSet} |-> r.old \o (CHOOSE d \in DotSet : r.new \o d = k)]
RECURSIVE MergeInv(_, _)
MergeInv(rows, j) == IF j > Len(rows) THEN <<>> ELSE InvRowMap(rows[j]) @@ MergeInv(rows, j + 1)
InvMapOf == TLCGet(29)
InvMapOfDef == Table([i \in 1..NE |-> MergeInv(RowsOf[i], 1)])

---------------------------------------------------------------------------
(* HandConvert: convert.py _hand_convert_3_1_2_to_4_1, on old names.      *)
(* Rewrites that only copy or rescale are transcribed; the ones that      *)
(* solve equations (or recode text) yield opaque values.                  *)
OpaqueIfPresent(P, K) == [k \in DOMAIN P |-> IF k \in K THEN OpaqueV ELSE P[k]]
HandModel(enew, P) ==
    CASE enew = "core_shell_parallelepiped" ->
            SetKeys(P, {"rimA.width", "rimB.width", "rimC.width"}, NumV("0.0"))
      [] enew = "core_shell_ellipsoid:1" ->
            OpaqueIfPresent(P, {"equat_shell", "polar_core", "polar_shell"})
      [] enew = "hollow_cylinder" ->
            OpaqueIfPresent(P, {"radius", "radius.width"})
      [] enew = "multilayer_vesicle" ->
            LET A == {a \in AnyDots : "scale" \o a \in DOMAIN P} IN
            [k \in DOMAIN P \cup {"volfraction" \o a : a \in A} |->
                IF \E a \in A : k = "volfraction" \o a
                THEN P["scale" \o (CHOOSE a \in A : k = "volfraction" \o a)]
                ELSE IF k = "scale" THEN NumV("1.0") ELSE P[k]]
      [] enew = "polymer_micelle" ->
            [k \in DOMAIN P |-> IF k \in {"ndensity", "ndensity.lower", "ndensity.upper"}
                                THEN DivV(P[k], "1e15") ELSE P[k]]
      [] enew = "rpa" ->          \* femtometre -> centimetre intent; value left open
            OpaqueIfPresent(P, {x \o d : x \in {"La", "Lb", "Lc", "Ld", "L1", "L2", "L3", "L4"},
                                         d \in {"", ".lower", ".upper"}})
      [] enew = "spherical_sld" ->     \* interface function names recoded to integers
            LET P1 == OpaqueIfPresent(P, {"func_inter" \o ToString(j) : j \in 0..10} \cup {"n_shells"})
            IN IF "func_inter0" \in DOMAIN P THEN SetKeys(P1, {"n_shells"}, OpaqueV) ELSE P1
      [] enew = "teubner_strey" ->     \* solves (scale, c1, c2) for (xi, d, volfraction_a)
            LET T == {"volfraction_a", "xi", "d", "sld_a", "sld_b", "scale"}
                P1 == [k \in DOMAIN P \ {"c1", "c2"} |-> IF k \in T THEN OpaqueV ELSE P[k]]
            IN IF {"scale", "c1", "c2"} \subseteq DOMAIN P THEN SetKeys(P1, T, OpaqueV) ELSE P1
      [] OTHER -> P
\* old names the hand conversions read although the table does not list them
HandInputs(enew) == IF enew = "teubner_strey" THEN {"c1", "c2"} ELSE {}

---------------------------------------------------------------------------
(* Rename: every key old+suffix moves to new+suffix, simultaneously       *)
RenameI(P, i) ==
    LET map == KeyMapOf[i]
        inv == InvMapOf[i]
        To(k) == IF k \in DOMAIN map THEN map[k] ELSE k
        T == {To(k) : k \in DOMAIN P} \ {""}
    IN [t \in T |-> IF t \in DOMAIN inv /\ inv[t] \in DOMAIN P THEN P[inv[t]] ELSE P[t]]
\* as written (_convert_pars): row by row, suffix by suffix, copy from the ORIGINAL set into
\* the working copy and delete the source from the working copy
RECURSIVE SeqDots(_, _, _, _)
SeqDots(np, P, r, d) ==
    IF d > Len(Dots) THEN np
    ELSE LET src == r.old \o Dots[d]
             tgt == IF r.newnone THEN "" ELSE r.new \o Dots[d]
         IN IF src \in DOMAIN np /\ src # tgt
            THEN LET v == IF src \in DOMAIN P THEN P[src] ELSE [t |-> "error", v |-> "KeyError"]
                     np1 == IF tgt # "" THEN SetKeys(np, {tgt}, v) ELSE np
                 IN SeqDots(RestrictTo(np1, DOMAIN np1 \ {src}), P, r, d + 1)
            ELSE SeqDots(np, P, r, d + 1)
RECURSIVE SeqRows(_, _, _, _)
SeqRows(np, P, rows, j) ==
    IF j > Len(rows) THEN np
    ELSE IF rows[j].oldnone \/ (~rows[j].newnone /\ rows[j].old = rows[j].new)
    THEN SeqRows(np, P, rows, j + 1)
    ELSE SeqRows(SeqDots(np, P, rows[j], 1), P, rows, j + 1)
RenameW(P, i) == SeqRows(P, P, RowsW[i], 1)

---------------------------------------------------------------------------
(* RescaleSld: 3.x sets carry SLDs in 1/Ang^2, sasmodels in 1e-6/Ang^2    *)
Rescales(vi, m) == Versions[vi] = V312 /\ ~Models[m].sf
ScaledKeys(m) == SldIdsOf[m] \cup {"M0:" \o id : id \in SldIdsOf[m]}
RescaleSld(P, vi, m) ==
    IF Rescales(vi, m)
    THEN [k \in DOMAIN P |-> IF k \in ScaledKeys(m) THEN MulV(P[k], "1000000.0") ELSE P[k]]
    ELSE P
\* fit limits of rescaled parameters: the property does not say whether they follow the
\* value; both readings are accepted (see ValuesCarried in ConvertTrace)
ScaledLimitKeys(m) == {id \o d : id \in SldIdsOf[m], d \in LimDots}
                      \cup {id \o "_M0" \o d : id \in SldIdsOf[m], d \in LimDots}

---------------------------------------------------------------------------
(* Magnetic: tag:par -> par_tag (sets older than 4.2), up_angle -> up_phi *)
(* with up_theta = 90 (sets up to 5.0.4).  Suffixes stay at the end.      *)
MagTags == {"M0", "mtheta", "mphi"}
MagMap(m) ==
    LET S == (MagTags \X SldIdsOf[m]) \X AnyDots
        K(x) == x[1][1] \o ":" \o x[1][2] \o x[2]
        U == {"frac_i", "frac_f", "angle"} \X AnyDots
        KU(y) == "up:" \o y[1] \o y[2]
    IN [k \in {K(x) : x \in S} |-> LET x == CHOOSE x \in S : K(x) = k
                                   IN x[1][2] \o "_" \o x[1][1] \o x[2]]
       @@ [k \in {KU(y) : y \in U} |-> LET y == CHOOSE y \in U : KU(y) = k
                                       IN "up_" \o y[1] \o y[2]]
MagMapOf == TLCGet(30)
MagMapOfDef == Table([m \in ModelNames |-> IF Models[m].nmag > 0 THEN Table(MagMap(m)) ELSE <<>>])
AngleMap == Table([k \in {"up_angle" \o d : d \in AnyDots} |->
                "up_phi" \o (CHOOSE d \in AnyDots : "up_angle" \o d = k)])
MapKeys(P, map) ==
    LET To(k) == IF k \in DOMAIN map THEN map[k] ELSE k
        Moved == {k \in DOMAIN P : k \in DOMAIN map}
        T == {To(k) : k \in DOMAIN P}
    IN [t \in T |-> IF \E k \in Moved : map[k] = t THEN P[CHOOSE k \in Moved : map[k] = t]
                    ELSE P[t]]
Magnetic(P, vi, m) ==
    LET P1 == IF VLt(Versions[vi], V420) THEN MapKeys(P, MagMapOf[m]) ELSE P
        P2 == IF VLeq(Versions[vi], V504)
              THEN (IF "up_angle" \in DOMAIN P1
                    THEN SetKeys(MapKeys(P1, AngleMap), {"up_theta"}, NumV("90.0"))
                    ELSE MapKeys(P1, AngleMap))
              ELSE P1
    IN P2
\* as written the renames run before the table rename (which is what produces tag:par keys),
\* attribute suffixes are not kept at the end, and only the bare up_angle key is handled
MagneticW(P, vi, m) ==
    LET P1 == P       \* no old name starts with "M0:", "mtheta:", "mphi:" or "up:" - nothing happens
        P2 == IF VLeq(Versions[vi], V504) /\ "up_angle" \in DOMAIN P1
              THEN SetKeys([k \in (DOMAIN P1 \ {"up_angle"}) \cup {"up_phi"} |->
                               IF k = "up_phi" THEN P1["up_angle"] ELSE P1[k]],
                           {"up_theta"}, NumV("90.0"))
              ELSE P1
    IN P2

---------------------------------------------------------------------------
(* Defaults, Underscore *)
Defaults(P, m) ==
    LET D == {"scale", "background"}
             \cup (IF Variant = "asWritten" \/ "up_theta" \in CallIdsOf[m] THEN {"up_theta"} ELSE {})
        Dflt(k) == IF k = "scale" THEN NumV("1.0") ELSE IF k = "background" THEN NumV("0.0")
                   ELSE NumV("90.0")
    IN [k \in DOMAIN P \cup D |-> IF k \in DOMAIN P THEN P[k] ELSE Dflt(k)]
UnderMap(m) ==
    LET S == CallIdsOf[m] \X PdDots IN
    [k \in {x[1] \o x[2] : x \in S} |-> LET x == CHOOSE x \in S : x[1] \o x[2] = k
                                        IN x[1] \o UnderOf(x[2])]
UnderMapOf == TLCGet(31)
UnderMapOfDef == Table([m \in ModelNames |-> Table(UnderMap(m))])
Underscore(P, us, m) == IF us THEN MapKeys(P, UnderMapOf[m]) ELSE P

---------------------------------------------------------------------------
(* The pipeline.  One pass per table version, in the code's order:        *)
(*   Target, HandConvert, Rename, RescaleSld, Defaults, Underscore        *)
(* with the generic magnetic renames where they can act: after the table  *)
(* rename and the rescale (intended) / inside HandConvert (as written).   *)
Stages == IF Variant = "asWritten"
          THEN <<"HandConvert", "Magnetic", "Rename", "RescaleSld", "Defaults", "Underscore">>
          ELSE <<"HandConvert", "Rename", "RescaleSld", "Magnetic", "Defaults", "Underscore">>
Stage(s, P, i, vi, us, wd) ==
    LET m == EntryModel[i] IN
    CASE s = "HandConvert" -> IF Versions[vi] = V312 THEN HandModel(Entries[i].new, P) ELSE P
      [] s = "Rename" -> IF Variant = "asWritten" THEN RenameW(P, i) ELSE RenameI(P, i)
      [] s = "RescaleSld" -> RescaleSld(P, vi, m)
      [] s = "Magnetic" -> IF Variant = "asWritten" THEN MagneticW(P, vi, m) ELSE Magnetic(P, vi, m)
      [] s = "Defaults" -> IF wd THEN Defaults(P, m) ELSE P
      [] s = "Underscore" -> Underscore(P, us, m)
RECURSIVE RunStages(_, _, _, _, _, _)
RunStages(k, P, i, vi, us, wd) ==
    IF k > Len(Stages) THEN P ELSE RunStages(k + 1, Stage(Stages[k], P, i, vi, us, wd), i, vi, us, wd)
TargetAt(name, mv, vi) == IF GateOpen(mv, vi) THEN EntryIdx(name, vi) ELSE 0
RECURSIVE Pipe(_, _, _, _, _, _, _)
Pipe(vi, name, P, us, mv, wd, hits) ==
    IF vi > NV THEN [name |-> name, pars |-> P, hits |-> hits]
    ELSE LET i == TargetAt(name, mv, vi) IN
         IF i = 0 \/ EntryModel[i] = "" THEN Pipe(vi + 1, name, P, us, mv, wd, hits)
         ELSE Pipe(vi + 1, ReturnedName(i), RunStages(1, P, i, vi, us, wd), us, mv, wd,
                   Append(hits, i))
Convert(name, P, us, mv, wd) == Pipe(1, name, P, us, mv, wd, <<>>)

---------------------------------------------------------------------------
(* The same mapping stated per name (relation, not program): where the    *)
(* table sends one old key.  Used by the design-level invariants and by   *)
(* the table-level checks.                                                *)
MagBase(b, vi, m) ==
    LET b1 == IF VLt(Versions[vi], V420) /\ b \in DOMAIN MagMapOf[m] THEN MagMapOf[m][b] ELSE b
    IN IF VLeq(Versions[vi], V504) /\ b1 = "up_angle" THEN "up_phi" ELSE b1
\* final [model, base] of new base name b produced by entry i at version index vi
RECURSIVE ChainBase(_, _, _)
ChainBase(b, i, vi) ==
    LET m == EntryModel[i]
        b1 == MagBase(b, vi, m)
        nxt == {w \in (vi + 1)..NV : EntryIdx(m, w) # 0}
    IN IF nxt = {} THEN [model |-> m, base |-> b1]
       ELSE LET w == CHOOSE w \in nxt : \A x \in nxt : w <= x
                j == EntryIdx(m, w)
                map == KeyMapOf[j]
            IN IF EntryModel[j] = "" THEN [model |-> m, base |-> b1]
               ELSE IF b1 \in DOMAIN map
               THEN (IF map[b1] = "" THEN [model |-> EntryModel[j], base |-> ""]
                     ELSE ChainBase(map[b1], j, w))
               ELSE ChainBase(b1, j, w)
FinalOfRow(i, r) ==
    LET vi == CHOOSE v \in 1..NV : Versions[v] = Entries[i].version
    IN  IF r.newnone THEN [model |-> EntryModel[i], base |-> ""] ELSE ChainBase(r.new, i, vi)
\* cached per entry and row
VIdxOf == TLCGet(32)
VIdxOfDef == Table([i \in 1..NE |-> CHOOSE v \in 1..NV : Versions[v] = Entries[i].version])
FinalOf == TLCGet(33)
FinalOfDef == Table([i \in 1..NE |-> Table([j \in 1..Len(RowsOf[i]) |-> FinalOfRow(i, RowsOf[i][j])])])

---------------------------------------------------------------------------
(* Table-level checks, every entry and every row (no code is executed)    *)
RowDefects(i) ==
    LET rows == RowsOf[i]
        e == Entries[i]
        F == FinalOf[i]
        Key(cls, r) == [class |-> cls, version |-> VText(e.version), model |-> e.new,
                        old |-> r.old, new |-> r.new]
    IN {Key("stale-row", rows[j]) : j \in {j \in 1..Len(rows) :
            ~rows[j].newnone /\ ~rows[j].oldnone /\ F[j].base # "" /\ F[j].model # ""
            /\ F[j].base \notin CallIdsOf[F[j].model]}}
       \cup {Key("duplicate-old-name", rows[j]) : j \in {j \in 1..Len(rows) :
            ~rows[j].oldnone /\ \E k \in 1..(j - 1) : ~rows[k].oldnone /\ rows[k].old = rows[j].old}}
       \cup {Key("target-collision", rows[j]) : j \in {j \in 1..Len(rows) :
            ~rows[j].oldnone /\ F[j].base # "" /\
            \E k \in 1..(j - 1) : ~rows[k].oldnone /\ F[k].base = F[j].base}}
EntryDefects(i) ==
    LET e == Entries[i]
        Key(cls) == [class |-> cls, version |-> VText(e.version), model |-> e.new,
                     old |-> e.old, new |-> e.new]
    IN (IF EntryModel[i] = "" \/ EntryModel[i] \notin Current THEN {Key("target-model-missing")} ELSE {})
       \cup (IF \E j \in 1..(i - 1) : Entries[j].version = e.version /\ Entries[j].old = e.old
             THEN {Key("duplicate-old-model-name")} ELSE {})
DefectsOf == TLCGet(34)
DefectsOfDef == Table([i \in 1..NE |-> Force(EntryDefects(i) \cup (IF EntryModel[i] = "" THEN {} ELSE RowDefects(i)))])
TableDefects == TLCGet(35)
TableDefectsDef == Force(UNION {DefectsOf[i] : i \in 1..NE})
\* rows that take part in scenarios: old name given, not reported above
DefectiveOldOf == TLCGet(36)
DefectiveOldOfDef == Table([i \in 1..NE |->
    Force({d.old : d \in {x \in DefectsOf[i] :
                      x.class \in {"stale-row", "duplicate-old-name", "target-collision"}}})])
---------------------------------------------------------------------------
(* memo tables, in dependency order *)
MemoInit ==
    /\ TLCSet(21, CallIdsOfDef)
    /\ TLCSet(22, PdIdsOfDef)
    /\ TLCSet(23, SldIdsOfDef)
    /\ TLCSet(24, LegalKeysOfDef)
    /\ TLCSet(25, EntryModelDef)
    /\ TLCSet(26, RowsOfDef)
    /\ TLCSet(27, RowsWDef)
    /\ TLCSet(28, KeyMapOfDef)
    /\ TLCSet(29, InvMapOfDef)
    /\ TLCSet(30, MagMapOfDef)
    /\ TLCSet(31, UnderMapOfDef)
    /\ TLCSet(32, VIdxOfDef)
    /\ TLCSet(33, FinalOfDef)
    /\ TLCSet(34, DefectsOfDef)
    /\ TLCSet(35, TableDefectsDef)
    /\ TLCSet(36, DefectiveOldOfDef)
ASSUME MemoInit
=============================================================================
