SPECIFICATION Spec
CONSTANTS
  MaxNP = 4
  MaxLen = 3
  MaxPdSet = {0, 1, 2, 3, 4}
  Variant = "fixed"
INVARIANT Emit
CHECK_DEADLOCK FALSE
