------------------------------- MODULE Units -------------------------------
(***************************************************************************)
(* C13: particle models are dimensionally consistent with the units they   *)
(* declare.                                                                *)
(*                                                                         *)
(* Part 1 (design level, integers only, explored exhaustively by TLC):     *)
(*   the unit-exponent algebra.  A declared unit is a pair of exponents    *)
(*   (len, sld): the parameter scales as lambda^len * mu^sld when every    *)
(*   length is multiplied by lambda and every scattering length density    *)
(*   by mu.  The state machine applies rescalings to a parameter vector    *)
(*   (values kept as log2, lambda = 2^a, mu = 2^b) and the invariants say  *)
(*     Composition   any sequence of rescalings is the rescaling by the    *)
(*                   product (exponents add), q is divided by the product; *)
(*     Law           every observable that is dimensionally homogeneous    *)
(*                   in the declared units - I - bkg of degree (3, 2),     *)
(*                   R_eff of degree (1, 0), volumes of degree (3, 0),     *)
(*                   the volume ratio of degree (0, 0) - is multiplied by  *)
(*                   lambda^3 mu^2, lambda, lambda^3, 1.                   *)
(*   With Mislabel = TRUE one parameter is *used* by the kernel with a     *)
(*   length exponent one off the declared one (the D9 class of defects):   *)
(*   Law must then fail (vacuity control, Units_mislabel.cfg).             *)
(*                                                                         *)
(* Part 2 (binding operators over IEEE doubles, used by UnitsTrace): the   *)
(*   table Exp(unit), Eligible(model table), the rescaling of a parameter  *)
(*   dictionary by powers of two (exact in binary64) and the laws as       *)
(*   predicates on a pair of observations.                                 *)
(***************************************************************************)
EXTENDS Integers, Sequences, FiniteSets, TLC, IEEE

\* =========================================================================
\* The unit table (shared by both parts)
\* =========================================================================
D(l, s) == [len |-> l, sld |-> s]
SldUnit == "1e-6/Ang^2"
\* Exp(unit).  Lengths and their powers; dimensionless spellings used by the model files
\* ("", "None", "none"); angles are not scaled; the SLD unit scales with mu only.
\* Units outside this table (1/cm, g/cm^3, mg/m^2, T, pJ/m, mJ/m^2, 1e15/cm^3, ...)
\* exclude the model: the property quantifies over models that carry only these units.
UnitDim ==
    ("Ang" :> D(1, 0)) @@ ("Ang^2" :> D(2, 0)) @@ ("Ang^3" :> D(3, 0)) @@
    ("1/Ang" :> D(-1, 0)) @@ ("1/Ang^2" :> D(-2, 0)) @@ ("1/Ang^3" :> D(-3, 0)) @@
    ("" :> D(0, 0)) @@ ("None" :> D(0, 0)) @@ ("none" :> D(0, 0)) @@
    ("degrees" :> D(0, 0)) @@ (SldUnit :> D(0, 1))
KnownUnits == DOMAIN UnitDim

\* degrees of the observables named by the property
DegI == D(3, 2)
DegReff == D(1, 0)
DegVol == D(3, 0)
DegRatio == D(0, 0)

\* =========================================================================
\* Part 1: the algebra as a state machine
\* =========================================================================
CONSTANTS NPar,       \* number of model parameters explored
          Depth,      \* number of successive rescalings
          Mislabel    \* FALSE: kernel uses every parameter as declared; TRUE: one is off by one

\* log2 of the rescaling factors offered: lambda, mu in {1/2, 2, 4} (and 1 = leave alone)
Steps == {-1, 1, 2}
Idx == 1..NPar
DeclDims == {UnitDim[u] : u \in KnownUnits}

VARIABLES decl,   \* declared dimension of every parameter   [Idx -> DeclDims]
          used,   \* dimension the kernel really gives it      [Idx -> dims]
          v,      \* log2(value / base value) of every parameter
          qe,     \* log2(q / base q)
          acc,    \* accumulated rescaling [a, b]: lambda = 2^a, mu = 2^b
          n       \* rescalings applied
avars == <<decl, used, v, qe, acc, n>>

AInit ==
    /\ decl \in [Idx -> DeclDims]
    /\ IF Mislabel
       THEN \E i \in Idx, d \in {-1, 1} :
                used = [decl EXCEPT ![i] = D(@.len + d, @.sld)]
       ELSE used = decl
    /\ v = [i \in Idx |-> 0]
    /\ qe = 0
    /\ acc = [a |-> 0, b |-> 0]
    /\ n = 0

\* the action of the property: p_i := p_i * lambda^len_i * mu^sld_i ; q := q / lambda
Rescale(a, b) ==
    /\ n < Depth
    /\ v' = [i \in Idx |-> v[i] + a * decl[i].len + b * decl[i].sld]
    /\ qe' = qe - a
    /\ acc' = [a |-> acc.a + a, b |-> acc.b + b]
    /\ n' = n + 1
    /\ UNCHANGED <<decl, used>>

ANext == \E a \in Steps \cup {0}, b \in Steps \cup {0} : Rescale(a, b)
ASpec == AInit /\ [][ANext]_avars

\* --- composition: the state after any sequence equals ONE rescaling by the product
Composition ==
    /\ v = [i \in Idx |-> acc.a * decl[i].len + acc.b * decl[i].sld]
    /\ qe = 0 - acc.a

\* --- monomial observables  C * prod p_i^k_i * q^kq  that are homogeneous of degree `deg`
\* in the dimensions the kernel really uses; q has dimension 1/length.
RECURSIVE DotLen(_, _, _), DotSld(_, _, _), DotV(_, _, _)
DotLen(k, dims, i) == IF i = 0 THEN 0 ELSE k[i] * dims[i].len + DotLen(k, dims, i - 1)
DotSld(k, dims, i) == IF i = 0 THEN 0 ELSE k[i] * dims[i].sld + DotSld(k, dims, i - 1)
DotV(k, vals, i) == IF i = 0 THEN 0 ELSE k[i] * vals[i] + DotV(k, vals, i - 1)
Powers == -2..2
Monomials(deg, withq) ==
    {m \in [k : [Idx -> Powers], kq : IF withq THEN -4..4 ELSE {0}] :
        /\ DotLen(m.k, used, NPar) - m.kq = deg.len
        /\ DotSld(m.k, used, NPar) = deg.sld}
\* log2 of (observable now / observable at the base point)
LogGain(m) == DotV(m.k, v, NPar) + m.kq * qe
Expected(deg) == deg.len * acc.a + deg.sld * acc.b

LawFor(deg, withq) == \A m \in Monomials(deg, withq) : LogGain(m) = Expected(deg)
Law ==
    /\ LawFor(DegI, TRUE)          \* I - bkg  ->  lambda^3 mu^2 (I - bkg)
    /\ LawFor(DegReff, FALSE)      \* R_eff    ->  lambda R_eff
    /\ LawFor(DegVol, FALSE)       \* V        ->  lambda^3 V
    /\ LawFor(DegRatio, FALSE)     \* ratio unchanged

\* =========================================================================
\* Part 2: binding operators over IEEE doubles (lambda, mu powers of two)
\* =========================================================================
One == "1.0"
Zero == "0.0"

\* lambda^e by repeated multiplication / division: exact for powers of two
RECURSIVE LamPow(_, _)
LamPow(lam, e) == IF e = 0 THEN One
                  ELSE IF e > 0 THEN FMul(lam, LamPow(lam, e - 1))
                  ELSE FDiv(LamPow(lam, e + 1), lam)

\* the factors of the property (spec-side set; powers of two make x * factor exact)
Lams == {"0.5", "2.0", "4.0"}
Mus == {"0.5", "2.0", "4.0"}

\* algebra of the IEEE operators used below, checked by TLC at start-up:
\* exponents add and factors compose bit-for-bit
ASSUME \A l1 \in Lams, l2 \in Lams, e1 \in -3..3, e2 \in -3..3 :
          /\ FBits(FMul(LamPow(l1, e1), LamPow(l1, e2)), LamPow(l1, e1 + e2))
          /\ FBits(FMul(LamPow(l1, e1), LamPow(l2, e1)), LamPow(FMul(l1, l2), e1))
          /\ FBits(FMul(LamPow(l1, e1), LamPow(l1, 0 - e1)), One)

\* ---- model tables exported from the working tree
\* a table: [model, cat_head, cat_sub, have_Fq, modes, xy_mode, rows], a row: [name, units, type,
\* pd, relpd, control, integer, lo, hi] - parameters as the user names them (vectors expanded),
\* without the two common parameters scale and background and without magnetic parameters
Rows(t) == {t.rows[i] : i \in 1..Len(t.rows)}
UnknownUnits(t) == {r.units : r \in {x \in Rows(t) : x.units \notin KnownUnits}}
\* "sld" as a type and the SLD unit must go together: all SLDs, and only SLDs, are scaled by mu
SldMismatch(t) == {r.name : r \in {x \in Rows(t) : (x.type = "sld") # (x.units = SldUnit)}}
Eligible(t) == /\ t.cat_head = "shape"
               /\ UnknownUnits(t) = {}
               /\ SldMismatch(t) = {}
WhyNot(t) == IF t.cat_head # "shape" THEN <<"category", t.category>>
             ELSE IF UnknownUnits(t) # {} THEN <<"units outside dom(Exp)", UnknownUnits(t)>>
             ELSE IF SldMismatch(t) # {} THEN <<"sld type/unit mismatch", SldMismatch(t)>>
             ELSE <<"eligible">>

\* volumes are computed by the model iff it has volume parameters (generate.py: CALL_VOLUME);
\* an effective radius iff it also names modes
HasVolumePars(t) == \E r \in Rows(t) : r.type = "volume"
ReportsReff(t) == HasVolumePars(t) /\ Len(t.modes) > 0

\* ---- overrides: a candidate relabelling <<name, len-exponent>>, ... used by the diagnosis
OvNames(ov) == {ov[i][1] : i \in 1..Len(ov)}
OvLen(ov, name) == LET i == CHOOSE j \in 1..Len(ov) : ov[j][1] = name IN ov[i][2]
DimOf(r, ov) == IF r.name \in OvNames(ov) THEN D(OvLen(ov, r.name), 0) ELSE UnitDim[r.units]

Factor(r, ov, lam, mu) == LET d == DimOf(r, ov) IN FMul(LamPow(lam, d.len), LamPow(mu, d.sld))
ScaleBy(r, ov, lam, mu, x) ==
    LET d == DimOf(r, ov) IN IF d.len = 0 /\ d.sld = 0 THEN x ELSE FMul(x, Factor(r, ov, lam, mu))

\* Rescale as an action on the user's parameter dictionary:
\*   value of parameter r            -> value * lambda^len * mu^sld  (angles, counts, ratios: len = 0)
\*   r_pd   relative width (volume)  -> unchanged
\*   r_pd   absolute width           -> scaled like the parameter itself (angles: unchanged)
\*   r_pd_n, r_pd_nsigma, r_pd_type, scale, background -> unchanged
RescaledPars(t, pars, ov, lam, mu) ==
    [k \in DOMAIN pars |->
        IF \E r \in Rows(t) : r.name = k
        THEN LET r == CHOOSE x \in Rows(t) : x.name = k IN ScaleBy(r, ov, lam, mu, pars[k])
        ELSE IF \E r \in Rows(t) : k = r.name \o "_pd"
        THEN LET r == CHOOSE x \in Rows(t) : k = x.name \o "_pd"
             IN IF r.relpd THEN pars[k] ELSE ScaleBy(r, ov, lam, mu, pars[k])
        ELSE pars[k]]

\* keys that carry doubles (compared bit-for-bit); every other key (r_pd_n: integer, r_pd_type:
\* text) is compared as it is written
NumKeys(t) == {"scale", "background"} \cup
              UNION {{r.name, r.name \o "_pd", r.name \o "_pd_nsigma"} : r \in Rows(t)}
SameDict(t, a, b) ==
    /\ DOMAIN a = DOMAIN b
    /\ \A k \in DOMAIN a : IF k \in NumKeys(t) THEN FBits(a[k], b[k]) ELSE a[k] = b[k]

\* size of the particle described by a parameter set: its largest length (declared Ang)
RECURSIVE MaxOf(_, _)
MaxOf(S, best) == IF S = {} THEN best
                  ELSE LET x == CHOOSE y \in S : TRUE IN MaxOf(S \ {x}, FMax(best, x))
Size(t, pars) ==
    MaxOf({FAbs(pars[r.name]) : r \in {x \in Rows(t) : x.units = "Ang" /\ x.name \in DOMAIN pars}}, Zero)

\* Soundness window of the comparison: both evaluations stay on the same branch of the model's
\* series/asymptotic switches when 0.1 <= q*size <= 20 (a hair of slack for the rounding of c/size)
InWindow(q, size) == LET x == FMul(q, size) IN FLeq("0.0999", x) /\ FLeq(x, "20.01")

\* ---- the laws on a pair of observations
\* tolerance 1e-12: lambda and mu are powers of two, so the second evaluation performs the same
\* binary64 operations on exactly scaled operands; observed on the unchanged tree: <= 5e-15
\* (libm argument reduction in a few 2-D kernels).  A label off by one power of length gives a
\* ratio off by a factor >= 2.  The absolute term covers the rounding of I = x + bkg when
\* bkg # 0 (one ulp of each intensity).
RTol == "1e-12"
\* factor of I - bkg for an observable of length degree d (the property: d = 3)
IFactorD(lam, mu, d) == FMul(LamPow(lam, d), LamPow(mu, 2))
IFactor(lam, mu) == IFactorD(lam, mu, 3)
LawIPoint(i0, i1, bkg, f) ==
    LET atol == FMul("1e-15", FAdd(FAbs(i1), FMul(f, FAbs(i0))))
    IN  IF FIsFinite(i0) /\ FIsFinite(i1)
        THEN FNear(FSub(i1, bkg), FMul(f, FSub(i0, bkg)), RTol, atol)
        ELSE FIsFinite(i0) = FIsFinite(i1)
LawIWith(I0, I1, bkg, f) ==
    /\ Len(I0) = Len(I1)
    /\ \A j \in 1..Len(I0) : LawIPoint(I0[j], I1[j], bkg, f)
LawI(I0, I1, bkg, lam, mu) == LawIWith(I0, I1, bkg, IFactor(lam, mu))
LawReff(r0, r1, lam) == Len(r0) = Len(r1) /\ FVecNear(r1, FVecScale(lam, r0), RTol, Zero)
\* a model whose form_volume is the constant 1 (lamellar phases, raspberry: "normalisation
\* happens in Iq") does not report a volume; recognised by both observations being exactly 1
Placeholder(b, s) == /\ FEq(b.vshell, One) /\ FEq(s.vshell, One)
                     /\ FEq(b.ratio, One) /\ FEq(s.ratio, One)
LawVol(b, s, lam) ==
    \/ Placeholder(b, s)
    \/ /\ FNear(s.vshell, FMul(LamPow(lam, 3), b.vshell), RTol, Zero)
       /\ FNear(s.ratio, b.ratio, RTol, Zero)
=============================================================================
