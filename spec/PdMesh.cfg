\* current tree (after the D1/D7 repairs): all properties must hold
SPECIFICATION Spec
CONSTANTS
  MaxNP = 3
  MaxLen = 3
  MaxPdSet = {0, 1, 2, 3}
  Variant = "fixed"
INVARIANT TypeOK
INVARIANT OdometerIsIndex
INVARIANT ChunkExact
INVARIANT EachPointOnce
INVARIANT DefiningMean
INVARIANT RefusedNotTruncated
INVARIANT RefusalOnlyWhenTooMany
CHECK_DEADLOCK FALSE
