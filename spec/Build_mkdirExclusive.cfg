\* current tree: compile to a private file, os.replace onto the final name
SPECIFICATION Spec
CONSTANTS
  Procs = {p1, p2, p3}
  MaxCrashes = 2
  Protocol = "atomic"
  SignalDeath = "failure"
  MkdirMode = "exclusive"
INVARIANT TypeOK
INVARIANT NoPartialLoad
INVARIANT EveryoneGetsAKernel
INVARIANT NothingPartialLeft
INVARIANT FinalNeverPartial
INVARIANT NoneBroken
PROPERTY Terminates
CHECK_DEADLOCK FALSE
