\* vacuity control: the rewrite as the implementation performs it (hexadecimal floating
\* constants left alone) MUST violate AllFloatsTagged
CONSTANTS
    Alphabet <- AlphabetHex
    MaxLen = 5
    TagHexFloats = FALSE
INIT Init
NEXT Next
INVARIANT AllFloatsTagged
CHECK_DEADLOCK FALSE
