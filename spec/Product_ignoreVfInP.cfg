SPECIFICATION Spec
CONSTANTS
  MaxP = 4
  MaxS = 4
  SliceVariant = "ignoreVfInP"
INVARIANT RoutingHolds
INVARIANT NamesDistinct
CHECK_DEADLOCK FALSE
