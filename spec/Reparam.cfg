SPECIFICATION Spec
INVARIANT UntouchedHolds
INVARIANT NewOnce
INVARIANT NothingRemovedRemains
INVARIANT SimpleBlockPosition
CHECK_DEADLOCK FALSE
