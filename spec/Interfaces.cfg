SPECIFICATION Spec
INVARIANT NeverIgnored
INVARIANT NeverOverRefused
INVARIANT SuffixOnlyOnDispersible
CHECK_DEADLOCK FALSE
