SPECIFICATION Spec
CONSTANTS
  NTriples = 6
INVARIANT Orthonormal
INVARIANT DetectorRotation
INVARIANT Inversion
CHECK_DEADLOCK FALSE
