--------------------------- MODULE ConvertTrace ---------------------------
(***************************************************************************)
(* C20, code -> specification: every recorded call of                      *)
(* sasmodels.convert.convert_model is checked against the conversion       *)
(* pipeline of ConvertCore (variant "intended"), evaluated by TLC on the   *)
(* recorded input over the tables exported from the working tree.          *)
(*                                                                         *)
(* One event per call:                                                     *)
(*   Convert  name, pars (key -> [t, v]), use_underscore, model_version,   *)
(*            res = [raised, error, name, pars]                            *)
(* Postconditions (all failing ones are reported, as a JSON list of        *)
(* [c = clause, n = name concerned]):                                      *)
(*   Total               the call returns                                  *)
(*   Identity            no table applies (saved by a newer version):      *)
(*                       name and set come back unchanged                  *)
(*   NameOfCurrentModel  the returned name is the entry's current model    *)
(*   AllNamesExist       every returned key is a parameter of that model   *)
(*                       or an attribute legal for it                      *)
(*   ValuesCarried       every old value sits at the key the table maps it *)
(*                       to, SLDs and M0 of 3.x sets times 1e6 (bit-exact  *)
(*                       IEEE product); results of hand conversions that   *)
(*                       solve equations are not constrained (opaque)      *)
(*   Defaults            scale and background present, 1.0 / 0.0 if absent *)
(***************************************************************************)
EXTENDS TraceBase, ConvertCore

VARIABLES l, st
tvars == <<l, st>>

\* .lower/.upper of a rescaled parameter: carried as saved or rescaled like the value
\* (the property does not say; convert.py leaves SLD limits and rescales M0 limits)
SameValue(k, got, exp, scaledLimits) ==
    \/ ValEq(got, exp)
    \/ /\ k \in scaledLimits
       /\ IsNum(got) /\ IsNum(exp)
       /\ FBits(got.v, FMul(exp.v, "1000000.0"))

Fail(c, n) == [c |-> c, n |-> n]

ApplyConvert(e) ==
    LET us == e.use_underscore
        mv == e.model_version
        r == e.res
        x == Convert(e.name, e.pars, us, mv, FALSE)     \* carried keys only, no defaults
        applied == x.hits # <<>>
        m == x.name
        i0 == x.hits[1]
        known == m \in ModelNames
        lim == IF applied /\ known /\ Rescales(VIdxOf[i0], EntryModel[i0])
               THEN ScaledLimitKeys(m) ELSE {}
        fails ==
            IF r.raised THEN {Fail("Total", r.error)}
            ELSE IF ~applied
            THEN (IF r.name = e.name /\ DOMAIN r.pars = DOMAIN e.pars
                     /\ \A k \in DOMAIN e.pars : ValEq(r.pars[k], e.pars[k])
                  THEN {} ELSE {Fail("Identity", r.name)})
            ELSE (IF r.name = m /\ m \in Current THEN {} ELSE {Fail("NameOfCurrentModel", r.name)})
                 \cup (IF known THEN {Fail("AllNamesExist", k) : k \in DOMAIN r.pars \ LegalKeysOf[m][us]}
                       ELSE {})
                 \cup {Fail("ValuesCarried", k) : k \in {k \in DOMAIN x.pars :
                          /\ x.pars[k].t # "opaque"
                          /\ ~(k \in DOMAIN r.pars /\ SameValue(k, r.pars[k], x.pars[k], lim))}}
                 \cup {Fail("Defaults", n) : n \in {n \in {"scale", "background"} :
                          \/ n \notin DOMAIN r.pars
                          \/ /\ n \notin DOMAIN x.pars
                             /\ ~ValEq(r.pars[n], NumV(IF n = "scale" THEN "1.0" ELSE "0.0"))}}
        Order == <<"Total", "Identity", "NameOfCurrentModel", "AllNamesExist", "ValuesCarried", "Defaults">>
        first == CHOOSE i \in 1..Len(Order) :
                    /\ \E f \in fails : f.c = Order[i]
                    /\ \A j \in 1..(i - 1) : \A f \in fails : f.c # Order[j]
    IN IF fails = {} THEN <<>> ELSE <<Order[first], ToJson(fails)>>

TInit == l = 1 /\ st = 0 /\ TLCSet(1, 0) /\ TLCSet(2, 0)
TNext ==
    /\ l <= NLines
    /\ LET e == TraceLog[l]
           bad == IF e.ev = "Convert" THEN ApplyConvert(e) ELSE <<"unknown-event", e.ev>>
       IN IF bad = <<>> THEN TRUE
          ELSE PrintT(<<"REJECT", e.tid, l, bad[1], bad[2]>>) /\ TLCSet(2, TLCGet(2) + 1)
    /\ l' = l + 1
    /\ st' = st
    /\ TLCSet(1, l)
=============================================================================
