\* export of the replay lattice (no state exploration)
SPECIFICATION Spec
CONSTANTS
  Variant = "documented"
  Mode = "export"
CHECK_DEADLOCK FALSE
