\* accumulation + normalisation of <= 9 mesh points (a 3 x 3 mesh), product weights 0..3
\* (0 = gated out), amplitudes -2..2: Cauchy-Schwarz at every prefix and after normalisation
SPECIFICATION DSpec
CONSTANTS
  MaxPts = 9
  MaxWt = 3
  MaxAmp = 2
  Variant = "asCoded"
INVARIANT PrefixCauchySchwarz
INVARIANT CauchySchwarz
INVARIANT EqualityIffUniform
INVARIANT IntensityFromParts
INVARIANT VolumePositive
CHECK_DEADLOCK FALSE
