SPECIFICATION GenSpec
CONSTANTS
  Models = {"vscalar", "broad_peak"}
  Focus = "all"
  WModels = {"broad_peak"}
  QSets = {"q1", "q2"}
  Requests = {"mono", "pd", "empty"}
  Slots = {"k1", "k2"}
  Wrappers = {"w1"}
  MaxOps = 30
  EmptyReq = "empty"
  ModeReq = "mode"
  Variant = "fixed"
  WithExp = FALSE
  TrackHeld = FALSE
  ReturnsView = FALSE
INVARIANT Emit
CHECK_DEADLOCK FALSE
