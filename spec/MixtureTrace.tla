---------------------------- MODULE MixtureTrace ----------------------------
(***************************************************************************)
(* Trace validation for Mixture (C08).  One event per evaluated model      *)
(* expression:                                                             *)
(*   Mix  tree   the expression as parsed (split on +, then *; P@S and     *)
(*               plain models are leaves); every leaf carries I_k = the    *)
(*               component evaluated ALONE with scale 1, background 0 and  *)
(*               its own (un-prefixed) parameters incl. dispersity,        *)
(*               orientation and magnetic parameters; every + node carries *)
(*               its X_scale values                                        *)
(*        scale, background, out                                           *)
(* The specification recombines:                                           *)
(*   Val(leaf) = I;  Val(sum) = sum_k X_scale_k Val(kid_k);  Val(product) = prod_k *)
(*   I = scale Val(root) + background                                      *)
(* for all values the components take, including exact zeros.              *)
(***************************************************************************)
EXTENDS TraceBase, IEEE

VARIABLES l, st
RTol == "1e-13"

RECURSIVE Val(_, _)
Val(node, nq) ==
    IF node.op = "leaf" THEN node.I
    ELSE LET RECURSIVE Acc(_, _)
             Acc(acc, k) ==
                IF k > Len(node.kids) THEN acc
                ELSE LET v == Val(node.kids[k], nq) IN
                     Acc(IF node.op = "+" THEN FVecAxpy(node.scales[k], v, acc) ELSE FVecMul(acc, v), k + 1)
         IN Acc(FVecConst(nq, IF node.op = "+" THEN "0.0" ELSE "1.0"), 1)

\* the size of the terms that are added up at q index i (sums may cancel when a part scale is negative:
\* the rounding allowance is relative to the terms, not to their sum)
RECURSIVE MagAt(_, _)
MagAt(node, i) ==
    IF node.op = "leaf" THEN FAbs(node.I[i])
    ELSE LET RECURSIVE Acc(_, _)
             Acc(acc, k) ==
                IF k > Len(node.kids) THEN acc
                ELSE LET v == MagAt(node.kids[k], i) IN
                     Acc(IF node.op = "+" THEN FAdd(acc, FMul(FAbs(node.scales[k]), v)) ELSE FMul(acc, v), k + 1)
         IN Acc(IF node.op = "+" THEN "0.0" ELSE "1.0", 1)
WithinTerms(e, I) ==
    /\ Len(I) = Len(e.out)
    /\ \A i \in 1..Len(e.out) :
          FLeq(FAbs(FSub(e.out[i], I[i])),
               FAdd(FMul(RTol, FAdd(FMul(FAbs(e.scale), MagAt(e.tree, i)), FAbs(e.background))), "1e-300"))

\* every leaf was evaluated on the same q points as the expression
RECURSIVE ShapeOK(_, _)
ShapeOK(node, nq) == IF node.op = "leaf" THEN Len(node.I) = nq
                     ELSE \A k \in 1..Len(node.kids) : ShapeOK(node.kids[k], nq)

ApplyMix(e) ==
    LET nq == Len(e.out)
        I == FVecShift(e.background, FVecScale(e.scale, Val(e.tree, nq)))
    IN IF e.raised # "" THEN <<"raised", e.raised>>
       ELSE IF ~ShapeOK(e.tree, nq) THEN <<"mixture-law", ToString(<<"result has", nq, "values, the parts have another number", e.out>>)>>
       ELSE IF ~FVecNear(e.out, I, RTol, "1e-300") /\ ~WithinTerms(e, I) THEN <<"mixture-law", ToString(<<"expected", I, "got", e.out>>)>>
       ELSE <<>>

TInit == l = 1 /\ st = 0 /\ TLCSet(1, 0) /\ TLCSet(2, 0)
TNext ==
    /\ l <= NLines
    /\ LET e == TraceLog[l]
           bad == IF e.ev = "Mix" THEN ApplyMix(e) ELSE <<"unknown-event", e.ev>>
       IN IF bad = <<>> THEN TRUE
          ELSE PrintT(<<"REJECT", e.tid, l, bad[1], bad[2]>>) /\ TLCSet(2, TLCGet(2) + 1)
    /\ l' = l + 1 /\ st' = st
    /\ TLCSet(1, l)
=============================================================================
