SPECIFICATION GenSpec
CONSTANTS
  Models = {"sphere", "cylinder", "broad_peak", "sphere@hardsphere", "sphere+cylinder", "vscalar"}
  Focus = "all"
  WModels = {"sphere", "cylinder", "broad_peak"}
  QSets = {"q1", "q2", "qxy"}
  Requests = {"mono", "pd", "pdn", "arr", "pdc", "pd2", "empty", "mode", "mag"}
  Slots = {"k1", "k2", "k3"}
  Wrappers = {"w1", "w2"}
  MaxOps = 40
  EmptyReq = "empty"
  ModeReq = "mode"
  Variant = "fixed"
  WithExp = FALSE
  TrackHeld = FALSE
  ReturnsView = FALSE
INVARIANT Emit
CHECK_DEADLOCK FALSE
