----------------------------- MODULE BuildTrace -----------------------------
(***************************************************************************)
(* Trace validation for Build: real processes running kerneldll.make_dll   *)
(* with a scripted compiler are stepped along a schedule; after every step *)
(* the harness logs the observed state of the final library path and of    *)
(* private compiler outputs.  Every event must be the Build action it      *)
(* names, enabled in the current specification state, with the observed    *)
(* file state equal to the specification's next state.                     *)
(*   begin   new schedule (tid): specification state := Init               *)
(*   step    proc, label, kill, final, nprivpartial                        *)
(*   end     results per process ("ok" value equal to the solitary         *)
(*           reference, "error", "dead")                                   *)
(***************************************************************************)
EXTENDS TraceBase, Build

VARIABLES l, skip
tvars == <<l, skip, vars>>

Act(e) ==
    LET p == e.proc IN
    CASE e.label = "idle" -> Start(p)
      [] e.label = "lookup" -> Lookup(p)
      [] e.label = "mkdir" -> Mkdir(p)
      [] e.label = "writesrc" -> WriteSrc(p)
      [] e.label = "ccbegin" -> CcBegin(p)
      [] e.label = "cchalf" -> CcHalf(p)
      [] e.label = "ccend" -> CcEnd(p)
      [] e.label = "publish" -> Publish(p)
      [] e.label = "unlink" -> Unlink(p)
      [] e.label = "dlopen" -> Dlopen(p)
      [] e.label = "orphan" -> OrphanCcEnd(p)
      [] e.label = "crash" -> Crash(p, e.kill)
      [] e.label = "cckill" -> CcKilled(p)
      [] OTHER -> FALSE

\* observation of the file system after the step
Observed(e) ==
    /\ final' = e.final
    /\ Cardinality({p \in Procs : priv'[p] = "partial"}) = e.nprivpartial

Reset == /\ final' = "absent"
         /\ priv' = [p \in Procs |-> "absent"]
         /\ src' = [p \in Procs |-> FALSE]
         /\ pc' = [p \in Procs |-> "idle"]
         /\ cc' = [p \in Procs |-> FALSE]
         /\ got' = [p \in Procs |-> "none"]
         /\ dir' = FALSE
         /\ seen' = [p \in Procs |-> FALSE]
         /\ crashes' = 0

EndOK(e) == \A p \in Procs :
    LET r == e.results[p] IN
    CASE pc[p] = "done" -> (got[p] = "ok" /\ r = "ok")     \* worked and returned the reference value
      [] pc[p] = "dead" -> r = "dead"
      [] pc[p] = "failed" -> r = "error"      \* its compiler was killed: compile_model raised
      [] pc[p] = "idle" -> r = "idle"
      [] OTHER -> FALSE

Reject(e, clause, detail) ==
    /\ PrintT(<<"REJECT", e.tid, l, clause, detail>>) /\ TLCSet(2, TLCGet(2) + 1)
    /\ skip' = TRUE /\ UNCHANGED vars

TInit == Init /\ l = 1 /\ skip = FALSE /\ TLCSet(1, 0) /\ TLCSet(2, 0)
TNext ==
    /\ l <= NLines
    /\ l' = l + 1
    /\ TLCSet(1, l)
    /\ LET e == TraceLog[l] IN
       IF e.ev = "begin" THEN Reset /\ skip' = FALSE
       ELSE IF skip THEN UNCHANGED <<skip, vars>>
       ELSE IF e.ev = "step" THEN
            IF ~ENABLED Act(e) THEN Reject(e, "action-not-enabled", e.label)
            ELSE IF ~ENABLED (Act(e) /\ Observed(e)) THEN Reject(e, "observed-files-differ", ToString(<<e.label, e.final, e.nprivpartial>>))
            ELSE Act(e) /\ Observed(e) /\ skip' = FALSE
       ELSE IF e.ev = "end" THEN
            IF e.stuck # "" THEN Reject(e, "process-stuck", e.stuck)
            ELSE IF ~NoPartialLoad THEN Reject(e, "NoPartialLoad", "")
            ELSE IF ~NothingPartialLeft THEN Reject(e, "NothingPartialLeft", "")
            ELSE IF ~EndOK(e) THEN Reject(e, "results", ToString(<<e.results, pc, got>>))
            ELSE UNCHANGED <<skip, vars>>
       ELSE Reject(e, "unknown-event", e.ev)
=============================================================================
