----------------------------- MODULE OrientTrace -----------------------------
(***************************************************************************)
(* Trace validation for C05.  Events:                                      *)
(*  Orient  sym ("ac" symmetric | "abc" triaxial); view angles theta, phi, *)
(*          psi (degrees); jitter distributions jt, jp, js = [v, w]        *)
(*          (values in degrees centred on zero, weights) for theta, phi,   *)
(*          psi, jreq = the requested points and width per angle; cutoff;  *)
(*          sz = an optionally dispersed size: weights w, volume V and the *)
(*          model's validity verdict per size point (one point: none);     *)
(*          reffj, vj / reffm, vm = effective radius and volume reported   *)
(*          with the jitter and for the single orientation;                *)
(*          detector points qx[j], qy[j]; V = the particle volume;    *)
(*          I2d[j] = the model's 2-D intensity (scale 1, background 0);    *)
(*          pts[s][m][j] = for size point s and jitter mesh point m (lexicographic over *)
(*          jt x jp x js) the particle-frame vector <<qa,qb,qc>> the       *)
(*          harness used and F2 = the model's own particle-frame           *)
(*          intensity Iqac / Iqabc there (called through an exported       *)
(*          wrapper appended to the generated source)                      *)
(*  Same    a, b: two intensity vectors that a symmetry of the convention  *)
(*          says are equal (detector rotation, inversion, |q| only, 1-D    *)
(*          ignores orientation); tol                                      *)
(* The specification recomputes R = Rz(phi) Ry(theta) Rz(psi) Rx(dphi)     *)
(* Ry(dtheta) Rz(dpsi) and (qa,qb,qc) = R^T (qx,qy,0) over IEEE, checks    *)
(* the harness evaluated the particle-frame function there, and forms the  *)
(* jitter average with weights w |cos dtheta|.                             *)
(***************************************************************************)
EXTENDS TraceBase, IEEE

VARIABLES l, st
Rad(deg) == FMul(deg, FDiv(FPi, "180.0"))
Z == "0.0"
O == "1.0"
MRz(a) == LET c == FCos(Rad(a))  s == FSin(Rad(a)) IN <<<<c, FNeg(s), Z>>, <<s, c, Z>>, <<Z, Z, O>>>>
MRy(a) == LET c == FCos(Rad(a))  s == FSin(Rad(a)) IN <<<<c, Z, s>>, <<Z, O, Z>>, <<FNeg(s), Z, c>>>>
MRx(a) == LET c == FCos(Rad(a))  s == FSin(Rad(a)) IN <<<<O, Z, Z>>, <<Z, c, FNeg(s)>>, <<Z, s, c>>>>
MMul(A, B) == LET E(i, j) == FAdd(FAdd(FMul(A[i][1], B[1][j]), FMul(A[i][2], B[2][j])), FMul(A[i][3], B[3][j])) IN
              <<<<E(1, 1), E(1, 2), E(1, 3)>>, <<E(2, 1), E(2, 2), E(2, 3)>>, <<E(3, 1), E(3, 2), E(3, 3)>>>>
Rot(phi, theta, psi, dphi, dtheta, dpsi) ==
    MMul(MMul(MMul(MMul(MMul(MRz(phi), MRy(theta)), MRz(psi)), MRx(dphi)), MRy(dtheta)), MRz(dpsi))
\* R^T (qx, qy, 0)
ParticleQ(R, qx, qy) == LET E(i) == FAdd(FMul(R[1][i], qx), FMul(R[2][i], qy)) IN <<E(1), E(2), E(3)>>

NearQ(a, b, scale) == FNear(a, b, "0.0", FMul("1e-12", scale))

\* the jitter mesh of one angle against the request: centred on zero (never on the view angle), no more
\* points than asked for, a single point when one point or a zero width was asked for
JitterOK(d, req) ==
    LET n == Len(d.v) IN
    IF req.n <= 1 \/ FEq(req.width, "0.0") THEN n = 1 /\ FEq(d.v[1], "0.0")
    ELSE /\ n <= req.n
         \* a Gaussian jitter narrower than the angle's range (+-360 degrees) keeps every one of its points
         /\ (req.type = "gaussian" /\ FLt(FMul(req.nsigma, req.width), "360.0")) => n = req.n
         /\ \A i \in 1..n : FNear(d.v[i], FNeg(d.v[n + 1 - i]), "0.0", "1e-9") /\ FNear(d.w[i], d.w[n + 1 - i], "1e-12", "0.0")

ApplyOrient(e) ==
    LET nt == Len(e.jt.v)  np == Len(e.jp.v)  ns == Len(e.js.v)
        nq == Len(e.qx)
        M == nt * np * ns
        NS == Len(e.sz.w)                    \* points of the dispersed size (1: none)
        It(m) == ((m - 1) \div (np * ns)) + 1
        Ip(m) == (((m - 1) \div ns) % np) + 1
        Is(m) == ((m - 1) % ns) + 1
        W(m) == FMul(FMul(FMul(e.jt.w[It(m)], e.jp.w[Ip(m)]), e.js.w[Is(m)]), FAbs(FCos(Rad(e.jt.v[It(m)]))))
        R(m) == Rot(e.phi, e.theta, e.psi, e.jp.v[Ip(m)], e.jt.v[It(m)], e.js.v[Is(m)])
        QOK(s, m, j) ==
            LET p == ParticleQ(R(m), e.qx[j], e.qy[j])
                g == e.pts[s][m][j].q
                qn == FSqrt(FAdd(FMul(e.qx[j], e.qx[j]), FMul(e.qy[j], e.qy[j])))
            IN IF e.sym = "abc" THEN NearQ(g[1], p[1], qn) /\ NearQ(g[2], p[2], qn) /\ NearQ(g[3], p[3], qn)
               ELSE NearQ(FSqrt(FAdd(FMul(g[1], g[1]), FMul(g[2], g[2]))),
                          FSqrt(FAdd(FMul(p[1], p[1]), FMul(p[2], p[2]))), qn) /\ NearQ(g[3], p[3], qn)
        \* mesh point (s, m) takes part when the model declares the size valid and its combined weight (the
        \* |cos dtheta| factor included) exceeds the cutoff
        WW(x) == LET s == ((x - 1) \div M) + 1  m == ((x - 1) % M) + 1
                     w == FMul(e.sz.w[s], W(m))
                 IN IF e.sz.valid[s] /\ FLt(e.cutoff, w) THEN w ELSE Z
        ws == [x \in 1..(NS * M) |-> WW(x)]
        vs == [x \in 1..(NS * M) |-> e.sz.V[((x - 1) \div M) + 1]]
        norm == FDot(ws, vs)
        \* (points that take no part may carry NaN: the model is not defined there)
        expect == [j \in 1..nq |-> FDiv(FDot(ws, [x \in 1..(NS * M) |-> IF FEq(ws[x], Z) THEN Z
                                                                        ELSE e.pts[((x - 1) \div M) + 1][((x - 1) % M) + 1][j].F2]), norm)]
        nothing == \A x \in 1..(NS * M) : FEq(ws[x], Z)
    IN IF e.raised # "" THEN <<"raised", e.raised>>
       \* parameters the model itself declares invalid: no point qualifies, the result is the background (0)
       ELSE IF ~e.valid /\ NS = 1 THEN (IF FVecEq(e.I2d, FVecConst(nq, Z)) THEN <<>> ELSE <<"invalid-parameters-not-excluded", ToString(e.I2d)>>)
       ELSE IF ~(JitterOK(e.jt, e.jreq.theta) /\ JitterOK(e.jp, e.jreq.phi) /\ JitterOK(e.js, e.jreq.psi)) THEN
            <<"jitter-mesh-not-about-zero", ToString(<<e.jt.v, e.jp.v, e.js.v, e.jreq>>)>>
       \* an empty jitter distribution is an empty mesh (C01), as is a mesh whose every point is cut off: background
       ELSE IF M = 0 \/ nothing THEN (IF FVecEq(e.I2d, FVecConst(nq, Z)) THEN <<>> ELSE <<"empty-jitter-mesh-not-background", ToString(e.I2d)>>)
       ELSE IF Len(e.pts) # NS \/ \E s \in 1..NS : Len(e.pts[s]) # M THEN <<"harness-mesh-size", ToString(<<Len(e.pts), NS, M>>)>>
       ELSE IF \E s \in 1..NS, m \in 1..M : \E j \in 1..nq : ~QOK(s, m, j) THEN
            <<"harness-particle-frame-vector", ToString(CHOOSE x \in {<<s, m, j>> : s \in 1..NS, m \in 1..M, j \in 1..nq} : ~QOK(x[1], x[2], x[3]))>>
       ELSE IF ~FVecNear(e.I2d, expect, "1e-9", "1e-300") THEN <<"rotation-convention-or-jitter-average", ToString(<<"expected", expect, "got", e.I2d>>)>>
       \* jitter turns the particle, it does not resize it: effective radius and volume as for the single orientation
       ELSE IF e.valid /\ M > 0 /\ ~(FNear(e.reffj, e.reffm, "1e-12", "0.0") /\ FNear(e.vj, e.vm, "1e-12", "0.0")) THEN
            <<"jitter-changes-radius-or-volume", ToString(<<"mode", e.ermode, "with jitter", e.reffj, e.vj, "single orientation", e.reffm, e.vm>>)>>
       ELSE <<>>

ApplySame(e) == IF e.raised # "" THEN <<"raised", e.raised>>
                ELSE IF FVecNear(e.a, e.b, e.tol, "1e-300") THEN <<>> ELSE <<e.law, ToString(<<e.a, e.b>>)>>

TInit == l = 1 /\ st = 0 /\ TLCSet(1, 0) /\ TLCSet(2, 0)
TNext ==
    /\ l <= NLines
    /\ LET e == TraceLog[l]
           bad == IF e.ev = "Orient" THEN ApplyOrient(e) ELSE IF e.ev = "Same" THEN ApplySame(e) ELSE <<"unknown-event", e.ev>>
       IN IF bad = <<>> THEN TRUE
          ELSE PrintT(<<"REJECT", e.tid, l, bad[1], bad[2]>>) /\ TLCSet(2, TLCGet(2) + 1)
    /\ l' = l + 1 /\ st' = st
    /\ TLCSet(1, l)
=============================================================================
