------------------------ MODULE ResolutionLimitTrace ------------------------
(***************************************************************************)
(* C04 - validation of refinement ladders recorded from the real classes.  *)
(*                                                                         *)
(* Ladder   cls (pinhole | slitL | slitW | slitLW), q (data points),       *)
(*          sigma | L, W, coef (polynomial theory), rungs: for             *)
(*          h, h/2, h/4 the class was constructed with a user-supplied     *)
(*          uniform q_calc of spacing h (first, last, maxstep, ncalc of    *)
(*          the grid the object kept are logged) and applied to            *)
(*          f(q_calc); out = the smeared values.                           *)
(* Ladder2D qx, qy, dqx (radial), dqy (tangential), A = <<a, b, c>>, c0;   *)
(*          one rung per accuracy level: out = Pinhole2D.apply(f).         *)
(* Clauses: constructs, harness-grid (the recorded grid really has the     *)
(* spacing and covers every window), refines (h halves from rung to rung), *)
(* converges (|out - E| <= K*(h/width)*scale(f), closed forms and K in     *)
(* ResolutionLimitCore), and for length+width with an even polynomial      *)
(* documented-rule-near-double-integral.  Every ladder also prints its     *)
(* worst err/bound ratio (MARGIN) for the evidence file.                   *)
(***************************************************************************)
EXTENDS TraceBase, ResolutionLimitCore, ResOps, FiniteSets

VARIABLES l, st
MinOf(S) == CHOOSE i \in S : \A j \in S : i <= j
Bad(ok, clause, detail) == IF ok THEN <<>> ELSE << <<clause, detail>> >>
Fudge == "1.000000001"

ExpectAt(e, i) == CASE e.cls = "pinhole" -> PinExpect(e.coef, e.q[i], e.sigma[i])
                    [] e.cls = "slitL" -> LExpect(e.coef, e.q[i], e.L)
                    [] e.cls = "slitW" -> WExpect(e.coef, e.q[i], e.W)
                    [] e.cls = "slitLW" -> LWExpect(e.coef, e.q[i], e.L, e.W)
BoundAt(e, i, h) == CASE e.cls = "pinhole" -> PinBound(e.coef, e.q[i], e.sigma[i], h)
                      [] e.cls = "slitL" -> LBound(e.coef, e.q[i], e.L, h)
                      [] e.cls = "slitW" -> WBound(e.coef, e.q[i], e.W, h)
                      [] e.cls = "slitLW" -> LWBound(e.coef, e.q[i], e.L, e.W, h)
\* (width only with q < W: the window of |q+v| starts at zero; the positive grid must start within
\* one step of it)
\* (pinhole windows reaching below zero: the grid is taken at |q| and the library leaves out |q| < 0.02 min(q))
WinLoAt(e, i, h) == CASE e.cls = "pinhole" -> FMax(PinLo(e.q[i], e.sigma[i]), FAdd(FMul("0.02", e.q[1]), FMul("4.0", h)))
                      [] e.cls = "slitL" -> e.q[i]
                      [] e.cls = "slitW" -> FMax(FSub(e.q[i], e.W), FMul(h, Fudge))
                      [] OTHER -> FSub(e.q[i], e.W)
WinHiAt(e, i) == CASE e.cls = "pinhole" -> PinHi(e.q[i], e.sigma[i])
                   [] e.cls = "slitL" -> Hyp(e.q[i], e.L)
                   [] e.cls = "slitW" -> FAdd(e.q[i], e.W)
                   [] e.cls = "slitLW" -> LWHi(e.q[i], e.L, e.W)

ApplyLadder(e) ==
    LET n == Len(e.q)
        R == Len(e.rungs)
        want == [i \in 1..n |-> ExpectAt(e, i)]
        gridok(r) == /\ FLeq(e.rungs[r].maxstep, FMul(e.rungs[r].h, Fudge))
                     /\ \A i \in 1..n : FLeq(e.rungs[r].first, WinLoAt(e, i, e.rungs[r].h)) /\ FLeq(WinHiAt(e, i), e.rungs[r].last)
                     /\ Len(e.rungs[r].out) = n
        ratio(r, i) == Ratio(e.rungs[r].out[i], want[i], BoundAt(e, i, e.rungs[r].h))
        worst == RMax([x \in 1..(R * n) |-> ratio(((x - 1) \div n) + 1, ((x - 1) % n) + 1)])
        badr == {r \in 1..R : \E i \in 1..n : ~Within(e.rungs[r].out[i], want[i], BoundAt(e, i, e.rungs[r].h))}
        even == \A j \in 1..Len(e.coef) : (j % 2 = 0) => FEq(e.coef[j], Zero)
    IN
    IF e.raised THEN << <<"constructs", e.error>> >>
    \* a grid the caller supplied is the harness's business; the grid the library built itself (q_calc = None) must
    \* have the data spacing and cover every window
    ELSE IF \E r \in 1..R : ~gridok(r) THEN
         << <<IF e.supplied THEN "harness-grid" ELSE "default-grid-does-not-cover-windows",
              ToString(<<"rung", MinOf({r \in 1..R : ~gridok(r)}), "first", e.rungs[1].first, "last", e.rungs[1].last>>)>> >>
    ELSE
      Bad(\A r \in 1..(R - 1) : FEq(FMul("2.0", e.rungs[r + 1].h), e.rungs[r].h), "refines", "")
      \o Bad(badr = {}, "converges",
             LET r == MinOf(badr)
                 i == MinOf({j \in 1..n : ~Within(e.rungs[r].out[j], want[j], BoundAt(e, j, e.rungs[r].h))})
             IN ToString(<<"rung", r, "h", e.rungs[r].h, "q", e.q[i], "got", e.rungs[r].out[i], "expected", want[i],
                           "bound", BoundAt(e, i, e.rungs[r].h)>>))
      \o (IF e.cls = "slitLW" /\ even
          THEN \* the documented 61-point rule in the width direction stays within 0.5% of scale(f) of the
               \* double integral (pure mathematics: it does not converge to it)
               Bad(\A i \in 1..n : FLeq(FAbs(FSub(want[i], LWExpectExact(e.coef, e.q[i], e.L, e.W))),
                                        FMul("0.005", Scale(e.coef, FSub(e.q[i], e.W), LWHi(e.q[i], e.L, e.W)))),
                   "documented-rule-near-double-integral", "")
          ELSE <<>>)
      \o (IF PrintT(<<"MARGIN", e.cls, worst>>) THEN <<>> ELSE <<>>)

ApplyLadder2D(e) ==
    LET n == Len(e.qx)
        R == Len(e.rungs)
        want == [i \in 1..n |-> E2D(e.A, e.c0, e.qx[i], e.qy[i], e.dqx[i], e.dqy[i])]
        bound(r, i) == Bound2D(e.rungs[r].acc, e.A, e.qx[i], e.qy[i], e.dqx[i], e.dqy[i])
        badr == {r \in 1..R : \E i \in 1..n : ~Within(e.rungs[r].out[i], want[i], bound(r, i))}
        worst(r) == RMax([i \in 1..n |-> Ratio(e.rungs[r].out[i], want[i], bound(r, i))])
    IN
    IF e.raised THEN << <<"constructs", e.error>> >>
    ELSE Bad(\A r \in 1..R : Len(e.rungs[r].out) = n, "harness-grid", "")
         \o Bad(badr = {}, "converges",
                LET r == MinOf(badr)
                    i == MinOf({j \in 1..n : ~Within(e.rungs[r].out[j], want[j], bound(r, j))})
                IN ToString(<<"accuracy", e.rungs[r].acc, "qx", e.qx[i], "qy", e.qy[i], "got", e.rungs[r].out[i],
                              "expected", want[i], "bound", bound(r, i)>>))
         \o (IF \A r \in 1..R : PrintT(<<"MARGIN", "2d-" \o e.rungs[r].acc, worst(r)>>) THEN <<>> ELSE <<>>)

Verdict(e) == CASE e.ev = "Ladder" -> ApplyLadder(e)
                [] e.ev = "Ladder2D" -> ApplyLadder2D(e)
                [] OTHER -> << <<"unknown-event", e.ev>> >>

\* see ResolutionTrace: a detail ending in a quote mark keeps TLC from wrapping the printed tuple
Pad(d) == d \o " \"."
TInit == l = 1 /\ st = 0 /\ TLCSet(1, 0) /\ TLCSet(2, 0)
TNext ==
    /\ l <= NLines
    /\ LET e == TraceLog[l]
           all == Verdict(e)
           \* one verdict per clause (register 2 counts the REJECT lines the harness must parse)
           bads == SelectSeq([k \in 1..Len(all) |-> IF \E j \in 1..(k - 1) : all[j][1] = all[k][1] THEN <<>> ELSE all[k]],
                             LAMBDA x : x # <<>>)
       IN IF bads = <<>> THEN TRUE
          ELSE /\ \A k \in 1..Len(bads) : PrintT(<<"REJECT", e.tid, l, bads[k][1], Pad(bads[k][2])>>)
               /\ TLCSet(2, TLCGet(2) + Len(bads))
    /\ l' = l + 1
    /\ st' = st
    /\ TLCSet(1, l)
=============================================================================
