---------------------------- MODULE Extrapolate ----------------------------
(***************************************************************************)
(* resolution.linear_extrapolation (C03, design level): the default        *)
(* calculation grid of Pinhole1D / Slit1D extends the data's q values down *)
(* to q_min and up to q_max with about the step of the first, resp. last,  *)
(* data interval.  Data may hold the same q twice (merged settings), so    *)
(* that interval can be zero, and there may be a single point.             *)
(*                                                                         *)
(* Integer model: q is a non-decreasing sequence over 1..M; the added      *)
(* points below are q_min + k (q[1] - q_min)/n_low, k = 0..n_low-1, with   *)
(* n_low = ceil((q[1] - q_min)/delta) when the code divides and 15         *)
(* otherwise; points are kept as numerators over the common denominator    *)
(* n_low (above: n_high).  Fallback = "zeroStep" is the code as written    *)
(* (the fixed count whenever delta is not positive); "singleOnly" (the     *)
(* fixed count for a single data point only) is the failing control: with  *)
(* a repeated end point it divides by zero.                                *)
(*                                                                         *)
(* Bound to the code by C03's anchors "first / last / both ends repeated"  *)
(* and the single-point anchors (ResolutionTrace clauses constructs,       *)
(* covers-low, covers-high, q_calc increasing).                            *)
(***************************************************************************)
EXTENDS Integers, Sequences, FiniteSets, TLC

CONSTANTS M, MaxLen, Fallback      \* "zeroStep" | "singleOnly"

Fixed == 15
NonDecreasing(s) == \A i \in 1..(Len(s) - 1) : s[i] <= s[i + 1]
Data == UNION {{s \in [1..n -> 1..M] : NonDecreasing(s)} : n \in 1..MaxLen}
CeilDiv(a, b) == (a + b - 1) \div b

VARIABLES q, qmin, qmax, phase,
          nlow, nhigh,    \* number of intervals added below / above (0: nothing added)
          err             \* a division by zero happened
vars == <<q, qmin, qmax, phase, nlow, nhigh, err>>

Init == /\ q \in Data /\ qmin \in (-2)..M /\ qmax \in 1..(M + 3) /\ qmin <= qmax
        /\ phase = "call" /\ nlow = 0 /\ nhigh = 0 /\ err = FALSE

Divides(n, delta) == IF Fallback = "zeroStep" THEN delta > 0 ELSE n > 1
Count(gap, n, delta) == IF Divides(n, delta) THEN (IF delta = 0 THEN -1 ELSE CeilDiv(gap, delta)) ELSE Fixed

Extend ==
    /\ phase = "call"
    /\ LET n == Len(q)
           dl == IF n > 1 THEN q[2] - q[1] ELSE 0
           dh == IF n > 1 THEN q[n] - q[n - 1] ELSE 0
           cl == IF qmin < q[1] THEN Count(q[1] - qmin, n, dl) ELSE 0
           ch == IF qmax > q[n] THEN Count(qmax - q[n], n, dh) ELSE 0
       IN  /\ err' = (cl = -1 \/ ch = -1)
           /\ nlow' = IF cl = -1 THEN 0 ELSE cl
           /\ nhigh' = IF ch = -1 THEN 0 ELSE ch
    /\ phase' = "done"
    /\ UNCHANGED <<q, qmin, qmax>>

Next == Extend \/ (phase = "done" /\ UNCHANGED vars)
Spec == Init /\ [][Next]_vars

Done == phase = "done"
n == Len(q)
\* the k-th added point below is (qmin*nlow + k*(q[1] - qmin)) / nlow, k = 0..nlow-1; above (q[n]*nhigh + k*(qmax - q[n])) / nhigh,
\* k = 1..nhigh
LowNum(k) == qmin * nlow + k * (q[1] - qmin)
HighNum(k) == q[n] * nhigh + k * (qmax - q[n])

Constructs == Done => ~err
\* the grid reaches the requested limits
CoversLow == Done /\ ~err /\ qmin < q[1] => nlow >= 1 /\ LowNum(0) = qmin * nlow
CoversHigh == Done /\ ~err /\ qmax > q[n] => nhigh >= 1 /\ HighNum(nhigh) = qmax * nhigh
\* added points are strictly increasing and strictly outside the data range
IncreasingLow == Done /\ ~err /\ nlow >= 1 =>
                    /\ \A k \in 0..(nlow - 2) : LowNum(k) < LowNum(k + 1)
                    /\ LowNum(nlow - 1) < q[1] * nlow
IncreasingHigh == Done /\ ~err /\ nhigh >= 1 =>
                    /\ \A k \in 1..(nhigh - 1) : HighNum(k) < HighNum(k + 1)
                    /\ HighNum(1) > q[n] * nhigh
\* "about the same size": with a positive end interval the added step is not larger than it
StepLow == Done /\ ~err /\ nlow >= 1 /\ n > 1 /\ q[2] > q[1] => (q[1] - qmin) <= nlow * (q[2] - q[1])
StepHigh == Done /\ ~err /\ nhigh >= 1 /\ n > 1 /\ q[n] > q[n - 1] => (qmax - q[n]) <= nhigh * (q[n] - q[n - 1])
\* the number of added points is bounded by the gap (in units of the smallest step) or the fixed count
Bounded == Done /\ ~err => nlow <= IF q[1] - qmin > Fixed THEN q[1] - qmin ELSE Fixed
=============================================================================
