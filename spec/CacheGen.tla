------------------------------ MODULE CacheGen ------------------------------
(* Behaviour export for replay: edit / load / new-process histories of Cache. *)
EXTENDS Cache, Json

VARIABLE hist
GenInit == Init /\ hist = <<>>
GenNext ==
    \/ \E f \in Files, v \in Versions : Edit(f, v) /\ hist' = Append(hist, [a |-> "Edit", f |-> f, v |-> v, p |-> "", b |-> 0])
    \/ \E p \in Procs, b \in Bits : Load(p, b) /\ hist' = Append(hist, [a |-> "Load", f |-> "", v |-> 0, p |-> p, b |-> b])
    \* the convenience functions direct_model.Iq / Iqxy / Gxi: a load at the default precision followed by one evaluation
    \/ \E p \in Procs : Load(p, 64) /\ hist' = Append(hist, [a |-> "IqLoad", f |-> "", v |-> 0, p |-> p, b |-> 64])
    \/ \E p \in Procs : LoadSv(p) /\ hist' = Append(hist, [a |-> "SvLoad", f |-> "", v |-> 0, p |-> p, b |-> 64])
    \/ \E p \in Procs : NewProcess(p) /\ hist' = Append(hist, [a |-> "NewProcess", f |-> "", v |-> 0, p |-> p, b |-> 0])
GenSpec == GenInit /\ [][GenNext]_<<vars, hist>>
Emit == (steps = MaxSteps) => PrintT(<<"BEHAVIOUR", ToJson([steps |-> hist])>>)
=============================================================================
