------------------------------ MODULE Product ------------------------------
(* Design-level check of ProductCore: every P/S table shape (see ProductCore for the model). *)
EXTENDS ProductCore, Json

CONSTANTS MaxP, MaxS
PNames == <<"p1", "p2", "p3", "p4">>
PShapes == {[pars |-> [k \in 1..n |-> [id |-> IF k = vf THEN "volfraction" ELSE IF k = col THEN "s3" ELSE PNames[k],
                                       kind |-> IF k \in sld /\ k # vf THEN "sld" ELSE IF k = 1 THEN "volume" ELSE ""]],
             haveFq |-> fq, nmodes |-> nm] :
            n \in 1..MaxP, vf \in 0..MaxP, col \in 0..MaxP, sld \in SUBSET (1..2), fq \in BOOLEAN, nm \in {0, 2}}
SShapes == {[pars |-> <<[id |-> "radius_effective", kind |-> "volume"], [id |-> "volfraction", kind |-> ""]>>
                      \o [k \in 1..n |-> [id |-> IF k = 1 THEN "s3" ELSE "s4", kind |-> ""]]] : n \in 0..(MaxS - 2)}

NoDupP(x) == \A a, b \in 1..Len(x.pars) : a # b => x.pars[a].id # x.pars[b].id
ASSUME PrintT(<<"SHAPES", ToJson([p |-> {x \in PShapes : NoDupP(x)}, s |-> SShapes])>>)
VARIABLES P, S, checked
Init == P \in {x \in PShapes : NoDupP(x)} /\ S \in SShapes /\ checked = FALSE
Check == ~checked /\ checked' = TRUE /\ UNCHANGED <<P, S>>
Spec == Init /\ [][Check]_<<P, S, checked>>
RoutingHolds == Composable(P, S) => Routing(P, S)
NamesDistinct == LET ids == CombinedIds(P, S) IN \A a, b \in 1..Len(ids) : a # b => ids[a] # ids[b]
=============================================================================
