\* stated bound K = 5/4 (5 x the sharp constant 1/4 of the normalised membership rule)
SPECIFICATION Spec
CONSTANTS
  QSet = {2, 3, 5, 6, 7}
  WSet = {8, 11, 12, 16}
  H0 = 8
  KMax = 3
  KNum = 5
  KDen = 4
  Normalise = TRUE
  Fold = TRUE
  FoldWeight = 1
  Export = FALSE
INVARIANT ErrBound
PROPERTY BoundHalves
CHECK_DEADLOCK FALSE
