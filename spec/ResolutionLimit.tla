--------------------------- MODULE ResolutionLimit ---------------------------
(***************************************************************************)
(* C04 - smeared values converge to the documented resolution integrals,   *)
(* with an error bounded by K*(h/width)*scale(f): a bound linear in the    *)
(* grid spacing h, so every Refine step (h -> h/2) halves it.              *)
(*                                                                         *)
(* Design level (this module, explored by TLC in exact integer             *)
(* arithmetic): the width-only slit rule of resolution.py on a uniform     *)
(* calculation grid - the theory is sampled at the grid points x = off+j*h *)
(* lying in [q-W, q+W], each weighted by its bin width h, the row          *)
(* normalised - against (1/2W) int (q+v)^k dv = ((q+W)^(k+1) -             *)
(* (q-W)^(k+1)) / (2W(k+1)) for every q, W, grid offset and k = 1..3, and  *)
(* along every refinement ladder h, h/2, h/4, h/8.  The pinhole (erf) and  *)
(* slit-length (sqrt) weights are not rational; for them and for the 2-D   *)
(* cloud the same law is checked on ladders recorded from the real classes *)
(* (ResolutionLimitTrace, closed forms in ResolutionLimitCore).            *)
(*                                                                         *)
(* Fold = TRUE explores the other half of the documented integrand         *)
(* I(|q+v|): W > q, where the part of the window below zero is reflected   *)
(* onto [0, W-q] and the grid points there count FoldWeight = 2 times      *)
(* (resolution.py: in_x + abs_x); exact mean = ((q+W)^(k+1) +              *)
(* (W-q)^(k+1)) / (2W(k+1)).  FoldWeight = 1 (the reflection dropped)      *)
(* must fail.                                                              *)
(*                                                                         *)
(* Variants that must fail: KNum/KDen = 1/10 (the stated bound is not      *)
(* vacuous: the error really is of order h/W), Normalise = FALSE (the      *)
(* as-written rule sum(h)/(2W) is off by the window misfit).               *)
(***************************************************************************)
EXTENDS Integers, Sequences, FiniteSets, TLC, Json

CONSTANTS QSet, WSet, H0, KMax, KNum, KDen, Normalise, Export, Fold, FoldWeight

VARIABLES q, W, h, off, k
vars == <<q, W, h, off, k>>

Abs(x) == IF x < 0 THEN -x ELSE x
RECURSIVE Pow(_, _)
Pow(x, n) == IF n = 0 THEN 1 ELSE x * Pow(x, n - 1)

\* grid points off + j*h (j >= 0) whose centre lies in the window; the grid is positive only
Lo == IF W > q THEN 1 ELSE q - W
Members == {x \in Lo..(q + W) : x >= off /\ (x - off) % h = 0}
\* points in the reflected part of the window count FoldWeight times
Wt(x) == IF W > q /\ x < W - q THEN FoldWeight ELSE 1
RECURSIVE SumPow(_, _)
SumPow(S, n) == IF S = {} THEN 0 ELSE LET x == CHOOSE y \in S : TRUE IN Wt(x) * Pow(x, n) + SumPow(S \ {x}, n)

Cnt == SumPow(Members, 0)
S == SumPow(Members, k)
\* exact mean * 2W(k+1), and scale(f) for f = t^k over the window of |q+v|
Nk == IF W > q THEN Pow(q + W, k + 1) + Pow(W - q, k + 1) ELSE Pow(q + W, k + 1) - Pow(q - W, k + 1)
Vk == IF W > q THEN Pow(q + W, k) ELSE Pow(q + W, k) - Pow(q - W, k)
\* smeared = S/Cnt (normalised) or S*h/(2W) (as written);  exact = Nk/(2W(k+1))
\* |smeared - exact| <= (KNum/KDen)*(h/W)*Vk, cross-multiplied
ErrBound ==
    Cnt > 0 /\
    IF Normalise
    THEN Abs(S * 2 * W * (k + 1) - Cnt * Nk) * KDen <= KNum * h * Vk * Cnt * 2 * (k + 1)
    ELSE Abs(S * h * (k + 1) - Nk) * KDen <= KNum * h * Vk * 2 * (k + 1)

Init == /\ q \in QSet /\ W \in WSet /\ (IF Fold THEN W > q ELSE W < q)
        /\ h = H0 /\ off \in 0..(H0 - 1) /\ k \in 1..KMax
Refine == /\ h % 2 = 0
          /\ h' = h \div 2
          /\ off' \in 0..(h' - 1)
          /\ UNCHANGED <<q, W, k>>
Next == Refine
Spec == Init /\ [][Next]_vars

\* the bound halves with every refinement step
BoundHalves == [][KNum * h' * 2 = KNum * h]_vars

----------------------------------------------------------------------------
(* Ladders replayed on the real classes: class x relative width x polynomial; the harness
   draws q, the grid offset and the three rungs h = r*width, r in Rungs(cls) (not commensurate
   with the window, so that the number of grid points inside it varies). *)
Polys == {<<"0.0", "1.0">>, <<"0.0", "0.0", "1.0">>, <<"1.0", "2.0", "3.0">>, <<"0.0", "0.0", "0.0", "1.0">>,
          <<"2.0", "-1.0", "4.0", "1.0">>, <<"0.0", "0.0", "0.0", "0.0", "1.0">>, <<"5.0", "0.0", "-2.0", "0.0", "3.0">>}
Even(p) == \A j \in 1..Len(p) : (j % 2 = 0) => p[j] = "0.0"
Rungs(cls) == CASE cls = "pinhole" -> <<"0.093", "0.0465", "0.02325">>
                [] cls = "slitW" -> <<"0.037", "0.0185", "0.00925">>
                [] cls = "slitL" -> <<"0.19", "0.095", "0.0475">>
                [] cls = "slitLW" -> <<"0.19", "0.095", "0.0475">>
Ladders ==
    {[cls |-> "pinhole", rel |-> r, rel2 |-> "0.0", coef |-> p, rungs |-> Rungs("pinhole")] :
        r \in {"0.05", "0.1", "0.2", "0.3"}, p \in {x \in Polys : Len(x) <= 4}}
    \* windows reaching below q = 0 (q < 2.5 sigma): the theory is taken at |q|; even polynomials, for which
    \* f(|x|) = f(x) and the closed form is unchanged
    \cup {[cls |-> "pinhole", rel |-> r, rel2 |-> "0.0", coef |-> p, rungs |-> Rungs("pinhole")] :
        r \in {"0.6", "1.0"}, p \in {x \in Polys : Even(x)}}
    \cup {[cls |-> "slitL", rel |-> r, rel2 |-> "0.0", coef |-> p, rungs |-> Rungs("slitL")] :
        r \in {"0.1", "0.3", "0.6", "1.5", "3.0"}, p \in Polys}
    \cup {[cls |-> "slitW", rel |-> r, rel2 |-> "0.0", coef |-> p, rungs |-> Rungs("slitW")] :
        r \in {"0.1", "0.3", "0.6", "1.2", "2.0"}, p \in Polys}
    \cup {[cls |-> "slitLW", rel |-> r, rel2 |-> r2, coef |-> p, rungs |-> Rungs("slitLW")] :
        r \in {"0.3", "0.6", "1.5"}, r2 \in {"0.1", "0.3", "0.6"}, p \in Polys}
Forms == {<<"1.0", "0.0", "1.0">>, <<"1.0", "0.0", "0.0">>, <<"0.0", "0.0", "1.0">>, <<"2.0", "1.0", "3.0">>,
          <<"1.0", "2.0", "-1.0">>, <<"0.0", "1.0", "0.0">>, <<"3.0", "-1.0", "0.5">>}
Ladders2D == {[cls |-> "pinhole2d", A |-> a, c0 |-> c, relr |-> rr, relt |-> rt] :
                a \in Forms, c \in {"0.0", "5.0"}, rr \in {"0.02", "0.1", "0.3"}, rt \in {"0.02", "0.1", "0.3", "0.6"}}

ASSUME Export => /\ \A c \in Ladders : PrintT(<<"LADDER", ToJson(c)>>)
                 /\ \A c \in Ladders2D : PrintT(<<"LADDER2D", ToJson(c)>>)
=============================================================================
