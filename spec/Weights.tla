------------------------------- MODULE Weights -------------------------------
(***************************************************************************)
(* C02, design level: WeightsCore over EXACT RATIONALS.                    *)
(*                                                                         *)
(* TLC evaluates GetWeights for every configuration of a dyadic lattice    *)
(* (types x centres x PD x npts 0..6 x nsigma x limit patterns x relative/ *)
(* absolute) and checks the property's clauses on each result.  What is    *)
(* checked here is the STRUCTURE: which grid points exist, which survive   *)
(* inclusive limits and the distribution's support, the degenerate branch  *)
(* and its own limit test, normalisation after truncation, relative vs     *)
(* absolute width and centring.  The densities are polynomial stand-ins    *)
(* that keep the argument structure of the documented ones (Gaussian and   *)
(* Laplace depend on (x-c)/sigma; lognormal and Schulz also on x/c, flat   *)
(* types are constant), so that proportionality, scale invariance and      *)
(* centring are meaningful; the documented formulas themselves are in      *)
(* WeightsTrace.tla (IEEE doubles).                                        *)
(*                                                                         *)
(* The same module exports the configurations that are replayed on the     *)
(* implementation (Export.cfg-style run: see WeightsGen.cfg).              *)
(***************************************************************************)
EXTENDS Integers, Sequences, SequencesExt, FiniteSets, TLC, Json, IOUtils, Randomization

CONSTANTS
    Variant,          \* "documented" or a wrong reading (must violate an invariant)
    Mode              \* "check" | "export"

-----------------------------------------------------------------------------
(* exact rationals <<n, d>>, d > 0, gcd(n, d) = 1;  <<1, 0>> = +inf, <<-1, 0>> = -inf *)
AbsI(a) == IF a < 0 THEN -a ELSE a
RECURSIVE Gcd(_, _)
Gcd(a, b) == IF b = 0 THEN a ELSE Gcd(b, a % b)
Norm(n, d) ==
    IF d = 0 THEN <<IF n > 0 THEN 1 ELSE -1, 0>>
    ELSE IF n = 0 THEN <<0, 1>>
    ELSE LET g == Gcd(AbsI(n), AbsI(d))
             s == IF d < 0 THEN -1 ELSE 1
         IN <<s * (n \div g), s * (d \div g)>>     \* g divides both: \div is exact
R(n, d) == Norm(n, d)
RInf(p) == p[2] = 0
RAdd(p, q) ==
    IF RInf(p) THEN p ELSE IF RInf(q) THEN q
    ELSE LET g == Gcd(p[2], q[2])
         IN Norm(p[1] * (q[2] \div g) + q[1] * (p[2] \div g), (p[2] \div g) * q[2])
RNeg(p) == <<-p[1], p[2]>>
RSub(p, q) == RAdd(p, RNeg(q))
SgnI(a) == IF a < 0 THEN -1 ELSE IF a > 0 THEN 1 ELSE 0
RMul(p, q) ==
    IF p[1] = 0 \/ q[1] = 0 THEN <<0, 1>>
    ELSE IF RInf(p) \/ RInf(q) THEN <<SgnI(p[1]) * SgnI(q[1]), 0>>
    ELSE LET g1 == Gcd(AbsI(p[1]), q[2])
             g2 == Gcd(AbsI(q[1]), p[2])
         IN Norm((p[1] \div g1) * (q[1] \div g2), (p[2] \div g2) * (q[2] \div g1))
RInv(p) == IF p[1] < 0 THEN <<-p[2], -p[1]>> ELSE <<p[2], p[1]>>
RDiv(p, q) == RMul(p, RInv(q))
RAbs(p) == <<AbsI(p[1]), p[2]>>
RLeq(p, q) == p[1] * q[2] <= q[1] * p[2]       \* valid for the infinities too (d = 0)
RLt(p, q) == p[1] * q[2] < q[1] * p[2]
REq(p, q) == p = q
RFromInt(n) == <<n, 1>>
RECURSIVE RSumFrom(_, _)
RSumFrom(v, k) == IF k > Len(v) THEN <<0, 1>> ELSE RAdd(v[k], RSumFrom(v, k + 1))
RSum(v) == RSumFrom(v, 1)
RZero == <<0, 1>>
ROne == <<1, 1>>
PosInf == <<1, 0>>
NegInf == <<-1, 0>>

(* Polynomial stand-ins for the densities: positive everywhere, distinct per type, not    *)
(* symmetric for the skewed types, functions of z = (x-c)/sigma and rr = x/c only.       *)
StandIn(type, x, c, s) ==
    LET z == RDiv(RSub(x, c), s)
        zz == RMul(z, z)
    IN CASE type = "gaussian" -> RAdd(ROne, zz)
         [] type = "boltzmann" -> RAdd(ROne, RAbs(z))
         [] type = "lognormal" -> RAdd(RAdd(R(2, 1), zz), RDiv(x, c))
         [] type = "schulz" -> RAdd(RAdd(R(3, 1), zz), RMul(R(2, 1), RDiv(x, c)))
         [] OTHER -> ROne

W == INSTANCE WeightsCore WITH
        Add <- RAdd, Sub <- RSub, Mul <- RMul, Div <- RDiv, Neg <- RNeg, Abs <- RAbs,
        Leq <- RLeq, Lt <- RLt, Eq <- REq, FromInt <- RFromInt, Sum <- RSum,
        Zero <- RZero, One <- ROne,
        Sqrt3 <- R(7, 4),              \* rational stand-in for sqrt(3) = 1.732...
        Tiny <- R(1, 4096),            \* stand-in for 1e-8: below every positive lattice value
        Density <- StandIn,
        IsFinite <- LAMBDA p : p[2] # 0,
        Near <- LAMBDA a, b, tol : a = b,
        SumTol <- RZero,
        PropTol <- LAMBDA t, c, s, xs : RZero,
        Slack <- LAMBDA c, h : RZero

-----------------------------------------------------------------------------
(* limit patterns, relative to the effective centre ce and the half range h of the       *)
(* unlimited grid (n = number of points)                                                 *)
Patterns == {"none", "cutlow", "cuthigh", "cutboth", "touchends", "touchinner", "between",
             "zero", "excludeall", "excludecentre"}

Limits(pat, ce, h, n) ==
    LET step == IF n >= 2 THEN RDiv(RMul(R(2, 1), h), RFromInt(n - 1)) ELSE RZero
    IN CASE pat = "none" -> <<NegInf, PosInf>>
         [] pat = "cutlow" -> <<RSub(ce, RMul(R(1, 2), h)), PosInf>>
         [] pat = "cuthigh" -> <<NegInf, RAdd(ce, RMul(R(1, 2), h))>>
         [] pat = "cutboth" -> <<RSub(ce, RMul(R(1, 2), h)), RAdd(ce, RMul(R(1, 4), h))>>
         \* both limits exactly on the first and last grid point: inclusive, nothing is cut
         [] pat = "touchends" -> <<RSub(ce, h), RAdd(ce, h)>>
         \* the limits are exactly the second and the last-but-one grid point
         [] pat = "touchinner" -> <<RAdd(RSub(ce, h), step), RSub(RAdd(ce, h), step)>>
         \* a window around the centre narrower than the grid step: the centre or nothing
         [] pat = "between" -> <<RSub(ce, RMul(R(1, 4), step)), RAdd(ce, RMul(R(1, 4), step))>>
         \* the limits of every size parameter in the model tables
         [] pat = "zero" -> <<RZero, PosInf>>
         [] pat = "excludeall" -> <<RAdd(RAdd(ce, RMul(R(2, 1), h)), ROne),
                                     RAdd(RAdd(ce, RMul(R(2, 1), h)), R(2, 1))>>
         [] pat = "excludecentre" -> <<RAdd(RAdd(ce, RMul(R(1, 8), h)), R(1, 16)), PosInf>>

\* a configuration from its lattice coordinates (all rationals)
MkConfig(type, rel, value, pd, n, ns, pat) ==
    LET sigma == IF rel THEN RMul(pd, value) ELSE pd
        ce == IF rel THEN value ELSE RZero
        h == IF type = "uniform" THEN sigma ELSE RMul(ns, sigma)
        lim == Limits(pat, ce, h, n)
    IN [type |-> type, n |-> n, width |-> pd, nsigma |-> ns, value |-> value,
        lb |-> lim[1], ub |-> lim[2], relative |-> rel, pat |-> pat]

-----------------------------------------------------------------------------
(* exhaustive lattice *)
CheckCentres == {R(1, 4), R(1, 1), R(4, 1)}
CheckPD == {R(0, 1), R(1, 8), R(1, 2), R(2, 1)}
CheckN == 0..6
CheckNS == {R(1, 2), R(1, 1), R(3, 1)}

VARIABLES stage, q, r
vars == <<stage, q, r>>

None == [kind |-> "none"]
Init == stage = 0 /\ q = None /\ r = None

\* two steps so that TLC's workers share the evaluation: 36 intermediate states
Pick1 ==
    /\ Mode = "check"
    /\ stage = 0
    /\ \E type \in W!Types, rel \in BOOLEAN, value \in CheckCentres :
          q' = [type |-> type, relative |-> rel, value |-> value]
    /\ stage' = 1 /\ r' = None
Pick2 ==
    /\ stage = 1
    /\ \E pd \in CheckPD, n \in CheckN, ns \in CheckNS, pat \in Patterns :
          /\ q' = MkConfig(q.type, q.relative, q.value, pd, n, ns, pat)
          /\ r' = W!GetWeights(q')
    /\ stage' = 2
Next == Pick1 \/ Pick2
Spec == Init /\ [][Next]_vars

Done == stage = 2
Ok == Done /\ r.kind = "ok"

TypeOK == Done => r.kind \in {"ok", "undefined"}
\* the documented density exists for every type on sizes, and for the unbounded ones on angles
DefinedWhereDocumented ==
    Done => (r.kind = "undefined" <=>
                (~W!IsDegenerate(q) /\ q.type \in W!PositiveTypes /\ ~q.relative))
WellFormed == Ok => W!WellFormed(r)
StrictlyIncreasing == Ok => W!StrictlyIncreasing(r)
InsideLimits == Ok => W!InsideLimits(q, r)
InsideSupport == Ok => W!InsideSupport(q, r)
FiniteNonNegative == Ok => W!FiniteNonNegative(r)
SumsToOne == Ok => W!SumsToOne(r)
Proportional == Ok => W!Proportional(q, r)
DegenerateIsCentre == Ok => W!DegenerateIsCentre(q, r)
EveryInLimitPointPresent == Ok => W!EveryInLimitPointPresent(q, r)
OnlyGridPoints == Ok => W!OnlyGridPoints(q, r)

\* angles: same result for every angle; symmetric when nothing is cut
OtherValues == {R(0, 1), R(-3, 1), R(30, 1)}
AbsoluteCentredOnZero ==
    (Ok /\ ~q.relative) =>
        /\ \A v \in OtherValues :
              LET r2 == W!GetWeights([q EXCEPT !.value = v])
              IN r2.kind = "ok" /\ W!AbsoluteCentredOnZero(r, r2)
        /\ q.pat = "none" => W!SymmetricAboutZero(r)

\* sizes: the width is a fraction of the centre
Factors == {R(2, 1), R(1, 4), R(3, 1)}
RelativeWidthScalesWithCentre ==
    (Ok /\ q.relative) =>
        \A f \in Factors :
            LET r2 == W!GetWeights(W!ScaleConfig(q, f))
            IN r2.kind = "ok" /\ W!RelativeWidthScalesWithCentre(r, r2, f, RZero)

\* the sigma of a size is PD * centre, the sigma of an angle is PD (first and last point of
\* the unlimited grid say so)
WidthMeaning ==
    (Ok /\ q.pat = "none" /\ ~W!IsDegenerate(q)) =>
        LET ce == IF q.relative THEN q.value ELSE RZero
            sg == IF q.relative THEN RMul(q.width, q.value) ELSE q.width
            h == IF q.type = "uniform" THEN sg
                 ELSE IF q.type = "rectangle" /\ RLt(R(7, 4), q.nsigma) THEN RMul(R(7, 4), sg)
                 ELSE RMul(q.nsigma, sg)
            n == Len(r.x)
        IN \* a rectangle sampled with an even number of points and N_sigma > sqrt(3) may have no
           \* sample inside its support at all; every other type keeps at least one point
           /\ q.type # "rectangle" => n >= 1
           /\ n >= 1 => (RLeq(RSub(ce, h), r.x[1]) /\ RLeq(r.x[n], RAdd(ce, h)))
           \* the ends are reached unless the support cuts them
           /\ (q.type \notin (W!PositiveTypes \cup {"rectangle"})) =>
                  (r.x[1] = RSub(ce, h) /\ r.x[n] = RAdd(ce, h) /\ n = q.n)

-----------------------------------------------------------------------------
(* Export of the replay lattice (Mode = "export"): evaluated once, from an ASSUME.        *)
(* Every (type, pattern, relative/absolute) combination is paired with PerCombo tuples    *)
(* drawn by TLC from the numeric lattice below (dyadic, plus the end points of the        *)
(* property's stated ranges).  Rationals travel as <<num, den>>.                           *)
GenCentres == {R(1, 10), R(1, 8), R(1, 1), R(3, 1), R(64, 1), R(100, 1), R(8192, 1), R(10000, 1)}
GenPD == {R(1, 1000), R(1, 1024), R(1, 64), R(1, 8), R(1, 4), R(1, 2), R(1, 1), R(2, 1)}
GenN == {1, 2, 3, 4, 5, 9, 17, 33, 35, 65, 80, 129, 199, 200}
GenNS == {R(1, 2), R(1, 1), R(2, 1), R(3, 1), R(5, 2), R(8, 1), R(10, 1)}
GenTuples == GenCentres \X GenPD \X GenN \X GenNS

GenPatterns == Patterns
Combos == W!Types \X GenPatterns \X BOOLEAN

ExportFile == IF "EXPORT_FILE" \in DOMAIN IOEnv THEN IOEnv.EXPORT_FILE ELSE "/tmp/weights_export.json"
PerCombo == IF "EXPORT_PER_COMBO" \in DOMAIN IOEnv THEN atoi(IOEnv.EXPORT_PER_COMBO) ELSE 4

ExportRec(cb, t) ==
    LET c == MkConfig(cb[1], cb[3], t[1], t[2], t[3], t[4], cb[2])
    IN [type |-> c.type, relative |-> c.relative, pat |-> c.pat, n |-> c.n,
        value |-> c.value, width |-> c.width, nsigma |-> c.nsigma, lb |-> c.lb, ub |-> c.ub]

Exported ==
    UNION {{ExportRec(cb, t) : t \in RandomSubset(PerCombo, GenTuples)} : cb \in Combos}

ASSUME Mode = "export" =>
    /\ JsonSerialize(ExportFile, SetToSeq(Exported))
    /\ PrintT(<<"EXPORTED", Cardinality(Exported)>>)
=============================================================================
