------------------------------ MODULE Mixture ------------------------------
(***************************************************************************)
(* Design-level check of MixtureCore: routing for every flat mixture of    *)
(* 2-4 parts, and the accumulation loop of MixtureKernel.Iq as a state     *)
(* machine (one step per part) over values in 0..2 at two q points:        *)
(*   SumLaw      total = sum_k s_k I_k        ProductLaw  total = prod I_k *)
(* for ALL values of I_k including zero.  Variant "asWritten" is the loop  *)
(* before the repair (`if np.all(total) == 0: total = result`).            *)
(***************************************************************************)
EXTENDS MixtureCore, TLC

CONSTANTS MaxParts, Vals, Variant

VARIABLES parts, op, I, k, total
vars == <<parts, op, I, k, total>>
NQ == 2
Shapes == {[npars |-> n, nsld |-> s] : n \in 1..2, s \in 0..1}
Init == /\ \E n \in 2..MaxParts : parts \in [1..n -> Shapes] /\ I \in [1..n -> [1..NQ -> Vals]]
        /\ op \in {"+", "*"}
        /\ k = 0
        /\ total = [q \in 1..NQ |-> 0]          \* total = 0.0
AllNonZero(t) == \A q \in 1..NQ : t[q] # 0
Step == /\ k < Len(parts)
        /\ k' = k + 1
        /\ LET r == I[k + 1] IN
           total' = IF op = "+" THEN [q \in 1..NQ |-> total[q] + r[q]]
                    ELSE IF Variant = "asWritten"
                         THEN (IF ~AllNonZero(total) THEN r ELSE [q \in 1..NQ |-> total[q] * r[q]])
                         ELSE (IF k = 0 THEN r ELSE [q \in 1..NQ |-> total[q] * r[q]])
        /\ UNCHANGED <<parts, op, I>>
Spec == Init /\ [][Step]_vars

RECURSIVE SumTo(_, _), ProdTo(_, _)
SumTo(q, n) == IF n = 0 THEN 0 ELSE I[n][q] + SumTo(q, n - 1)
ProdTo(q, n) == IF n = 0 THEN 1 ELSE I[n][q] * ProdTo(q, n - 1)
Law == k = Len(parts) => \A q \in 1..NQ : total[q] = IF op = "+" THEN SumTo(q, k) ELSE ProdTo(q, k)
RoutingHolds == Routing(parts, op)
=============================================================================
