\* lattice export only (no behaviour is explored)
INIT LInit
NEXT LNext
CONSTANTS
  QMax = 8
  MaxPts = 3
  Widths = {0, 1, 2, 4, 8}
  Widths4 = {0, 2, 8}
  PairW = {0, 1, 4}
  MaxGeo = 2
  NL = 2
  SwapArgs = FALSE
  GeoZero = "leq"
  Normalise = TRUE
  SingleBin = TRUE
CHECK_DEADLOCK FALSE
