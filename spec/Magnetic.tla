------------------------------ MODULE Magnetic ------------------------------
(***************************************************************************)
(* Polarised magnetic scattering (C06): channel weights and the geometry   *)
(* of the effective scattering length densities, over exact integers.      *)
(*                                                                         *)
(* Up-fractions are given in quarters (i4 = 4 i), angles as Pythagorean    *)
(* triples <<s, c, d>> with sin = s/d, cos = c/d, so every identity below  *)
(* is a polynomial identity that TLC decides exactly.                      *)
(*   Weights   (1-i)(1-f), (1-i)f, i(1-f), i f  divided by max(f, 1-f),    *)
(*             i, f clipped to [0,1]                                       *)
(*   Frame     P, e1, e2 orthonormal (polarisation axis and the two        *)
(*             spin-flip directions)                                       *)
(*   Mperp     M - qhat (qhat . M) is orthogonal to qhat                   *)
(* MagneticTrace evaluates the same definitions over IEEE doubles.         *)
(***************************************************************************)
EXTENDS Integers, Sequences, FiniteSets, TLC

Clip4(x) == IF x < 0 THEN 0 ELSE IF x > 4 THEN 4 ELSE x
\* channel weights times 16 * norm4/4  (norm4 = 4 max(f, 1-f)); order dd, du, ud, uu
W16(i4, f4) == LET i == Clip4(i4)  f == Clip4(f4) IN <<(4 - i) * (4 - f), (4 - i) * f, i * (4 - f), i * f>>
Norm4(f4) == LET f == Clip4(f4) IN IF f < 2 THEN 4 - f ELSE f

CONSTANT NTriples
AllTriples == <<<<0, 1, 1>>, <<1, 0, 1>>, <<3, 4, 5>>, <<0 - 3, 4, 5>>, <<5, 12, 13>>, <<4, 0 - 3, 5>>, <<4, 3, 5>>,
               <<0, 0 - 1, 1>>, <<0 - 1, 0, 1>>, <<12, 5, 13>>>>
Triples == {AllTriples[k] : k \in 1..NTriples}
Dot(a, b) == a[1] * b[1] + a[2] * b[2] + a[3] * b[3]
\* vectors scaled by dt*dp (theta triple t, phi triple p)
Pvec(t, p) == <<t[1] * p[2], t[1] * p[1], t[2] * p[3]>>
E1(t, p) == <<(0 - p[1]) * t[3], p[2] * t[3], 0>>
E2(t, p) == <<(0 - t[2]) * p[2], (0 - t[2]) * p[1], t[1] * p[3]>>
Scale2(t, p) == (t[3] * p[3]) * (t[3] * p[3])

VARIABLES i4, f4, tp, pp, tm, pm, qd, done
vars == <<i4, f4, tp, pp, tm, pm, qd, done>>
Init == /\ i4 \in (0 - 1)..5 /\ f4 \in (0 - 1)..5
        /\ tp \in Triples /\ pp \in Triples /\ tm \in Triples /\ pm \in Triples
        /\ qd \in {<<3, 4, 5>>, <<1, 0, 1>>, <<0, 1, 1>>, <<0 - 4, 3, 5>>}
        /\ done = FALSE
Next == ~done /\ done' = TRUE /\ UNCHANGED <<i4, f4, tp, pp, tm, pm, qd>>
Spec == Init /\ [][Next]_vars

WeightsNonNegative == \A k \in 1..4 : W16(i4, f4)[k] >= 0
\* the four weights sum to 1/max(f, 1-f): 16 = sum of the scaled weights
WeightsSum == W16(i4, f4)[1] + W16(i4, f4)[2] + W16(i4, f4)[3] + W16(i4, f4)[4] = 16
NormPositive == Norm4(f4) >= 2 /\ Norm4(f4) <= 4
\* unpolarised limit i = f = 1/2: all four channels equal
Unpolarised == (i4 = 2 /\ f4 = 2) => \A k \in 1..4 : W16(i4, f4)[k] = 4
FrameOrthonormal ==
    LET P == Pvec(tp, pp)  a == E1(tp, pp)  b == E2(tp, pp)  s2 == Scale2(tp, pp) IN
    /\ Dot(P, a) = 0 /\ Dot(P, b) = 0 /\ Dot(a, b) = 0
    /\ Dot(P, P) = s2 /\ Dot(a, a) = s2 /\ Dot(b, b) = s2
\* Mperp = M - qhat (qhat.M), scaled by dq^2: orthogonal to qhat
MperpOrthogonal ==
    LET M == Pvec(tm, pm)  q == <<qd[1], qd[2], 0>>  d2 == qd[3] * qd[3]
        Mp == <<M[1] * d2 - q[1] * Dot(q, M), M[2] * d2 - q[2] * Dot(q, M), M[3] * d2 - q[3] * Dot(q, M)>>
    IN Dot(Mp, q) = 0
=============================================================================
