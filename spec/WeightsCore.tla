---------------------------- MODULE WeightsCore ----------------------------
(***************************************************************************)
(* C02 - distribution weights: the documented behaviour of                 *)
(* sasmodels.weights (doc/guide/pd/polydispersity.rst, weights.py),        *)
(* direct_model._pop_par_weights and SasviewModel._get_weights, written    *)
(* as pure operators over an ABSTRACT numeric domain.                      *)
(*                                                                         *)
(* Two instantiations:                                                     *)
(*   Weights.tla       exact rationals, polynomial stand-in densities:     *)
(*                     TLC checks the structure exhaustively               *)
(*   WeightsTrace.tla  IEEE doubles, the documented densities: validates   *)
(*                     what the implementation actually returned           *)
(*                                                                         *)
(* A configuration is a record                                             *)
(*   q = [type, n, width, nsigma, value, lb, ub, relative]                 *)
(* and a result is [kind, x, w]: kind = "ok" (x, w sequences, possibly     *)
(* empty), "undefined" (the documented density does not exist: positive    *)
(* distribution with a centre <= 0) or "unrepresentable" (the densities    *)
(* do not sum to a positive finite number).                                *)
(***************************************************************************)
LOCAL INSTANCE Naturals
LOCAL INSTANCE Sequences

CONSTANTS
    Add(_, _), Sub(_, _), Mul(_, _), Div(_, _), Neg(_), Abs(_),
    Leq(_, _), Lt(_, _), Eq(_, _),       \* order / equality of the numeric domain
    FromInt(_), Sum(_),                  \* Sum: left-to-right sum of a sequence
    Zero, One,
    Sqrt3,                               \* sqrt(3): half-width factor of "rectangle"
    Tiny,                                \* floor of the positive support (1e-8 in weights.py)
    Density(_, _, _, _),                 \* Density(type, x, centre, sigma), up to a constant factor
    IsFinite(_),
    Near(_, _, _),                       \* Near(a, b, tol): equality up to the domain's rounding
    SumTol,                              \* tolerance of "weights sum to one"
    PropTol(_, _, _, _),                 \* PropTol(type, centre, sigma, xs): tolerance of "proportional"
    Slack(_, _),                         \* Slack(centre, halfwidth): rounding slack of a support edge
    Variant                              \* "documented" or a deliberately wrong reading (vacuity control)

Types == {"gaussian", "rectangle", "uniform", "lognormal", "schulz", "boltzmann"}
PositiveTypes == {"lognormal", "schulz"}     \* support x > 0, parameterised by a positive centre

-----------------------------------------------------------------------------
(* weights.py:52-74  Dispersion.get_weights                                *)

\* "sigma = PD * x for volume parameters, sigma = PD for orientation parameters"
Sigma(width, centre, relative) ==
    IF relative /\ Variant # "width-not-relative" THEN Mul(width, centre) ELSE width

\* "For orientation, the jitter is relative to 0 not the angle"
Centre(centre, relative) ==
    IF relative \/ Variant = "absolute-keeps-centre" THEN centre ELSE Zero

\* zero width or fewer than two points: the single central value
Degenerate(sigma, npts) == Eq(sigma, Zero) \/ npts < 2

\* limits are inclusive
InLimits(x, lb, ub) ==
    IF Variant = "exclusive-limits" THEN Lt(lb, x) /\ Lt(x, ub) ELSE Leq(lb, x) /\ Leq(x, ub)

\* n linearly spaced points from a to b, both ends included (n >= 2)
Lin(a, b, n) ==
    LET step == Div(Sub(b, a), FromInt(n - 1))
    IN [k \in 1..n |-> IF k = n THEN b ELSE Add(Mul(FromInt(k - 1), step), a)]

\* half range of the unlimited grid: N_sigma is ignored by "uniform"
HalfRange(type, sigma, nsigma) == IF type = "uniform" THEN sigma ELSE Mul(nsigma, sigma)

\* weights.py:80-85 (_linspace), 118 (uniform)
FullGrid(type, c, sigma, nsigma, n) ==
    IF type = "uniform" THEN Lin(Sub(c, sigma), Add(c, sigma), n)
    ELSE LET h == Mul(nsigma, sigma)
             g == Lin(Neg(h), h, n)
         IN [k \in 1..n |-> Add(c, g[k])]

\* the distribution's own support
\*   rectangle: |x - c| <= sqrt(3) sigma     (weights.py:133)
\*   lognormal, Schulz: x > 0, realised as x >= 1e-8   (weights.py:147, 173)
\*   uniform: |x - c| <= sigma holds by construction of the grid
InSupport(type, x, c, sigma) ==
    CASE type = "rectangle" -> Leq(Abs(Sub(x, c)), Mul(Abs(sigma), Sqrt3))
      [] type \in PositiveTypes -> Leq(Tiny, x)
      [] OTHER -> TRUE

Keep(type, x, c, sigma, lb, ub) == InLimits(x, lb, ub) /\ InSupport(type, x, c, sigma)

Empty == [kind |-> "ok", x |-> <<>>, w |-> <<>>]
Single(c) == [kind |-> "ok", x |-> <<c>>, w |-> <<One>>]

Densities(type, xs, c, sigma) == [k \in 1..Len(xs) |-> Density(type, xs[k], c, sigma)]

\* the values: [kind |-> "ok" | "undefined", x |-> the points that take part (for "undefined":
\* the points at which a density would have to be evaluated)]
Values(q) ==
    LET sigma == Sigma(q.width, q.value, q.relative)
        c == Centre(q.value, q.relative)
    IN  IF Degenerate(sigma, q.n)
        THEN IF InLimits(c, q.lb, q.ub) \/ Variant = "degenerate-ignores-limits"
             THEN [kind |-> "ok", x |-> <<c>>] ELSE [kind |-> "ok", x |-> <<>>]
        ELSE LET g == FullGrid(q.type, c, sigma, q.nsigma, q.n)
                 xs == SelectSeq(g, LAMBDA v : Keep(q.type, v, c, sigma, q.lb, q.ub))
             IN \* lognormal and Schulz are parameterised by a positive median / mean: with a
                \* centre <= 0 (any angle) there is no such density to evaluate at xs
                IF q.type \in PositiveTypes /\ ~Lt(Zero, c)
                THEN [kind |-> "undefined", x |-> xs] ELSE [kind |-> "ok", x |-> xs]

\* d = densities at the values that take part, s = the sum they are normalised by
Representable(s) == IsFinite(s) /\ Lt(Zero, s)
Normalised(d, s) == [k \in 1..Len(d) |-> Div(d[k], s)]

\* weights.py:265-292 get_weights: values and weights normalised AFTER truncation
\* ("those weights outside the bounds are excluded and the distribution is normalized such
\*   that the sum of the remaining weights in the truncated distribution equal one")
GetWeights(q) ==
    LET sigma == Sigma(q.width, q.value, q.relative)
        c == Centre(q.value, q.relative)
        v == Values(q)
    IN  IF v.kind # "ok" THEN [kind |-> v.kind, x |-> <<>>, w |-> <<>>]
        ELSE IF Degenerate(sigma, q.n)
        THEN [kind |-> "ok", x |-> v.x, w |-> [k \in 1..Len(v.x) |-> One]]
        ELSE IF Len(v.x) = 0 THEN Empty
        ELSE LET dx == Densities(q.type, v.x, c, sigma)
                 s == IF Variant = "normalise-before-cut"
                      THEN Sum(Densities(q.type, FullGrid(q.type, c, sigma, q.nsigma, q.n), c, sigma))
                      ELSE Sum(dx)
             IN  IF ~Representable(s) THEN [kind |-> "unrepresentable", x |-> v.x, w |-> <<>>]
                 ELSE [kind |-> "ok", x |-> v.x, w |-> Normalised(dx, s)]

-----------------------------------------------------------------------------
(* direct_model.py:131-158 _pop_par_weights and sasview_model.py:833-858   *)
(* _get_weights, for one parameter of a model table.                       *)
(*   par = [ptype, lb, ub, default, control]                               *)

\* "The distribution width applied to volume parameters is relative to the center value ...
\*  the distribution width applied to orientation parameters is just sigma = PD".
\* Size and angle parameters carry a distribution; a parameter that counts the entries of a
\* vector parameter (number of shells ...) does not.
Dispersible(par) == par.ptype \in {"volume", "orientation"} /\ ~par.control
Relative(ptype) == ptype = "volume"

Config(par, type, n, width, nsigma, value) ==
    [type |-> type, n |-> n, width |-> width, nsigma |-> nsigma, value |-> value,
     lb |-> par.lb, ub |-> par.ub, relative |-> Relative(par.ptype)]

\* a = [value, n, width, nsigma, type, active]: the entries name, name_pd_n, name_pd,
\* name_pd_nsigma, name_pd_type of the call (defaults already applied)
PopParWeights(par, a) ==
    IF ~Dispersible(par) THEN Single(a.value)
    ELSE IF a.n = 0 \/ Eq(a.width, Zero) \/ ~a.active
    THEN Single(Centre(a.value, Relative(par.ptype)))     \* monodisperse short cut
    ELSE GetWeights(Config(par, a.type, a.n, a.width, a.nsigma, a.value))

SasviewGetWeights(par, a) ==
    IF ~Dispersible(par) THEN Single(a.value)
    ELSE GetWeights(Config(par, a.type, a.n, a.width, a.nsigma, a.value))

-----------------------------------------------------------------------------
(* The property, as predicates on a configuration q and a result r with    *)
(* r.kind = "ok".                                                          *)

SigmaOf(q) == Sigma(q.width, q.value, q.relative)
CentreOf(q) == Centre(q.value, q.relative)
IsDegenerate(q) == Degenerate(SigmaOf(q), q.n)

WellFormed(r) == Len(r.x) = Len(r.w)

StrictlyIncreasing(r) == \A k \in 1..Len(r.x) - 1 : Lt(r.x[k], r.x[k + 1])

\* always the INCLUSIVE hard limits of the parameter, whatever the variant computes
InsideLimits(q, r) == \A k \in 1..Len(r.x) : Leq(q.lb, r.x[k]) /\ Leq(r.x[k], q.ub)

\* inside the distribution's own support (not meaningful for the degenerate single value)
InsideSupport(q, r) ==
    IsDegenerate(q) \/
    LET c == CentreOf(q)
        s == Abs(SigmaOf(q))
    IN \A k \in 1..Len(r.x) :
        CASE q.type = "uniform" -> Leq(Abs(Sub(r.x[k], c)), Add(s, Slack(c, s)))
          [] q.type = "rectangle" ->
                 /\ Leq(Abs(Sub(r.x[k], c)), Add(Mul(s, Sqrt3), Slack(c, Mul(s, Sqrt3))))
                 /\ Leq(Abs(Sub(r.x[k], c)),
                        Add(Mul(Abs(q.nsigma), s), Slack(c, Mul(Abs(q.nsigma), s))))
          [] q.type \in PositiveTypes -> Lt(Zero, r.x[k])
          [] OTHER -> Leq(Abs(Sub(r.x[k], c)),
                          Add(Mul(Abs(q.nsigma), s), Slack(c, Mul(Abs(q.nsigma), s))))

FiniteNonNegative(r) ==
    \A k \in 1..Len(r.w) : IsFinite(r.w[k]) /\ Leq(Zero, r.w[k])

SumsToOne(r) == Len(r.w) > 0 => Near(Sum(r.w), One, SumTol)

\* index of a largest element (first one)
RECURSIVE ArgMaxFrom(_, _, _)
ArgMaxFrom(d, k, best) ==
    IF k > Len(d) THEN best
    ELSE ArgMaxFrom(d, k + 1, IF Lt(d[best], d[k]) THEN k ELSE best)

\* w_k * D(x_j) = w_j * D(x_k), with j a point of largest density; d = densities at r.x
ProportionalTo(r, d, tol) ==
    Len(r.x) = 0 \/
    LET j == ArgMaxFrom(d, 1, 1)
    IN \A k \in 1..Len(r.x) : Near(Mul(r.w[k], d[j]), Mul(r.w[j], d[k]), tol)
Proportional(q, r) ==
    IsDegenerate(q) \/
    ProportionalTo(r, Densities(q.type, r.x, CentreOf(q), SigmaOf(q)),
                   PropTol(q.type, CentreOf(q), SigmaOf(q), r.x))

\* the densities the weights must be proportional to, normalised (for reporting / comparison)
Expected(q, xs) ==
    LET d == Densities(q.type, xs, CentreOf(q), SigmaOf(q))
    IN Normalised(d, Sum(d))

\* zero width or fewer than two points: the single central value with weight one
\* (nothing at all when the centre itself is outside the hard limits)
DegenerateIsCentre(q, r) ==
    IsDegenerate(q) =>
        LET c == CentreOf(q)
        IN IF Leq(q.lb, c) /\ Leq(c, q.ub)
           THEN Len(r.x) = 1 /\ Len(r.w) = 1 /\ Eq(r.x[1], c) /\ Eq(r.w[1], One)
           ELSE Len(r.x) = 0 /\ Len(r.w) = 0

\* every point of the unlimited grid that is inside the limits and the support takes part
EveryInLimitPointPresent(q, r) ==
    IsDegenerate(q) \/
    LET c == CentreOf(q)
        s == SigmaOf(q)
        g == FullGrid(q.type, c, s, q.nsigma, q.n)
    IN \A k \in 1..q.n :
        (Leq(q.lb, g[k]) /\ Leq(g[k], q.ub) /\ InSupport(q.type, g[k], c, s))
            => \E m \in 1..Len(r.x) : Eq(r.x[m], g[k])

\* and nothing else does
OnlyGridPoints(q, r) ==
    IsDegenerate(q) \/
    LET g == FullGrid(q.type, CentreOf(q), SigmaOf(q), q.nsigma, q.n)
    IN \A m \in 1..Len(r.x) : \E k \in 1..q.n : Eq(r.x[m], g[k])

SameValues(r1, r2) ==
    /\ Len(r1.x) = Len(r2.x)
    /\ \A k \in 1..Len(r1.x) : Eq(r1.x[k], r2.x[k])
SameWeights(r1, r2, tol) ==
    /\ Len(r1.w) = Len(r2.w)
    /\ \A k \in 1..Len(r1.w) : Near(r1.w[k], r2.w[k], tol)

\* angles: the distribution is centred on zero whatever the angle is (r2: same call, other angle)
AbsoluteCentredOnZero(r1, r2) == SameValues(r1, r2) /\ SameWeights(r1, r2, Zero)

\* angles, no limits: the grid is symmetric about zero
SymmetricAboutZero(r) ==
    \A k \in 1..Len(r.x) : Near(Add(r.x[k], r.x[Len(r.x) + 1 - k]), Zero, Zero)

\* sizes: multiplying centre and limits by f multiplies the values by f and keeps the weights
\* (r2: the call with value, lb, ub multiplied by f)
ScaledValues(r1, r2, f) ==
    /\ Len(r1.x) = Len(r2.x)
    /\ \A k \in 1..Len(r1.x) : Eq(r2.x[k], Mul(f, r1.x[k]))
RelativeWidthScalesWithCentre(r1, r2, f, tol) == ScaledValues(r1, r2, f) /\ SameWeights(r1, r2, tol)

ScaleConfig(q, f) == [q EXCEPT !.value = Mul(f, @), !.lb = Mul(f, @), !.ub = Mul(f, @)]
=============================================================================
