----------------------------- MODULE PdMeshGen -----------------------------
(***************************************************************************)
(* Behaviour export for replay (specification -> code direction): every    *)
(* completed behaviour of PdMesh is printed as one JSON object holding the *)
(* scenario and the chunk boundaries the driver chose.                     *)
(***************************************************************************)
EXTENDS PdMesh, TLCExt, Json

StopsOf(tr) == LET idx == {k \in 2..Len(tr) : tr[k].phase = "kernel" /\ tr[k - 1].phase = "driver"}
               IN [k \in idx |-> tr[k].ks.stop]
RECURSIVE SeqOf(_, _, _)
SeqOf(f, k, n) == IF k > n THEN <<>> ELSE (IF k \in DOMAIN f THEN <<f[k]>> ELSE <<>>) \o SeqOf(f, k + 1, n)

Emit == (phase \in {"done", "refused"}) =>
          PrintT(<<"BEHAVIOUR", ToJson([c |-> c, ord |-> ord, neval |-> neval, kind |-> out.kind,
                                         stops |-> SeqOf(StopsOf(Trace), 1, Len(Trace))])>>)
=============================================================================
