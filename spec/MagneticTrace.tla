---------------------------- MODULE MagneticTrace ----------------------------
(***************************************************************************)
(* Trace validation for C06.  One event per scenario:                      *)
(*   Mag  rho[k], M0[k], mtheta[k], mphi[k]   per SLD parameter            *)
(*        upi, upf, uptheta, upphi            spin state                   *)
(*        qx[j], qy[j]                        detector points (|q| > 0)    *)
(*        Imag[j]       the model's magnetic 2-D intensity                 *)
(*        Inomag[j]     the same call with every magnitude zero            *)
(*        chan[j][c]    for channel c in dd, uu, sf1, sf2: the effective   *)
(*                      SLD vector the harness used and the NON-magnetic   *)
(*                      2-D intensity of the same model at those SLDs      *)
(*                      (same size/orientation dispersity mesh)            *)
(* The specification recomputes the effective SLDs and the channel weights *)
(* from the documented formulas, checks that the harness evaluated the     *)
(* non-magnetic model exactly there, and recombines.                       *)
(***************************************************************************)
EXTENDS TraceBase, IEEE

VARIABLES l, st
Rad(deg) == FMul(deg, FDiv(FPi, "180.0"))
Clip(x) == FMax("0.0", FMin("1.0", x))
\* (1-i)(1-f), (1-i) f, i (1-f), i f  divided by max(f, 1-f)
Weights(i0, f0) ==
    LET i == Clip(i0)  f == Clip(f0)
        oi == FSub("1.0", i)  of == FSub("1.0", f)
        norm == FMax(f, of)
    IN [dd |-> FDiv(FMul(oi, of), norm), du |-> FDiv(FMul(oi, f), norm),
        ud |-> FDiv(FMul(i, of), norm), uu |-> FDiv(FMul(i, f), norm)]
Dot3(a, b) == FAdd(FAdd(FMul(a[1], b[1]), FMul(a[2], b[2])), FMul(a[3], b[3]))
Polar(r, thetaDeg, phiDeg) ==
    LET t == Rad(thetaDeg)  p == Rad(phiDeg) IN
    <<FMul(r, FMul(FSin(t), FCos(p))), FMul(r, FMul(FSin(t), FSin(p))), FMul(r, FCos(t))>>
Frame(thetaDeg, phiDeg) ==
    LET t == Rad(thetaDeg)  p == Rad(phiDeg) IN
    [P |-> <<FMul(FSin(t), FCos(p)), FMul(FSin(t), FSin(p)), FCos(t)>>,
     e1 |-> <<FNeg(FSin(p)), FCos(p), "0.0">>,
     e2 |-> <<FNeg(FMul(FCos(t), FCos(p))), FNeg(FMul(FCos(t), FSin(p))), FSin(t)>>]
Mperp(M, qx, qy) ==
    LET n == FSqrt(FAdd(FMul(qx, qx), FMul(qy, qy)))
        qh == <<FDiv(qx, n), FDiv(qy, n), "0.0">>
        d == Dot3(qh, M)
    IN <<FSub(M[1], FMul(qh[1], d)), FSub(M[2], FMul(qh[2], d)), FSub(M[3], FMul(qh[3], d))>>
\* effective SLD of SLD parameter k at detector point j in channel c
EffSld(e, k, j, c) ==
    LET fr == Frame(e.uptheta, e.upphi)
        mp == Mperp(Polar(e.M0[k], e.mtheta[k], e.mphi[k]), e.qx[j], e.qy[j])
    IN CASE c = "dd" -> FSub(e.rho[k], Dot3(fr.P, mp))
         [] c = "uu" -> FAdd(e.rho[k], Dot3(fr.P, mp))
         [] c = "sf1" -> Dot3(fr.e1, mp)
         [] c = "sf2" -> Dot3(fr.e2, mp)

Chans == <<"dd", "uu", "sf1", "sf2">>
AllZero(v) == \A k \in 1..Len(v) : FEq(v[k], "0.0")
Tiny == "1e-8"     \* kernel_iq.c skips channels whose weight is <= 1e-8
Term(w, I) == IF FLt(Tiny, w) THEN FMul(w, I) ELSE "0.0"

RECURSIVE VecMaxAbs(_, _, _)
VecMaxAbs(v, k, m) == IF k > Len(v) THEN m ELSE VecMaxAbs(v, k + 1, FMax(m, FAbs(v[k])))

ApplyMag(e) ==
    LET w == Weights(e.upi, e.upf)
        nq == Len(e.qx)
        nk == Len(e.rho)
        inputsOK == \A j \in 1..nq : \A c \in 1..4 : \A k \in 1..nk :
                        FNear(e.chan[j][c].sld[k], EffSld(e, k, j, Chans[c]), "1e-12", "1e-12")
        expect == [j \in 1..nq |->
            FAdd(FAdd(Term(w.dd, e.chan[j][1].I), Term(w.uu, e.chan[j][2].I)),
                 FAdd(FAdd(Term(w.du, e.chan[j][3].I), Term(w.ud, e.chan[j][3].I)),
                      FAdd(Term(w.du, e.chan[j][4].I), Term(w.ud, e.chan[j][4].I))))]
    IN IF e.raised # "" THEN <<"raised", e.raised>>
       ELSE IF AllZero(e.M0) THEN
            (IF FVecBits(e.Imag, e.Inomag) THEN <<>> ELSE <<"zero-magnitude-is-nonmagnetic", ToString(<<e.Inomag, e.Imag>>)>>)
       ELSE IF ~inputsOK THEN <<"harness-effective-sld", "">>
       \* absolute floor: 1e-12 of the largest intensity in the scenario (where the channels cancel to
       \* rounding noise, e.g. 1e-33 next to values of order 1, a relative comparison is meaningless)
       ELSE IF ~FVecNear(e.Imag, expect, "1e-9", FMul("1e-12", VecMaxAbs(expect, 1, "0.0"))) THEN <<"spin-channel-sum", ToString(<<"expected", expect, "got", e.Imag>>)>>
       ELSE <<>>

TInit == l = 1 /\ st = 0 /\ TLCSet(1, 0) /\ TLCSet(2, 0)
TNext ==
    /\ l <= NLines
    /\ LET e == TraceLog[l]
           bad == IF e.ev = "Mag" THEN ApplyMag(e) ELSE <<"unknown-event", e.ev>>
       IN IF bad = <<>> THEN TRUE
          ELSE PrintT(<<"REJECT", e.tid, l, bad[1], bad[2]>>) /\ TLCSet(2, TLCGet(2) + 1)
    /\ l' = l + 1 /\ st' = st
    /\ TLCSet(1, l)
=============================================================================
