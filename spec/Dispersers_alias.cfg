SPECIFICATION Spec
CONSTANTS
  Wrappers = {"w1", "w2"}
  Objects = {"d1", "d2"}
  Values = {1, 2, 3}
  MaxOps = 5
  GetPars = "alias"
INVARIANT TypeOK
INVARIANT CallerUntouched
INVARIANT Independent
CHECK_DEADLOCK FALSE
