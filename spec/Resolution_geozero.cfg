\* vacuity control: geometric_extrapolation replaces only q_min < 0 (D4): Constructs must fail
SPECIFICATION Spec
CONSTANTS
  QMax = 8
  MaxPts = 3
  Widths = {0, 1, 2, 4, 8}
  Widths4 = {0, 2, 8}
  PairW = {0, 1, 4}
  MaxGeo = 2
  NL = 2
  SwapArgs = FALSE
  GeoZero = "lt"
  Normalise = TRUE
  SingleBin = TRUE
INVARIANT Constructs
INVARIANT QcalcPositive
INVARIANT NonNegative
INVARIANT Covers
INVARIANT RowsSumToOne
INVARIANT ZeroWidthIdentity
CHECK_DEADLOCK FALSE
