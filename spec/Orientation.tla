----------------------------- MODULE Orientation -----------------------------
(***************************************************************************)
(* The documented rotation convention (C05) over exact integers.           *)
(*   R = Rz(phi) Ry(theta) Rz(psi) Rx(dphi) Ry(dtheta) Rz(dpsi)            *)
(*   (qa, qb, qc) = R^-1 (qx, qy, 0) = R^T (qx, qy, 0)                     *)
(* Angles are Pythagorean triples <<s, c, d>> (sin = s/d, cos = c/d); a    *)
(* matrix is carried as integer entries with a common denominator.  TLC    *)
(* checks, for every 6-tuple of angles from the triple set:                *)
(*   Orthonormal        R^T R = I  (so R^-1 = R^T)                         *)
(*   DetectorRotation   rotating (qx,qy) and phi by the same angle leaves  *)
(*                      the particle-frame vector unchanged                *)
(*   Inversion          the particle-frame vector of -q is the negative    *)
(* OrientTrace evaluates the same matrices over IEEE doubles.              *)
(***************************************************************************)
EXTENDS Integers, Sequences, TLC

CONSTANT NTriples
\* (denominators <= 5 so that products of six rotations stay inside TLC's 32-bit integers)
AllTriples == <<<<0, 1, 1>>, <<1, 0, 1>>, <<3, 4, 5>>, <<0 - 4, 3, 5>>, <<0, 0 - 1, 1>>, <<4, 3, 5>>,
               <<0 - 1, 0, 1>>, <<0 - 3, 0 - 4, 5>>>>
Triples == {AllTriples[k] : k \in 1..NTriples}

\* a matrix is [m |-> 3x3 integers, d |-> denominator]
Rz(t) == [m |-> <<<<t[2], 0 - t[1], 0>>, <<t[1], t[2], 0>>, <<0, 0, t[3]>>>>, d |-> t[3]]
Ry(t) == [m |-> <<<<t[2], 0, t[1]>>, <<0, t[3], 0>>, <<0 - t[1], 0, t[2]>>>>, d |-> t[3]]
Rx(t) == [m |-> <<<<t[3], 0, 0>>, <<0, t[2], 0 - t[1]>>, <<0, t[1], t[2]>>>>, d |-> t[3]]
\* (explicit tuples: TLC evaluates them eagerly, function constructors would be re-evaluated on every access)
Mul(A, B) == LET E(i, j) == A.m[i][1] * B.m[1][j] + A.m[i][2] * B.m[2][j] + A.m[i][3] * B.m[3][j] IN
             [m |-> <<<<E(1, 1), E(1, 2), E(1, 3)>>, <<E(2, 1), E(2, 2), E(2, 3)>>, <<E(3, 1), E(3, 2), E(3, 3)>>>>,
              d |-> A.d * B.d]
Transpose(A) == [m |-> <<<<A.m[1][1], A.m[2][1], A.m[3][1]>>, <<A.m[1][2], A.m[2][2], A.m[3][2]>>,
                         <<A.m[1][3], A.m[2][3], A.m[3][3]>>>>, d |-> A.d]
Rot(phi, theta, psi, dphi, dtheta, dpsi) ==
    Mul(Mul(Mul(Mul(Mul(Rz(phi), Ry(theta)), Rz(psi)), Rx(dphi)), Ry(dtheta)), Rz(dpsi))
\* R^T q, numerators over denominator R.d
ParticleQ(R, q) == LET E(i) == R.m[1][i] * q[1] + R.m[2][i] * q[2] + R.m[3][i] * q[3] IN <<E(1), E(2), E(3)>>
\* angle addition on triples
AddT(a, b) == <<a[1] * b[2] + a[2] * b[1], a[2] * b[2] - a[1] * b[1], a[3] * b[3]>>

VARIABLES phi, theta, psi, dphi, dtheta, dpsi, alpha, done
vars == <<phi, theta, psi, dphi, dtheta, dpsi, alpha, done>>
Init == /\ phi \in Triples /\ theta \in Triples /\ psi \in Triples
        /\ dphi \in Triples /\ dtheta \in Triples /\ dpsi \in Triples /\ alpha \in Triples
        /\ done = FALSE
Next == ~done /\ done' = TRUE /\ UNCHANGED <<phi, theta, psi, dphi, dtheta, dpsi, alpha>>
Spec == Init /\ [][Next]_vars

R0 == Rot(phi, theta, psi, dphi, dtheta, dpsi)
Orthonormal == LET P == Mul(Transpose(R0), R0) IN
               \A i, j \in 1..3 : P.m[i][j] = IF i = j THEN P.d ELSE 0
Q0 == <<3, 0 - 4, 0>>
DetectorRotation ==
    LET R1 == Rot(AddT(phi, alpha), theta, psi, dphi, dtheta, dpsi)
        Za == Rz(alpha)
        F(i) == Za.m[i][1] * Q0[1] + Za.m[i][2] * Q0[2] + Za.m[i][3] * Q0[3]
        q1 == <<F(1), F(2), F(3)>>                                   \* alpha.d * Rz(alpha) q
        a == ParticleQ(R1, q1)      \* denominator R1.d * alpha.d = R0.d * alpha.d^2
        b == ParticleQ(R0, Q0)      \* denominator R0.d
    IN \A i \in 1..3 : a[i] = b[i] * alpha[3] * alpha[3]
Inversion == LET a == ParticleQ(R0, Q0)  b == ParticleQ(R0, <<0 - Q0[1], 0 - Q0[2], 0>>) IN \A i \in 1..3 : a[i] = 0 - b[i]
=============================================================================
