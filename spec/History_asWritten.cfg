SPECIFICATION Spec
CONSTANTS
  Models = {"m1", "m2"}
  QSets = {"q1", "q2"}
  Requests = {"mono", "pd", "empty", "mode"}
  Slots = {"k1", "k2"}
  Wrappers = {"w1", "w2"}
  MaxOps = 6
  EmptyReq = "empty"
  ModeReq = "mode"
  Variant = "asWritten"
  WithExp = FALSE
  TrackHeld = FALSE
  ReturnsView = FALSE
INVARIANT Purity
INVARIANT ArgsUntouched
CHECK_DEADLOCK FALSE
