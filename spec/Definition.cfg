SPECIFICATION Spec
INVARIANT BasesLoad
INVARIANT FaultsRejected
INVARIANT NeverSilent
CHECK_DEADLOCK FALSE
