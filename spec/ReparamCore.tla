---------------------------- MODULE ReparamCore ----------------------------
(***************************************************************************)
(* Derived parameter tables (modelinfo.derive_table, _simple_insert,       *)
(* _insert_after).  A table is a sequence of parameter ids.                *)
(*   Derive(base, new, remove, ia)                                         *)
(*     ia = <<>>            : the new parameters replace, as one block,    *)
(*                            the first removed parameter                  *)
(*     ia = <<<<key, names>>, ...>> : the parameters `names` (a sequence)  *)
(*                            go after base parameter `key` ("" = front);  *)
(*                            every new parameter must be placed exactly   *)
(*                            once and every placed name must be new,      *)
(*                            otherwise the derivation is rejected         *)
(***************************************************************************)
EXTENDS Naturals, Sequences, FiniteSets

InSeq(x, s) == \E k \in 1..Len(s) : s[k] = x
RECURSIVE Flat(_)
Flat(ss) == IF ss = <<>> THEN <<>> ELSE Head(ss) \o Flat(Tail(ss))
Placed(ia) == Flat([k \in 1..Len(ia) |-> ia[k][2]])
NoDup(s) == \A a, b \in 1..Len(s) : a # b => s[a] # s[b]
\* only groups whose key is "" or a base parameter are ever processed
Used(base, ia) == SelectSeq(ia, LAMBDA g : g[1] = "" \/ InSeq(g[1], base))
Rejected(base, new, remove, ia) ==
    ia # <<>> /\ LET p == Placed(Used(base, ia)) IN
                 \/ \E k \in 1..Len(p) : ~InSeq(p[k], new)       \* "variable not in new parameters"
                 \/ ~NoDup(p)                                     \* "variable already processed"
                 \/ \E k \in 1..Len(new) : ~InSeq(new[k], p)      \* "parameter not listed in insert_after"
Group(ia, key) == Flat([k \in 1..Len(ia) |-> IF ia[k][1] = key THEN ia[k][2] ELSE <<>>])
RECURSIVE Simple(_, _, _, _)
Simple(base, new, remove, k) ==
    IF k > Len(base) THEN <<>>
    ELSE IF base[k] \in remove
         THEN new \o Simple(base, <<>>, remove, k + 1)          \* block replaces the first removed one
         ELSE <<base[k]>> \o Simple(base, new, remove, k + 1)
RECURSIVE After(_, _, _, _)
After(base, remove, ia, k) ==
    IF k > Len(base) THEN <<>>
    ELSE (IF base[k] \in remove THEN <<>> ELSE <<base[k]>>) \o Group(ia, base[k]) \o After(base, remove, ia, k + 1)
Derive(base, new, remove, ia) ==
    IF ia = <<>> THEN Simple(base, new, remove, 1) ELSE Group(ia, "") \o After(base, remove, ia, 1)

\* untouched base parameters keep their names and relative order
Kept(base, remove) == SelectSeq(base, LAMBDA b : b \notin remove)
Untouched(base, remove, table) == SelectSeq(table, LAMBDA x : InSeq(x, base)) = Kept(base, remove)
EachNewOnce(new, table) == \A k \in 1..Len(new) : Cardinality({j \in 1..Len(table) : table[j] = new[k]}) = 1
=============================================================================
