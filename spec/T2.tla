---- MODULE T2 ----
EXTENDS Convert
ASSUME PrintT(<<"start", JavaTime>>)
ASSUME PrintT(<<"sound", Cardinality(UNION {SoundRows(i) : i \in 1..NE}), JavaTime>>)
ASSUME PrintT(<<"values", Cardinality(UNION {ValueItems(i) : i \in 1..NE}), JavaTime>>)
ASSUME PrintT(<<"attr", Cardinality(UNION {UNION {AttrItems(i, j) : j \in SoundRows(i)} : i \in 1..NE}), JavaTime>>)
ASSUME PrintT(<<"extra", Cardinality(UNION {ExtraItems(i) : i \in 1..NE}), JavaTime>>)
ASSUME PrintT(<<"baseof8", Cardinality(BaseOf(8)), JavaTime>>)
ASSUME PrintT(<<"base", Cardinality(BaseScenarios), JavaTime>>)
ASSUME PrintT(<<"base", Cardinality(BaseScenarios), JavaTime>>)
====
