------------------------------ MODULE PdMesh ------------------------------
(***************************************************************************)
(* The dispersity loop of sasmodels: how a mesh of per-parameter           *)
(* distributions becomes one weighted, volume-normalised average.          *)
(*                                                                         *)
(*   details.make_kernel_args / make_details   -> MakeDetails / Refuse     *)
(*   kerneldll.DllKernel._call_kernel (driver) -> DriverNext / DriverEmpty *)
(*   kernel_iq.c  PD_INIT                      -> KernelEnter              *)
(*   kernel_iq.c  loop body + PD_CLOSE cascade -> Point                    *)
(*   kernel_iq.c  write-back                   -> KernelExit               *)
(*   kernel.Kernel.Fq / Iq                     -> Normalise                *)
(*                                                                         *)
(* The pure control core (integers only) lives in PdMeshCore; it is shared *)
(* with PdMeshTrace, which replays recorded kernel calls over IEEE         *)
(* doubles.  This module is the design-level state machine explored        *)
(* exhaustively by TLC with abstract accumulators (a bag of visited        *)
(* points).                                                                *)
(*                                                                         *)
(* Levels are numbered 1..M with level 1 innermost (C level 0).            *)
(***************************************************************************)
EXTENDS PdMeshCore, TLC

CONSTANTS MaxNP,       \* number of kernel parameters explored: 1..MaxNP
          MaxLen,      \* distribution lengths 0..MaxLen
          MaxPdSet,    \* set of MAX_PD values explored
          Variant      \* "fixed" (current tree) | "asWritten" (before the D1/D7 repairs)

VARIABLES c,      \* scenario: [np, m, len, alt, cut, vmask, shift]
          phase,  \* "init" | "refused" | "driver" | "kernel" | "done"
          ord,    \* selection made by make_details
          neval,  \* details.num_eval
          cursor, \* next pd_start of the driver
          buf,    \* result buffer: [garbage, acc, norm]
          ks,     \* kernel-local state: [i, step, stop, acc, norm]
          out     \* what Kernel.Iq returns: [kind: "none" | "refused" | "garbage" | "value", acc, norm]
vars == <<c, phase, ord, neval, cursor, buf, ks, out>>

Pars == 1..c.np
\* weight of distribution point j of parameter p (single points are normalised to 1)
Wt(p, j) == IF c.len[p] <= 1 THEN 1 ELSE IF c.alt /\ j % 2 = 0 THEN 2 ELSE 1

\* A point is a sequence over parameters of value ids: j in 1..len[p] is distribution
\* value j, 0 is the nominal (scalar) value.  When a one-point distribution is not
\* shifted its single value *is* the nominal value.
Canon(p, j) == IF j = 0 /\ c.len[p] = 1 /\ ~c.shift THEN 1 ELSE j
RECURSIVE WProd(_, _)
WProd(pt, p) == IF p = 0 THEN 1 ELSE (IF pt[p] = 0 THEN 1 ELSE Wt(p, pt[p])) * WProd(pt, p - 1)
RECURSIVE IdSum(_, _)
IdSum(pt, p) == IF p = 0 THEN 0 ELSE pt[p] + IdSum(pt, p - 1)
Valid(pt) == CASE c.vmask = 0 -> TRUE
               [] c.vmask = 1 -> pt[1] # 1
               [] OTHER       -> IdSum(pt, c.np) % 2 = 0

\* ---- the definition (property C01): every in-limit point of every distribution
FullMesh == {pt \in [Pars -> 0..MaxLen] : \A p \in Pars : pt[p] \in 1..c.len[p]}
Qual == {pt \in FullMesh : Valid(pt) /\ WProd(pt, c.np) > c.cut}
RECURSIVE SetSum(_)
SetSum(S) == IF S = {} THEN 0 ELSE LET x == CHOOSE x \in S : TRUE IN WProd(x, c.np) + SetSum(S \ {x})
Defining == [kind |-> "value", acc |-> [pt \in Qual |-> 1], norm |-> SetSum(Qual)]
Empty == [acc |-> [pt \in {} |-> 1], norm |-> 0]

\* ---- the implementation
\* the scalar slot of parameter p (values[2+p]):
\*   fixed:     the single in-limit point when the distribution has exactly one point
\*   asWritten: always the nominal value
Scalar(p) == IF Variant = "fixed" /\ c.len[p] = 1 THEN 1 ELSE Canon(p, 0)
\* the point the model function sees at odometer i
PointAt(i) == [p \in Pars |->
    IF \E k \in 1..Len(ord) : ord[k] = p
    THEN LET k == CHOOSE k \in 1..Len(ord) : ord[k] = p IN i[k] + 1
    ELSE Scalar(p)]
KWeight(i) == LET pt == PointAt(i) IN
    \* product over the loop levels only (weights of parameters outside the loops are not seen)
    LET RECURSIVE W(_)
        W(k) == IF k = 0 THEN 1 ELSE Wt(ord[k], i[k] + 1) * W(k - 1)
    IN W(Len(ord))

Scenarios ==
    {s \in [np : 1..MaxNP, m : MaxPdSet, len : UNION {[1..n -> 0..MaxLen] : n \in 1..MaxNP},
            alt : BOOLEAN, cut : {0, 1, 3}, vmask : 0..2, shift : BOOLEAN] :
        /\ Len(s.len) = s.np
        /\ s.m <= s.np
        \* canonical forms only (prune symmetric duplicates)
        /\ (s.alt => \E p \in 1..s.np : s.len[p] > 1)
        /\ (s.shift => \E p \in 1..s.np : s.len[p] = 1)
        /\ (s.cut > 0 => s.alt) }

Init ==
    /\ c \in Scenarios
    /\ phase = "init"
    /\ ord = <<>>
    /\ neval = 0
    /\ cursor = 0
    /\ buf = [garbage |-> TRUE, acc |-> Empty.acc, norm |-> 0]
    /\ ks = [i |-> <<>>, step |-> 0, stop |-> 0, acc |-> Empty.acc, norm |-> 0]
    /\ out = [kind |-> "none"]

\* details.make_details
Refuse ==
    /\ phase = "init"
    /\ NumActive(c.len) > c.m
    /\ phase' = "refused" /\ out' = [kind |-> "refused"]
    /\ UNCHANGED <<c, ord, neval, cursor, buf, ks>>

MakeDetails ==
    /\ phase = "init"
    /\ NumActive(c.len) <= c.m
    /\ \E o \in UNION {[1..c.m -> Pars]} :
          /\ IsSelection(o, c.len, c.m)
          /\ ord' = o
          /\ neval' = IF Variant = "fixed" /\ \E p \in Pars : c.len[p] = 0
                      THEN 0 ELSE NumEvalOf(o, c.len)
    /\ phase' = "driver"
    /\ UNCHANGED <<c, cursor, buf, ks, out>>

\* kerneldll.py  for start in range(0, num_eval, step): stop = min(start+step, num_eval)
\* generalised to every split of [0, num_eval) into consecutive non-empty chunks
DriverNext ==
    /\ phase = "driver"
    /\ cursor < neval
    /\ \E stop \in (cursor + 1)..neval :
          LET e == EnterOdometer(cursor, stop, ord, c.len) IN
          /\ ks' = [i |-> e.i, step |-> cursor, stop |-> stop,
                    acc  |-> IF cursor = 0 THEN Empty.acc ELSE buf.acc,
                    norm |-> IF cursor = 0 THEN 0 ELSE buf.norm]
          /\ Assert(~e.done, "kernel entered with nothing to do")
    /\ phase' = "kernel"
    /\ UNCHANGED <<c, ord, neval, cursor, buf, out>>

Bump(acc, pt) == IF pt \in DOMAIN acc THEN [acc EXCEPT ![pt] = @ + 1]
                 ELSE [x \in DOMAIN acc \cup {pt} |-> IF x = pt THEN 1 ELSE acc[x]]

\* kernel_iq.c loop body, ++step, PD_CLOSE cascade
Point ==
    /\ phase = "kernel"
    /\ LET pt == PointAt(ks.i)
           w  == KWeight(ks.i)
           take == Valid(pt) /\ w > c.cut
           nx == NextOdometer(ks.i, ks.step + 1, ks.stop, ord, c.len)
       IN /\ ks' = [ks EXCEPT !.acc = IF take THEN Bump(@, pt) ELSE @,
                              !.norm = IF take THEN @ + w ELSE @,
                              !.step = @ + 1,
                              !.i = nx.i]
          /\ IF nx.done
             THEN \* write-back (kernel_iq.c:836-847) and return to the driver
                  /\ buf' = [garbage |-> FALSE, acc |-> ks'.acc, norm |-> ks'.norm]
                  /\ cursor' = ks'.step
                  /\ phase' = "driver"
             ELSE UNCHANGED <<buf, cursor, phase>>
    /\ UNCHANGED <<c, ord, neval, out>>

\* kernel.py Kernel.Fq / Iq after the driver loop
Normalise ==
    /\ phase = "driver"
    /\ cursor >= neval
    /\ out' = IF neval = 0 /\ Variant = "fixed" THEN [kind |-> "value", acc |-> Empty.acc, norm |-> 0]
              ELSE IF buf.garbage THEN [kind |-> "garbage"]
              ELSE [kind |-> "value", acc |-> buf.acc, norm |-> buf.norm]
    /\ phase' = "done"
    /\ UNCHANGED <<c, ord, neval, cursor, buf, ks>>

Next == Refuse \/ MakeDetails \/ DriverNext \/ Point \/ Normalise
Spec == Init /\ [][Next]_vars

\* ---- properties
TypeOK == phase \in {"init", "refused", "driver", "kernel", "done"}

\* the restart arithmetic and the carry cascade agree with index arithmetic at every body
OdometerIsIndex == phase = "kernel" => ks.i = IndexOf(ks.step, ord, c.len)
\* a chunk ends exactly at its stop (no overrun, no early exit)
ChunkExact == phase = "driver" /\ ~buf.garbage => cursor = ks.stop
\* no point is visited twice, whatever the split
EachPointOnce == \A pt \in DOMAIN ks.acc : ks.acc[pt] = 1
\* the returned value is the defining mean over the user's full mesh (so: independent of the
\* split, one-point distributions evaluated at their point, empty mesh = background)
DefiningMean == phase = "done" => out = Defining
\* too many dispersed parameters: refused, never truncated
RefusedNotTruncated == (NumActive(c.len) > c.m) => phase \in {"init", "refused"}
RefusalOnlyWhenTooMany == phase = "refused" => NumActive(c.len) > c.m
=============================================================================
