\* the pipeline the property describes, over the working tree's tables: every invariant must hold
SPECIFICATION Spec
CONSTANTS
  Variant = "intended"
  ModelVersions <- MVQuick
  Underscores = {TRUE, FALSE}
  ClassSet = {"empty", "single", "values", "all", "full"}
INVARIANT TypeOK
INVARIANT Identity
INVARIANT NameOfCurrentModel
INVARIANT AllNamesExist
INVARIANT ValuesCarried
INVARIANT NoCollision
INVARIANT DefaultsHold
CHECK_DEADLOCK FALSE
