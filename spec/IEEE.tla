------------------------------- MODULE IEEE -------------------------------
(***************************************************************************)
(* IEEE-754 binary64 arithmetic for trace specifications.                  *)
(*                                                                         *)
(* A double is carried as a decimal STRING (Python repr(float) on the way  *)
(* in, java Double.toString on the way out; both round-trip exactly).      *)
(* Every operator below is overridden by the Java class IEEE (spec/        *)
(* IEEE.java, compiled by setup into spec/classes, loaded by TLC because   *)
(* the class carries the module's name).  The TLA+ bodies are placeholders *)
(* for SANY only: the meaning of each operator is the IEEE-754 operation   *)
(* of the same name, correctly rounded (java StrictMath for functions).    *)
(* Vectors are TLA+ sequences of such strings.                             *)
(***************************************************************************)
LOCAL INSTANCE Naturals
LOCAL INSTANCE Sequences

LOCAL Any == CHOOSE s \in STRING : TRUE

FAdd(a, b) == Any
FSub(a, b) == Any
FMul(a, b) == Any
FDiv(a, b) == Any
FNeg(a) == Any
FAbs(a) == Any
FSqrt(a) == Any
FCbrt(a) == Any
FExp(a) == Any
FLog(a) == Any
FSin(a) == Any
FCos(a) == Any
FAtan2(a, b) == Any
FPow(a, b) == Any
FMax(a, b) == Any
FMin(a, b) == Any
FFloor(a) == Any
FLnGamma(a) == Any      \* log Gamma(a), a > 0 (Lanczos g=7, n=9; 1e-14 relative)
FErf(a) == Any          \* erf(a) (W. J. Cody rational approximations, 1e-16)
FJ0(a) == Any           \* Bessel J0 (Numerical-Recipes rational/asymptotic, 1e-8 abs)
FFromInt(n) == Any      \* exact conversion of a TLC integer
FFromRat(n, d) == Any   \* n/d correctly rounded (n, d TLC integers, d # 0)
FToInt(a) == 0          \* (int) a, a must be integral and fit in 32 bits
FPi == Any

\* predicates
FEq(a, b) == TRUE       \* same real value (0.0 = -0.0); NaN equals NaN here
FBits(a, b) == TRUE     \* bit-identical (distinguishes -0.0, all NaNs equal)
FLt(a, b) == TRUE
FLeq(a, b) == TRUE
FIsNaN(a) == TRUE
FIsFinite(a) == TRUE
FNear(a, b, rtol, atol) == TRUE   \* |a-b| <= atol + rtol*max(|a|,|b|); NaN~NaN, inf~inf same sign
FIsDyadic(a, k) == TRUE           \* a*2^k is an integer of magnitude < 2^52 (exactness guard)

\* vector operators (sequences of doubles)
FSum(v) == Any                    \* left-to-right sum
FDot(v, w) == Any                 \* left-to-right sum of products
FVecAdd(v, w) == <<>>
FVecSub(v, w) == <<>>
FVecMul(v, w) == <<>>
FVecScale(c, v) == <<>>           \* c*v[i]
FVecShift(c, v) == <<>>           \* c+v[i]
FVecAxpy(a, x, y) == <<>>         \* a*x[i] + y[i]  (one multiply, one add, like C without FMA)
FVecDiv(v, c) == <<>>             \* v[i]/c
FVecEq(v, w) == TRUE              \* same length, FEq elementwise
FVecBits(v, w) == TRUE
FVecNear(v, w, rtol, atol) == TRUE
FVecMaxRelErr(v, w) == Any        \* max_i |v_i-w_i|/max(|v_i|,|w_i|,tiny) for reporting
FVecAllFinite(v) == TRUE
FVecAllGeq(v, c) == TRUE
FVecIncreasing(v) == TRUE         \* strictly increasing
FVecConst(n, c) == <<>>           \* n copies of c
FMatVec(m, v) == <<>>             \* m: sequence of rows; result[i] = FDot(m[i], v)
=============================================================================
