INIT TInit
NEXT TNext
CONSTANTS
  Procs = {"p1", "p2", "p3", "p4"}
  MaxCrashes = 4
  Protocol = "atomic"
  SignalDeath = "failure"
  MkdirMode = "idempotent"
POSTCONDITION TraceDone
CHECK_DEADLOCK FALSE
