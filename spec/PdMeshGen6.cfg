\* the real MAX_PD = 5 with more dispersible parameters than loop levels
SPECIFICATION Spec
CONSTANTS
  MaxNP = 7
  MaxLen = 2
  MaxPdSet = {5}
  Variant = "fixed"
INVARIANT Emit
CHECK_DEADLOCK FALSE
