---------------------------- MODULE UnitsTrace ----------------------------
(***************************************************************************)
(* C13, binding of Units to the implementation by two-pass trace           *)
(* validation.  The pass is determined by the events in the log.           *)
(*                                                                         *)
(* pass 0  Table     the parameter table of one model as exported from the *)
(*                   working tree.  TLC decides Eligible(model) and prints *)
(*                   <<"ELIGIBLE", json>> with the reason.                 *)
(* pass 1  Base      a parameter set, q values and what call_kernel /      *)
(*                   call_Fq returned.  For every lambda, mu in {1/2,2,4}  *)
(*                   TLC computes the rescaled parameter dictionary and q  *)
(*                   and prints it as <<"REQ", json>>; the harness only    *)
(*                   evaluates these requests.                             *)
(* pass 2  Pair      base observation + request + observation at the       *)
(*                   request.  TLC checks that the request evaluated is    *)
(*                   the specification's (bit for bit), that q*size lies   *)
(*                   in the soundness window, and the laws of Units.       *)
(* diagnosis (only for models that violated a law)                         *)
(*         DiagBase  as Base, but the requests are printed for every       *)
(*                   candidate relabelling (one or two parameters given a  *)
(*                   different length exponent), lambda = 2, mu = 1        *)
(*         DiagPair  as Pair under the candidate; TLC records which        *)
(*                   candidates keep every law / the intensity law         *)
(*         DiagEnd   prints <<"DIAGNOSIS", json>>: the minimal candidate   *)
(*                   relabellings under which the model IS consistent, on  *)
(*                   every parameter set tried - i.e. which label is wrong *)
(*                   - and, when there is none, the relabellings under     *)
(*                   which I - bkg is at least homogeneous, with its       *)
(*                   degree (the property demands degree 3)                *)
(***************************************************************************)
EXTENDS TraceBase, SequencesExt
\* the design-level constants are irrelevant here
INSTANCE Units WITH NPar <- 1, Depth <- 0, Mislabel <- FALSE,
                    decl <- <<>>, used <- <<>>, v <- <<>>, qe <- 0, acc <- 0, n <- 0

VARIABLES l, st
tvars == <<l, st>>

St0 == [model |-> "", seen |-> {}, deadAll |-> {}, deadI |-> {}, deadReff |-> {}, deadVol |-> {}]
\* length degrees of I - bkg tried by the diagnosis
Degs == 0..6

\* ---------------------------------------------------------------- q handling (1-D: q, 2-D: qx, qy)
RescaledQ(qs, lam) == [k \in DOMAIN qs |-> FVecDiv(qs[k], lam)]
NQ(qs) == IF "q" \in DOMAIN qs THEN Len(qs.q) ELSE Len(qs.qx)
QMag(qs, j) == IF "q" \in DOMAIN qs THEN FAbs(qs.q[j])
               ELSE FSqrt(FAdd(FMul(qs.qx[j], qs.qx[j]), FMul(qs.qy[j], qs.qy[j])))
SameQ(a, b) == DOMAIN a = DOMAIN b /\ \A k \in DOMAIN a : FVecBits(a[k], b[k])

\* ---------------------------------------------------------------- candidate relabellings
Scalable(t) == {i \in 1..Len(t.rows) :
                   LET r == t.rows[i] IN r.type \notin {"sld", "orientation"} /\ ~r.control
                                         /\ r.units # "degrees"}
AltExps(r) == (-2..3) \ {UnitDim[r.units].len}
Singles(t) == {<< <<t.rows[i].name, e>> >> : <<i, e>> \in
                   {x \in Scalable(t) \X (-2..3) : x[2] \in AltExps(t.rows[x[1]])}}
Doubles(t) == {<< <<t.rows[x[1]].name, x[2]>>, <<t.rows[x[3]].name, x[4]>> >> : x \in
                   {y \in Scalable(t) \X (-2..3) \X Scalable(t) \X (-2..3) :
                        /\ y[1] < y[3]
                        /\ y[2] \in AltExps(t.rows[y[1]])
                        /\ y[4] \in AltExps(t.rows[y[3]])}}
\* pairs only for models with few scalable parameters (the cost is quadratic); the empty
\* relabelling (labels as declared) is a candidate for the degree test
Cands(t) == {<<>>} \cup (IF Cardinality(Scalable(t)) <= 8 THEN Singles(t) \cup Doubles(t) ELSE Singles(t))
\* membership without building the set
RowIdx(t, name) == CHOOSE i \in 1..Len(t.rows) : t.rows[i].name = name
IsCand(t, ov) ==
    /\ Len(ov) \in (IF Cardinality(Scalable(t)) <= 8 THEN {0, 1, 2} ELSE {0, 1})
    /\ \A k \in 1..Len(ov) : \E i \in Scalable(t) : /\ t.rows[i].name = ov[k][1]
                                                    /\ ov[k][2] \in AltExps(t.rows[i])
    /\ Len(ov) = 2 => RowIdx(t, ov[1][1]) < RowIdx(t, ov[2][1])
Minimal(S) == {c \in S : \A d \in S : Len(d) >= Len(c)}

\* ---------------------------------------------------------------- pass 0
\* the unit shown next to a parameter (that of the name the user sets, vector members included) is the one written
\* in the row of the definition's table it comes from
ShownNotDeclared(t) == {t.rows[i].name : i \in {j \in 1..Len(t.rows) : t.rows[j].units # t.rows[j].decl}}
DoTable(e) ==
    [st |-> St0,
     bad |-> IF ShownNotDeclared(e) # {} THEN << <<"shown-unit-differs-from-declared", ToString(ShownNotDeclared(e))>> >>
             ELSE <<>>,
     say |-> << <<"ELIGIBLE", ToJson([model |-> e.model, eligible |-> Eligible(e),
                                       why |-> ToString(WhyNot(e))])>> >>]

\* ---------------------------------------------------------------- pass 1
Usable(res) == ~res.raised /\ Len(res.I) > 0
Request(e, ov, lam, mu) ==
    [tid |-> e.tid, model |-> e.model, dim |-> e.dim, lam |-> lam, mu |-> mu, ov |-> ov,
     pars |-> RescaledPars(e.table, e.pars, ov, lam, mu), qs |-> RescaledQ(e.qs, lam)]
DoBase(e) ==
    IF ~Eligible(e.table) THEN [st |-> St0, bad |-> << <<"not-eligible", ToString(WhyNot(e.table))>> >>, say |-> <<>>]
    ELSE IF ~Usable(e.res) THEN [st |-> St0, bad |-> <<>>, say |-> << <<"SKIP", e.tid, e.res.error>> >>]
    ELSE [st |-> St0, bad |-> <<>>,
          say |-> [i \in 1..Cardinality(Lams \X Mus) |->
                      LET c == SetToSeq(Lams \X Mus)[i]
                      IN <<"REQ", ToJson(Request(e, <<>>, c[1], c[2]))>>]]
DoDiagBase(e) ==
    IF ~Usable(e.res) THEN [st |-> St0, bad |-> <<>>, say |-> << <<"SKIP", e.tid, e.res.error>> >>]
    ELSE LET cs == SetToSeq(Cands(e.table))
         IN [st |-> St0, bad |-> <<>>,
             say |-> [i \in 1..Len(cs) |-> <<"REQ", ToJson(Request(e, cs[i], "2.0", "1.0"))>>]]

\* ---------------------------------------------------------------- pass 2
Holds(e) ==
    LET t == e.table  b == e.base.res  s == e.scaled.res
    IN [I    |-> LawI(b.I, s.I, e.base.pars.background, e.lam, e.mu),
        reff |-> ReportsReff(t) => LawReff(b.reffs, s.reffs, e.lam),
        vol  |-> HasVolumePars(t) => LawVol(b, s, e.lam)]
\* faults of the harness or of the evaluation (not law violations)
Protocol(e) ==
    LET t == e.table IN
    IF ~Eligible(t) THEN <<"not-eligible", ToString(WhyNot(t))>>
    ELSE IF ~Usable(e.base.res) THEN <<"base-unusable", e.base.res.error>>
    ELSE IF ~SameDict(t, e.scaled.pars, RescaledPars(t, e.base.pars, e.ov, e.lam, e.mu))
         THEN <<"request-not-followed", ToString(RescaledPars(t, e.base.pars, e.ov, e.lam, e.mu))>>
    ELSE IF ~SameQ(e.scaled.qs, RescaledQ(e.base.qs, e.lam)) THEN <<"request-not-followed-q", "">>
    ELSE IF \E j \in 1..NQ(e.base.qs) : ~InWindow(QMag(e.base.qs, j), Size(t, e.base.pars))
         THEN <<"q-outside-window", ToString(<<e.base.qs, Size(t, e.base.pars)>>)>>
    ELSE IF e.base.pars.background # e.scaled.pars.background THEN <<"background-changed", "">>
    ELSE <<>>
Detail(e, what) ==
    LET b == e.base.res  s == e.scaled.res IN
    ToString(<<"lambda", e.lam, "mu", e.mu, what,
               CASE what = "I" -> <<"base", b.I, "rescaled", s.I, "factor", IFactor(e.lam, e.mu)>>
                 [] what = "reff" -> <<"base", b.reffs, "rescaled", s.reffs>>
                 [] OTHER -> <<"base", b.vshell, b.ratio, "rescaled", s.vshell, s.ratio>>>>)
DoPair(e) ==
    LET p == Protocol(e) IN
    IF p # <<>> THEN [st |-> St0, bad |-> <<p>>, say |-> <<>>]
    ELSE IF e.ov # <<>> \/ e.lam \notin Lams \/ e.mu \notin Mus
    THEN [st |-> St0, bad |-> << <<"factor-not-in-spec", ToString(<<e.lam, e.mu, e.ov>>)>> >>, say |-> <<>>]
    ELSE IF e.scaled.res.raised
    THEN [st |-> St0, bad |-> << <<"raised-after-rescaling", e.scaled.res.error>> >>, say |-> <<>>]
    ELSE LET h == Holds(e)
         IN [st |-> St0, say |-> <<>>,
             bad |-> (IF h.I THEN <<>> ELSE << <<"intensity-law", Detail(e, "I")>> >>) \o
                     (IF h.reff THEN <<>> ELSE << <<"reff-law", Detail(e, "reff")>> >>) \o
                     (IF h.vol THEN <<>> ELSE << <<"volume-law", Detail(e, "vol")>> >>)]

DoDiagPair(s0, e) ==
    LET s == IF s0.model = e.model THEN s0 ELSE [St0 EXCEPT !.model = e.model]
        p == Protocol(e)
    IN  IF p # <<>> THEN [st |-> s, bad |-> <<p>>, say |-> <<>>]
        ELSE IF ~IsCand(e.table, e.ov) \/ e.lam # "2.0" \/ e.mu # "1.0"
        THEN [st |-> s, bad |-> << <<"candidate-not-in-spec", ToString(e.ov)>> >>, say |-> <<>>]
        ELSE LET ok == ~e.scaled.res.raised
                 h == IF ok THEN Holds(e) ELSE [I |-> FALSE, reff |-> FALSE, vol |-> FALSE]
                 b == e.base.res  sc == e.scaled.res
                 badDegs == {d \in Degs : ~(ok /\ LawIWith(b.I, sc.I, e.base.pars.background,
                                                           IFactorD(e.lam, e.mu, d)))}
             IN [st |-> [s EXCEPT !.seen = @ \cup {e.ov},
                                  !.deadAll = IF h.I /\ h.reff /\ h.vol THEN @ ELSE @ \cup {e.ov},
                                  !.deadI = @ \cup {<<e.ov, d>> : d \in badDegs},
                                  !.deadReff = IF h.reff THEN @ ELSE @ \cup {e.ov},
                                  !.deadVol = IF h.vol THEN @ ELSE @ \cup {e.ov}],
                 bad |-> <<>>, say |-> <<>>]
DoDiagEnd(s, e) ==
    LET aliveI(d) == {ov \in s.seen : <<ov, d>> \notin s.deadI}
        other == {x \in s.seen \X (Degs \ {3}) : <<x[1], x[2]>> \notin s.deadI}
        minOther == {x \in other : \A y \in other : Len(y[1]) >= Len(x[1])}
        minI == Minimal(aliveI(3) \ {<<>>})
        shown == IF aliveI(3) # {} THEN minI ELSE {x[1] : x \in minOther}
    IN
    [st |-> St0, bad |-> IF s.model = e.model \/ s.model = "" THEN <<>> ELSE << <<"diag-order", s.model>> >>,
     say |-> << <<"DIAGNOSIS", ToJson([model |-> e.model, tried |-> Cardinality(s.seen),
                                        all |-> SetToSeq(Minimal((s.seen \ s.deadAll) \ {<<>>})),
                                        intensity |-> SetToSeq(minI),
                                        reff_fails_under |-> SetToSeq(shown \cap s.deadReff),
                                        volume_fails_under |-> SetToSeq(shown \cap s.deadVol),
                                        other_degree |-> IF aliveI(3) # {} THEN <<>> ELSE SetToSeq(minOther)])>> >>]

Step(s, e) ==
    CASE e.ev = "Table"    -> DoTable(e)
      [] e.ev = "Base"     -> DoBase(e)
      [] e.ev = "Pair"     -> DoPair(e)
      [] e.ev = "DiagBase" -> DoDiagBase(e)
      [] e.ev = "DiagPair" -> DoDiagPair(s, e)
      [] e.ev = "DiagEnd"  -> DoDiagEnd(s, e)
      [] OTHER -> [st |-> s, bad |-> << <<"unknown-event", e.ev>> >>, say |-> <<>>]

\* TLC re-evaluates a LET body at every use inside an action; the step is therefore computed
\* once into register 3 and read back
TInit == l = 1 /\ st = St0 /\ TLCSet(1, 0) /\ TLCSet(2, 0)
TNext ==
    /\ l <= NLines
    /\ TLCSet(3, Step(st, TraceLog[l]))
    /\ LET e == TraceLog[l]
           out == TLCGet(3)
       IN /\ \A i \in 1..Len(out.say) : PrintT(out.say[i])
          /\ \A i \in 1..Len(out.bad) :
                PrintT(<<"REJECT", Get(e, "tid", 0), l, out.bad[i][1], out.bad[i][2]>>)
          /\ IF out.bad = <<>> THEN TRUE ELSE TLCSet(2, TLCGet(2) + Len(out.bad))
          /\ st' = out.st
    /\ l' = l + 1
    /\ TLCSet(1, l)
=============================================================================
