\* catalogue lines: first, separator, second (two separators only: quick tier)
CONSTANTS
    Alphabet <- AlphabetNum
    MaxLen = 0
    Separators <- SeparatorsQuick
    TagHexFloats = TRUE
INIT Init
NEXT NextCat
INVARIANT TypeOK
INVARIANT StateIsRun
INVARIANT Relex
INVARIANT ConvertLaws
INVARIANT AllFloatsTagged
INVARIANT Export
CHECK_DEADLOCK FALSE
