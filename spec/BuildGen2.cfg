SPECIFICATION GenSpec
CONSTANTS
  Procs = {"p1", "p2", "p3", "p4"}
  MaxCrashes = 2
  Protocol = "atomic"
  SignalDeath = "failure"
  MkdirMode = "idempotent"
  Failures = "all"
INVARIANT Emit
CHECK_DEADLOCK FALSE
