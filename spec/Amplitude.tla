----------------------------- MODULE Amplitude -----------------------------
(***************************************************************************)
(* C14: the amplitude outputs <F>, <F^2>, R_eff, V_shell, V_form/V_shell   *)
(* and I(q) of a form factor are mutually consistent.                      *)
(*                                                                         *)
(* Part 1 (design level, integers/rationals, explored exhaustively by      *)
(* TLC): the accumulation and normalisation of the dispersity loop         *)
(* (PdMesh: every qualifying mesh point exactly once with its product      *)
(* weight - property C01) applied to a particle whose per-point outputs    *)
(* are an amplitude f, its square f^2 and a volume.  Accumulators as in    *)
(* kernel_iq.c (sum w*f, sum w*f^2, sum w, sum w*V), normalisation as in   *)
(* kernel.Kernel.Fq.  Invariants, for every choice of <= MaxPts points,    *)
(* weights and amplitudes and at every prefix (= every chunk boundary):    *)
(*     CauchySchwarz       0 <= <F>^2 <= <F^2>                             *)
(*     EqualityIffUniform  equality exactly when all weighted amplitudes   *)
(*                         coincide - in particular for a single point     *)
(*                         (monodisperse, one orientation)                 *)
(*     IntensityFromParts  scale*<F^2>/<V> + bkg does not depend on the    *)
(*                         normalisation of the weights                    *)
(* so a violation observed on a real model localises to the model's own    *)
(* Fq function or to Kernel.Fq, not to the loop.  Weights are positive     *)
(* integers: all three statements are homogeneous in the weights, so       *)
(* rational weights a/b are covered by clearing denominators.              *)
(* Variant "F2unweighted" (the weight forgotten in the F^2 accumulator)    *)
(* MUST violate CauchySchwarz (vacuity control, Amplitude_wrong.cfg).      *)
(*                                                                         *)
(* Part 2: the predicates of the property on one observation of            *)
(* call_Fq / call_kernel over IEEE doubles, used by AmplitudeTrace.        *)
(***************************************************************************)
EXTENDS Integers, Sequences, FiniteSets, TLC, IEEE

\* =========================================================================
\* Part 1
\* =========================================================================
CONSTANTS MaxPts,    \* mesh points (9 = a 3 x 3 mesh)
          MaxWt,     \* product weights 1..MaxWt; 0 = point gated out (cutoff / invalid)
          MaxAmp,    \* amplitudes -MaxAmp..MaxAmp
          Variant    \* "asCoded" | "F2unweighted"

VARIABLES k,      \* points visited
          s1,     \* sum w*f
          s2,     \* sum w*f^2
          sv,     \* sum w*V
          norm,   \* sum w
          fs,     \* amplitudes of the points that entered the sums
          phase,  \* "acc" | "done"
          out     \* normalised result, rationals <<num, den>>
dvars == <<k, s1, s2, sv, norm, fs, phase, out>>

Amps == (0 - MaxAmp)..MaxAmp
\* the particle volume grows with the amplitude (V and F are correlated in every real model)
Vol(f) == 1 + (IF f < 0 THEN 0 - f ELSE f)

\* rationals as <<num, den>> with den > 0
RLeq(a, b) == a[1] * b[2] <= b[1] * a[2]
REq(a, b) == a[1] * b[2] = b[1] * a[2]
RMul(a, b) == <<a[1] * b[1], a[2] * b[2]>>
RDivPos(a, b) == <<a[1] * b[2], a[2] * b[1]>>     \* b > 0

DInit == /\ k = 0 /\ s1 = 0 /\ s2 = 0 /\ sv = 0 /\ norm = 0 /\ fs = {}
         /\ phase = "acc" /\ out = <<>>

\* kernel_iq.c loop body: if (weight > cutoff && valid) { accumulate }
Point ==
    /\ phase = "acc" /\ k < MaxPts
    /\ \E w \in 0..MaxWt, f \in Amps :
          /\ s1' = s1 + w * f
          /\ s2' = s2 + (IF Variant = "F2unweighted" /\ w > 0 THEN f * f ELSE w * f * f)
          /\ sv' = sv + w * Vol(f)
          /\ norm' = norm + w
          /\ fs' = IF w > 0 THEN fs \cup {f} ELSE fs
    /\ k' = k + 1
    /\ UNCHANGED <<phase, out>>

\* kernel.py Kernel.Fq: total_weight == 0 -> 1; shell_volume == 0 -> 1
Normalise ==
    /\ phase = "acc"
    /\ LET tw == IF norm = 0 THEN 1 ELSE norm
           v == IF sv = 0 THEN <<1, 1>> ELSE <<sv, tw>>
       IN out' = [F1 |-> <<s1, tw>>, F2 |-> <<s2, tw>>, V |-> v]
    /\ phase' = "done"
    /\ UNCHANGED <<k, s1, s2, sv, norm, fs>>

DNext == Point \/ Normalise
DSpec == DInit /\ [][DNext]_dvars

\* ---- invariants
\* at every prefix of the accumulation (chunk boundaries of the driver)
PrefixCauchySchwarz == phase = "acc" => s1 * s1 <= s2 * norm
CauchySchwarz ==
    phase = "done" => /\ RLeq(<<0, 1>>, RMul(out.F1, out.F1))
                      /\ RLeq(RMul(out.F1, out.F1), out.F2)
EqualityIffUniform ==
    phase = "done" /\ norm > 0 => (REq(RMul(out.F1, out.F1), out.F2) <=> Cardinality(fs) <= 1)
\* I - bkg = scale * <F^2>/<V> is the ratio of the raw sums: the weight normalisation cancels
IntensityFromParts ==
    phase = "done" /\ sv > 0 => REq(RDivPos(out.F2, out.V), <<s2, sv>>)
VolumePositive == phase = "done" => out.V[1] > 0 /\ out.V[2] > 0

\* =========================================================================
\* Part 2: the property on one observation (IEEE doubles)
\* =========================================================================
One == "1.0"
Zero == "0.0"

\* table facts (exported from the working tree; see Units.tla for the table format)
Rows(t) == {t.rows[i] : i \in 1..Len(t.rows)}
\* spherically symmetric: no orientation parameters, no Iqac/Iqabc entry point, and the library
\* files the model under shape:sphere.  (The first two alone would admit
\* hollow_rectangular_prism_thin_walls, which averages over orientation inside its Fq.)
Spherical(t) == /\ \A r \in Rows(t) : r.type # "orientation"
                /\ t.xy_mode \notin {"qac", "qabc"}
                /\ t.cat_head = "shape" /\ t.cat_sub = "sphere"
\* the effective-radius modes that promise the sphere of equal (outer) volume - exact names:
\* "equivalent cylinder excluded volume" etc. are different quantities
EquivNames == {"equivalent volume sphere", "equivalent outer volume sphere"}
ModeName(t, m) == IF m \in 1..Len(t.modes) THEN t.modes[m] ELSE ""
\* monodisperse: the parameter set names no distribution
Mono(t, pars) == \A r \in Rows(t) : (r.name \o "_pd_n") \notin DOMAIN pars

Sq(x) == FMul(x, x)
Positive(x) == FIsFinite(x) /\ FLt(Zero, x)

\* 0 <= <F>^2 <= <F^2>.  eps = 1e-12: <F> and <F^2> are sums of the same <= 10^4 terms with the
\* same positive weights, each rounded independently (relative 1e-16 per term, non-negative
\* summands for F^2, cancelling ones for F); at equality (one point, F2 = F1*F1 in the kernel)
\* the two sides differ by at most a few ulp.
Eps == "1e-12"
AmpBoundsAt(f1, f2) == /\ FIsFinite(f1) /\ FIsFinite(f2)
                       /\ FLeq(Zero, f2)
                       /\ FLeq(Sq(f1), FMul(f2, FAdd(One, Eps)))
AmpBounds(F1, F2) == Len(F1) = Len(F2) /\ \A j \in 1..Len(F1) : AmpBoundsAt(F1[j], F2[j])

\* I = scale*<F^2>/<V_shell> + background with the reported volume.  Kernel.Iq forms exactly
\* this expression from the same Fq call, so the two agree to rounding of one division, one
\* product and one sum: 1e-13 relative (of the larger of I and background).
IntensityRelation(I, scale, bkg, F2, vshell) ==
    /\ Len(I) = Len(F2)
    /\ \A j \in 1..Len(I) :
          FNear(I[j], FAdd(FMul(FDiv(scale, vshell), F2[j]), bkg), "1e-13", Zero)

\* monodisperse: <F>^2 -> <F^2> as q -> 0; checked at q*size <= 1e-4, where the orientational
\* variance of F is O((q*size)^4) = 1e-16 relative; 1e-6 leaves room for series switches.
LowQEquality(f1, f2) == FNear(Sq(f1), f2, "1e-6", Zero)
\* monodisperse spherically symmetric: one point, F2 = F*F up to the scale factors the model
\* applies separately to F and F^2 (a few ulp): 1e-10
SphericalEquality(F1, F2) == \A j \in 1..Len(F1) : FNear(Sq(F1[j]), F2[j], "1e-10", Zero)

\* 4/3 pi R^3 = V_form = V_shell * ratio: cbrt and cube, a few ulp: 1e-12
EquivVolume(reff, vshell, ratio) ==
    FNear(FMul(FDiv(FMul("4.0", FPi), "3.0"), FMul(reff, Sq(reff))), FMul(vshell, ratio), "1e-12", Zero)
=============================================================================
