---------------------------- MODULE ProductCore ----------------------------
(***************************************************************************)
(* P@S interaction models: product.make_product_info (Compose) and the     *)
(* index arithmetic of product.ProductKernel (Slice), then the             *)
(* combination formula (Combine, used by ProductTrace over IEEE).          *)
(*                                                                         *)
(* A form factor P is a sequence of parameter records [id, kind] (vector   *)
(* parameters already expanded), a structure factor S likewise with        *)
(* radius_effective and volfraction first.  The combined call vector is    *)
(*   scale, background, P..., S minus volfraction if P owns one...,        *)
(*   [structure_factor_mode if P has Fq], [radius_effective_mode if P has  *)
(*   modes], [up_frac_i, up_frac_f, up_theta, up_phi, (M0, mtheta, mphi)   *)
(*   per SLD of P]                                                         *)
(* The design check fills that vector with distinct tokens and verifies,   *)
(* for every shape, that the slices ProductKernel takes deliver exactly    *)
(* P's own parameters (+ magnetic block) to P and S's own parameters to S. *)
(***************************************************************************)
EXTENDS Naturals, Sequences, FiniteSets, TLC

CONSTANT SliceVariant   \* "ok" | "erOffByOne" | "ignoreVfInP"  (the last two are failing controls)

\* ---- Compose
HasId(pars, id) == \E k \in 1..Len(pars) : pars[k].id = id
IdxOf(pars, id) == CHOOSE k \in 1..Len(pars) : pars[k].id = id
Slds(pars) == SelectSeq(pars, LAMBDA p : p.kind = "sld")
PIds(P) == {P.pars[k].id : k \in 1..Len(P.pars)}
\* S parameters kept in the combined table; a name that collides with one of P's is tagged _S
SKept(P, S) == SelectSeq(S.pars, LAMBDA p : p.id # "volfraction" \/ ~HasId(P.pars, "volfraction"))
Tagged(P, p) == IF p.id \in PIds(P) THEN [p EXCEPT !.id = p.id \o "_S"] ELSE p
Extra(P) == (IF P.haveFq THEN <<[id |-> "structure_factor_mode", kind |-> ""]>> ELSE <<>>)
            \o (IF P.nmodes > 0 THEN <<[id |-> "radius_effective_mode", kind |-> ""]>> ELSE <<>>)
MagBlock(P) ==
    LET s == Slds(P.pars)
        RECURSIVE Trip(_)
        Trip(k) == IF k > Len(s) THEN <<>>
                   ELSE <<[id |-> s[k].id \o "_M0", kind |-> "magnetic"],
                          [id |-> s[k].id \o "_mtheta", kind |-> "magnetic"],
                          [id |-> s[k].id \o "_mphi", kind |-> "magnetic"]>> \o Trip(k + 1)
    IN IF Len(s) = 0 THEN <<>>
       ELSE <<[id |-> "up_frac_i", kind |-> "magnetic"], [id |-> "up_frac_f", kind |-> "magnetic"],
              [id |-> "up_theta", kind |-> "magnetic"], [id |-> "up_phi", kind |-> "magnetic"]>> \o Trip(1)
Common == <<[id |-> "scale", kind |-> ""], [id |-> "background", kind |-> ""]>>
SKeptTagged(P, S) == [k \in 1..Len(SKept(P, S)) |-> Tagged(P, SKept(P, S)[k])]
Compose(P, S) == Common \o P.pars \o SKeptTagged(P, S) \o Extra(P) \o MagBlock(P)
CombinedIds(P, S) == [k \in 1..Len(Compose(P, S)) |-> Compose(P, S)[k].id]

\* S must start with radius_effective, volfraction; P must not have radius_effective
Composable(P, S) == /\ Len(S.pars) >= 2 /\ S.pars[1].id = "radius_effective" /\ S.pars[2].id = "volfraction"
                    /\ Slds(S.pars) = <<>> /\ ~HasId(P.pars, "radius_effective")

\* ---- Slice: product.py:361-423 transcribed (0-based C-style indexes into the call vector)
Slices(P, S) ==
    LET comb == Compose(P, S)
        pn == Len(P.pars)  sn == Len(S.pars)
        vfIdx == IdxOf(comb, "volfraction") - 1
        vfInP == IF vfIdx < pn + 2 THEN 1 ELSE 0
        lastP == pn + 2
        firstS == lastP + 2 - (IF SliceVariant = "ignoreVfInP" THEN 0 ELSE vfInP)
        lastS == firstS + sn - 2
        hb == IF P.haveFq THEN 1 ELSE 0
        he == IF P.nmodes > 0 THEN 1 ELSE 0
        firstMag == lastS + hb + he
        nmag == 3 * Len(Slds(P.pars))
        lastMag == firstMag + (IF nmag > 0 THEN nmag + 4 ELSE 0)
    IN [vfIdx |-> vfIdx, vfInP |-> vfInP = 1, pFrom |-> 2, pTo |-> lastP,
        erIdx |-> lastP + (IF SliceVariant = "erOffByOne" THEN 1 ELSE 0),
        sFrom |-> firstS, sTo |-> lastS,
        betaIdx |-> IF P.haveFq THEN lastS ELSE 0,
        ermIdx |-> IF P.nmodes > 0 THEN lastS + hb ELSE 0,
        magFrom |-> firstMag, magTo |-> lastMag]
\* v[from..to) with 0-based half-open bounds
Cut(v, from, to) == SubSeq(v, from + 1, to)

\* the vectors ProductKernel.Iq hands to P and to S, for a combined vector v
ToP(v, sl) == <<"one", "zero">> \o Cut(v, sl.pFrom, sl.pTo) \o Cut(v, sl.magFrom, sl.magTo)
ToS(v, sl) == <<"one", "zero", v[sl.erIdx + 1], "vf-times-ratio">> \o Cut(v, sl.sFrom, sl.sTo)

\* ---- design check: distinct tokens
Tokens(P, S) == [k \in 1..Len(Compose(P, S)) |-> <<"tok", Compose(P, S)[k].id>>]
PTokens(P) == [k \in 1..Len(P.pars) |-> <<"tok", P.pars[k].id>>]
MagTokens(P) == [k \in 1..Len(MagBlock(P)) |-> <<"tok", MagBlock(P)[k].id>>]
STokens(P, S) == [k \in 1..(Len(S.pars) - 2) |-> <<"tok", Tagged(P, S.pars[k + 2]).id>>]
Routing(P, S) ==
    LET v == Tokens(P, S)  sl == Slices(P, S) IN
    /\ ToP(v, sl) = <<"one", "zero">> \o PTokens(P) \o MagTokens(P)
    /\ ToS(v, sl) = <<"one", "zero", <<"tok", "radius_effective">>, "vf-times-ratio">> \o STokens(P, S)
    /\ v[sl.vfIdx + 1] = <<"tok", "volfraction">>
    /\ (P.haveFq => v[sl.betaIdx + 1] = <<"tok", "structure_factor_mode">>)
    /\ (P.nmodes > 0 => v[sl.ermIdx + 1] = <<"tok", "radius_effective_mode">>)
    /\ sl.vfInP = HasId(P.pars, "volfraction")

=============================================================================
