--------------------------- MODULE OrientAvgTrace ---------------------------
(***************************************************************************)
(* C12 (weak fit): the 1-D intensity of an oriented model is the average   *)
(* of its particle-frame 2-D intensity over all directions of q.           *)
(*                                                                         *)
(* The average is specified as the limit of a refinement ladder of         *)
(* product quadratures: Gauss-Legendre in x = cos(theta) on [-1, 1] times  *)
(* the periodic trapezoid rule in phi.                                     *)
(*   Rule   n, x[i], w[i]: a claimed n-point Gauss-Legendre rule.  The     *)
(*          specification verifies it: P_n(x_i) = 0 by the three-term      *)
(*          recurrence, w_i = 2 / ((1 - x_i^2) P_n'(x_i)^2), sum w = 2.    *)
(*   Avg    for three ladder levels (24 x m, 48 x 2m and the non-nested    *)
(*          37 x 1.5m): the particle-frame vectors the harness used and the       *)
(*          model's own Iqac / Iqabc there; the model's 1-D <F^2> and      *)
(*          intensity at q; the volume.                                    *)
(* The specification recomputes the vectors q (s cos phi, s sin phi, x),   *)
(* s = sqrt(1 - x^2), forms both estimates, requires the ladder to have    *)
(* converged (Refine: |A_2n - A_n| <= ConvTol A, the premise of the        *)
(* property) and then requires the model's 1-D value to agree with A_2n    *)
(* within the accuracy of the model's own quadrature (ModelTol).           *)
(***************************************************************************)
EXTENDS TraceBase, IEEE, FiniteSets

VARIABLES l, st      \* st: the verified rules, a function n -> [x, w]

ConvTol == "1e-6"    \* ladder converged
ModelTol == "2e-5"   \* 20 x ConvTol; observed agreement on the unchanged tree is <= 1e-12 wherever the ladder has converged

\* Legendre P_n(x) and P_{n-1}(x) by the recurrence (k+1) P_{k+1} = (2k+1) x P_k - k P_{k-1}
RECURSIVE Leg(_, _, _, _, _)
Leg(n, x, k, pk, pkm1) ==
    IF k = n THEN <<pk, pkm1>>
    ELSE Leg(n, x, k + 1,
             FDiv(FSub(FMul(FMul(FFromInt(2 * k + 1), x), pk), FMul(FFromInt(k), pkm1)), FFromInt(k + 1)), pk)
PnAndDeriv(n, x) ==
    LET p == Leg(n, x, 1, x, "1.0")       \* P_1 = x, P_0 = 1
        \* P_n'(x) = n (x P_n - P_{n-1}) / (x^2 - 1)
        d == FDiv(FMul(FFromInt(n), FSub(FMul(x, p[1]), p[2])), FSub(FMul(x, x), "1.0"))
    IN <<p[1], d>>
RuleOK(e) ==
    /\ Len(e.x) = e.n /\ Len(e.w) = e.n
    /\ FVecIncreasing(e.x)
    /\ \A i \in 1..e.n :
          LET pd == PnAndDeriv(e.n, e.x[i]) IN
          /\ FNear(pd[1], "0.0", "0.0", "1e-12")
          /\ FNear(e.w[i], FDiv("2.0", FMul(FSub("1.0", FMul(e.x[i], e.x[i])), FMul(pd[2], pd[2]))), "1e-10", "0.0")
    /\ FNear(FSum(e.w), "2.0", "1e-13", "0.0")

\* one ladder level: lev = [n, m, pts[i][k] = [q: <<qa,qb,qc>>, F2: [per q value]]]
\* phi nodes: periodic trapezoid (phikind = "trap") or, for the level that imitates the models' own
\* nested Gauss loops, Gauss-Legendre in phi on [0, 2 pi] (phikind = "gl", rule with m nodes)
PhiOf(lev, rules, k) ==
    IF lev.phikind = "gl" THEN FMul(FPi, FAdd("1.0", rules[lev.m].x[k]))
    ELSE FDiv(FMul(FMul("2.0", FPi), FFromInt(k - 1)), FFromInt(lev.m))
VecOK(lev, rules, q, j) ==
    LET rule == rules[lev.n] IN
    \A i \in 1..lev.n : \A k \in 1..lev.m :
        LET x == rule.x[i]
            s == FSqrt(FSub("1.0", FMul(x, x)))
            ph == PhiOf(lev, rules, k)
            want == <<FMul(q, FMul(s, FCos(ph))), FMul(q, FMul(s, FSin(ph))), FMul(q, x)>>
            got == lev.pts[i][k].q[j]
        IN \A c \in 1..3 : FNear(got[c], want[c], "0.0", FMul("1e-12", q))
Estimate(lev, rules, j) ==
    \* (1/4pi) integral = (1/2) sum_i w_i (mean over phi of F2)
    LET rule == rules[lev.n] IN
    FMul("0.5", FDot(rule.w, [i \in 1..lev.n |->
        IF lev.phikind = "gl"
        THEN FMul("0.5", FDot(rules[lev.m].w, [k \in 1..lev.m |-> lev.pts[i][k].F2[j]]))
        ELSE FDiv(FSum([k \in 1..lev.m |-> lev.pts[i][k].F2[j]]), FFromInt(lev.m))]))

ApplyAvg(rules, e) ==
    LET nq == Len(e.q)
        A1 == [j \in 1..nq |-> Estimate(e.lev1, rules, j)]
        A2 == [j \in 1..nq |-> Estimate(e.lev2, rules, j)]
        A3 == [j \in 1..nq |-> Estimate(e.lev3, rules, j)]
        A0 == [j \in 1..nq |-> Estimate(e.lev0, rules, j)]
        \* three rules with different node sets (24, 37 - which has a node at x = 0 - and 48 points) agree
        \* and so does a nested 20 x 20 Gauss-Legendre rule (phi by Gauss too, like the models' own nested
        \* loops; gauss20 is the smallest rule they use): an integrand that rule resolves is resolved by
        \* the model's own 20/76/150-node loops
        \* (judged per q point: the property is restricted to the points where the quadratures have converged)
        conv(j) == FNear(A1[j], A2[j], ConvTol, "1e-300") /\ FNear(A3[j], A2[j], ConvTol, "1e-300")
                   /\ FNear(A0[j], A2[j], ConvTol, "1e-300")
        \* I = scale <F^2> / V + background with scale 1, background 0
        Iwant == FVecDiv(A2, e.V)
        badF == {j \in 1..nq : conv(j) /\ ~FNear(e.F2[j], A2[j], ModelTol, "1e-300")}
        badI == {j \in 1..nq : conv(j) /\ ~FNear(e.I[j], Iwant[j], ModelTol, "1e-300")}
    IN IF e.raised # "" THEN <<"raised", e.raised>>
       ELSE IF e.lev1.n \notin DOMAIN rules \/ e.lev2.n \notin DOMAIN rules \/ e.lev3.n \notin DOMAIN rules
               \/ e.lev0.n \notin DOMAIN rules THEN <<"harness-unverified-rule", "">>
       ELSE IF \E j \in 1..nq : ~VecOK(e.lev1, rules, e.q[j], j) \/ ~VecOK(e.lev2, rules, e.q[j], j)
                                  \/ ~VecOK(e.lev3, rules, e.q[j], j)
                                  \/ ~VecOK(e.lev0, rules, e.q[j], j)
            THEN <<"harness-directions", "">>
       ELSE IF Len(e.F2) # nq \/ Len(e.I) # nq THEN <<"F2-is-not-the-spherical-average", ToString(<<"lengths", Len(e.F2), Len(e.I), nq>>)>>
       ELSE IF badF # {} THEN <<"F2-is-not-the-spherical-average", ToString(<<"q points", badF, "average", A2, "model", e.F2>>)>>
       ELSE IF badI # {} THEN <<"I-is-not-the-spherical-average", ToString(<<"q points", badI, "average/V", Iwant, "model", e.I>>)>>
       ELSE <<>>
\* number of q points at which the convergence premise holds
Converged(rules, e) ==
    LET nq == Len(e.q)
        E(lev, j) == Estimate(lev, rules, j)
    IN Cardinality({j \in 1..nq : FNear(E(e.lev1, j), E(e.lev2, j), ConvTol, "1e-300")
                                   /\ FNear(E(e.lev3, j), E(e.lev2, j), ConvTol, "1e-300")
                                   /\ FNear(E(e.lev0, j), E(e.lev2, j), ConvTol, "1e-300")})

TInit == l = 1 /\ st = <<>> /\ TLCSet(1, 0) /\ TLCSet(2, 0)
TNext ==
    /\ l <= NLines
    /\ LET e == TraceLog[l]
           bad == IF e.ev = "Rule" THEN (IF RuleOK(e) THEN <<>> ELSE <<"harness-quadrature-rule", ToString(e.n)>>)
                  ELSE IF e.ev = "Avg" THEN ApplyAvg(st, e) ELSE <<"unknown-event", e.ev>>
       IN /\ IF bad = <<>> THEN TRUE
             ELSE PrintT(<<"REJECT", e.tid, l, bad[1], bad[2]>>) /\ TLCSet(2, TLCGet(2) + 1)
          /\ st' = IF e.ev = "Rule" /\ bad = <<>>
                   THEN [k \in DOMAIN st \cup {e.n} |-> IF k = e.n THEN [x |-> e.x, w |-> e.w] ELSE st[k]]
                   ELSE st
          /\ IF e.ev = "Avg" /\ e.raised = "" /\ bad = <<>> THEN PrintT(<<"CONVERGED", e.tid, Converged(st, e)>>) ELSE TRUE
    /\ l' = l + 1
    /\ TLCSet(1, l)
=============================================================================
