----------------------------- MODULE Interfaces -----------------------------
(***************************************************************************)
(* The calling interfaces of sasmodels (C10): which keyword names a model  *)
(* accepts, which data points theory is returned for, and that all         *)
(* interfaces agree.                                                       *)
(*                                                                         *)
(* Name space.  A call parameter has a kind; the user may write its name   *)
(* bare or with a suffix.  Accept(kind, form) says whether the name is     *)
(* legal; every interface must refuse (raise) exactly the illegal ones.    *)
(* Selection.  For 1-D data the theory is returned for the points with     *)
(* qmin <= q <= qmax, mask = 0 and data not NaN, in order (2-D: the same   *)
(* with |q|).                                                              *)
(* The design-level state machine is a request that is answered by         *)
(* Returns or Refuses; TLC enumerates the whole matrix and all selection   *)
(* patterns on up to 5 points and exports them for replay.                 *)
(***************************************************************************)
EXTENDS Naturals, Sequences, FiniteSets, TLC, Json

Kinds == {"scale", "background", "volume", "orientation", "sld", "plain", "magnetic", "spin", "vector-volume", "control"}
Dispersible(kind) == kind \in {"volume", "orientation", "vector-volume"}
\* keyword scheme (direct calculator, keyword functions, bumps wrapper) and dotted scheme (SasView wrapper)
Forms == {"bare", "_pd", "_pd_n", "_pd_nsigma", "_pd_type", "_pd_bogus", "_PD", "_pdd", "misspelt-base",
          ".width", ".npts", ".nsigmas", ".type", ".bogus"}
KeywordForm(f) == f \in {"bare", "_pd", "_pd_n", "_pd_nsigma", "_pd_type", "_pd_bogus", "_PD", "_pdd", "misspelt-base"}
Accept(kind, form) ==
    CASE form = "bare" -> TRUE
      [] form \in {"_pd", "_pd_n", "_pd_nsigma", "_pd_type", ".width", ".npts", ".nsigmas", ".type"} -> Dispersible(kind)
      [] OTHER -> FALSE

\* selection: indices (1-based) of the points theory is returned for
Select(q, mask, isnan, qmin, qmax) ==
    SelectSeq([k \in 1..Len(q) |-> k], LAMBDA k : q[k] >= qmin /\ q[k] <= qmax /\ mask[k] = 0 /\ ~isnan[k])

\* per interface: keyword interfaces know only the keyword scheme, the SasView wrapper only the dotted one;
\* a structure factor's scale and background are hidden from the SasView wrapper (fixed at 1 and 0)
Ifaces == {"kernel", "direct", "keyword", "bumps", "sasview"}
AcceptOn(iface, kind, form, hidden) ==
    IF iface = "sasview"
    THEN (IF form = "bare" THEN ~(hidden /\ kind \in {"scale", "background"})
          ELSE ~KeywordForm(form) /\ Accept(kind, form))
    ELSE KeywordForm(form) /\ Accept(kind, form)

VARIABLES kind, form, answer
Init == kind \in Kinds /\ form \in Forms /\ answer = "pending"
Returns == answer = "pending" /\ Accept(kind, form) /\ answer' = "returned" /\ UNCHANGED <<kind, form>>
Refuses == answer = "pending" /\ ~Accept(kind, form) /\ answer' = "refused" /\ UNCHANGED <<kind, form>>
Spec == Init /\ [][Returns \/ Refuses]_<<kind, form, answer>>
\* an unknown name is never silently ignored; a legal one is never refused
NeverIgnored == answer = "returned" => Accept(kind, form)
NeverOverRefused == answer = "refused" => ~Accept(kind, form)
SuffixOnlyOnDispersible == (answer = "returned" /\ form # "bare") => Dispersible(kind)

\* ---- export
Points == 4
QGrid == <<1, 2, 3, 4>>
SelCases == {[mask |-> m, isnan |-> n, qmin |-> lo, qmax |-> hi] :
             m \in [1..Points -> {0, 1}], n \in [1..Points -> BOOLEAN], lo \in 0..3, hi \in 2..5}
ASSUME PrintT(<<"CELLS", ToJson([cells |-> {[kind |-> k, form |-> f, accept |-> Accept(k, f)] : k \in Kinds, f \in Forms}])>>)
ASSUME PrintT(<<"SELCASES", ToJson([cases |-> {[c EXCEPT !.isnan = [k \in 1..Points |-> IF c.isnan[k] THEN 1 ELSE 0]] : c \in {x \in SelCases : x.qmin <= x.qmax}}])>>)
\* selection sanity: the selected indices are increasing and each satisfies the predicate
SelectionSound == \A c \in {x \in SelCases : x.qmin <= x.qmax /\ x.qmin = 1 /\ x.qmax = 3} :
    LET s == Select(QGrid, c.mask, c.isnan, c.qmin, c.qmax) IN
    /\ \A a \in 1..Len(s) : a < Len(s) => s[a] < s[a + 1]
    /\ \A k \in 1..Points : (\E a \in 1..Len(s) : s[a] = k) <=> (QGrid[k] >= c.qmin /\ QGrid[k] <= c.qmax /\ c.mask[k] = 0 /\ ~c.isnan[k])
ASSUME SelectionSound
=============================================================================
