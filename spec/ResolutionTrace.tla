--------------------------- MODULE ResolutionTrace ---------------------------
(***************************************************************************)
(* C03 - trace validation of recorded constructions of                     *)
(* sasmodels.resolution.Pinhole1D / Slit1D / Perfect1D,                    *)
(* resolution2d.Pinhole2D and of DirectModel calls, over IEEE doubles.     *)
(*                                                                         *)
(* Events (one per constructed object, everything logged: arguments,       *)
(* q_calc, the weight matrix rows as the band of their non-zero entries,   *)
(* apply() of probe theories, DirectModel results):                        *)
(*   Res1D   cls, supplied, q, sigma | L, W, raised, qcalc, rows/off,      *)
(*           probes = [name, theory (on qcalc), out]                       *)
(*   Res2D   qx, qy, dqx (radial), dqy (tangential), acc, qxc, qyc,        *)
(*           weights, probes                                               *)
(*   Direct  data description, rescls, qcalc, unsmeared (Iq_calc at        *)
(*           scale 1, background 0), base (its smeared result), calls      *)
(*           at other (scale, background)                                  *)
(* Invariants of Resolution.tla restated over doubles:                     *)
(*   constructs, qcalc-positive, covers-low/high (default q_calc only,     *)
(*   one bin of slack), weights-finite, weights-nonnegative,               *)
(*   rows-sum-to-one, apply-is-weighted-average, constant-preserved,       *)
(*   zero-width-identity (bit exact), flat-unchanged, linear (bit exact    *)
(*   for power-of-two scales, 1e-12 otherwise).                            *)
(* Every failing clause of an event is reported (one REJECT each).         *)
(***************************************************************************)
EXTENDS TraceBase, IEEE, ResOps, Integers, FiniteSets

VARIABLES l, st
Zero == "0.0"
One == "1.0"

(* Tolerances (with their justification).
   RowTol: rows are sums of <= 10^3 non-negative doubles: 1e-12 is > 10^3 ulp.  A slit-length
   row is sqrt(u_last)/L with u_last = fl(q^2+L^2) - fl(q^2): the cancellation amplifies the
   rounding of q^2 by (q/L)^2, so the sum carries ~3 ulp*(q/L)^2; 1e-15*(q/L)^2 is 4.5x that.
   The in-plane shift of a length+width row moves q up to q+W.  *)
RowTol(q, L, W) == IF FLt(Zero, L)
                   THEN FAdd("1e-12", FMul("1e-15", FMul(FDiv(FAdd(q, W), L), FDiv(FAdd(q, W), L))))
                   ELSE "1e-12"
DotTol == "1e-12"         \* np.dot against left-to-right FDot on non-negative terms
Fudge == "1.000000001"    \* 1e-9 relative slack on coverage comparisons (logspace/linspace end points)

VMin(v) == RMin(v)
VMax(v) == RMax(v)
MinOf(S) == CHOOSE i \in S : \A j \in S : i <= j
Sq(x) == FMul(x, x)

Bad(ok, clause, detail) == IF ok THEN <<>> ELSE << <<clause, detail>> >>
\* first index of 1..n violating P, reported with a value
RowClause(n, P(_), clause, D(_)) ==
    LET bad == {i \in 1..n : ~P(i)}
    IN IF bad = {} THEN <<>> ELSE << <<clause, ToString(<<"row", MinOf(bad), "of", n, "bad", Cardinality(bad), D(MinOf(bad))>>)>> >>

----------------------------------------------------------------------------
(* 1-D windows as the property states them *)
IsPin(cls) == cls = "Pinhole1D"
\* (ns = <<low, high>>: the Gaussian is cut at q - low*sigma and q + high*sigma; <<2.5, 3>> unless the caller says otherwise)
DefaultNs == <<"2.5", "3.0">>
WinLo(cls, q, sigma, L, W, i, ns) == IF IsPin(cls) THEN FSub(q[i], FMul(ns[1], sigma[i])) ELSE FSub(q[i], W[i])
WinHi(cls, q, sigma, L, W, i, ns) == IF IsPin(cls) THEN FAdd(q[i], FMul(ns[2], sigma[i]))
                                 ELSE FSqrt(FAdd(Sq(FAdd(q[i], W[i])), Sq(L[i])))
ZeroW(cls, sigma, L, W, i) == IF IsPin(cls) THEN FEq(sigma[i], Zero) ELSE FEq(L[i], Zero) /\ FEq(W[i], Zero)

\* q_calc > 0
QcalcPositive(qc) == Bad(\A j \in 1..Len(qc) : FLt(Zero, qc[j]), "qcalc-positive",
                         ToString(<<"min", VMin(qc)>>))

(* Coverage of every window /\ {|q| >= 0.02 q_min} by the requested points, one bin of slack.
   "One bin" is the step the extension algorithm promises: linear extrapolation uses the first /
   last data interval (15 steps for a single point), geometric extrapolation the mean ratio of
   the data (10 points per decade for a single point). *)
Covers(cls, q, sigma, L, W, qc, ns) ==
    LET n == Len(q)
        lo == VMin([i \in 1..n |-> WinLo(cls, q, sigma, L, W, i, ns)])
        hi == VMax([i \in 1..n |-> WinHi(cls, q, sigma, L, W, i, ns)])
        cut == FMul("0.02", q[1])
        target == FMax(lo, cut)
        minc == VMin(qc)
        maxc == VMax(qc)
    IN IF IsPin(cls)
       THEN LET slo == IF n > 1 THEN FSub(q[2], q[1]) ELSE FDiv(FSub(q[1], lo), "15.0")
                shi == IF n > 1 THEN FSub(q[n], q[n - 1]) ELSE FDiv(FSub(hi, q[n]), "15.0")
            IN Bad(FLeq(minc, FAdd(FMul(target, Fudge), FMul(slo, Fudge))), "covers-low",
                   ToString(<<"min q_calc", minc, "window low end", target, "slack", slo>>))
               \o Bad(FLeq(FSub(hi, FMul(shi, Fudge)), FMul(maxc, Fudge)), "covers-high",
                      ToString(<<"max q_calc", maxc, "window high end", hi, "slack", shi>>))
       ELSE LET rho == IF n > 1 /\ FLt(q[1], q[n])
                       THEN FExp(FDiv(FSub(FLog(q[n]), FLog(q[1])), FFromInt(n - 1)))
                       ELSE FExp(FDiv(FLog("10.0"), "10.0"))
            IN Bad(FLeq(minc, FMul(FMul(target, rho), Fudge)), "covers-low",
                   ToString(<<"min q_calc", minc, "window low end", target, "ratio", rho>>))
               \o Bad(FLeq(hi, FMul(FMul(maxc, rho), Fudge)), "covers-high",
                      ToString(<<"max q_calc", maxc, "window high end", hi, "ratio", rho>>))

\* index of data point i among the requested points
IndexOf(qc, x) == RIndexOf(qc, x)

----------------------------------------------------------------------------
ApplyRes1D(e) ==
    LET n == Len(e.q)
        qc == e.qcalc
        m == Len(qc)
        pin == IsPin(e.cls)
        sigma == e.sigma
        L == e.L
        W == e.W
        tol(i) == IF pin THEN "1e-12" ELSE RowTol(e.q[i], L[i], W[i])
        full == {k \in 1..Len(e.probes) : e.probes[k].name # "basis"}
        basis == {k \in 1..Len(e.probes) : e.probes[k].name = "basis"}
        seg(k, i) == SubSeq(e.probes[k].theory, e.off[i] + 1, e.off[i] + Len(e.rows[i]))
        zero(i) == ZeroW(e.cls, sigma, L, W, i)
        tmin == [k \in full |-> VMin(e.probes[k].theory)]
        tmax == [k \in full |-> VMax(e.probes[k].theory)]
    IN
    \* the data's q values are in non-decreasing order (a value may occur twice: data merged from two settings)
    IF n > 1 /\ \E i \in 1..(n - 1) : FLt(e.q[i + 1], e.q[i]) THEN << <<"harness-unsorted-q", "">> >>
    ELSE IF e.raised THEN << <<"constructs", e.error>> >>
    ELSE IF e.cls = "Perfect1D"
    THEN Bad(FVecBits(qc, e.q), "perfect-qcalc-is-q", "")
         \o Bad(\A k \in full : FVecBits(e.probes[k].out, e.probes[k].theory), "zero-width-identity", "Perfect1D")
    ELSE
       QcalcPositive(qc)
       \o (IF e.supplied THEN <<>> ELSE Covers(e.cls, e.q, sigma, L, W, qc, e.nsig))
       \o (IF ~e.haverows THEN <<>> ELSE
             RowClause(n, LAMBDA i : FVecAllFinite(e.rows[i]), "weights-finite", LAMBDA i : "")
             \o RowClause(n, LAMBDA i : ~FVecAllFinite(e.rows[i]) \/ FVecAllGeq(e.rows[i], Zero), "weights-nonnegative",
                          LAMBDA i : VMin(e.rows[i]))
             \o RowClause(n, LAMBDA i : ~FVecAllFinite(e.rows[i]) \/ FNear(FSum(e.rows[i]), One, tol(i), Zero), "rows-sum-to-one",
                          LAMBDA i : <<"sum", FSum(e.rows[i]), "q", e.q[i], "tol", tol(i)>>)
             \o RowClause(n, LAMBDA i : ~FVecAllFinite(e.rows[i]) \/
                                        \A k \in full : FNear(e.probes[k].out[i], FDot(e.rows[i], seg(k, i)), DotTol, "1e-300"),
                          "apply-is-weighted-average", LAMBDA i : ""))
       \o (IF e.haverows THEN <<>> ELSE
             \* large objects (matrix not logged): the same facts through apply() of probe vectors
             RowClause(n, LAMBDA i : \A k \in full : FIsFinite(e.probes[k].out[i]), "weights-finite", LAMBDA i : "apply() is not finite")
             \o RowClause(n, LAMBDA i : \A k \in full : (e.probes[k].name = "const" /\ FIsFinite(e.probes[k].out[i])) =>
                                             FNear(e.probes[k].out[i], e.probes[k].theory[1], tol(i), Zero),
                          "rows-sum-to-one", LAMBDA i : <<"apply(const)", "q", e.q[i], [k \in full |-> e.probes[k].out[i]]>>)
             \o RowClause(n, LAMBDA i : \A k \in full : FIsFinite(e.probes[k].out[i]) =>
                                            /\ FLeq(FMul(tmin[k], FSub(One, tol(i))), FAdd(e.probes[k].out[i], "1e-300"))
                                            /\ FLeq(e.probes[k].out[i], FMul(tmax[k], FAdd(One, tol(i)))),
                          "average-within-range", LAMBDA i : ""))
       \o (IF basis = {} THEN <<>> ELSE
             Bad(\A k \in basis : FVecAllFinite(e.probes[k].out), "weights-finite", "column of W from apply(unit vector)")
             \o Bad(\A k \in basis : ~FVecAllFinite(e.probes[k].out) \/ FVecAllGeq(e.probes[k].out, Zero),
                    "weights-nonnegative", "column of W from apply(unit vector)"))
       \* (|q_calc| may hold the data point twice - once from the negative branch of a wide
       \* neighbour's window - and the probe theories are indexed by position, so: some occurrence)
       \o RowClause(n, LAMBDA i : zero(i) => \E j \in RIndicesOf(qc, e.q[i]) :
                                              \A k \in full : FBits(e.probes[k].out[i], e.probes[k].theory[j]),
                    "zero-width-identity", LAMBDA i : <<"q", e.q[i]>>)

----------------------------------------------------------------------------
(* 2-D: over-sampling table of resolution2d (number of rings, number of angles) *)
NR(acc) == CASE acc = "xhigh" -> 10 [] acc = "high" -> 5 [] acc = "med" -> 5 [] acc = "low" -> 3
NPHI(acc) == CASE acc = "xhigh" -> 20 [] acc = "high" -> 12 [] acc = "med" -> 6 [] acc = "low" -> 4
Lower(a) == CASE a \in {"Low", "low", "LOW"} -> "low" [] a \in {"Med", "med"} -> "med"
              [] a \in {"High", "high"} -> "high" [] a \in {"XHigh", "xhigh", "Xhigh"} -> "xhigh"

Checks2D(qx, qy, dqx, dqy, acc, qxc, qyc) ==
    LET nq == Len(qx)
        nb == NR(acc) * NPHI(acc)
        r2 == FVecAdd(FVecMul(qxc, qxc), FVecMul(qyc, qyc))
        reach == FSub("3.0", FDiv("3.0", FFromInt(NR(acc))))     \* centre of the last ring + one bin of slack
        qabs(j) == FSqrt(FAdd(Sq(qx[j]), Sq(qy[j])))
        rr == [k \in 1..Len(r2) |-> FSqrt(r2[k])]
        col(j) == RColumn(rr, j, nq, nb)
        sg(j) == FMax(dqx[j], "1e-10")
    IN Bad(Len(qxc) = nb * nq /\ Len(qyc) = nb * nq, "sample-count", ToString(<<Len(qxc), nb, nq>>))
       \o (IF Len(qxc) # nb * nq \/ Len(qyc) # nb * nq THEN <<>> ELSE
             Bad(\A k \in 1..(nb * nq) : FLt(Zero, r2[k]), "qcalc-positive", "")
             \o RowClause(nq, LAMBDA j : FLeq(FAdd(qabs(j), FDiv(FMul(reach, sg(j)), Fudge)), FMul(VMax(col(j)), Fudge)),
                          "covers-high", LAMBDA j : <<qabs(j), sg(j), VMax(col(j))>>)
             \o RowClause(nq, LAMBDA j : FLt(FMul("3.0", sg(j)), qabs(j)) =>
                                         FLeq(VMin(col(j)), FMul(FSub(qabs(j), FDiv(FMul(reach, sg(j)), Fudge)), Fudge)),
                          "covers-low", LAMBDA j : <<qabs(j), sg(j), VMin(col(j))>>)
             \* the window is the pixel's own: the sampling points of pixel j (rings x evenly spaced angles) are
             \* centred on (qx[j], qy[j]) - or on its image under inversion, (-qx[j], -qy[j]), where every scattering
             \* intensity takes the same values (I(-q) = I(q); resolution2d works with q_phi = arctan(qy/qx), which
             \* folds the left half of the detector onto the right half by inversion)
             \o RowClause(nq, LAMBDA j : LET cx == FDiv(FSum(RColumn(qxc, j, nq, nb)), FFromInt(nb))
                                            cy == FDiv(FSum(RColumn(qyc, j, nq, nb)), FFromInt(nb))
                                            tolc == FMul("1e-9", FAdd(qabs(j), FAdd(sg(j), FMax(dqy[j], "1e-10"))))
                                        IN \/ FNear(cx, qx[j], "0.0", tolc) /\ FNear(cy, qy[j], "0.0", tolc)
                                           \/ FNear(cx, FNeg(qx[j]), "0.0", tolc) /\ FNear(cy, FNeg(qy[j]), "0.0", tolc),
                          "window-centred-on-pixel",
                          LAMBDA j : <<"pixel", qx[j], qy[j], "centre of its sampling points",
                                       FDiv(FSum(RColumn(qxc, j, nq, nb)), FFromInt(nb)), FDiv(FSum(RColumn(qyc, j, nq, nb)), FFromInt(nb))>>)
             \* ... and reaches as far across the q direction as the tangential width says (between the centre of the
             \* last ring and 3 sigma), not as far as the radial width
             \o RowClause(nq, LAMBDA j : LET xs == RColumn(qxc, j, nq, nb)
                                            ys == RColumn(qyc, j, nq, nb)
                                            cx == FDiv(FSum(xs), FFromInt(nb))
                                            cy == FDiv(FSum(ys), FFromInt(nb))
                                            qn == qabs(j)
                                            perp == [k \in 1..nb |-> FAbs(FDiv(FSub(FMul(FSub(ys[k], cy), qx[j]), FMul(FSub(xs[k], cx), qy[j])), qn))]
                                            sgt == FMax(dqy[j], "1e-10")
                                        IN FLt(Zero, qn) =>
                                           /\ FLeq(FDiv(FMul(reach, sgt), "1.05"), VMax(perp))
                                           /\ FLeq(VMax(perp), FMul(FMul("3.0", sgt), "1.05")),
                          "tangential-extent",
                          LAMBDA j : <<"pixel", qx[j], qy[j], "tangential width", dqy[j], "radial width", dqx[j]>>))

ApplyRes2D(e) ==
    LET nq == Len(e.qx)
        acc == Lower(e.acc)
        nb == NR(acc) * NPHI(acc)
        sw == FSum(e.weights)
        colT(th, j) == RColumn(th, j, nq, nb)
    IN
    IF e.raised THEN << <<"constructs", e.error>> >>
    ELSE IF ~e.haswidth
    THEN Bad(FVecBits(e.qxc, e.qx) /\ FVecBits(e.qyc, e.qy), "perfect-qcalc-is-q", "")
         \o Bad(\A k \in 1..Len(e.probes) : FVecBits(e.probes[k].out, e.probes[k].theory), "zero-width-identity", "no dq")
    ELSE Checks2D(e.qx, e.qy, e.dqx, e.dqy, acc, e.qxc, e.qyc)
         \o Bad(Len(e.weights) = nb, "weight-count", ToString(<<Len(e.weights), nb>>))
         \o Bad(FVecAllFinite(e.weights) /\ FVecAllGeq(e.weights, Zero), "weights-nonnegative", "")
         \o Bad(FLt(Zero, sw), "rows-sum-to-one", "total weight is not positive")
         \o (IF Len(e.weights) # nb \/ Len(e.qxc) # nb * nq THEN <<>> ELSE
               RowClause(nq, LAMBDA j : \A k \in 1..Len(e.probes) :
                                  FNear(e.probes[k].out[j], FDiv(FDot(e.weights, colT(e.probes[k].theory, j)), sw), DotTol, "1e-300"),
                         "apply-is-weighted-average", LAMBDA j : "")
               \o RowClause(nq, LAMBDA j : \A k \in 1..Len(e.probes) : e.probes[k].name = "const" =>
                                  FNear(e.probes[k].out[j], e.probes[k].theory[1], "1e-12", Zero),
                            "constant-preserved", LAMBDA j : ""))

----------------------------------------------------------------------------
(* DirectModel: the public path.  base = smeared result at scale 1, background 0;
   unsmeared = the theory the kernel returned on q_calc for that call. *)
IsDyadic(s) == s \in {"0.25", "0.5", "1.0", "2.0", "4.0", "8.0"}
ApplyDirect(e) ==
    LET two == e.dkind = "2d"
        n == IF two THEN Len(e.qx) ELSE Len(e.q)
        cls == e.rescls
        pin == IsPin(cls)
        sigma == IF e.dkind = "pinhole" THEN e.sigma ELSE [i \in 1..n |-> Zero]
        L == IF e.dkind = "slit" THEN e.L ELSE [i \in 1..n |-> Zero]
        W == IF e.dkind = "slit" THEN e.W ELSE [i \in 1..n |-> Zero]
        tol(i) == IF two \/ pin \/ e.dkind # "slit" THEN "1e-12" ELSE RowTol(e.q[i], L[i], W[i])
        allzero == IF two THEN ~e.haswidth
                   ELSE \A i \in 1..n : FEq(sigma[i], Zero) /\ FEq(L[i], Zero) /\ FEq(W[i], Zero)
        \* the support clauses follow the widths the data carry, whatever class the data were given: a point
        \* with a non-zero width needs its window even when other points have none
        clsW == IF e.dkind = "pinhole" /\ \E i \in 1..n : ~FEq(sigma[i], Zero) THEN "Pinhole1D"
                ELSE IF e.dkind = "slit" /\ \E i \in 1..n : ~(FEq(L[i], Zero) /\ FEq(W[i], Zero)) THEN "Slit1D"
                ELSE cls
        flat == FVecBits(e.unsmeared, FVecConst(Len(e.unsmeared), e.unsmeared[1]))
        lin(c) == FVecShift(c.background, FVecScale(c.scale, e.base))
    IN
    IF e.raised THEN << <<"constructs", e.error>> >>
    ELSE
       Bad(Len(e.base) = n, "result-length", ToString(<<Len(e.base), n>>))
       \o Bad(FVecAllFinite(e.base), "apply-finite", "")
       \o (IF two
           THEN (IF e.haswidth THEN Checks2D(e.qx, e.qy, e.dqx, e.dqy, Lower(e.acc), e.qxc, e.qyc)
                 ELSE Bad(FVecBits(e.qxc, e.qx) /\ FVecBits(e.qyc, e.qy), "perfect-qcalc-is-q", ""))
           ELSE QcalcPositive(e.qcalc)
                \o (IF clsW \in {"Pinhole1D", "Slit1D"} THEN Covers(clsW, e.q, sigma, L, W, e.qcalc, DefaultNs) ELSE <<>>))
       \o (IF allzero
           THEN Bad(FVecBits(e.base, e.unsmeared), "zero-width-identity", ToString(<<"resolution class", cls>>))
           ELSE IF two THEN <<>>
           ELSE RowClause(n, LAMBDA i : (FEq(sigma[i], Zero) /\ FEq(L[i], Zero) /\ FEq(W[i], Zero)) =>
                                  \E j \in RIndicesOf(e.qcalc, e.q[i]) : FBits(e.base[i], e.unsmeared[j]),
                          "zero-width-identity", LAMBDA i : <<"q", e.q[i]>>))
       \o (IF flat /\ Len(e.base) = n
           THEN RowClause(n, LAMBDA i : FNear(e.base[i], e.unsmeared[1], tol(i), Zero), "flat-unchanged",
                          LAMBDA i : <<"flat", e.unsmeared[1], "smeared", e.base[i]>>)
           ELSE <<>>)
       \o RowClause(Len(e.calls), LAMBDA k : IF IsDyadic(e.calls[k].scale)
                                             THEN FVecBits(e.calls[k].out, lin(e.calls[k]))
                                             ELSE FVecNear(e.calls[k].out, lin(e.calls[k]), "1e-12", "1e-300"),
                    "linear-in-scale-and-background",
                    LAMBDA k : <<e.calls[k].scale, e.calls[k].background, FVecMaxRelErr(e.calls[k].out, lin(e.calls[k]))>>)

----------------------------------------------------------------------------
Verdict(e) == CASE e.ev = "Res1D" -> ApplyRes1D(e)
                [] e.ev = "Res2D" -> ApplyRes2D(e)
                [] e.ev = "Direct" -> ApplyDirect(e)
                [] OTHER -> << <<"unknown-event", e.ev>> >>

\* TLC's pretty printer wraps a printed tuple over several lines when it is longer than 80
\* characters, unless an element contains an (escaped) quote; the harness parses single lines,
\* so every detail ends with a quote mark.
Pad(d) == d \o " \"."
TInit == l = 1 /\ st = 0 /\ TLCSet(1, 0) /\ TLCSet(2, 0)
TNext ==
    /\ l <= NLines
    /\ LET e == TraceLog[l]
           all == Verdict(e)
           \* one verdict per clause (register 2 counts the REJECT lines the harness must parse)
           bads == SelectSeq([k \in 1..Len(all) |-> IF \E j \in 1..(k - 1) : all[j][1] = all[k][1] THEN <<>> ELSE all[k]],
                             LAMBDA x : x # <<>>)
       IN IF bads = <<>> THEN TRUE
          ELSE /\ \A k \in 1..Len(bads) : PrintT(<<"REJECT", e.tid, l, bads[k][1], Pad(bads[k][2])>>)
               /\ TLCSet(2, TLCGet(2) + Len(bads))
    /\ l' = l + 1
    /\ st' = st
    /\ TLCSet(1, l)
=============================================================================
