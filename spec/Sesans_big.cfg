\* thorough: every increasing xi sequence over 1..6 of length 1..4 (otherwise as Sesans.cfg)
SPECIFICATION Spec
CONSTANTS
  MaxXi = 6
  MaxN = 4
  R = 2
  LamA = 1
  LamB = 4
  MidDen = 8
  Variant = "asDesigned"
  Export = FALSE
INVARIANT TypeOK
INVARIANT NonEmpty
INVARIANT PositiveQ
INVARIANT StrictlyIncreasingQ
INVARIANT Covers
INVARIANT WeightsPositive
INVARIANT MaskUpClosed
INVARIANT FullAcceptsReachable
INVARIANT ZeroMasksAll
INVARIANT Linear
INVARIANT ZeroIsMinusG0
INVARIANT NonPositive
INVARIANT Bounded
CHECK_DEADLOCK FALSE
