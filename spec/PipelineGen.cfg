SPECIFICATION GenSpec
CONSTANTS
  Procs = {"p1", "p2", "p3"}
  MaxCrashes = 1
  Versions = {1, 2}
  Protocol = "atomic"
  MaxEdits = 2
INVARIANT Emit
CHECK_DEADLOCK FALSE
