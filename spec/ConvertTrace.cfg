CONSTANT Variant = "intended"
INIT TInit
NEXT TNext
POSTCONDITION TraceDone
CHECK_DEADLOCK FALSE
