-------------------------------- MODULE CLex --------------------------------
(***************************************************************************)
(* C15, design level: the lexer of CLexCore as a state machine fed with    *)
(* every string over Alphabet of at most MaxLen characters, one Char(c)    *)
(* step per character (a step first Emits the pending token when c cannot  *)
(* extend it).  TLC checks the invariants below on every such string and   *)
(* prints the well-formed ones with the expected rewrite; the harness      *)
(* replays them on generate.convert_type and CLexTrace validates what the  *)
(* implementation returned.  The token catalogue (CatLines) is the second  *)
(* family of inputs: every pair of catalogue entries around every          *)
(* separator.                                                              *)
(***************************************************************************)
EXTENDS CLexCore

\* ---------------------------------------------------------------- behaviour: all short strings
CONSTANTS Alphabet, MaxLen
\* numeric alphabet: decimal and hexadecimal constants, suffixes, identifiers, strings, comments
AlphabetNum == {"0", "1", ".", "e", "+", "x", "p", "f", DQuote, "/", "*", " ", "("}
\* structural alphabet: literals, escapes, splices, comments, directives around one constant
AlphabetStruct == {"1", ".", DQuote, SQuote, BSlash, NL, "/", "*", "#", " ", "d"}
VARIABLES text, mode, tok, out, aux
vars == <<text, mode, tok, out, aux>>
Cur == [mode |-> mode, tok |-> tok, out |-> out, bs |-> aux.bs, esc |-> aux.esc,
        bol |-> aux.bol, dir |-> aux.dir, gap |-> aux.gap]
Load(L) == /\ mode' = L.mode /\ tok' = L.tok /\ out' = L.out
           /\ aux' = [bs |-> L.bs, esc |-> L.esc, bol |-> L.bol, dir |-> L.dir, gap |-> L.gap]
Init == /\ text = "" /\ mode = L0.mode /\ tok = L0.tok /\ out = L0.out
        /\ aux = [bs |-> FALSE, esc |-> FALSE, bol |-> TRUE, dir |-> "no", gap |-> TRUE]
Char(c) == /\ Len(text) < MaxLen /\ text' = text \o c /\ Load(CharStep(Cur, c))
Next == \E c \in Alphabet : Char(c)
Spec == Init /\ [][Next]_vars

\* ---------------------------------------------------------------- invariants
TokOK(t) == t.cls \in Classes /\ Len(t.txt) >= 1 /\ t.gap \in BOOLEAN
TypeOK == /\ mode \in Modes /\ aux.dir \in {"no", "hash", "include", "body"}
          /\ \A i \in 1..Len(out) : TokOK(out[i])
          /\ (mode = "code" => tok = "") /\ (mode \in {"ident", "number", "punct", "string", "chr", "header"} => tok # "")
\* determinism: the state reached step by step depends on the text only
StateIsRun == LexRun(L0, text) = Cur
\* no character is lost: token texts are, in order, pieces of the text (checked through
\* re-lexing: printing the tokens with separating blanks gives the same tokens again)
Relex == WellFormed(text) => Plain(Lex(Text(Lex(text)))) = Plain(Lex(text))
\* laws of the rewrite, for the tokens T of a well-formed text
ConvertLaws ==
    WellFormed(text) =>
      LET T == Lex(text) IN
      /\ Plain(Convert(T, 64)) = Plain(T)
      /\ \A p \in {32, 128} :
           LET C == Convert(T, p) IN
           \* the rewritten tokens, printed, are exactly these tokens (a suffix never splits or joins tokens)
           /\ Plain(Lex(Text(C))) = Plain(C)
           \* only floating type names and unsuffixed floating constants change
           /\ \A k \in 1..Len(T) :
                Plain(ConvTok(T[k], k, p)) # Plain(<<T[k]>>)
                  => TokClass(T[k]) \in {"decfloat", "decfloat-leading-zero", "hexfloat", "type-keyword", "vector-type"}
           \* converting twice to single changes nothing more
           /\ (p = 32 => Plain(Convert(C, 32)) = Plain(C))
\* every floating constant of the result has the requested precision (sharp enough to see
\* an untagged hexadecimal constant: CLex_asWritten.cfg must violate it)
AllFloatsTagged ==
    WellFormed(text) =>
      \A p \in {32, 128} : \A t \in {Convert(Lex(text), p)[i] : i \in 1..Len(Convert(Lex(text), p))} :
          t.cls = "num" /\ NumInfo(t.txt).kind \in {"decfloat", "hexfloat"} => NumInfo(t.txt).suffix # ""
\* export for replay (always true)
Export == WellFormed(text) /\ Len(text) >= 1 =>
            PrintT(<<"CASE", ToJson([s |-> text, e32 |-> Text(Convert(Lex(text), 32))])>>)
=============================================================================
