-------------------------------- MODULE CLex --------------------------------
(***************************************************************************)
(* C15, design level: the lexer of CLexCore as a state machine fed with    *)
(* every string over Alphabet of at most MaxLen characters, one Char(c)    *)
(* step per character (a step first Emits the pending token when c cannot  *)
(* extend it).  TLC checks the invariants below on every such string and   *)
(* prints the well-formed ones with the expected rewrite; the harness      *)
(* replays them on generate.convert_type and CLexTrace validates what the  *)
(* implementation returned.  The token catalogue (CatLines) is the second  *)
(* family of inputs: every pair of catalogue entries around every          *)
(* separator.                                                              *)
(***************************************************************************)
EXTENDS CLexCore

\* the spellings of a precision request to be replayed (constant-level export)
ASSUME PrintT(<<"SPELLINGS", ToJson(AllSpellings)>>)

\* ---------------------------------------------------------------- behaviour: all short strings
CONSTANTS Alphabet, MaxLen
\* numeric alphabet: decimal and hexadecimal constants, suffixes, identifiers, strings, comments
AlphabetNum == {"0", "1", ".", "e", "+", "x", "p", "f", DQuote, "/", "*", " ", "("}
\* structural alphabet: literals, escapes, splices, comments, directives around one constant
AlphabetStruct == {"1", ".", DQuote, SQuote, BSlash, NL, "/", "*", "#", " ", "d"}
\* for the vacuity control
AlphabetHex == {"0", "1", "x", "p", "."}
\* Token catalogue: the tokens named by the property and by generate.test_tag_float, around
\* every separator.  A line is  first \o separator \o second.
Catalogue ==
    {"1e3", "x1e3", "3.f", ".5", "0x1.8p3", "a.b", "/*1.0.8*/", "//1.0.8 double", "struct3.e3",
     "(double)", "(double)x", "(float)1", "my_double", "doubled", "double_", "xdouble", "cdouble",
     "double3", "double1", "double32", "Double", "DOUBLE", "double", "double2", "double4", "double8",
     "double16", "float", "long double", "int", "cdouble2",
     \* generate.test_tag_float
     "0.", "0.0", "0.01", "0e+001", "0.E0", "0.13e-031", "12.", "1.0001", "1e0", "37E-080", "1.e0",
     "37.E-080", "845.017e+22", ".0100", ".6e+9", ".82E-004", "/*03.05.67*/", "37", "3.75+-1.6e-7-27+13.2",
     "a3.e2", "4*atan(1)", "4.*atan(1.)",
     \* suffixes, hexadecimal and octal forms, leading zeros
     "1.0f", "1.0F", "1.0L", "1.0l", "1e3f", ".5f", "0x10", "0xFF", "0x1p-3", "0X1.8P+3", "0x.8p1", "0x1p3f",
     "0x1p3L", "0xep1", "0x1e1", "017", "100", "1u", "10UL", "1e+3", "1E-3", "01.5", "007.", "00e1",
     \* literals and comments
     "\"1.5\"", "\"double\"", "\"%g 1.5 \"", "\"a\\\"1.0\"", "'a'", "'\"'", "'\\''", "L\"2.5\"", "/*\"*/", "/* 1.0 double */",
     \* member access, exponent-like identifiers, calls of type-generic functions
     "#include <a/1.5/b.h>", "#define X 1.5", "x->y", "a[1]", "s.e1", "p.x1e3", "e3", "E1", "f", "sin(2)", "pow(2,3)", "exp(-1)", "sqrt(2 )", "fabs(x)",
     "-1.", "+.5", "1.+1."}
Separators == {" ", ",", "+", "-", "*", "(", ")", ";", "="}
SeparatorsQuick == {" ", ","}

\* stage 0: character by character (Char); stages 1..3: first, separator, second (Feed)
VARIABLES text, mode, tok, out, aux, stage
vars == <<text, mode, tok, out, aux, stage>>
Cur == [mode |-> mode, tok |-> tok, out |-> out, bs |-> aux.bs, esc |-> aux.esc,
        bol |-> aux.bol, dir |-> aux.dir, gap |-> aux.gap, spl |-> aux.spl]
Load(L) == /\ mode' = L.mode /\ tok' = L.tok /\ out' = L.out
           /\ aux' = [bs |-> L.bs, esc |-> L.esc, bol |-> L.bol, dir |-> L.dir, gap |-> L.gap, spl |-> L.spl]
Init == /\ text = "" /\ mode = L0.mode /\ tok = L0.tok /\ out = L0.out /\ stage = 0
        /\ aux = [bs |-> FALSE, esc |-> FALSE, bol |-> TRUE, dir |-> "no", gap |-> TRUE, spl |-> FALSE]
\* Char: the lexer reads one character (and Emits the pending token first when c ends it)
Char(c) == /\ Len(text) < MaxLen /\ text' = text \o c /\ Load(CharStep(Cur, c)) /\ UNCHANGED stage
Next == \E c \in Alphabet : Char(c)
Spec == Init /\ [][Next]_vars
\* Feed: the lexer reads a catalogue entry or a separator
Feed(t) == /\ text' = text \o t /\ Load(LexRun(Cur, t)) /\ stage' = stage + 1
NextCat == /\ stage < 3
           /\ \E t \in (IF stage = 1 THEN Separators ELSE Catalogue) : Feed(t)
SpecCat == Init /\ [][NextCat]_vars
Complete == stage \in {0, 3}

\* ---------------------------------------------------------------- invariants
\* the tokens of the text read so far, and whether it is well-formed
CurEnd == Finish(Cur)
CurTokens == CurEnd.out
CurWF == CurEnd.mode = "code" /\ WFTokens(CurTokens)

TokOK(t) == t.cls \in Classes /\ Len(t.txt) >= 1 /\ t.gap \in BOOLEAN /\ t.bol \in BOOLEAN /\ t.spl \in BOOLEAN
TypeOK == /\ mode \in Modes /\ aux.dir \in {"no", "hash", "include", "body"}
          /\ \A i \in 1..Len(out) : TokOK(out[i])
          /\ (mode = "code" => tok = "") /\ (mode \in {"ident", "number", "punct", "string", "chr", "header"} => tok # "")
\* determinism: the state reached step by step is the value of the lexer on the text
StateIsRun == LexRun(L0, text) = Cur /\ Lex(text) = CurTokens /\ WellFormed(text) = CurWF
\* no character is lost or invented: printing the tokens and reading them again gives the same tokens
Relex == CurWF => Plain(Lex(Text(CurTokens))) = Plain(CurTokens)
\* laws of the rewrite, for the tokens T of a well-formed text
ConvertLaws ==
    CurWF =>
      LET T == CurTokens IN
      /\ Plain(Convert(T, 64)) = Plain(T)
      /\ \A p \in {32, 128} :
           LET C == Convert(T, p) IN
           \* the rewritten tokens, printed, are exactly these tokens (a suffix never splits or joins tokens)
           /\ Plain(Lex(Text(C))) = Plain(C)
           \* only floating type names and unsuffixed floating constants change
           /\ \A k \in 1..Len(T) :
                Plain(ConvTok(T[k], k, p)) # Plain(<<T[k]>>)
                  => TokClass(T[k]) \in {"decfloat", "decfloat-leading-zero", "hexfloat", "type-keyword", "vector-type"}
           \* no double-precision type name is left in the single-precision text; converting twice
           \* to single changes nothing more
           /\ (p = 32 => /\ \A i \in 1..Len(C) : TokClass(C[i]) \notin {"type-keyword", "vector-type"}
                         /\ Plain(Convert(C, 32)) = Plain(C))
\* every floating constant of the result has the requested precision (sharp enough to see an
\* untagged hexadecimal constant: CLex_asWritten.cfg must violate it)
AllFloatsTagged ==
    CurWF => \A p \in {32, 128} :
               LET C == Convert(CurTokens, p) IN
               \A i \in 1..Len(C) :
                  C[i].cls = "num" /\ NumInfo(C[i].txt).kind \in {"decfloat", "hexfloat"} => NumInfo(C[i].txt).suffix # ""
\* export for replay (always true)
\* s: the text; e32: the expected single-precision tokens, printed; chg: how many tokens change
Export == Complete /\ CurWF /\ Len(text) >= 1 =>
            LET T == CurTokens IN
            PrintT(<<"CASE", ToJson([s |-> text, e32 |-> Text(Convert(T, 32)),
                                     chg |-> Cardinality({k \in 1..Len(T) : Plain(ConvTok(T[k], k, 32)) # Plain(<<T[k]>>)})])>>)
=============================================================================
