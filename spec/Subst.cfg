SPECIFICATION Spec
CONSTANTS
  Nums = {2, 3}
  Mode = "paren"
INVARIANT PrintReads
INVARIANT PasteMeansSubstitution
CHECK_DEADLOCK FALSE
