----------------------------- MODULE CacheTrace -----------------------------
(***************************************************************************)
(* Trace validation for Cache: a real plugin (definition + included C file *)
(* + kernel template in a scratch copy of the package) is edited, and      *)
(* loaded by long-lived or fresh interpreter processes sharing one cache   *)
(* directory.  Every version writes distinct constants, so the value       *)
(* returned for a fixed request reads the versions back:                   *)
(*     I = 1000*v_py + 100*v_inc + v_tmpl     (exact in every precision)   *)
(* (v_py reaches the value through the default of a parameter for versions *)
(* 1 and 2, which generate the same C, and through a C constant for 3)     *)
(* Events: begin | Edit(f, v) | Load(p, b) -> value, dtype, npars, number  *)
(* of libraries per precision in the cache | NewProcess(p).                *)
(* The specification state is Cache's; each event must be the named Cache  *)
(* action and the observed result must be the Meaning of the CURRENT texts *)
(* (Coherent), the reported precision must be the requested one, and the   *)
(* cache must hold at least one library per distinct (source, precision)   *)
(* built so far (NoSharing).                                               *)
(***************************************************************************)
EXTENDS TraceBase, Cache

VARIABLES l, skip
tvars == <<l, skip, vars>>

Meaning(src) == 1000 * src.py + 100 * src.inc + src.tmpl
NParsOf(src) == IF src.py = 3 THEN 3 ELSE 2      \* version 3 of the definition adds a parameter

Reset == /\ text' = [f \in Files |-> 1] /\ mtime' = [f \in Files |-> 0] /\ clock' = 1
         /\ dll' = {} /\ means' = <<>> /\ modc' = [p \in Procs |-> NoMod]
         /\ tmplc' = [p \in Procs |-> NoTmpl] /\ last' = [p \in Procs |-> NoLast] /\ wrapc' = [p \in Procs |-> {}]
         /\ svc' = [p \in Procs |-> NoSv]
         /\ just' = NoJust /\ steps' = 0

\* what an evaluation of (library, table) returns: the definition's version arrives through the table's default
\* for versions 1 and 2 and through the C source for version 3
ValueOf(r) == 1000 * (IF r.src.py = 3 THEN 3 ELSE r.info) + 100 * r.src.inc + r.src.tmpl
\* which of the three files the returned value is stale about
StaleParts(value) ==
    LET cur == Meaning(Current) IN
    (IF value \div 1000 # cur \div 1000 THEN <<"py">> ELSE <<>>)
    \o (IF (value \div 100) % 10 # (cur \div 100) % 10 THEN <<"inc">> ELSE <<>>)
    \o (IF value % 100 # cur % 100 THEN <<"tmpl">> ELSE <<>>)

Reject(e, clause, detail) ==
    /\ PrintT(<<"REJECT", e.tid, l, clause, detail>>) /\ TLCSet(2, TLCGet(2) + 1)
    /\ skip' = TRUE /\ UNCHANGED vars

DistinctBuilt(b) == Cardinality({k \in dll' : means'[k].bits = b})

TInit == Init /\ l = 1 /\ skip = FALSE /\ TLCSet(1, 0) /\ TLCSet(2, 0)
TNext ==
    /\ l <= NLines
    /\ l' = l + 1
    /\ TLCSet(1, l)
    /\ LET e == TraceLog[l] IN
       IF e.ev = "begin" THEN Reset /\ skip' = FALSE
       ELSE IF skip THEN UNCHANGED <<skip, vars>>
       ELSE IF e.ev = "Edit" THEN
            IF ~ENABLED Edit(e.f, e.v) THEN Reject(e, "harness-edit-not-enabled", e.f)
            ELSE IF e.mtime # clock THEN Reject(e, "harness-mtime", ToString(<<e.mtime, clock>>))
            ELSE Edit(e.f, e.v) /\ skip' = FALSE
       ELSE IF e.ev = "NewProcess" THEN
            IF ~ENABLED NewProcess(e.p) THEN Reject(e, "harness-newprocess-not-enabled", e.p)
            ELSE NewProcess(e.p) /\ skip' = FALSE
       ELSE IF e.ev = "SvLoad" THEN
            \* the SasView route.  The registry of model classes is modelled as written (a class and its compiled
            \* kernel are kept while the module object is unchanged); a value that is not even that is rejected and
            \* the history abandoned, a value that is that but not the meaning of the current texts is reported
            \* (Coherent) and the history goes on
            IF e.raised # "" THEN Reject(e, "load-raised", e.raised)
            ELSE IF ~ENABLED LoadSv(e.p) THEN Reject(e, "harness-load-not-enabled", e.p)
            ELSE IF ~ENABLED (LoadSv(e.p) /\ ValueOf(last'[e.p]) = e.value) THEN
                 Reject(e, "stale-or-wrong-sources", ToString(<<"sasview route", "stale", StaleParts(e.value), "expected", Meaning(Current), "got", e.value>>))
            ELSE /\ LoadSv(e.p) /\ skip' = FALSE
                 /\ IF e.value = Meaning(Current) THEN TRUE
                    ELSE PrintT(<<"REJECT", e.tid, l, "stale-or-wrong-sources",
                                  ToString(<<"sasview route", "stale", StaleParts(e.value), "expected", Meaning(Current), "got", e.value>>)>>)
                         /\ TLCSet(2, TLCGet(2) + 1)
       ELSE IF e.ev = "Load" THEN
            IF e.raised # "" THEN Reject(e, "load-raised", e.raised)
            \* Coherent: the value must be the meaning of the current texts ...
            ELSE IF e.value # Meaning(Current) THEN Reject(e, "stale-or-wrong-sources", ToString(<<"expected", Meaning(Current), "got", e.value>>))
            ELSE IF e.npars # NParsOf(Current) THEN Reject(e, "stale-parameter-table", ToString(e.npars))
            \* ... at the requested precision
            ELSE IF e.dtypebits # e.b THEN Reject(e, "precision", ToString(<<e.b, e.dtypebits>>))
            ELSE IF ~ENABLED Load(e.p, e.b) THEN Reject(e, "harness-load-not-enabled", e.p)
            ELSE /\ Load(e.p, e.b) /\ skip' = FALSE
                 \* NoSharing: at least one library per distinct (source, precision) built so far
                 /\ IF e.nlib32 >= DistinctBuilt(32) /\ e.nlib64 >= DistinctBuilt(64) /\ e.nlib128 >= DistinctBuilt(128)
                    THEN TRUE
                    ELSE PrintT(<<"REJECT", e.tid, l, "libraries-shared", ToString(<<e.nlib32, e.nlib64, e.nlib128>>)>>)
                         /\ TLCSet(2, TLCGet(2) + 1)
       ELSE Reject(e, "unknown-event", e.ev)
=============================================================================
