SPECIFICATION GenSpec
CONSTANTS
  Procs = {"p1", "p2"}
  Versions = {1, 2, 3}
  Bits = {32, 64, 128}
  MaxSteps = 12
  Variant = "ok"
  WithSv = TRUE
  Stamps = "now"
  SvMode = "asWritten"
INVARIANT Emit
CHECK_DEADLOCK FALSE
