\* vacuity control: the wrong reading "exclusive-limits" MUST violate an invariant
SPECIFICATION Spec
CONSTANTS
  Variant = "exclusive-limits"
  Mode = "check"
INVARIANT TypeOK
INVARIANT DefinedWhereDocumented
INVARIANT WellFormed
INVARIANT StrictlyIncreasing
INVARIANT InsideLimits
INVARIANT InsideSupport
INVARIANT FiniteNonNegative
INVARIANT SumsToOne
INVARIANT Proportional
INVARIANT DegenerateIsCentre
INVARIANT EveryInLimitPointPresent
INVARIANT OnlyGridPoints
INVARIANT AbsoluteCentredOnZero
INVARIANT RelativeWidthScalesWithCentre
INVARIANT WidthMeaning
CHECK_DEADLOCK FALSE
