SPECIFICATION Spec
CONSTANTS
  Nums = {2, 3}
  Mode = "bare"
INVARIANT PrintReads
INVARIANT PasteMeansSubstitution
CHECK_DEADLOCK FALSE
