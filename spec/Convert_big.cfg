\* thorough tier: every model_version, each single old name also with all its attributes
SPECIFICATION Spec
CONSTANTS
  Variant = "intended"
  ModelVersions <- MVAll
  Underscores = {TRUE, FALSE}
  ClassSet = {"empty", "single", "singleAttrs", "values", "all", "full"}
INVARIANT TypeOK
INVARIANT Identity
INVARIANT NameOfCurrentModel
INVARIANT AllNamesExist
INVARIANT ValuesCarried
INVARIANT NoCollision
INVARIANT DefaultsHold
CHECK_DEADLOCK FALSE
