------------------------------- MODULE Build -------------------------------
(***************************************************************************)
(* kerneldll.make_dll / DllModel._load_dll under concurrent first use and  *)
(* crashes.  One cache entry (one final library path) shared by a set of   *)
(* processes, each running                                                 *)
(*                                                                         *)
(*   Lookup      os.path.exists(dll)                 kerneldll.make_dll    *)
(*   Mkdir       os.makedirs(cache directory, exist_ok=True): whoever comes *)
(*               first creates it, the others find it there                 *)
(*   WriteSrc    tempfile.mkstemp + write C source                         *)
(*   CcBegin     the compiler/linker creates its output file (empty)       *)
(*   CcHalf      ... has written part of it                                *)
(*   CcEnd       ... has written all of it and exits                       *)
(*   Publish     os.replace(private output, dll)      ("atomic" protocol)  *)
(*   Unlink      os.unlink(temporary C source)                             *)
(*   Dlopen      ct.CDLL(dll)                         DllModel._load_dll   *)
(*                                                                         *)
(* Protocol = "inplace": the compiler writes directly to the final name     *)
(* (the code before the repair).  Protocol = "atomic": the compiler writes  *)
(* a private file in the cache directory which is renamed onto the final    *)
(* name (the current tree).  A process can be killed at any step; the       *)
(* compiler child either dies with it or runs to completion.  The compiler  *)
(* child alone may also be killed (CcKilled: out of memory, a signal) while *)
(* its parent lives: compile_model then raises, the private output is       *)
(* removed and that process gets no kernel - nothing is published.          *)
(* SignalDeath = "success" (a compiler that died from a signal is taken to  *)
(* have succeeded) is a failing control.                                    *)
(***************************************************************************)
EXTENDS Naturals, FiniteSets, TLC

CONSTANTS Procs,        \* process identities (some start late = "the next attempt")
          MaxCrashes,
          Protocol,     \* "inplace" | "atomic"
          SignalDeath,  \* "failure" (a compiler killed by a signal is a failed compile) | "success" (failing control)
          MkdirMode     \* "idempotent" (exist_ok=True) | "exclusive" (test-then-create: failing control)

VARIABLES final,   \* state of the final library path: "absent" | "partial" | "complete"
          priv,    \* [Procs -> "absent" | "partial" | "complete"]  private compiler output (atomic)
          src,     \* [Procs -> BOOLEAN]  temporary C source exists
          pc,      \* [Procs -> label]
          cc,      \* [Procs -> BOOLEAN]  a compiler child of p is running (survives a kill of p)
          got,     \* [Procs -> "none" | "ok" | "bad"]  result of dlopen
          dir,     \* BOOLEAN  the cache directory exists
          seen,    \* [Procs -> BOOLEAN]  p found the directory missing when it looked (exclusive mode only)
          crashes
vars == <<final, priv, src, pc, cc, got, dir, seen, crashes>>

Labels == {"idle", "lookup", "mkdir", "broken", "writesrc", "ccbegin", "cchalf", "ccend", "publish", "unlink",
           "dlopen", "done", "dead", "failed"}

Init ==
    /\ final = "absent"
    /\ priv = [p \in Procs |-> "absent"]
    /\ src = [p \in Procs |-> FALSE]
    /\ pc = [p \in Procs |-> "idle"]
    /\ cc = [p \in Procs |-> FALSE]
    /\ got = [p \in Procs |-> "none"]
    /\ dir = FALSE
    /\ seen = [p \in Procs |-> FALSE]
    /\ crashes = 0

Start(p) == /\ pc[p] = "idle"
            /\ pc' = [pc EXCEPT ![p] = "lookup"]
            /\ UNCHANGED <<final, priv, src, cc, got, dir, seen, crashes>>

Lookup(p) == /\ pc[p] = "lookup"
             /\ pc' = [pc EXCEPT ![p] = IF final # "absent" THEN "dlopen" ELSE "mkdir"]
             \* (exclusive mode tests for the directory here, before creating it in the next step)
             /\ seen' = [seen EXCEPT ![p] = ~dir]
             /\ UNCHANGED <<final, priv, src, cc, got, dir, crashes>>

\* os.makedirs of the cache directory
Mkdir(p) == /\ pc[p] = "mkdir"
            /\ IF MkdirMode = "exclusive" /\ seen[p] /\ dir
               THEN pc' = [pc EXCEPT ![p] = "broken"] /\ UNCHANGED dir       \* FileExistsError
               ELSE pc' = [pc EXCEPT ![p] = "writesrc"] /\ dir' = TRUE
            /\ UNCHANGED <<final, priv, src, cc, got, seen, crashes>>

\* mkstemp + write of the C source; in the atomic protocol also mkstemp of the private output
\* (an empty placeholder in the cache directory, never under the final name)
WriteSrc(p) == /\ pc[p] = "writesrc"
               /\ src' = [src EXCEPT ![p] = TRUE]
               /\ priv' = IF Protocol = "atomic" THEN [priv EXCEPT ![p] = "partial"] ELSE priv
               /\ pc' = [pc EXCEPT ![p] = "ccbegin"]
               /\ UNCHANGED <<final, cc, got, dir, seen, crashes>>

\* the output file the compiler of p writes
SetOut(p, v) == IF Protocol = "inplace"
                THEN final' = v /\ UNCHANGED priv
                ELSE priv' = [priv EXCEPT ![p] = v] /\ UNCHANGED final

\* the linker removes an existing output and creates a new, empty file
CcBegin(p) == /\ pc[p] = "ccbegin"
              /\ SetOut(p, "partial")
              /\ cc' = [cc EXCEPT ![p] = TRUE]
              /\ pc' = [pc EXCEPT ![p] = "cchalf"]
              /\ UNCHANGED <<src, got, dir, seen, crashes>>
CcHalf(p) == /\ pc[p] = "cchalf"
             /\ pc' = [pc EXCEPT ![p] = "ccend"]
             /\ UNCHANGED <<final, priv, src, cc, got, dir, seen, crashes>>
CcEnd(p) == /\ pc[p] = "ccend"
            /\ SetOut(p, "complete")
            /\ cc' = [cc EXCEPT ![p] = FALSE]
            /\ pc' = [pc EXCEPT ![p] = IF Protocol = "atomic" THEN "publish" ELSE "unlink"]
            /\ UNCHANGED <<src, got, dir, seen, crashes>>

\* os.replace: atomic with respect to every other step
Publish(p) == /\ pc[p] = "publish"
              /\ final' = priv[p]
              /\ priv' = [priv EXCEPT ![p] = "absent"]
              /\ pc' = [pc EXCEPT ![p] = "unlink"]
              /\ UNCHANGED <<src, cc, got, dir, seen, crashes>>

Unlink(p) == /\ pc[p] = "unlink"
             /\ src' = [src EXCEPT ![p] = FALSE]
             /\ pc' = [pc EXCEPT ![p] = "dlopen"]
             /\ UNCHANGED <<final, priv, cc, got, dir, seen, crashes>>

Dlopen(p) == /\ pc[p] = "dlopen"
             /\ got' = [got EXCEPT ![p] = IF final = "complete" THEN "ok" ELSE "bad"]
             /\ pc' = [pc EXCEPT ![p] = "done"]
             /\ UNCHANGED <<final, priv, src, cc, dir, seen, crashes>>

\* SIGKILL of process p at any step; its compiler child, if any, dies too (killchild) or not
Crash(p, killchild) ==
    /\ pc[p] \notin {"idle", "done", "dead"}
    /\ crashes < MaxCrashes
    /\ crashes' = crashes + 1
    /\ pc' = [pc EXCEPT ![p] = "dead"]
    /\ cc' = [cc EXCEPT ![p] = IF killchild THEN FALSE ELSE @]
    /\ UNCHANGED <<final, priv, src, got, dir, seen>>
\* the compiler child of a living process is killed after it has created (and half written) its output
CcKilled(p) ==
    /\ pc[p] \in {"cchalf", "ccend"} /\ cc[p]
    /\ crashes < MaxCrashes
    /\ crashes' = crashes + 1
    /\ cc' = [cc EXCEPT ![p] = FALSE]
    /\ IF SignalDeath = "success" /\ Protocol = "atomic"
       THEN pc' = [pc EXCEPT ![p] = "publish"] /\ UNCHANGED <<final, priv>>       \* goes on with the partial file
       ELSE /\ pc' = [pc EXCEPT ![p] = "failed"]                                   \* compile_model raises
            /\ IF Protocol = "atomic" THEN priv' = [priv EXCEPT ![p] = "absent"] /\ UNCHANGED final   \* finally: unlink
               ELSE UNCHANGED <<final, priv>>
    /\ UNCHANGED <<src, got, dir, seen>>
\* an orphaned compiler finishes its output
OrphanCcEnd(p) == /\ pc[p] = "dead" /\ cc[p]
                  /\ SetOut(p, "complete")
                  /\ cc' = [cc EXCEPT ![p] = FALSE]
                  /\ UNCHANGED <<src, pc, got, dir, seen, crashes>>

Step(p) == \/ Start(p) \/ Lookup(p) \/ Mkdir(p) \/ WriteSrc(p) \/ CcBegin(p) \/ CcHalf(p) \/ CcEnd(p)
           \/ Publish(p) \/ Unlink(p) \/ Dlopen(p) \/ OrphanCcEnd(p)
Next == \E p \in Procs : Step(p) \/ Crash(p, TRUE) \/ Crash(p, FALSE) \/ CcKilled(p)
Spec == Init /\ [][Next]_vars /\ \A p \in Procs : WF_vars(Step(p))

TypeOK == /\ final \in {"absent", "partial", "complete"}
          /\ \A p \in Procs : pc[p] \in Labels

\* ---- properties (C18)
\* a truncated or partially written library is never loaded
NoPartialLoad == \A p \in Procs : got[p] # "bad"
\* every process that is not killed obtains a working kernel
EveryoneGetsAKernel == \A p \in Procs : pc[p] = "done" => got[p] = "ok"
\* nothing partial is left in place under the final name: whenever no compiler is running,
\* the final path is absent or complete (so the next attempt succeeds)
CompilerRunning == \E p \in Procs : cc[p]
NothingPartialLeft == ~CompilerRunning => final # "partial"
\* with the atomic protocol the final name is never partial at all
FinalNeverPartial == Protocol = "atomic" => final # "partial"
\* liveness: every process that is not killed finishes
\* no process fails for a reason other than the death of its compiler
NoneBroken == \A p \in Procs : pc[p] # "broken"
Terminates == <>(\A p \in Procs : pc[p] \in {"done", "dead", "failed", "broken"})
=============================================================================
