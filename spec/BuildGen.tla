------------------------------ MODULE BuildGen ------------------------------
(***************************************************************************)
(* Behaviour export for replay: every complete schedule of Build is        *)
(* printed as the sequence of <<process, label-before-the-step, killchild>>*)
(***************************************************************************)
EXTENDS Build, Sequences, Json

CONSTANT Failures    \* "all" | "cc": only the compiler child is ever killed (schedules for that failure mode)
VARIABLE hist
GenInit == Init /\ hist = <<>>
GenNext == \E p \in Procs :
              \/ Step(p) /\ hist' = Append(hist, [proc |-> p, label |-> IF pc[p] = "dead" THEN "orphan" ELSE pc[p], kill |-> FALSE])
              \/ Failures = "all" /\ Crash(p, TRUE) /\ hist' = Append(hist, [proc |-> p, label |-> "crash", kill |-> TRUE])
              \/ Failures = "all" /\ Crash(p, FALSE) /\ hist' = Append(hist, [proc |-> p, label |-> "crash", kill |-> FALSE])
              \/ CcKilled(p) /\ hist' = Append(hist, [proc |-> p, label |-> "cckill", kill |-> TRUE])
GenSpec == GenInit /\ [][GenNext]_<<vars, hist>>
Quiescent == (\A p \in Procs : pc[p] \in {"done", "dead", "idle", "failed", "broken"}) /\ ~CompilerRunning
             /\ \E p \in Procs : pc[p] # "idle"
Emit == Quiescent => PrintT(<<"BEHAVIOUR", ToJson([steps |-> hist])>>)
=============================================================================
