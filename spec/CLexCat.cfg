\* catalogue lines: first, separator, second
CONSTANTS
    Alphabet <- AlphabetNum
    MaxLen = 0
    TagHexFloats = TRUE
INIT Init
NEXT NextCat
INVARIANT TypeOK
INVARIANT StateIsRun
INVARIANT Relex
INVARIANT ConvertLaws
INVARIANT AllFloatsTagged
INVARIANT Export
CHECK_DEADLOCK FALSE
