------------------------------- MODULE Sesans -------------------------------
(***************************************************************************)
(* C19 - the SESANS transform is the Hankel transform G(xi) - G(0).        *)
(*                                                                         *)
(*   sesans.SesansTransform.__init__ / _set_hankel  -> Construct           *)
(*   sesans.SesansTransform.apply                   -> ApplyOp             *)
(*                                                                         *)
(* Design level (this module, exact integers, explored exhaustively):      *)
(*   Construct(SElength, lambda, acceptance, Rmax) -> q_calc: a geometric  *)
(*   grid q_j = q_min R^(j-1) covering [q_min, q_max), the one-sided       *)
(*   weights w_j = q_j dq_j, and the acceptance mask; Apply is the linear  *)
(*   map  P_k = sum_j w_j (Acc(j,k) K(q_j xi_k) - K(0)) I_j / 2pi.         *)
(*   All quantities are integers in a per-configuration unit (q/2pi in     *)
(*   units of 1/Den, so q_min = 1); K is an uninterpreted bounded kernel   *)
(*   (|K| <= S = K(0), as |J0| <= 1 = J0(0)); the laws below hold for any  *)
(*   such kernel.  The real grid ratio is 1.0003; the small model uses R.  *)
(*                                                                         *)
(* The analytic content of the property (Hankel pairs of Gaussians, the    *)
(* precondition InRange and the tolerance) is written in SesansCore and    *)
(* evaluated by TLC over IEEE doubles in SesansTrace on recorded           *)
(* applications of the real transform.  This module also DEFINES the       *)
(* configuration lattice that the harness replays (Lattice, DMLattice,     *)
(* GaussClasses, Mixtures): TLC enumerates it, the harness only            *)
(* concretises it.                                                         *)
(***************************************************************************)
EXTENDS SesansCore, Integers, FiniteSets, TLC, Json

CONSTANTS MaxXi,     \* spin-echo lengths are integers 1..MaxXi
          MaxN,      \* number of spin-echo lengths 1..MaxN
          R,         \* grid ratio of the small model (integer >= 2)
          LamA, LamB,\* wavelengths (integers)
          MidDen,    \* "mid" acceptance: sin(theta_acc) = 1/MidDen
          Variant,   \* "asDesigned" | "invertedMask" (must fail: vacuity control)
          Export     \* TRUE: print the replay lattice

VARIABLES phase,  \* "new" | "built" | "applied"
          c,      \* configuration of the constructed transform
          res     \* last application
vars == <<phase, c, res>>

\* ------------------------------------------------------------ configurations
XiSeqs == {s \in UNION {[1..n -> 1..MaxXi] : n \in 1..MaxN} :
             \A i \in 1..(Len(s) - 1) : s[i] < s[i + 1]}
LamKinds == {"constA", "constB", "ramp"}
LamOf(kind, k) == CASE kind = "constA" -> LamA [] kind = "constB" -> LamB [] OTHER -> LamA + (k - 1)
AccKinds == {"full", "mid", "zero"}
Configs == {[xi |-> s, lam |-> [k \in 1..Len(s) |-> LamOf(lk, k)], acc |-> a] :
              s \in XiSeqs, lk \in LamKinds, a \in AccKinds}
NoCfg == [xi |-> <<>>, lam |-> <<>>, acc |-> "none"]

\* ------------------------------------------------------------ Construct
N(cf) == Len(cf.xi)
\* sesans.py:63-70.  q/2pi in units of 1/Den:  q_min = 1
\*   one point:   q_min = 0.01 2pi/xi,            q_max = 10 2pi/xi
\*   otherwise:   q_min = 0.1 2pi/(n xi_n),       q_max = 2pi/(xi_2 - xi_1)
Den(cf) == IF N(cf) = 1 THEN 100 * cf.xi[1] ELSE 10 * N(cf) * cf.xi[N(cf)]
RECURSIVE Pow(_, _)
Pow(b, e) == IF e = 0 THEN 1 ELSE b * Pow(b, e - 1)
\* q_min R^j < q_max
BelowMax(cf, j) == IF N(cf) = 1 THEN Pow(R, j) < 1000
                   ELSE Pow(R, j) * (cf.xi[2] - cf.xi[1]) < Den(cf)
RECURSIVE CountFrom(_, _)
CountFrom(cf, j) == IF BelowMax(cf, j) THEN CountFrom(cf, j + 1) ELSE j
NQ(cf) == CountFrom(cf, 0)                           \* np.arange(log q_min, log q_max, log R)
Q(cf, j) == Pow(R, j - 1)                            \* q_calc[j], j in 1..NQ
DQ(cf, j) == IF j = 1 THEN Q(cf, 2) - Q(cf, 1) ELSE Q(cf, j) - Q(cf, j - 1)   \* diff, first repeated
W(cf, j) == Q(cf, j) * DQ(cf, j)                     \* q dq (the 1/2pi is in the unit)

\* acceptance: q lambda / 2pi <= sin(theta_acc);  sin(theta_acc) = SNum/SDen
SNum(cf) == IF cf.acc = "zero" THEN 0 ELSE 1
SDen(cf) == IF cf.acc = "mid" THEN MidDen ELSE 1
AccDesigned(cf, j, k) == Q(cf, j) * cf.lam[k] * SDen(cf) <= SNum(cf) * Den(cf)
Acc(cf, j, k) == IF Variant = "invertedMask" THEN ~AccDesigned(cf, j, k) ELSE AccDesigned(cf, j, k)
Reachable(cf, j, k) == Q(cf, j) * cf.lam[k] <= Den(cf)

\* uninterpreted bounded kernel, a function of q xi only; S plays J0(0) = 1
S == 4
K(cf, j, k) == ((Q(cf, j) * cf.xi[k]) % 9) - 4

\* ------------------------------------------------------------ Apply
RECURSIVE SumJ(_, _, _, _)
SumJ(cf, I, k, j) ==
    IF j = 0 THEN 0
    ELSE SumJ(cf, I, k, j - 1)
         + W(cf, j) * ((IF Acc(cf, j, k) THEN K(cf, j, k) ELSE 0) - S) * I[j]
ApplyVec(cf, I) == [k \in 1..N(cf) |-> SumJ(cf, I, k, NQ(cf))]
RECURSIVE G0Sum(_, _, _)
G0Sum(cf, I, j) == IF j = 0 THEN 0 ELSE G0Sum(cf, I, j - 1) + W(cf, j) * S * I[j]
G0(cf, I) == G0Sum(cf, I, NQ(cf))

\* inputs: impulses at both ends and the middle, a constant, two ramps (all >= 0)
InputIds(cf) == {"e1", "emid", "elast", "const", "up", "down"}
In(cf, id) == LET n == NQ(cf) m == (n + 1) \div 2 IN
    CASE id = "e1" -> [j \in 1..n |-> IF j = 1 THEN 1 ELSE 0]
      [] id = "emid" -> [j \in 1..n |-> IF j = m THEN 1 ELSE 0]
      [] id = "elast" -> [j \in 1..n |-> IF j = n THEN 1 ELSE 0]
      [] id = "const" -> [j \in 1..n |-> 1]
      [] id = "up" -> [j \in 1..n |-> j]
      [] OTHER -> [j \in 1..n |-> n + 1 - j]
Coefs == {<<2, -1>>, <<1, 3>>}

\* ------------------------------------------------------------ behaviour
Init == phase = "new" /\ c = NoCfg /\ res = <<>>
Construct == /\ phase = "new"
             /\ \E cf \in Configs : c' = cf
             /\ phase' = "built" /\ res' = <<>>
ApplyOp == /\ phase = "built"
           /\ \E i1 \in InputIds(c), i2 \in InputIds(c), ab \in Coefs :
                LET I1 == In(c, i1) I2 == In(c, i2)
                    I12 == [j \in 1..NQ(c) |-> ab[1] * I1[j] + ab[2] * I2[j]]
                IN res' = [i1 |-> I1, i2 |-> I2, a |-> ab[1], b |-> ab[2],
                           p1 |-> ApplyVec(c, I1), p2 |-> ApplyVec(c, I2), p12 |-> ApplyVec(c, I12)]
           /\ phase' = "applied" /\ UNCHANGED c
Reset == phase = "applied" /\ phase' = "new" /\ c' = NoCfg /\ res' = <<>>
Next == Construct \/ ApplyOp \/ Reset
Spec == Init /\ [][Next]_vars

\* ------------------------------------------------------------ properties
Built == phase # "new"
TypeOK == phase \in {"new", "built", "applied"}
\* every increasing positive set of spin-echo lengths yields a usable grid
NonEmpty == Built => NQ(c) >= 2
\* the calculated q values are positive ...
PositiveQ == Built => \A j \in 1..NQ(c) : Q(c, j) > 0
\* ... and increasing
StrictlyIncreasingQ == Built => \A j \in 1..(NQ(c) - 1) : Q(c, j) < Q(c, j + 1)
\* geometric grid starting at q_min and stopping within one step of q_max
Covers == Built => /\ Q(c, 1) = 1
                   /\ BelowMax(c, NQ(c) - 1) /\ ~BelowMax(c, NQ(c))
                   /\ \A j \in 1..(NQ(c) - 1) : Q(c, j + 1) = R * Q(c, j)
WeightsPositive == Built => \A j \in 1..NQ(c) : W(c, j) > 0
\* the mask is the acceptance: an upper cut in q for every point, all reachable q under full
\* acceptance, nothing under vanishing acceptance
MaskUpClosed == Built => \A k \in 1..N(c), j \in 1..(NQ(c) - 1) : ~Acc(c, j, k) => ~Acc(c, j + 1, k)
FullAcceptsReachable == (Built /\ c.acc = "full") =>
                           \A k \in 1..N(c), j \in 1..NQ(c) : Acc(c, j, k) <=> Reachable(c, j, k)
ZeroMasksAll == (Built /\ c.acc = "zero") => \A k \in 1..N(c), j \in 1..NQ(c) : ~Acc(c, j, k)
\* the value is linear in I(q)
Linear == phase = "applied" =>
            \A k \in 1..N(c) : res.p12[k] = res.a * res.p1[k] + res.b * res.p2[k]
\* vanishing acceptance returns -G(0), whatever xi
ZeroIsMinusG0 == (phase = "applied" /\ c.acc = "zero") =>
                    \A k \in 1..N(c) : res.p1[k] = 0 - G0(c, res.i1)
\* |K| <= K(0): a non-negative I(q) depolarises, G(xi) <= G(0)
NonPositive == phase = "applied" => \A k \in 1..N(c) : res.p1[k] <= 0 /\ res.p2[k] <= 0
\* and never by more than 2 G(0)
Bounded == phase = "applied" => \A k \in 1..N(c) : res.p1[k] >= 0 - 2 * G0(c, res.i1)

\* ------------------------------------------------------------ replay lattice (specification -> code)
(* spin-echo grids: family x size x decade span (10^lo10 .. 10^hi10 Angstrom, inside 10 A .. 10 um),   *)
(* wavelength class (constant 2, 5, 10 A or a time-of-flight ramp 2..12 A, one value per point),       *)
(* acceptance class.  For one point the family is irrelevant; the point is the middle of the span.     *)
Families == {"lin", "log"}
Sizes == {1, 2, 3, 5, 10, 40, 100, 200}
Spans == {<<1, 3>>, <<1, 5>>, <<2, 4>>, <<3, 5>>}
LamClasses == {"l2", "l5", "l10", "tof"}
Lattice == {r \in [family : Families, size : Sizes, span : Spans, lam : LamClasses, acc : {"full", "zero"}] :
              r.size = 1 => r.family = "lin"}
(* through DirectModel on SESANS data (guinier: I(q) = scale exp(-q^2 rg^2/3), and the mixture        *)
(* guinier+guinier); "mid" is an acceptance angle whose cut lies inside the calculated q range and is  *)
(* only defined here for a single wavelength.                                                          *)
DMSizes == {1, 3, 40, 100}
DMSpans == {<<1, 3>>, <<2, 4>>, <<1, 5>>}
DMLattice == {r \in [family : Families, size : DMSizes, span : DMSpans, lam : LamClasses,
                     acc : {"full", "zero", "mid"}, model : {"guinier", "guinier+guinier"}] :
                /\ r.size = 1 => r.family = "lin"
                /\ r.acc = "mid" => r.lam # "tof"}
(* Gaussian widths relative to the usable q range [lo, hi] = [10 q_min, q_top/10] (full) or            *)
(* [100 q_min, q_max/10] (vanishing acceptance):  1/s = lo (hi/lo)^(t/4) for t = 0..4; "below" and     *)
(* "above" lie outside the precondition (1/s = 3 q_min, q_top/3): no closed-form clause applies, the   *)
(* other laws still do.                                                                                *)
GaussClasses == {[name |-> "t0", t |-> 0, where |-> "in"], [name |-> "t1", t |-> 1, where |-> "in"],
                 [name |-> "t2", t |-> 2, where |-> "in"], [name |-> "t3", t |-> 3, where |-> "in"],
                 [name |-> "t4", t |-> 4, where |-> "in"],
                 [name |-> "below", t |-> 0, where |-> "below"], [name |-> "above", t |-> 4, where |-> "above"]}
Mixtures == {<<"t0", "t4">>, <<"t1", "t2">>, <<"t1", "t2", "t3">>, <<"t0", "t2", "t4">>, <<"t2", "above">>}

ASSUME Export => /\ PrintT(<<"LATTICE", ToJson(Lattice)>>)
                 /\ PrintT(<<"DMLATTICE", ToJson(DMLattice)>>)
                 /\ PrintT(<<"GAUSS", ToJson(GaussClasses)>>)
                 /\ PrintT(<<"MIXTURES", ToJson(Mixtures)>>)

\* ------------------------------------------------------------ sanity of the closed forms (IEEE)
OneG == <<[a |-> "1.0", s |-> "100.0"]>>
TwoG == <<[a |-> "2.0", s |-> "100.0"], [a |-> "0.5", s |-> "300.0"]>>
ASSUME FEq(ClosedFull(Zero, TwoG), Zero)                                   \* P(0) = 0
ASSUME FNear(ClosedFull("1e6", TwoG), ClosedZero(TwoG), "1e-15", "0.0")     \* P(inf) = -G(0)
ASSUME FNear(ClosedZero(OneG), FNeg(FDiv(One, FMul(TwoPi, "1e4"))), "1e-15", "0.0")
ASSUME FNear(ClosedFull("100.0", OneG),                                      \* (e^(-1/2) - 1)/(2 pi 1e4)
             FDiv(FSub(FExp("-0.5"), One), FMul(TwoPi, "1e4")), "1e-15", "0.0")
ASSUME InRangeFull(OneG, "1e-4", "1.0") /\ ~InRangeFull(OneG, "2e-3", "1.0") /\ ~InRangeFull(OneG, "1e-4", "0.05")
ASSUME InRangeZero(OneG, "1e-4", "1.0") /\ ~InRangeZero(OneG, "2e-4", "1.0")
ASSUME Accepted("1.0", "5.0", One) /\ ~Accepted("1.3", "5.0", One) /\ ~Accepted("1e-9", "5.0", Zero)
=============================================================================
