------------------------------ MODULE Pipeline ------------------------------
(***************************************************************************)
(* GROWTH beyond the listed properties: the composition of Cache and Build *)
(* - the user edits the model definition while processes are loading,      *)
(* building and being killed.  Same per-process protocol as Build (see     *)
(* there), but there is one cache entry per source VERSION (library names  *)
(* carry the hash of the generated source), a process reads the source     *)
(* once when it starts its load, and Edit(v) replaces the text.            *)
(*   Coherent: a process that finishes evaluates exactly the version it    *)
(*   read, whatever was edited or built in between.                        *)
(*                                                                         *)
(* kerneldll.make_dll / DllModel._load_dll under concurrent first use and  *)
(* crashes.  One cache entry (one final library path) shared by a set of   *)
(* processes, each running                                                 *)
(*                                                                         *)
(*   Lookup      os.path.exists(dll)                 kerneldll.make_dll    *)
(*   WriteSrc    tempfile.mkstemp + write C source                         *)
(*   CcBegin     the compiler/linker creates its output file (empty)       *)
(*   CcHalf      ... has written part of it                                *)
(*   CcEnd       ... has written all of it and exits                       *)
(*   Publish     os.replace(private output, dll)      ("atomic" protocol)  *)
(*   Unlink      os.unlink(temporary C source)                             *)
(*   Dlopen      ct.CDLL(dll)                         DllModel._load_dll   *)
(*                                                                         *)
(* Protocol = "inplace": the compiler writes directly to the final name     *)
(* (the code before the repair).  Protocol = "atomic": the compiler writes  *)
(* a private file in the cache directory which is renamed onto the final    *)
(* name (the current tree).  A process can be killed at any step; the       *)
(* compiler child either dies with it or runs to completion.                *)
(***************************************************************************)
EXTENDS Naturals, FiniteSets, TLC

CONSTANTS Procs,        \* process identities (some start late = "the next attempt")
          MaxCrashes,
          Versions,     \* source versions 1..n; the text starts at version 1
          Protocol      \* "inplace" | "atomic" | "unhashed" (atomic, but the library name ignores the source)

VARIABLES text,    \* current version of the definition file
          ver,     \* [Procs -> version read at the start of the load (0 = none)]
          lib,     \* [Versions -> version whose code the library under that name contains (0 = none)]
          privv,   \* [Procs -> version compiled into the private output]
          val,     \* [Procs -> version whose code the process finally evaluated (0 = none)]
          final,   \* [Versions -> "absent" | "partial" | "complete"]  state of each final library path
          priv,    \* [Procs -> "absent" | "partial" | "complete"]  private compiler output (atomic)
          src,     \* [Procs -> BOOLEAN]  temporary C source exists
          pc,      \* [Procs -> label]
          cc,      \* [Procs -> BOOLEAN]  a compiler child of p is running (survives a kill of p)
          got,     \* [Procs -> "none" | "ok" | "bad"]  result of dlopen
          crashes
vars == <<text, ver, lib, privv, val, final, priv, src, pc, cc, got, crashes>>

Labels == {"idle", "lookup", "writesrc", "ccbegin", "cchalf", "ccend", "publish", "unlink",
           "dlopen", "done", "dead"}

\* the cache entry a process uses: named after the hash of the source it read
Name(p) == IF Protocol = "unhashed" THEN 1 ELSE ver[p]
Init ==
    /\ text = 1
    /\ ver = [p \in Procs |-> 0]
    /\ lib = [v \in Versions |-> 0]
    /\ privv = [p \in Procs |-> 0]
    /\ val = [p \in Procs |-> 0]
    /\ final = [v \in Versions |-> "absent"]
    /\ priv = [p \in Procs |-> "absent"]
    /\ src = [p \in Procs |-> FALSE]
    /\ pc = [p \in Procs |-> "idle"]
    /\ cc = [p \in Procs |-> FALSE]
    /\ got = [p \in Procs |-> "none"]
    /\ crashes = 0

U == <<text, ver, lib, privv, val>>     \* the version bookkeeping, unchanged by most steps
Edit(v) == /\ v # text
           /\ text' = v
           /\ UNCHANGED <<ver, lib, privv, val, final, priv, src, pc, cc, got, crashes>>
\* load_model_info + make_source: the definition is read here
Start(p) == /\ pc[p] = "idle"
            /\ pc' = [pc EXCEPT ![p] = "lookup"]
            /\ ver' = [ver EXCEPT ![p] = text]
            /\ UNCHANGED <<text, lib, privv, val, final, priv, src, cc, got, crashes>>

Lookup(p) == /\ pc[p] = "lookup"
             /\ pc' = [pc EXCEPT ![p] = IF final[Name(p)] # "absent" THEN "dlopen" ELSE "writesrc"]
             /\ UNCHANGED <<U, final, priv, src, cc, got, crashes>>

\* mkstemp + write of the C source; in the atomic protocol also mkstemp of the private output
\* (an empty placeholder in the cache directory, never under the final name)
WriteSrc(p) == /\ pc[p] = "writesrc"
               /\ src' = [src EXCEPT ![p] = TRUE]
               /\ priv' = IF Protocol = "atomic" THEN [priv EXCEPT ![p] = "partial"] ELSE priv
               /\ pc' = [pc EXCEPT ![p] = "ccbegin"]
               /\ UNCHANGED <<U, final, cc, got, crashes>>

\* the output file the compiler of p writes
SetOut(p, v) == IF Protocol = "inplace"
                THEN /\ final' = [final EXCEPT ![Name(p)] = v] /\ lib' = [lib EXCEPT ![Name(p)] = ver[p]]
                     /\ UNCHANGED <<priv, privv>>
                ELSE /\ priv' = [priv EXCEPT ![p] = v] /\ privv' = [privv EXCEPT ![p] = ver[p]]
                     /\ UNCHANGED <<final, lib>>

\* the linker removes an existing output and creates a new, empty file
CcBegin(p) == /\ pc[p] = "ccbegin"
              /\ SetOut(p, "partial")
              /\ cc' = [cc EXCEPT ![p] = TRUE]
              /\ pc' = [pc EXCEPT ![p] = "cchalf"]
              /\ UNCHANGED <<text, ver, val, src, got, crashes>>
CcHalf(p) == /\ pc[p] = "cchalf"
             /\ pc' = [pc EXCEPT ![p] = "ccend"]
             /\ UNCHANGED <<U, final, priv, src, cc, got, crashes>>
CcEnd(p) == /\ pc[p] = "ccend"
            /\ SetOut(p, "complete")
            /\ cc' = [cc EXCEPT ![p] = FALSE]
            /\ pc' = [pc EXCEPT ![p] = IF Protocol # "inplace" THEN "publish" ELSE "unlink"]
            /\ UNCHANGED <<text, ver, val, src, got, crashes>>

\* os.replace: atomic with respect to every other step
Publish(p) == /\ pc[p] = "publish"
              /\ final' = [final EXCEPT ![Name(p)] = priv[p]]
              /\ lib' = [lib EXCEPT ![Name(p)] = privv[p]]
              /\ priv' = [priv EXCEPT ![p] = "absent"]
              /\ pc' = [pc EXCEPT ![p] = "unlink"]
              /\ UNCHANGED <<text, ver, privv, val, src, cc, got, crashes>>

Unlink(p) == /\ pc[p] = "unlink"
             /\ src' = [src EXCEPT ![p] = FALSE]
             /\ pc' = [pc EXCEPT ![p] = "dlopen"]
             /\ UNCHANGED <<U, final, priv, cc, got, crashes>>

Dlopen(p) == /\ pc[p] = "dlopen"
             /\ got' = [got EXCEPT ![p] = IF final[Name(p)] = "complete" THEN "ok" ELSE "bad"]
             /\ val' = [val EXCEPT ![p] = lib[Name(p)]]
             /\ pc' = [pc EXCEPT ![p] = "done"]
             /\ UNCHANGED <<text, ver, lib, privv, final, priv, src, cc, crashes>>

\* SIGKILL of process p at any step; its compiler child, if any, dies too (killchild) or not
Crash(p, killchild) ==
    /\ pc[p] \notin {"idle", "done", "dead"}
    /\ crashes < MaxCrashes
    /\ crashes' = crashes + 1
    /\ pc' = [pc EXCEPT ![p] = "dead"]
    /\ cc' = [cc EXCEPT ![p] = IF killchild THEN FALSE ELSE @]
    /\ UNCHANGED <<U, final, priv, src, got>>
\* an orphaned compiler finishes its output
OrphanCcEnd(p) == /\ pc[p] = "dead" /\ cc[p]
                  /\ SetOut(p, "complete")
                  /\ cc' = [cc EXCEPT ![p] = FALSE]
                  /\ UNCHANGED <<text, ver, val, src, pc, got, crashes>>

Step(p) == \/ Start(p) \/ Lookup(p) \/ WriteSrc(p) \/ CcBegin(p) \/ CcHalf(p) \/ CcEnd(p)
           \/ Publish(p) \/ Unlink(p) \/ Dlopen(p) \/ OrphanCcEnd(p)
Next == (\E p \in Procs : Step(p) \/ Crash(p, TRUE) \/ Crash(p, FALSE)) \/ (\E v \in Versions : Edit(v))
Spec == Init /\ [][Next]_vars /\ \A p \in Procs : WF_vars(Step(p))

TypeOK == /\ \A v \in Versions : final[v] \in {"absent", "partial", "complete"}
          /\ \A p \in Procs : pc[p] \in Labels

\* ---- properties (C18)
\* a truncated or partially written library is never loaded
NoPartialLoad == \A p \in Procs : got[p] # "bad"
\* every process that is not killed obtains a working kernel
EveryoneGetsAKernel == \A p \in Procs : pc[p] = "done" => got[p] = "ok"
\* nothing partial is left in place under the final name: whenever no compiler is running,
\* the final path is absent or complete (so the next attempt succeeds)
CompilerRunning == \E p \in Procs : cc[p]
NothingPartialLeft == ~CompilerRunning => \A v \in Versions : final[v] # "partial"
\* with the atomic protocol the final name is never partial at all
FinalNeverPartial == Protocol # "inplace" => \A v \in Versions : final[v] # "partial"
\* the composition property: a finished process evaluated the version it read
Coherent == \A p \in Procs : pc[p] = "done" => val[p] = ver[p]
\* liveness: every process that is not killed finishes
Terminates == <>(\A p \in Procs : pc[p] \in {"done", "dead"})
\* edits are bounded by a state constraint in the configuration
FewEdits == TRUE
=============================================================================
