import tlc2.value.impl.BoolValue;
import tlc2.value.impl.IntValue;
import tlc2.value.impl.StringValue;
import tlc2.value.impl.TupleValue;
import tlc2.value.impl.Value;

/**
 * TLC operator overrides for module IEEE (see IEEE.tla).  Doubles travel as
 * decimal strings.  Loaded by TLC's legacy override mechanism: a class in the
 * default package with the module's name, one public static method per operator.
 */
public class IEEE {
    // ---------------------------------------------------------------- conversion
    static double d(Value v) {
        if (v instanceof IntValue) return (double) ((IntValue) v).val;
        String s = ((StringValue) v).getVal().toString();
        switch (s) {
            case "inf": case "+inf": case "Infinity": return Double.POSITIVE_INFINITY;
            case "-inf": case "-Infinity": return Double.NEGATIVE_INFINITY;
            case "nan": case "NaN": case "-nan": return Double.NaN;
            default: return Double.parseDouble(s);
        }
    }
    static Value s(double x) { return new StringValue(Double.toString(x)); }
    static Value b(boolean x) { return x ? BoolValue.ValTrue : BoolValue.ValFalse; }
    static double[] vec(Value v) {
        TupleValue t = (TupleValue) v.toTuple();
        if (t == null) throw new RuntimeException("IEEE: not a sequence: " + v);
        double[] r = new double[t.elems.length];
        for (int i = 0; i < r.length; i++) r[i] = d(t.elems[i]);
        return r;
    }
    static Value seq(double[] x) {
        Value[] e = new Value[x.length];
        for (int i = 0; i < x.length; i++) e[i] = s(x[i]);
        return new TupleValue(e);
    }
    static void same(double[] a, double[] b2) {
        if (a.length != b2.length) throw new RuntimeException("IEEE: length mismatch " + a.length + " vs " + b2.length);
    }

    // ---------------------------------------------------------------- scalars
    public static Value FAdd(Value a, Value c) { return s(d(a) + d(c)); }
    public static Value FSub(Value a, Value c) { return s(d(a) - d(c)); }
    public static Value FMul(Value a, Value c) { return s(d(a) * d(c)); }
    public static Value FDiv(Value a, Value c) { return s(d(a) / d(c)); }
    public static Value FNeg(Value a) { return s(-d(a)); }
    public static Value FAbs(Value a) { return s(Math.abs(d(a))); }
    public static Value FSqrt(Value a) { return s(Math.sqrt(d(a))); }
    public static Value FCbrt(Value a) { return s(StrictMath.cbrt(d(a))); }
    public static Value FExp(Value a) { return s(StrictMath.exp(d(a))); }
    public static Value FLog(Value a) { return s(StrictMath.log(d(a))); }
    public static Value FSin(Value a) { return s(StrictMath.sin(d(a))); }
    public static Value FCos(Value a) { return s(StrictMath.cos(d(a))); }
    public static Value FAtan2(Value a, Value c) { return s(StrictMath.atan2(d(a), d(c))); }
    public static Value FPow(Value a, Value c) { return s(StrictMath.pow(d(a), d(c))); }
    public static Value FMax(Value a, Value c) { return s(Math.max(d(a), d(c))); }
    public static Value FMin(Value a, Value c) { return s(Math.min(d(a), d(c))); }
    public static Value FFloor(Value a) { return s(Math.floor(d(a))); }
    public static Value FFromInt(Value n) { return s((double) ((IntValue) n).val); }
    public static Value FFromRat(Value n, Value m) { return s(((double) ((IntValue) n).val) / ((double) ((IntValue) m).val)); }
    public static Value FToInt(Value a) {
        double x = d(a);
        if (x != Math.rint(x) || Math.abs(x) > 2147483647.0) throw new RuntimeException("IEEE: FToInt of " + x);
        return IntValue.gen((int) x);
    }
    public static Value FPi() { return s(Math.PI); }

    static final double[] LG = {0.99999999999980993, 676.5203681218851, -1259.1392167224028,
        771.32342877765313, -176.61502916214059, 12.507343278686905,
        -0.13857109526572012, 9.9843695780195716e-6, 1.5056327351493116e-7};
    static double lgamma(double x) {
        if (x < 0.5) return Math.log(Math.PI / Math.abs(Math.sin(Math.PI * x))) - lgamma(1 - x);
        x -= 1;
        double a = LG[0], t = x + 7.5;
        for (int i = 1; i < 9; i++) a += LG[i] / (x + i);
        return 0.5 * Math.log(2 * Math.PI) + (x + 0.5) * Math.log(t) - t + Math.log(a);
    }
    public static Value FLnGamma(Value a) { return s(lgamma(d(a))); }

    // erf via Cody's algorithm (as in netlib specfun calerf)
    static double erf(double x) {
        final double[] A = {3.16112374387056560e00, 1.13864154151050156e02, 3.77485237685302021e02,
            3.20937758913846947e03, 1.85777706184603153e-1};
        final double[] B = {2.36012909523441209e01, 2.44024637934444173e02, 1.28261652607737228e03,
            2.84423683343917062e03};
        final double[] C = {5.64188496988670089e-1, 8.88314979438837594e00, 6.61191906371416295e01,
            2.98635138197400131e02, 8.81952221241769090e02, 1.71204761263407058e03,
            2.05107837782607147e03, 1.23033935479799725e03, 2.15311535474403846e-8};
        final double[] D = {1.57449261107098347e01, 1.17693950891312499e02, 5.37181101862009858e02,
            1.62138957456669019e03, 3.29079923573345963e03, 4.36261909014324716e03,
            3.43936767414372164e03, 1.23033935480374942e03};
        final double[] P = {3.05326634961232344e-1, 3.60344899949804439e-1, 1.25781726111229246e-1,
            1.60837851487422766e-2, 6.58749161529837803e-4, 1.63153871373020978e-2};
        final double[] Q = {2.56852019228982242e00, 1.87295284992346725e00, 5.27905102951428412e-1,
            6.05183413124413191e-2, 2.33520497626869185e-3};
        final double SQRPI = 5.6418958354775628695e-1;
        double y = Math.abs(x), res;
        if (y <= 0.46875) {
            double ysq = y > 1.11e-16 ? y * y : 0.0;
            double xnum = A[4] * ysq, xden = ysq;
            for (int i = 0; i < 3; i++) { xnum = (xnum + A[i]) * ysq; xden = (xden + B[i]) * ysq; }
            return x * (xnum + A[3]) / (xden + B[3]);
        } else if (y <= 4.0) {
            double xnum = C[8] * y, xden = y;
            for (int i = 0; i < 7; i++) { xnum = (xnum + C[i]) * y; xden = (xden + D[i]) * y; }
            res = (xnum + C[7]) / (xden + D[7]);
            double ysq = Math.floor(y * 16.0) / 16.0;
            double del = (y - ysq) * (y + ysq);
            res = Math.exp(-ysq * ysq) * Math.exp(-del) * res;
        } else {
            if (y >= 26.543) res = 0;
            else {
                double ysq = 1.0 / (y * y);
                double xnum = P[5] * ysq, xden = ysq;
                for (int i = 0; i < 4; i++) { xnum = (xnum + P[i]) * ysq; xden = (xden + Q[i]) * ysq; }
                res = ysq * (xnum + P[4]) / (xden + Q[4]);
                res = (SQRPI - res) / y;
                ysq = Math.floor(y * 16.0) / 16.0;
                double del = (y - ysq) * (y + ysq);
                res = Math.exp(-ysq * ysq) * Math.exp(-del) * res;
            }
        }
        res = (0.5 - res) + 0.5;
        return x < 0 ? -res : res;
    }
    public static Value FErf(Value a) { return s(erf(d(a))); }

    static double j0(double x) {
        double ax = Math.abs(x);
        if (ax < 8.0) {
            double y = x * x;
            double a1 = 57568490574.0 + y * (-13362590354.0 + y * (651619640.7 + y * (-11214424.18 + y * (77392.33017 + y * (-184.9052456)))));
            double a2 = 57568490411.0 + y * (1029532985.0 + y * (9494680.718 + y * (59272.64853 + y * (267.8532712 + y))));
            return a1 / a2;
        }
        double z = 8.0 / ax, y = z * z, xx = ax - 0.785398164;
        double a1 = 1.0 + y * (-0.1098628627e-2 + y * (0.2734510407e-4 + y * (-0.2073370639e-5 + y * 0.2093887211e-6)));
        double a2 = -0.1562499995e-1 + y * (0.1430488765e-3 + y * (-0.6911147651e-5 + y * (0.7621095161e-6 - y * 0.934935152e-7)));
        return Math.sqrt(0.636619772 / ax) * (Math.cos(xx) * a1 - z * Math.sin(xx) * a2);
    }
    public static Value FJ0(Value a) { return s(j0(d(a))); }

    // ---------------------------------------------------------------- predicates
    static boolean eq(double x, double y) { return x == y || (Double.isNaN(x) && Double.isNaN(y)); }
    static boolean bits(double x, double y) { return Double.doubleToLongBits(x) == Double.doubleToLongBits(y); }
    static boolean near(double x, double y, double rtol, double atol) {
        if (Double.isNaN(x) || Double.isNaN(y)) return Double.isNaN(x) && Double.isNaN(y);
        if (Double.isInfinite(x) || Double.isInfinite(y)) return x == y;
        return Math.abs(x - y) <= atol + rtol * Math.max(Math.abs(x), Math.abs(y));
    }
    public static Value FEq(Value a, Value c) { return b(eq(d(a), d(c))); }
    public static Value FBits(Value a, Value c) { return b(bits(d(a), d(c))); }
    public static Value FLt(Value a, Value c) { return b(d(a) < d(c)); }
    public static Value FLeq(Value a, Value c) { return b(d(a) <= d(c)); }
    public static Value FIsNaN(Value a) { return b(Double.isNaN(d(a))); }
    public static Value FIsFinite(Value a) { double x = d(a); return b(!Double.isNaN(x) && !Double.isInfinite(x)); }
    public static Value FNear(Value a, Value c, Value rtol, Value atol) { return b(near(d(a), d(c), d(rtol), d(atol))); }
    public static Value FIsDyadic(Value a, Value k) {
        double x = d(a) * Math.pow(2.0, ((IntValue) k).val);
        return b(x == Math.rint(x) && Math.abs(x) < 4503599627370496.0);
    }

    // ---------------------------------------------------------------- vectors
    public static Value FSum(Value v) { double[] x = vec(v); double t = 0; for (double e : x) t += e; return s(t); }
    public static Value FDot(Value v, Value w) {
        double[] x = vec(v), y = vec(w); same(x, y);
        double t = 0; for (int i = 0; i < x.length; i++) t += x[i] * y[i]; return s(t);
    }
    public static Value FVecAdd(Value v, Value w) { double[] x = vec(v), y = vec(w); same(x, y); double[] r = new double[x.length]; for (int i = 0; i < r.length; i++) r[i] = x[i] + y[i]; return seq(r); }
    public static Value FVecSub(Value v, Value w) { double[] x = vec(v), y = vec(w); same(x, y); double[] r = new double[x.length]; for (int i = 0; i < r.length; i++) r[i] = x[i] - y[i]; return seq(r); }
    public static Value FVecMul(Value v, Value w) { double[] x = vec(v), y = vec(w); same(x, y); double[] r = new double[x.length]; for (int i = 0; i < r.length; i++) r[i] = x[i] * y[i]; return seq(r); }
    public static Value FVecScale(Value c, Value v) { double a = d(c); double[] x = vec(v); double[] r = new double[x.length]; for (int i = 0; i < r.length; i++) r[i] = a * x[i]; return seq(r); }
    public static Value FVecShift(Value c, Value v) { double a = d(c); double[] x = vec(v); double[] r = new double[x.length]; for (int i = 0; i < r.length; i++) r[i] = a + x[i]; return seq(r); }
    public static Value FVecAxpy(Value c, Value v, Value w) { double a = d(c); double[] x = vec(v), y = vec(w); same(x, y); double[] r = new double[x.length]; for (int i = 0; i < r.length; i++) { double p = a * x[i]; r[i] = p + y[i]; } return seq(r); }
    public static Value FVecDiv(Value v, Value c) { double a = d(c); double[] x = vec(v); double[] r = new double[x.length]; for (int i = 0; i < r.length; i++) r[i] = x[i] / a; return seq(r); }
    public static Value FVecEq(Value v, Value w) { double[] x = vec(v), y = vec(w); if (x.length != y.length) return b(false); for (int i = 0; i < x.length; i++) if (!eq(x[i], y[i])) return b(false); return b(true); }
    public static Value FVecBits(Value v, Value w) { double[] x = vec(v), y = vec(w); if (x.length != y.length) return b(false); for (int i = 0; i < x.length; i++) if (!bits(x[i], y[i])) return b(false); return b(true); }
    public static Value FVecNear(Value v, Value w, Value rtol, Value atol) {
        double[] x = vec(v), y = vec(w); if (x.length != y.length) return b(false);
        double rt = d(rtol), at = d(atol);
        for (int i = 0; i < x.length; i++) if (!near(x[i], y[i], rt, at)) return b(false);
        return b(true);
    }
    public static Value FVecMaxRelErr(Value v, Value w) {
        double[] x = vec(v), y = vec(w); if (x.length != y.length) return s(Double.POSITIVE_INFINITY);
        double m = 0;
        for (int i = 0; i < x.length; i++) {
            if (eq(x[i], y[i])) continue;
            double e = Math.abs(x[i] - y[i]) / Math.max(Math.max(Math.abs(x[i]), Math.abs(y[i])), 1e-300);
            if (Double.isNaN(e)) e = Double.POSITIVE_INFINITY;
            m = Math.max(m, e);
        }
        return s(m);
    }
    public static Value FVecAllFinite(Value v) { for (double e : vec(v)) if (Double.isNaN(e) || Double.isInfinite(e)) return b(false); return b(true); }
    public static Value FVecAllGeq(Value v, Value c) { double a = d(c); for (double e : vec(v)) if (!(e >= a)) return b(false); return b(true); }
    public static Value FVecIncreasing(Value v) { double[] x = vec(v); for (int i = 1; i < x.length; i++) if (!(x[i] > x[i - 1])) return b(false); return b(true); }
    public static Value FVecConst(Value n, Value c) { int k = ((IntValue) n).val; double a = d(c); double[] r = new double[k]; java.util.Arrays.fill(r, a); return seq(r); }
    public static Value FMatVec(Value m, Value v) {
        TupleValue rows = (TupleValue) m.toTuple(); double[] x = vec(v);
        double[] r = new double[rows.elems.length];
        for (int i = 0; i < r.length; i++) { double[] row = vec(rows.elems[i]); same(row, x); double t = 0; for (int j = 0; j < x.length; j++) t += row[j] * x[j]; r[i] = t; }
        return seq(r);
    }
}
