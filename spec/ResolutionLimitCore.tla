------------------------ MODULE ResolutionLimitCore ------------------------
(***************************************************************************)
(* C04 - the documented resolution integrals in closed form, for           *)
(* polynomial test intensities f(t) = c0 + c1 t + c2 t^2 + ... (coef is    *)
(* the sequence <<c0, c1, ...>>, degree <= 4), over IEEE doubles, and the  *)
(* stated bounds  err <= K * (h / width) * scale(f).                       *)
(*                                                                         *)
(*   pinhole   E[f(q + s Z) | -2.5 <= Z <= 3], Z standard normal           *)
(*             (moments of the truncated normal: m1 # 0 because the window *)
(*             is asymmetric, m2 < 1 because it is truncated)              *)
(*   slit L    (1/L) int_0^L f(sqrt(q^2+u^2)) du                           *)
(*   slit W    (1/2W) int_-W^W f(|q+v|) dv    (q > W, and q < W: folded)   *)
(*   slit L,W  the double integral; resolution.py documents and uses a     *)
(*             (2*30+1)-point rule in v, whose value is also given         *)
(*   2-D       average over the elliptical Gaussian aligned with q,        *)
(*             truncated at R = 3 sigma: f(q) + mR*(sr^2 Arr + st^2 Att)   *)
(*             for f = c0 + q'Aq                                           *)
(* width  = extent of the window in q: sigma; sqrt(q^2+L^2)-q; W;          *)
(* scale(f) = sum_k |c_k| * (hi^k - lo^k), the variation of f's monomials  *)
(*            over the window [lo, hi].                                    *)
(*                                                                         *)
(* Calibration of K (measured on the tree with the C03 repairs, worst case *)
(* over 300 random ladders per kind, then multiplied by 5):                *)
(*   pinhole 0.0054 -> 0.027   slit W 0.25 -> 1.25   slit L 0.079 -> 0.4   *)
(*   slit L,W against the documented 61-point rule 0.002 -> 0.01           *)
(*   2-D low 0.0289 -> 0.145, med = high 0.0115 -> 0.0573,                 *)
(*       xhigh 0.00296 -> 0.0148  (relative to sr^2|Arr| + st^2|Att|)      *)
(* The mutations this must see change the result by much more: a lost      *)
(* sqrt(2) halves the m2 term, a symmetric window removes the m1 term,     *)
(* q^2-u^2 changes the sign of the L^2/3 term, exchanged 2-D widths swap   *)
(* Arr and Att.                                                            *)
(***************************************************************************)
EXTENDS Integers, Sequences, IEEE

Zero == "0.0"
One == "1.0"
Half == "0.5"

KPin == "0.027"
KSlitW == "1.25"
KSlitL == "0.4"
KSlitLW == "0.01"
K2D(acc) == CASE acc = "low" -> "0.145" [] acc = "med" -> "0.0573" [] acc = "high" -> "0.0573" [] acc = "xhigh" -> "0.0148"
RoundOff == "1e-12"      \* relative floor: the smeared value itself carries ~1e-13 of rounding

Sq(x) == FMul(x, x)
PowI(x, k) == IF k = 0 THEN One ELSE IF k = 1 THEN x ELSE FPow(x, FFromInt(k))
Binom(k, j) == CASE j = 0 -> 1 [] j = k -> 1 [] j = 1 -> k [] j = k - 1 -> k [] k = 4 /\ j = 2 -> 6
RECURSIVE SumF(_, _, _)
SumF(F(_), lo, hi) == IF lo > hi THEN Zero ELSE FAdd(F(lo), SumF(F, lo + 1, hi))
Deg(coef) == Len(coef) - 1
\* E[f] from the monomial expectations M(k), and the scale of f over [lo, hi]
Expect(coef, M(_)) == SumF(LAMBDA k : FMul(coef[k + 1], M(k)), 0, Deg(coef))
Scale(coef, lo, hi) == SumF(LAMBDA k : FMul(FAbs(coef[k + 1]), FSub(PowI(hi, k), PowI(lo, k))), 1, Deg(coef))
Poly(coef, t) == SumF(LAMBDA k : FMul(coef[k + 1], PowI(t, k)), 0, Deg(coef))

----------------------------------------------------------------------------
(* Pinhole: moments of the standard normal truncated to [A, B] = [-2.5, 3] *)
A == "-2.5"
B == "3.0"
Phi(x) == FMul(Half, FAdd(One, FErf(FDiv(x, FSqrt("2.0")))))
phi(x) == FDiv(FExp(FMul("-0.5", Sq(x))), FSqrt(FMul("2.0", FPi)))
ZAB == FSub(Phi(B), Phi(A))
M1 == FDiv(FSub(phi(A), phi(B)), ZAB)
M2 == FAdd(One, FDiv(FSub(FMul(A, phi(A)), FMul(B, phi(B))), ZAB))
M3 == FAdd(FMul("2.0", M1), FDiv(FSub(FMul(Sq(A), phi(A)), FMul(Sq(B), phi(B))), ZAB))
M4 == FAdd(FMul("3.0", M2), FDiv(FSub(FMul(FMul(A, Sq(A)), phi(A)), FMul(FMul(B, Sq(B)), phi(B))), ZAB))
Mom(j) == CASE j = 0 -> One [] j = 1 -> M1 [] j = 2 -> M2 [] j = 3 -> M3 [] j = 4 -> M4
\* E[(q + s Z)^k]
PinMono(k, q, s) == SumF(LAMBDA j : FMul(FMul(FFromInt(Binom(k, j)), FMul(PowI(q, k - j), PowI(s, j))), Mom(j)), 0, k)
PinExpect(coef, q, s) == Expect(coef, LAMBDA k : PinMono(k, q, s))
PinLo(q, s) == FSub(q, FMul("2.5", s))
PinHi(q, s) == FAdd(q, FMul("3.0", s))
\* (a window reaching below zero covers |x| from 0 to the larger of its two ends)
PinBound(coef, q, s, h) ==
    FMul(FMul(KPin, FDiv(h, s)),
         IF FLt(PinLo(q, s), Zero) THEN Scale(coef, Zero, FMax(PinHi(q, s), FNeg(PinLo(q, s))))
         ELSE Scale(coef, PinLo(q, s), PinHi(q, s)))

----------------------------------------------------------------------------
(* Slit length: (1/L) int_0^L (q^2+u^2)^(k/2) du *)
Asinh(x) == FLog(FAdd(x, FSqrt(FAdd(One, Sq(x)))))
Hyp(q, L) == FSqrt(FAdd(Sq(q), Sq(L)))
LMono(k, q, L) ==
    CASE k = 0 -> One
      [] k = 1 -> FMul(Half, FAdd(Hyp(q, L), FMul(FDiv(Sq(q), L), Asinh(FDiv(L, q)))))
      [] k = 2 -> FAdd(Sq(q), FDiv(Sq(L), "3.0"))
      [] k = 3 -> FDiv(FAdd(FDiv(FMul(FMul(L, FAdd(FMul("2.0", Sq(L)), FMul("5.0", Sq(q)))), Hyp(q, L)), "8.0"),
                            FMul(FMul("0.375", Sq(Sq(q))), Asinh(FDiv(L, q)))), L)
      [] k = 4 -> FAdd(FAdd(Sq(Sq(q)), FDiv(FMul(FMul("2.0", Sq(q)), Sq(L)), "3.0")), FDiv(Sq(Sq(L)), "5.0"))
LExpect(coef, q, L) == Expect(coef, LAMBDA k : LMono(k, q, L))
LWidth(q, L) == FSub(Hyp(q, L), q)
LBound(coef, q, L, h) == FMul(FMul(KSlitL, FDiv(h, LWidth(q, L))), Scale(coef, q, Hyp(q, L)))

(* Slit width: (1/2W) int_-W^W |q+v|^k dv.  q >= W: the window [q-W, q+W] stays positive;
   q < W: the part below zero is reflected, the integrand covers [0, W-q] twice and [W-q, q+W] once *)
WMono(k, q, W) ==
    IF FLeq(W, q)
    THEN FDiv(FSub(PowI(FAdd(q, W), k + 1), PowI(FSub(q, W), k + 1)), FMul(FMul("2.0", W), FFromInt(k + 1)))
    ELSE FDiv(FAdd(PowI(FAdd(q, W), k + 1), PowI(FSub(W, q), k + 1)), FMul(FMul("2.0", W), FFromInt(k + 1)))
WExpect(coef, q, W) == Expect(coef, LAMBDA k : WMono(k, q, W))
WLo(q, W) == IF FLeq(W, q) THEN FSub(q, W) ELSE Zero
WBound(coef, q, W, h) == FMul(FMul(KSlitW, FDiv(h, W)), Scale(coef, WLo(q, W), FAdd(q, W)))

(* Slit length and width: the double integral (even k) and the documented (2*NLEN+1)-point
   rule  (1/(2 NLEN + 1)) sum_{j=-NLEN}^{NLEN} LMono(k, q + j W/NLEN, L)  of slit_resolution *)
NLEN == 30
LWMonoExact(k, q, L, W) ==
    CASE k = 0 -> One
      [] k = 2 -> FAdd(WMono(2, q, W), FDiv(Sq(L), "3.0"))
      [] k = 4 -> FAdd(FAdd(WMono(4, q, W), FDiv(FMul(FMul("2.0", Sq(L)), WMono(2, q, W)), "3.0")), FDiv(Sq(Sq(L)), "5.0"))
      [] OTHER -> Zero          \* odd powers: only used with a zero coefficient
LWMonoRule(k, q, L, W) ==
    FDiv(SumF(LAMBDA j : LMono(k, FAdd(q, FDiv(FMul(FFromInt(j), W), FFromInt(NLEN))), L), -NLEN, NLEN),
         FFromInt(2 * NLEN + 1))
LWExpect(coef, q, L, W) == Expect(coef, LAMBDA k : LWMonoRule(k, q, L, W))
LWExpectExact(coef, q, L, W) == Expect(coef, LAMBDA k : LWMonoExact(k, q, L, W))     \* even polynomials only
LWHi(q, L, W) == Hyp(FAdd(q, W), L)
LWWidth(q, L, W) == FMin(W, FSub(LWHi(q, L, W), FAdd(q, W)))
LWBound(coef, q, L, W, h) == FMul(FMul(KSlitLW, FDiv(h, LWWidth(q, L, W))), Scale(coef, FSub(q, W), LWHi(q, L, W)))

----------------------------------------------------------------------------
(* 2-D: f = c0 + a qx^2 + 2 b qx qy + c qy^2, widths sr (along q) and st (across), cut at R sigma *)
RCut == "3.0"
MR == LET e == FExp(FMul("-0.5", Sq(RCut)))
      IN FSub(One, FDiv(FMul(FMul(Half, Sq(RCut)), e), FSub(One, e)))
Quad(Am, x, y) == FAdd(FAdd(FMul(Am[1], Sq(x)), FMul(FMul("2.0", Am[2]), FMul(x, y))), FMul(Am[3], Sq(y)))
Arr(Am, qx, qy) == FDiv(Quad(Am, qx, qy), FAdd(Sq(qx), Sq(qy)))
Att(Am, qx, qy) == FDiv(Quad(Am, FNeg(qy), qx), FAdd(Sq(qx), Sq(qy)))
E2D(Am, c0, qx, qy, sr, st) ==
    FAdd(FAdd(c0, Quad(Am, qx, qy)), FMul(MR, FAdd(FMul(Sq(sr), Arr(Am, qx, qy)), FMul(Sq(st), Att(Am, qx, qy)))))
Scale2D(Am, qx, qy, sr, st) == FAdd(FMul(Sq(sr), FAbs(Arr(Am, qx, qy))), FMul(Sq(st), FAbs(Att(Am, qx, qy))))
Bound2D(acc, Am, qx, qy, sr, st) == FMul(K2D(acc), Scale2D(Am, qx, qy, sr, st))

\* |got - want| <= bound + RoundOff*|want|
Within(got, want, bound) == FLeq(FAbs(FSub(got, want)), FAdd(bound, FMul(RoundOff, FAbs(want))))
Ratio(got, want, bound) == FDiv(FAbs(FSub(got, want)), FAdd(bound, FMul(RoundOff, FAbs(want))))
=============================================================================
