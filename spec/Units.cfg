\* the unit-exponent algebra, exhaustive: 3 parameters over all 8 declared dimensions,
\* lambda, mu in {1/2, 1, 2, 4}, every sequence of 2 rescalings
SPECIFICATION ASpec
CONSTANTS
  NPar = 3
  Depth = 2
  Mislabel = FALSE
INVARIANT Composition
INVARIANT Law
CHECK_DEADLOCK FALSE
