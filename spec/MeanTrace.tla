----------------------------- MODULE MeanTrace -----------------------------
(***************************************************************************)
(* C01 on builtin models through the public path (direct_model.call_kernel *)
(* / call_Fq): the dispersity average is the volume-normalised weighted    *)
(* mean of the model's own single-point evaluations.                       *)
(*                                                                         *)
(* One event per scenario:                                                 *)
(*   Mean  values, limits  the mesh values per parameter and the declared   *)
(*                   hard limits of each                                   *)
(*   Mean  weights   per call parameter (after scale, background): the     *)
(*                   weight vector returned by get_mesh                    *)
(*         pts       for every point of the FULL mesh, in lexicographic    *)
(*                   order (first parameter slowest), the raw result of    *)
(*                   the model's own one-point evaluation at that point:   *)
(*                   F2[q], F1[q], norm (1 valid / 0 invalid), vform,      *)
(*                   vshell, reff                                          *)
(*         res       what call_kernel / call_Fq returned (or refused)      *)
(* The uninterpreted single-particle functions of PdMesh are thereby       *)
(* interpreted by the model itself; weights, gating, accumulation and      *)
(* normalisation are the specification's.                                  *)
(***************************************************************************)
EXTENDS TraceBase, IEEE, FiniteSets

VARIABLES l, st
tvars == <<l, st>>
Zero == "0.0"
One == "1.0"

\* relative tolerance: re-association of sums of <= 10^4 non-negative terms
RTol == "1e-10"
\* a product weight this close to the cutoff could fall on either side after re-association
Ambiguous(w, cutoff) == ~FEq(cutoff, Zero) /\ FNear(w, cutoff, "1e-12", "0.0")

RECURSIVE ProdLen(_, _)
ProdLen(ws, k) == IF k = 0 THEN 1 ELSE Len(ws[k]) * ProdLen(ws, k - 1)
\* index of parameter p (1-based) for linear point number n (0-based), first parameter slowest
RECURSIVE TailProd(_, _)
TailProd(ws, p) == IF p >= Len(ws) THEN 1 ELSE Len(ws[p + 1]) * TailProd(ws, p + 1)
Idx(ws, p, n) == ((n \div TailProd(ws, p)) % Len(ws[p])) + 1
RECURSIVE WProd(_, _, _)
WProd(ws, n, p) == IF p > Len(ws) THEN One ELSE FMul(ws[p][Idx(ws, p, n)], WProd(ws, n, p + 1))

ZeroAcc(nq) == [F2 |-> FVecConst(nq, Zero), F1 |-> FVecConst(nq, Zero), norm |-> Zero,
                vform |-> Zero, vshell |-> Zero, reff |-> Zero, amb |-> FALSE]

\* PdMesh!Point: gate on validity and on weight > cutoff, accumulate
RECURSIVE Sum(_, _, _, _)
Sum(acc, n, N, e) ==
    IF n >= N THEN acc
    ELSE LET w == WProd(e.weights, n, 1)
             pt == e.pts[n + 1]
             \* the point's own evaluation reports norm = 0 when the model declares it invalid, 1 otherwise - or
             \* |cos dtheta| when the point carries an orientation jitter (the weight the kernel gives that direction)
             wk == FMul(w, pt.norm)
             take == ~FEq(pt.norm, Zero) /\ FLt(e.cutoff, wk)
             acc2 == IF take
                     THEN [F2 |-> FVecAxpy(w, pt.F2, acc.F2),
                           F1 |-> IF e.both THEN FVecAxpy(w, pt.F1, acc.F1) ELSE acc.F1,
                           norm |-> FAdd(acc.norm, wk),
                           vform |-> FAdd(acc.vform, FMul(w, pt.vform)),
                           vshell |-> FAdd(acc.vshell, FMul(w, pt.vshell)),
                           reff |-> FAdd(acc.reff, FMul(w, pt.reff)),
                           amb |-> acc.amb \/ Ambiguous(wk, e.cutoff)]
                     ELSE [acc EXCEPT !.amb = @ \/ Ambiguous(wk, e.cutoff)]
         IN Sum(acc2, n + 1, N, e)

NumActive(ws) == Cardinality({p \in 1..Len(ws) : Len(ws[p]) > 1})

ApplyMean(e) ==
    LET N == ProdLen(e.weights, Len(e.weights))
        a == Sum(ZeroAcc(e.nq), 0, N, e)
        \* kernel.py Kernel.Fq
        tw == IF FEq(a.norm, Zero) THEN One ELSE a.norm
        form == FDiv(a.vform, tw)
        shell0 == FDiv(a.vshell, tw)
        shell == IF FEq(shell0, Zero) THEN One ELSE shell0
        reff == FDiv(a.reff, tw)
        F2 == FVecDiv(a.F2, tw)
        F1 == FVecDiv(a.F1, tw)
        Iq == FVecShift(e.background, FVecScale(FDiv(e.scale, shell), F2))
        r == e.res
    IN  IF r.refused # (NumActive(e.weights) > e.maxpd) THEN <<"refusal", ToString(NumActive(e.weights))>>
        ELSE IF r.refused THEN <<>>
        ELSE IF r.raised THEN <<"raised", r.error>>
        \* only distribution points inside the limits the definition declares take part (for the numbered members
        \* of a vector parameter: the limits of the vector's table row)
        ELSE IF \E p \in 1..Len(e.values) : \E k \in 1..Len(e.values[p]) :
                    ~(FLeq(e.limits[p][1], e.values[p][k]) /\ FLeq(e.values[p][k], e.limits[p][2])) THEN
             <<"point-outside-declared-limits", ToString(<<e.values, e.limits>>)>>
        ELSE IF Len(e.pts) # N THEN <<"harness-points", ToString(<<Len(e.pts), N>>)>>
        ELSE IF a.amb THEN <<>>          \* counted by the harness as skipped (flag in the log)
        ELSE IF N = 0 /\ ~FVecBits(r.Iq, FVecConst(e.nq, e.background)) THEN <<"empty-mesh-is-background", ToString(r.Iq)>>
        ELSE IF ~FVecNear(r.Iq, Iq, RTol, "0.0") THEN <<"defining-mean", ToString(<<"expected", Iq, "got", r.Iq>>)>>
        ELSE IF ~FVecNear(r.F2, F2, RTol, "0.0") THEN <<"mean-F2", ToString(<<F2, r.F2>>)>>
        ELSE IF e.both /\ ~FVecNear(r.F1, F1, RTol, "1e-300") THEN <<"mean-F1", ToString(<<F1, r.F1>>)>>
        ELSE IF ~FNear(r.vshell, shell, RTol, "0.0") THEN <<"mean-vshell", ToString(<<shell, r.vshell>>)>>
        ELSE IF ~FNear(r.ratio, FDiv(form, shell), RTol, "0.0") THEN <<"mean-ratio", ToString(<<FDiv(form, shell), r.ratio>>)>>
        ELSE IF e.mode # 0 /\ ~FNear(r.reff, reff, RTol, "0.0") THEN <<"mean-reff", ToString(<<reff, r.reff>>)>>
        ELSE <<>>

TInit == l = 1 /\ st = 0 /\ TLCSet(1, 0) /\ TLCSet(2, 0)
TNext ==
    /\ l <= NLines
    /\ LET e == TraceLog[l]
           bad == IF e.ev = "Mean" THEN ApplyMean(e) ELSE <<"unknown-event", e.ev>>
       IN IF bad = <<>> THEN TRUE
          ELSE PrintT(<<"REJECT", e.tid, l, bad[1], bad[2]>>) /\ TLCSet(2, TLCGet(2) + 1)
    /\ l' = l + 1
    /\ st' = st
    /\ TLCSet(1, l)
=============================================================================
