----------------------------- MODULE HistoryGen -----------------------------
(* Behaviour export for replay: operation histories of History. *)
EXTENDS History, Json
CONSTANTS WModels,
          Focus      \* "all" | "wrap": only SasView-style wrapper operations (set, evaluate, clone) | "exp": only Experiment operations (and an occasional wrapper evaluation), so that
                     \* set / update / theory on the same object follow each other
VARIABLE hist
E(op, s, m, q, r, f, w, w2) == [op |-> op, s |-> s, m |-> m, q |-> q, r |-> r, f |-> f, w |-> w, w2 |-> w2]
GenInit == /\ kern = [s \in Slots |-> Dead]
           /\ loaded = [m \in Models |-> FALSE]
           /\ wrap \in [Wrappers -> [m : WModels, store : {"mono"}]]
           /\ dm = [x \in Models \X QSets |-> <<"garbage">>]
           /\ dict = [r \in Requests |-> TRUE]
           /\ ret = NoRet /\ held = NoHeld /\ nops = 0
           /\ exper = [x \in Models \X QSets |-> NoExp]
           /\ hist = <<>>
GenAll ==
    \/ \E s \in Slots, m \in Models, q \in QSets : MakeKernel(s, m, q) /\ hist' = Append(hist, E("make", s, m, q, "", FALSE, "", ""))
    \/ \E s \in Slots, r \in Requests, f \in BOOLEAN : Call(s, r, f) /\ hist' = Append(hist, E("call", s, kern[s].m, kern[s].q, r, f, "", ""))
    \/ \E m \in Models, q \in QSets, r \in Requests : Direct(m, q, r) /\ hist' = Append(hist, E("direct", "", m, q, r, FALSE, "", ""))
    \/ \E m \in Models : Reload(m) /\ hist' = Append(hist, E("reload", "", m, "", "", FALSE, "", ""))
    \/ \E s \in Slots : ReleaseKernel(s) /\ hist' = Append(hist, E("release", s, "", "", "", FALSE, "", ""))
    \/ \E m \in Models : ReleaseModel(m) /\ hist' = Append(hist, E("relmodel", "", m, "", "", FALSE, "", ""))
    \/ \E w \in Wrappers, r \in Requests : SetParam(w, r) /\ hist' = Append(hist, E("set", "", "", "", r, FALSE, w, ""))
    \/ \E w \in Wrappers, q \in QSets : Eval(w, q) /\ hist' = Append(hist, E("eval", "", "", q, wrap[w].store, FALSE, w, ""))
    \/ \E m \in Models, q \in QSets, r \in Requests : ExpSet(m, q, r) /\ hist' = Append(hist, E("expset", "", m, q, r, FALSE, "", ""))
    \/ \E m \in Models, q \in QSets : ExpUpdate(m, q) /\ hist' = Append(hist, E("expupdate", "", m, q, "", FALSE, "", ""))
    \/ \E m \in Models, q \in QSets : ExpTheory(m, q) /\ hist' = Append(hist, E("exptheory", "", m, q, "", FALSE, "", ""))
    \/ \E w, w2 \in Wrappers : Clone(w, w2) /\ hist' = Append(hist, E("clone", "", "", "", "", FALSE, w, w2))
GenExp ==
    \/ \E m \in Models, q \in QSets, r \in Requests : ExpSet(m, q, r) /\ hist' = Append(hist, E("expset", "", m, q, r, FALSE, "", ""))
    \/ \E m \in Models, q \in QSets : ExpUpdate(m, q) /\ hist' = Append(hist, E("expupdate", "", m, q, "", FALSE, "", ""))
    \/ \E m \in Models, q \in QSets : ExpTheory(m, q) /\ hist' = Append(hist, E("exptheory", "", m, q, "", FALSE, "", ""))
    \/ \E w \in Wrappers, q \in QSets : Eval(w, q) /\ hist' = Append(hist, E("eval", "", "", q, wrap[w].store, FALSE, w, ""))
GenWrap ==
    \/ \E w \in Wrappers, r \in Requests : SetParam(w, r) /\ hist' = Append(hist, E("set", "", "", "", r, FALSE, w, ""))
    \/ \E w \in Wrappers, q \in QSets : Eval(w, q) /\ hist' = Append(hist, E("eval", "", "", q, wrap[w].store, FALSE, w, ""))
    \/ \E w, w2 \in Wrappers : Clone(w, w2) /\ hist' = Append(hist, E("clone", "", "", "", "", FALSE, w, w2))
GenNext == IF Focus = "exp" THEN GenExp ELSE IF Focus = "wrap" THEN GenWrap ELSE GenAll
GenSpec == GenInit /\ [][GenNext]_<<vars, hist>>
Emit == (nops = MaxOps) => PrintT(<<"BEHAVIOUR", ToJson([steps |-> hist, wmodel |-> [w \in Wrappers |-> wrap[w].m]])>>)
=============================================================================
