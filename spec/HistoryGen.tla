----------------------------- MODULE HistoryGen -----------------------------
(* Behaviour export for replay: operation histories of History. *)
EXTENDS History, Json
CONSTANT WModels
VARIABLE hist
E(op, s, m, q, r, f, w, w2) == [op |-> op, s |-> s, m |-> m, q |-> q, r |-> r, f |-> f, w |-> w, w2 |-> w2]
GenInit == /\ kern = [s \in Slots |-> Dead]
           /\ loaded = [m \in Models |-> FALSE]
           /\ wrap \in [Wrappers -> [m : WModels, store : {"mono"}]]
           /\ dm = [x \in Models \X QSets |-> <<"garbage">>]
           /\ dict = [r \in Requests |-> TRUE]
           /\ ret = NoRet /\ held = NoHeld /\ nops = 0
           /\ hist = <<>>
GenNext ==
    \/ \E s \in Slots, m \in Models, q \in QSets : MakeKernel(s, m, q) /\ hist' = Append(hist, E("make", s, m, q, "", FALSE, "", ""))
    \/ \E s \in Slots, r \in Requests, f \in BOOLEAN : Call(s, r, f) /\ hist' = Append(hist, E("call", s, kern[s].m, kern[s].q, r, f, "", ""))
    \/ \E m \in Models, q \in QSets, r \in Requests : Direct(m, q, r) /\ hist' = Append(hist, E("direct", "", m, q, r, FALSE, "", ""))
    \/ \E m \in Models : Reload(m) /\ hist' = Append(hist, E("reload", "", m, "", "", FALSE, "", ""))
    \/ \E s \in Slots : ReleaseKernel(s) /\ hist' = Append(hist, E("release", s, "", "", "", FALSE, "", ""))
    \/ \E m \in Models : ReleaseModel(m) /\ hist' = Append(hist, E("relmodel", "", m, "", "", FALSE, "", ""))
    \/ \E w \in Wrappers, r \in Requests : SetParam(w, r) /\ hist' = Append(hist, E("set", "", "", "", r, FALSE, w, ""))
    \/ \E w \in Wrappers, q \in QSets : Eval(w, q) /\ hist' = Append(hist, E("eval", "", "", q, wrap[w].store, FALSE, w, ""))
    \/ \E w, w2 \in Wrappers : Clone(w, w2) /\ hist' = Append(hist, E("clone", "", "", "", "", FALSE, w, w2))
GenSpec == GenInit /\ [][GenNext]_<<vars, hist>>
Emit == (nops = MaxOps) => PrintT(<<"BEHAVIOUR", ToJson([steps |-> hist, wmodel |-> [w \in Wrappers |-> wrap[w].m]])>>)
=============================================================================
