------------------------------- MODULE ResOps -------------------------------
(***************************************************************************)
(* Vector helpers over IEEE doubles (decimal strings, see IEEE.tla) used   *)
(* by the resolution trace modules.  The TLA+ bodies below are the         *)
(* meaning; spec/ResOps.java overrides them for speed (same mechanism as   *)
(* IEEE: class named after the module).                                    *)
(***************************************************************************)
LOCAL INSTANCE Naturals
LOCAL INSTANCE Sequences
LOCAL INSTANCE IEEE

RECURSIVE RMinFrom(_, _), RMaxFrom(_, _), RIndexFrom(_, _, _)
RMinFrom(v, k) == IF k = Len(v) THEN v[k] ELSE FMin(v[k], RMinFrom(v, k + 1))
RMaxFrom(v, k) == IF k = Len(v) THEN v[k] ELSE FMax(v[k], RMaxFrom(v, k + 1))
RIndexFrom(v, x, k) == IF k > Len(v) THEN 0 ELSE IF FEq(v[k], x) THEN k ELSE RIndexFrom(v, x, k + 1)

RMin(v) == RMinFrom(v, 1)            \* smallest element of a non-empty vector
RMax(v) == RMaxFrom(v, 1)            \* largest element of a non-empty vector
RIndexOf(v, x) == RIndexFrom(v, x, 1) \* first k with v[k] = x (as reals), 0 if none
RIndicesOf(v, x) == {k \in 1..Len(v) : FEq(v[k], x)}   \* every k with v[k] = x
\* v[(k-1)*stride + j] for k = 1..count  (column j of a row-major count x stride table)
RColumn(v, j, stride, count) == [k \in 1..count |-> v[(k - 1) * stride + j]]
=============================================================================
