\* quick tier: <= 6 mesh points
SPECIFICATION DSpec
CONSTANTS
  MaxPts = 6
  MaxWt = 3
  MaxAmp = 2
  Variant = "asCoded"
INVARIANT PrefixCauchySchwarz
INVARIANT CauchySchwarz
INVARIANT EqualityIffUniform
INVARIANT IntensityFromParts
INVARIANT VolumePositive
CHECK_DEADLOCK FALSE
