--------------------------- MODULE AmplitudeTrace ---------------------------
(***************************************************************************)
(* C14, binding of Amplitude to the implementation: one event per          *)
(* observation of call_Fq + call_kernel on a builtin model with amplitude  *)
(* output,                                                                 *)
(*   AmpObs  table   facts of the model exported from the working tree     *)
(*           pars    the parameter set exactly as passed (incl. scale,     *)
(*                   background and any name_pd* entries)                  *)
(*           q       the q grid, q[1] is the low-q point                   *)
(*           mode    the effective-radius mode passed to call_Fq           *)
(*           res     F1[q], F2[q], reff, vshell, ratio from call_Fq and    *)
(*                   I[q] from call_kernel with the same kernel            *)
(* Whether the observation is monodisperse, whether the model is           *)
(* spherically symmetric and whether the mode promises the equal-volume    *)
(* sphere are derived here from the table and the parameter set, not       *)
(* logged.  Each clause of the property that fails is reported separately. *)
(***************************************************************************)
EXTENDS TraceBase
INSTANCE Amplitude WITH MaxPts <- 0, MaxWt <- 0, MaxAmp <- 0, Variant <- "asCoded",
                        k <- 0, s1 <- 0, s2 <- 0, sv <- 0, norm <- 0, fs <- {}, phase <- "", out <- <<>>

VARIABLES l, st
tvars == <<l, st>>

\* size of the particle: its largest length parameter (declared Ang)
RECURSIVE MaxOf(_, _)
MaxOf(S, best) == IF S = {} THEN best
                  ELSE LET x == CHOOSE y \in S : TRUE IN MaxOf(S \ {x}, FMax(best, x))
Size(t, pars) ==
    MaxOf({FAbs(pars[r.name]) : r \in {x \in Rows(t) : x.units = "Ang" /\ x.name \in DOMAIN pars}}, Zero)

\* the quantifier of the property: q from 1e-5/size to 20/size, the first point being the
\* q -> 0 probe (a hair of slack for the rounding of c/size)
GridOK(q, size) == /\ Len(q) >= 2
                   /\ FLeq(FMul(q[1], size), "1.0001e-5") /\ FLt(Zero, q[1])
                   /\ \A j \in 1..Len(q) : FLeq(FMul(q[j], size), "20.01")

Clauses(e) ==
    LET t == e.table  r == e.res  p == e.pars
        mono == Mono(t, p)
        name == ModeName(t, e.mode)
        C(cond, clause, detail) == IF cond THEN <<>> ELSE << <<clause, detail>> >>
    IN  IF ~t.have_Fq THEN << <<"harness-model-without-Fq", t.model>> >>
        ELSE IF e.mode \notin 1..Len(t.modes) THEN << <<"harness-mode", ToString(e.mode)>> >>
        ELSE IF ~GridOK(e.q, Size(t, p)) THEN << <<"harness-q-grid", ToString(<<e.q, Size(t, p)>>)>> >>
        ELSE IF r.raised THEN << <<"raised", r.error>> >>
        ELSE IF Len(r.F1) # Len(e.q) \/ Len(r.F2) # Len(e.q) \/ Len(r.I) # Len(e.q)
             THEN << <<"output-shape", ToString(<<Len(r.F1), Len(r.F2), Len(r.I), Len(e.q)>>)>> >>
        ELSE IF ~(FVecAllFinite(r.F1) /\ FVecAllFinite(r.F2) /\ FVecAllFinite(r.I))
             THEN << <<"outputs-finite", ToString(<<"F1", r.F1, "F2", r.F2, "I", r.I>>)>> >>
        ELSE
          C(Positive(r.reff), "reff-positive-finite", ToString(<<name, r.reff>>)) \o
          C(Positive(r.vshell) /\ Positive(r.ratio), "volumes-positive-finite", ToString(<<r.vshell, r.ratio>>)) \o
          C(AmpBounds(r.F1, r.F2), "amplitude-bounds", ToString(<<"F1", r.F1, "F2", r.F2>>)) \o
          C(IntensityRelation(r.I, p.scale, p.background, r.F2, r.vshell), "intensity-relation",
            ToString(<<"I", r.I, "scale", p.scale, "bkg", p.background, "F2", r.F2, "vshell", r.vshell>>)) \o
          C(mono => LowQEquality(r.F1[1], r.F2[1]), "low-q-equality", ToString(<<r.F1[1], r.F2[1]>>)) \o
          C(mono /\ Spherical(t) => SphericalEquality(r.F1, r.F2), "spherical-equality",
            ToString(<<"F1", r.F1, "F2", r.F2>>)) \o
          C(mono /\ name \in EquivNames => EquivVolume(r.reff, r.vshell, r.ratio), "equivalent-volume-sphere",
            ToString(<<name, r.reff, r.vshell, r.ratio>>))

\* which antecedents were true (for the coverage report: a clause never exercised is vacuous)
Facts(e) == [tid |-> e.tid, mono |-> Mono(e.table, e.pars), spherical |-> Spherical(e.table),
             equiv |-> ModeName(e.table, e.mode) \in EquivNames]

TInit == l = 1 /\ st = 0 /\ TLCSet(1, 0) /\ TLCSet(2, 0)
\* (TLC re-evaluates a LET body at every use inside an action: compute once into register 3)
TNext ==
    /\ l <= NLines
    /\ TLCSet(3, IF TraceLog[l].ev = "AmpObs" THEN Clauses(TraceLog[l])
                 ELSE << <<"unknown-event", TraceLog[l].ev>> >>)
    /\ LET e == TraceLog[l]
           bad == TLCGet(3)
       IN /\ \A i \in 1..Len(bad) : PrintT(<<"REJECT", e.tid, l, bad[i][1], bad[i][2]>>)
          /\ IF bad = <<>> THEN TRUE ELSE TLCSet(2, TLCGet(2) + Len(bad))
          /\ IF e.ev = "AmpObs" THEN PrintT(<<"FACTS", ToJson(Facts(e))>>) ELSE TRUE
    /\ l' = l + 1
    /\ st' = st
    /\ TLCSet(1, l)
=============================================================================
