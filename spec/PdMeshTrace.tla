---------------------------- MODULE PdMeshTrace ----------------------------
(***************************************************************************)
(* Trace validation of the dispersity loop against PdMesh.                 *)
(*                                                                         *)
(* Events (one scenario per tid):                                          *)
(*   MakeArgs    mesh -> (details, values)   details.make_kernel_args      *)
(*   KernelCall  one invocation of <model>_Iq/_Iqxy with (start, stop);    *)
(*               result buffer after the call                              *)
(*   Result      what Kernel.Fq / Kernel.Iq returned                       *)
(*                                                                         *)
(* The control skeleton (selection, strides, restart indexes, PD_OPEN /    *)
(* PD_CLOSE cascade) is PdMesh's; accumulation is done here over IEEE      *)
(* doubles.  The model function is a probe polynomial whose definition     *)
(* travels in the MakeArgs event, so this module is the only oracle.       *)
(* Inputs are dyadic, every sum is exact, and equality is bit equality.    *)
(***************************************************************************)
EXTENDS TraceBase, IEEE, PdMeshCore

VARIABLES l, st
tvars == <<l, st>>

Zero == "0.0"
One == "1.0"

\* ------------------------------------------------------------ the probe model
Loc(S, i) ==   \* parameter vector seen by the model at odometer i
    [p \in 1..S.np |->
        IF \E k \in 1..S.M : S.par[k] = p - 1
        THEN LET k == CHOOSE k \in 1..S.M : S.par[k] = p - 1
             IN S.values[S.nvalues + S.off[k] + i[k] + 1]
        ELSE S.values[2 + p]]
RECURSIVE WeightFrom(_, _, _)
WeightFrom(S, i, k) ==   \* weight_k = w_k[i_k] * weight_{k+1};  weight_{M+1} = 1.0
    IF k > S.M THEN One
    ELSE FMul(S.values[S.nvalues + S.nw + S.off[k] + i[k] + 1], WeightFrom(S, i, k + 1))

ModelValid(d, loc) ==
    CASE d.valid[1] = 1 -> FLt(d.valid[3], loc[d.valid[2] + 1])
      [] d.valid[1] = 2 -> FLeq(loc[d.valid[2] + 1], loc[d.valid[3] + 1])
      [] OTHER -> TRUE
HasVolume(d) == \E j \in 1..Len(d.types) : d.types[j] = "volume"
FormVol(d, loc) == IF HasVolume(d) THEN FDot(d.d, loc) ELSE One
ShellVol(d, loc) == IF HasVolume(d) /\ d.hollow THEN FDot(d.e, loc) ELSE FormVol(d, loc)
Reff(d, loc, mode) == IF HasVolume(d) /\ d.nmodes > 0
                      THEN FMul(FFromInt(mode), FDot(d.r, loc)) ELSE Zero
\* F1 and F2 at every q (sequences)
F1Vec(d, loc, q) == FVecShift(FDot(d.a, loc), FVecScale(d.aq, q))
F2Vec(d, loc, q) ==
    IF d.haveFq THEN LET f == F1Vec(d, loc, q) IN FVecShift(d.c0, FVecMul(f, f))
    ELSE FVecShift(FAdd(d.c0, FDot(d.c, loc)), FVecScale(d.cq, q))

\* ------------------------------------------------------------ one mesh point
\* acc = [F2, F1, norm, vform, vshell, reff]
ZeroAcc(nq) == [F2 |-> FVecConst(nq, Zero), F1 |-> FVecConst(nq, Zero),
                norm |-> Zero, vform |-> Zero, vshell |-> Zero, reff |-> Zero]
Body(acc, loc, w, S) ==
    IF ModelValid(S.def, loc) /\ FLt(S.cutoff, w)
    THEN [F2 |-> FVecAxpy(w, F2Vec(S.def, loc, S.q), acc.F2),
          F1 |-> IF S.both THEN FVecAxpy(w, F1Vec(S.def, loc, S.q), acc.F1) ELSE acc.F1,
          norm |-> FAdd(acc.norm, w),
          vform |-> FAdd(acc.vform, FMul(w, FormVol(S.def, loc))),
          vshell |-> FAdd(acc.vshell, FMul(w, ShellVol(S.def, loc))),
          reff |-> IF S.mode # 0 THEN FAdd(acc.reff, FMul(w, Reff(S.def, loc, S.mode))) ELSE acc.reff]
    ELSE acc

\* kernel_iq.c between PD_INIT and the write-back: iterate body + cascade until done
RECURSIVE Run(_, _, _, _)
Run(acc, i, step, S) ==
    LET acc2 == Body(acc, Loc(S, i), WeightFrom(S, i, 1), S)
        nx == LoopClose(1, i, step + 1, S.stop, S.n)
    IN  IF nx.done THEN [acc |-> acc2, step |-> step + 1] ELSE Run(acc2, nx.i, step + 1, S)

Interleave(a, b) == [k \in 1..(2 * Len(a)) |-> IF k % 2 = 1 THEN a[(k + 1) \div 2] ELSE b[k \div 2]]
BufOf(acc, both) ==
    (IF both THEN Interleave(acc.F2, acc.F1) ELSE acc.F2) \o <<acc.norm, acc.vform, acc.vshell, acc.reff>>

\* ------------------------------------------------------------ MakeArgs
RECURSIVE SumLen(_, _)
SumLen(len, p) == IF p = 0 THEN 0 ELSE len[p] + SumLen(len, p - 1)
RECURSIVE Concat(_, _, _)
Concat(mesh, f, k) == IF k > Len(mesh) THEN <<>> ELSE mesh[k][f] \o Concat(mesh, f, k + 1)

AllDyadic(v) == \A k \in 1..Len(v) : FIsDyadic(v[k], 40)

ApplyMakeArgs(s, e) ==
    LET np == e.npars
        mesh == e.mesh                       \* all call parameters: scale, background, p1..
        kmesh == SubSeq(mesh, 3, 2 + np)     \* kernel parameters
        len == [p \in 1..np |-> Len(kmesh[p].w)]
        M == e.maxpd
        r == e.res
        o == [k \in 1..M |-> r.pd_par[k] + 1]
        off == [p \in 1..np |-> SumLen(len, p - 1)]
        nw == SumLen(len, np)
        \* scalar slots: the nominal value, except that a distribution cut down to one point is
        \* evaluated at that point.  The slot of a looped parameter is overwritten by the kernel
        \* before use, so either value is a correct implementation there (the logged one is kept).
        Looped(k) == \E a \in 1..M : o[a] = k - 2
        scal == [k \in 1..Len(mesh) |->
                   IF k >= 3 /\ k <= 2 + np /\ Looped(k) THEN r.values[k]
                   ELSE IF k >= 3 /\ k <= 2 + np /\ Len(mesh[k].d) = 1 /\ e.ptypes[k] # "orientation"
                   THEN mesh[k].d[1] ELSE mesh[k].v]
        body == scal \o Concat(kmesh, "d", 1) \o Concat(kmesh, "w", 1)
        S0 == [tid |-> e.tid, skip |-> FALSE, def |-> e.def, np |-> np, nvalues |-> e.nvalues,
               M |-> M, mesh |-> mesh, len |-> len, ptypes |-> e.ptypes,
               cursor |-> 0, buf |-> <<>>, called |-> FALSE,
               neval |-> IF r.refused THEN 0 ELSE r.num_eval,
               par |-> IF r.refused THEN <<>> ELSE r.pd_par,
               plen |-> IF r.refused THEN <<>> ELSE r.pd_length,
               off |-> IF r.refused THEN <<>> ELSE r.pd_offset,
               nw |-> nw,
               values |-> IF r.refused THEN <<>> ELSE r.values]
        bad ==
          IF ~(\A k \in 1..Len(mesh) : AllDyadic(mesh[k].d) /\ AllDyadic(mesh[k].w) /\ AllDyadic(<<mesh[k].v>>))
          THEN <<"harness-inexact-input", "">>
          ELSE IF r.refused # (NumActive(len) > M) THEN <<"refusal", ToString(NumActive(len))>>
          ELSE IF r.refused THEN <<>>
          ELSE IF ~IsSelection(o, len, M) THEN <<"selection", ToString(o)>>
          ELSE IF r.pd_length # [k \in 1..M |-> len[o[k]]] THEN <<"pd_length", "">>
          ELSE IF r.pd_offset # [k \in 1..M |-> off[o[k]]] THEN <<"pd_offset", "">>
          ELSE IF r.pd_stride # [k \in 1..M |-> Stride(o, len, k)] THEN <<"pd_stride", "">>
          ELSE IF r.num_eval # (IF \E p \in 1..np : len[p] = 0 THEN 0 ELSE NumEvalOf(o, len))
               THEN <<"num_eval", ToString(r.num_eval)>>
          ELSE IF r.num_weights # nw THEN <<"num_weights", "">>
          ELSE IF r.num_active # NumActive(len) THEN <<"num_active", "">>
          ELSE IF Len(r.values) % 32 # 0 \/ Len(r.values) < Len(body) \/ Len(r.values) >= Len(body) + 32
               THEN <<"values-padding", ToString(Len(r.values))>>
          ELSE IF \E k \in 3..(2 + np) : Looped(k) /\ ~(FBits(r.values[k], mesh[k].v) \/
                        (Len(mesh[k].d) = 1 /\ FBits(r.values[k], mesh[k].d[1]))) THEN <<"values-scalar", "">>
          ELSE IF ~FVecBits(SubSeq(r.values, 1, Len(body)), body) THEN <<"values-layout", "">>
          ELSE IF ~FVecBits(SubSeq(r.values, Len(body) + 1, Len(r.values)),
                            FVecConst(Len(r.values) - Len(body), Zero)) THEN <<"values-pad-nonzero", "">>
          ELSE <<>>
    IN [st |-> S0, bad |-> bad]

\* ------------------------------------------------------------ KernelCall
QEff(e) == IF e.dim = "2d" THEN [k \in 1..Len(e.qx) |->
                FSqrt(FAdd(FMul(e.qx[k], e.qx[k]), FMul(e.qy[k], e.qy[k])))]
           ELSE e.q
ApplyKernelCall(s, e) ==
    LET q == QEff(e)
        nq == Len(q)
        both == s.def.haveFq /\ e.dim = "1d"
        M == s.M
        o == [k \in 1..M |-> s.par[k] + 1]
        n == [k \in 1..M |-> s.plen[k]]
        S == [def |-> s.def, np |-> s.np, nvalues |-> s.nvalues, M |-> M, par |-> s.par,
              off |-> s.off, nw |-> s.nw, values |-> s.values, n |-> n,
              stop |-> e.stop, cutoff |-> e.cutoff, mode |-> e.mode, q |-> q, both |-> both]
        K == (IF both THEN 2 * nq ELSE nq) + 4
        acc0 == IF e.start = 0 THEN ZeroAcc(nq) ELSE s.acc
        ent == LoopTest(M, [k \in 1..M |-> InitIndex(e.start, Stride(o, s.len, k), n[k])],
                        e.start, e.stop, n)
        fin == Run(acc0, ent.i, e.start, S)
        expect == BufOf(fin.acc, both)
        bad ==
          IF e.start # s.cursor THEN <<"driver-not-contiguous", ToString(<<s.cursor, e.start>>)>>
          ELSE IF ~(e.stop > e.start /\ e.stop <= s.neval) THEN <<"driver-stop-range", ToString(<<e.stop, s.neval>>)>>
          ELSE IF e.start > 0 /\ ~(s.nq = nq /\ s.both = both) THEN <<"harness-q-changed", "">>
          ELSE IF ent.done THEN <<"kernel-nothing-to-do", "">>
          ELSE IF fin.step # e.stop THEN <<"chunk-end", ToString(<<fin.step, e.stop>>)>>
          ELSE IF Len(e.res) < K THEN <<"buffer-size", ToString(Len(e.res))>>
          ELSE IF ~FVecBits(SubSeq(e.res, 1, K), expect)
               THEN <<"buffer", ToString(<<"expected", expect, "got", SubSeq(e.res, 1, K)>>)>>
          ELSE <<>>
    IN [st |-> [acc |-> fin.acc, nq |-> nq, both |-> both] @@
                 [s EXCEPT !.cursor = e.stop, !.called = TRUE],
        bad |-> bad]

\* ------------------------------------------------------------ Result (Normalise + DefiningMean)
\* the defining sums over the user's full mesh: every point of every distribution
RECURSIVE MeshSum(_, _, _, _, _)
MeshSum(acc, p, loc, w, S) ==   \* parameters p..np still to be expanded
    IF p > S.np THEN Body(acc, loc, w, S)
    ELSE LET m == S.mesh[2 + p]
             RECURSIVE Over(_, _)
             Over(a, j) == IF j > Len(m.w) THEN a
                           ELSE Over(MeshSum(a, p + 1, [loc EXCEPT ![p] = m.d[j]], FMul(w, m.w[j]), S), j + 1)
         IN Over(acc, 1)

ApplyResult(s, e) ==
    LET nq == Len(QEff(e))
        q == QEff(e)
        both == s.def.haveFq /\ e.dim = "1d"
        S == [def |-> s.def, np |-> s.np, mesh |-> s.mesh, cutoff |-> e.cutoff, mode |-> e.mode,
              q |-> q, both |-> both]
        def == MeshSum(ZeroAcc(nq), 1, [p \in 1..s.np |-> Zero], One, S)
        \* kernel.py Fq: the buffer the code must have read
        a == IF s.neval = 0 THEN ZeroAcc(nq) ELSE s.acc
        tw == IF FEq(a.norm, Zero) THEN One ELSE a.norm
        form == FDiv(a.vform, tw)
        shell0 == FDiv(a.vshell, tw)
        reff == FDiv(a.reff, tw)
        shell == IF FEq(shell0, Zero) THEN One ELSE shell0
        F2 == FVecDiv(a.F2, tw)
        F1 == FVecDiv(a.F1, tw)
        scale == s.mesh[1].v
        bkg == s.mesh[2].v
        Iq == FVecShift(bkg, FVecScale(FDiv(scale, shell), F2))
        \* the documented value  scale * sum(w F^2) / sum(w V) + background
        Idoc == IF FEq(def.norm, Zero) \/ FEq(def.vshell, Zero)
                THEN FVecShift(bkg, FVecScale(scale, def.F2))   \* no qualifying point: F2 = 0
                ELSE FVecShift(bkg, FVecDiv(FVecScale(scale, def.F2), def.vshell))
        bad ==
          IF e.kind = "raised" THEN <<"raised", e.error>>
          ELSE IF s.cursor # s.neval THEN <<"driver-incomplete", ToString(<<s.cursor, s.neval>>)>>
          ELSE IF ~FVecBits(BufOf(a, both), BufOf(def, both))
               THEN <<"defining-sums", ToString(<<"expected", BufOf(def, both), "got", BufOf(a, both)>>)>>
          ELSE IF e.kind = "Iq" /\ ~FVecBits(e.res, Iq) THEN <<"normalise-Iq", ToString(<<Iq, e.res>>)>>
          ELSE IF e.kind = "Iq" /\ ~FVecNear(e.res, Idoc, "1e-14", "0.0") THEN <<"defining-mean", ToString(<<Idoc, e.res>>)>>
          ELSE IF e.kind = "Fq" /\ ~(FVecBits(e.res.F2, F2) /\ FBits(e.res.reff, reff) /\ FBits(e.res.vshell, shell)
                                     /\ FBits(e.res.ratio, FDiv(form, shell))
                                     /\ (IF both THEN FVecBits(e.res.F1, F1) ELSE e.res.F1 = <<>>))
               THEN <<"normalise-Fq", ToString(<<F1, F2, reff, shell, FDiv(form, shell)>>)>>
          ELSE <<>>
    IN [st |-> s, bad |-> bad]

\* ------------------------------------------------------------ behaviour
TraceInitState == [tid |-> 0, skip |-> TRUE]

Apply(s, e) ==
    IF e.ev = "MakeArgs" THEN ApplyMakeArgs(s, e)
    \* C09: the compiled-C and the pure-Python execution of one definition returned these
    ELSE IF e.ev = "Twin" THEN
        [st |-> s, bad |-> IF e.c = e.py THEN <<>> ELSE <<"twin-differs", ToString(<<e.c, e.py>>)>>]
    ELSE IF s.skip \/ s.tid # e.tid THEN [st |-> s, bad |-> <<>>]   \* after a rejection: skip to next tid
    ELSE IF e.ev = "KernelCall" THEN ApplyKernelCall(s, e)
    ELSE IF e.ev = "Result" THEN ApplyResult(s, e)
    ELSE [st |-> s, bad |-> <<"unknown-event", e.ev>>]

TInit == /\ l = 1 /\ st = TraceInitState /\ TLCSet(1, 0) /\ TLCSet(2, 0)
TNext ==
    /\ l <= NLines
    /\ LET e == TraceLog[l]
           r == Apply(st, e)
       IN /\ st' = IF r.bad = <<>> THEN r.st ELSE [tid |-> e.tid, skip |-> TRUE]
          /\ IF r.bad = <<>> THEN TRUE
             ELSE PrintT(<<"REJECT", e.tid, l, r.bad[1], r.bad[2]>>) /\ TLCSet(2, TLCGet(2) + 1)
    /\ l' = l + 1
    /\ TLCSet(1, l)
TraceSpec == TInit /\ [][TNext]_tvars
=============================================================================
