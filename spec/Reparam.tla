------------------------------ MODULE Reparam ------------------------------
(* Design-level check of ReparamCore over all small derivations, and export of the program
   shapes that are replayed on real models. *)
EXTENDS ReparamCore, TLC, Json

\* the removed set as a sequence in base order (JSON has no sets of strings with order)
SetToSeqR(r, base) == SelectSeq(base, LAMBDA b : b \in r)
Bases == {<<"b1", "b2">>, <<"b1", "b2", "b3">>, <<"b1", "b2", "b3", "b4">>}
News == {<<"n1">>, <<"n1", "n2">>}
RangeOf(s) == {s[k] : k \in 1..Len(s)}
\* insert_after maps: each new parameter (or an error name) after a key
Keys(base) == RangeOf(base) \cup {""}
IAs(base, new) ==
    {<<>>}
    \cup {<<<<k, new>>>> : k \in Keys(base)}                                       \* all after one key
    \cup (IF Len(new) = 2 THEN {<<<<k1, <<new[1]>>>>, <<k2, <<new[2]>>>>>> : k1, k2 \in Keys(base)} ELSE {})
    \cup {<<<<"", <<new[1]>>>>, <<base[1], <<new[1]>>>>>>}                          \* placed twice
    \cup {<<<<base[1], <<"zz">>>>>>}                                                \* unknown name
    \cup (IF Len(new) = 2 THEN {<<<<base[1], <<new[1]>>>>>>} ELSE {})               \* one not placed
Programs == UNION {UNION {{[base |-> b, new |-> n, remove |-> r, ia |-> ia] :
                              r \in (SUBSET RangeOf(b)) \ {{}}, ia \in IAs(b, n)} : n \in News} : b \in Bases}
Progs == {p \in Programs : Cardinality(p.remove) <= 2 /\ Cardinality(p.remove) < Len(p.base)}

VARIABLES prog, table
Init == prog \in Progs /\ table = <<"pending">>
Do == /\ table = <<"pending">>
      /\ table' = (IF Rejected(prog.base, prog.new, prog.remove, prog.ia) THEN <<"rejected">>
                   ELSE Derive(prog.base, prog.new, prog.remove, prog.ia))
      /\ UNCHANGED prog
Spec == Init /\ [][Do]_<<prog, table>>
Done == table # <<"pending">> /\ table # <<"rejected">>
UntouchedHolds == Done => Untouched(prog.base, prog.remove, table)
NewOnce == Done => EachNewOnce(prog.new, table)
NothingRemovedRemains == Done => \A x \in prog.remove : ~InSeq(x, table)
SimpleBlockPosition == (Done /\ prog.ia = <<>>) =>
    LET first == CHOOSE k \in 1..Len(prog.base) : prog.base[k] \in prog.remove /\ \A j \in 1..(k - 1) : prog.base[j] \notin prog.remove
        before == Cardinality({j \in 1..(first - 1) : TRUE})
    IN SubSeq(table, before + 1, before + Len(prog.new)) = prog.new
ASSUME PrintT(<<"PROGRAMS", ToJson([progs |-> {[base |-> p.base, new |-> p.new, remove |-> SetToSeqR(p.remove, p.base), ia |-> p.ia] : p \in Progs}])>>)
=============================================================================
