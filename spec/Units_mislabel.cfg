\* vacuity control: the kernel uses one parameter with a length exponent one off the declared
\* one (the D9 class).  Law MUST be violated.
SPECIFICATION ASpec
CONSTANTS
  NPar = 2
  Depth = 1
  Mislabel = TRUE
INVARIANT Law
CHECK_DEADLOCK FALSE
