---------------------------- MODULE WeightsTrace ----------------------------
(***************************************************************************)
(* C02, implementation level: WeightsCore over IEEE doubles with the       *)
(* DOCUMENTED densities (doc/guide/pd/polydispersity.rst), validating what *)
(* the implementation returned.                                            *)
(*                                                                         *)
(* Events (stateless, one per call; doubles as strings):                   *)
(*   GetW       weights.get_weights(type, n, width, nsigma, value,         *)
(*              [lb, ub], relative)                q, res                  *)
(*   PopPar     direct_model._pop_par_weights(parameter, values, active)   *)
(*              (also as called by get_mesh)       par, given, active,     *)
(*                                                 left, res               *)
(*   SasviewGW  SasviewModel._get_weights(par)     par, a, res             *)
(*   ScalePair  two get_weights calls, the second with value and limits    *)
(*              multiplied by a power of two f     q, f, res1, res2        *)
(*   AbsPair    two get_weights calls on an angle, different angles        *)
(*                                                 q, value2, res1, res2   *)
(* res = [raised, error, x, w] (+ value for PopPar / SasviewGW).           *)
(*                                                                         *)
(* For every event the specification computes the result itself            *)
(* (W!Values, W!Densities ...) and requires                                *)
(*   - every clause of the property on the LOGGED arrays,                  *)
(*   - the logged values to be the specification's grid: bit for bit when  *)
(*     the grid is exactly representable (dyadic), else to 1e-14,          *)
(*   - the logged weights to be Density/sum(Density) at the logged values. *)
(***************************************************************************)
EXTENDS TraceBase, IEEE

VARIABLES l, st
tvars == <<l, st>>

Zero == "0.0"
One == "1.0"
Tiny == "1e-8"

-----------------------------------------------------------------------------
(* The documented densities (each up to its normalisation constant, which the property   *)
(* does not constrain: "Norm is a normalization factor which is determined during the    *)
(* numerical calculation").  c = centre, s = sigma (= PD * c for sizes).                  *)

\* Gaussian:  exp( -(x - xmean)^2 / (2 sigma^2) )
DGaussian(x, c, s) ==
    LET d == FSub(x, c) IN FExp(FNeg(FDiv(FMul(d, d), FMul("2.0", FMul(s, s)))))

\* "Boltzmann" (Laplace):  exp( -|x - xmean| / sigma )
DBoltzmann(x, c, s) == FExp(FNeg(FDiv(FAbs(FSub(x, c)), FAbs(s))))

\* Lognormal:  1/(x sigma) exp( -1/2 ((ln x - mu)/sigma)^2 ),  mu = ln(x_med), x_med = centre,
\* sigma = PD = p / x_med  (the width of the underlying normal)
LogT(x, c, s) == FDiv(FSub(FLog(x), FLog(c)), FAbs(FDiv(s, c)))
DLognormal(x, c, s) ==
    LET p == FAbs(FDiv(s, c))
        t == LogT(x, c, s)
    IN FDiv(FExp(FMul("-0.5", FMul(t, t))), FMul(x, p))

\* Schulz:  (z+1)^(z+1) (x/xmean)^z exp(-(z+1) x/xmean) / (xmean Gamma(z+1)),
\* z = (1 - p^2)/p^2, p = PD = sigma/xmean.  The factors that do not depend on x are dropped
\* (the additional factor exp(z+1) keeps the exponent near zero at the mean):
\*     exp( z ln R - (z+1) (R - 1) ),   R = x/xmean
SchulzZ1(c, s) == LET p == FDiv(s, c) IN FDiv(One, FMul(p, p))        \* z + 1 = 1/p^2
DSchulz(x, c, s) ==
    LET z1 == SchulzZ1(c, s)
        z == FSub(z1, One)
        rr == FDiv(x, c)
    IN FExp(FSub(FMul(z, FLog(rr)), FMul(z1, FSub(rr, One))))

\* uniform (half-width sigma) and rectangle (half-width sqrt(3) sigma): flat
DocDensity(type, x, c, s) ==
    CASE type = "gaussian" -> DGaussian(x, c, s)
      [] type = "boltzmann" -> DBoltzmann(x, c, s)
      [] type = "lognormal" -> DLognormal(x, c, s)
      [] type = "schulz" -> DSchulz(x, c, s)
      [] OTHER -> One

-----------------------------------------------------------------------------
(* Tolerances.                                                                            *)
(*                                                                                        *)
(* BaseTol = 1e-12: the weights are quotients of one exp (error <= 1 ulp, of an exponent  *)
(* of magnitude <= 50 carrying a few rounding errors: <= 50 * 4 * 1.1e-16 = 2e-14) by a   *)
(* sum of <= 200 non-negative terms (pairwise in numpy, left to right here: <= 200 ulp    *)
(* = 4.4e-14).  Observed on the unchanged tree: <= 4e-14 for Gaussian, Laplace and flat.  *)
(* Any behavioural change (other width, centre, density, normalisation) moves a weight    *)
(* by >= 1e-4 relative.                                                                   *)
(*                                                                                        *)
(* Lognormal and Schulz are evaluated through logarithms whose rounding errors are        *)
(* magnified by the documented formulas themselves, so two correct evaluations differ by  *)
(* the formulas' condition numbers; the tolerance adds 1e-15 (4.5 ulp) times that number: *)
(*   lognormal: exponent t^2/2, t = (ln x - ln c)/PD: an absolute error e in a logarithm  *)
(*       moves the exponent by |t| e / PD, e <= ulp(|ln x| + |ln c|)                      *)
(*   Schulz: weights.py (and its docstring) evaluate                                      *)
(*       exp(z ln z + (z-1) ln R - R z - ln c - lnGamma(z)), a sum whose terms reach      *)
(*       1.4e7 for PD = 1e-3 while the result is O(1): the absolute rounding error of     *)
(*       the exponent, hence the relative error of the weight, is a few ulp of the        *)
(*       largest term.  Observed: 1.9e-9 at PD = 1e-3 (bound 2.8e-8), 1e-13 at PD >= 0.1. *)
BaseTol == "1e-12"
Cond == "1e-15"

RECURSIVE MaxOver(_, _, _)
MaxOver(v, k, best) == IF k > Len(v) THEN best ELSE MaxOver(v, k + 1, FMax(best, v[k]))

LognormalCond(c, s, xs) ==
    LET p == FAbs(FDiv(s, c))
        v == [k \in 1..Len(xs) |->
                 FDiv(FMul(FAdd(FAbs(FLog(xs[k])), FAbs(FLog(c))), FAbs(LogT(xs[k], c, s))), p)]
    IN MaxOver(v, 1, Zero)
SchulzCond(c, s, xs) ==
    LET z == SchulzZ1(c, s)
        const == FAdd(FAdd(FAbs(FMul(z, FLog(z))), FAbs(FLog(c))), FAbs(FLnGamma(z)))
        v == [k \in 1..Len(xs) |->
                 LET rr == FDiv(xs[k], c)
                 IN FAdd(FAbs(FMul(FSub(z, One), FLog(rr))), FMul(rr, z))]
    IN FAdd(const, MaxOver(v, 1, Zero))

WTol(type, c, s, xs) ==
    CASE type = "lognormal" -> FAdd(BaseTol, FMul(Cond, LognormalCond(c, s, xs)))
      [] type = "schulz" -> FAdd(BaseTol, FMul(Cond, SchulzCond(c, s, xs)))
      [] OTHER -> BaseTol

\* rounding slack of a support edge: |x - c| is computed from a rounded x = c + d
SlackOf(c, h) == FMul("1e-15", FAdd(FAbs(c), FAbs(h)))

W == INSTANCE WeightsCore WITH
        Add <- FAdd, Sub <- FSub, Mul <- FMul, Div <- FDiv, Neg <- FNeg, Abs <- FAbs,
        Leq <- FLeq, Lt <- FLt, Eq <- FEq, FromInt <- FFromInt, Sum <- FSum,
        Zero <- Zero, One <- One,
        Sqrt3 <- FSqrt("3.0"),
        Tiny <- Tiny,
        Density <- DocDensity,
        IsFinite <- FIsFinite,
        Near <- LAMBDA a, b, tol : FNear(a, b, tol, "1e-300"),
        SumTol <- BaseTol,
        PropTol <- WTol,
        Slack <- SlackOf,
        Variant <- "documented"

-----------------------------------------------------------------------------
(* guards *)

\* the ranges the property is stated for
InStatedRanges(q) ==
    /\ FLeq("0.1", q.value) /\ FLeq(q.value, "10000.0")
    /\ FLeq("0.001", q.width) /\ FLeq(q.width, "2.0")
    /\ q.n >= 1 /\ q.n <= 200
    /\ (q.type = "uniform" \/ (FLeq("0.5", q.nsigma) /\ FLeq(q.nsigma, "10.0")))

\* every grid value is computed without rounding: all quantities are multiples of 2^-36
\* below 2^16 (then np.linspace is exact and "touching a limit" is meaningful)
Exact(q) ==
    LET s == W!SigmaOf(q)
        c == W!CentreOf(q)
        h == W!HalfRange(q.type, s, q.nsigma)
        step == FDiv(FMul("2.0", h), FFromInt(q.n - 1))
    IN /\ FIsDyadic(q.width, 36) /\ FIsDyadic(q.value, 36) /\ FIsDyadic(s, 36)
       /\ FIsDyadic(c, 36) /\ FIsDyadic(h, 36) /\ FIsDyadic(step, 36)
       /\ FIsDyadic(FAdd(FAbs(c), FAbs(h)), 36)
       /\ FEq(FMul(FFromInt(q.n - 1), step), FMul("2.0", h))

\* a grid value so close to a limit or to an edge of the support that rounding decides
\* whether it is kept (only consulted when the grid is not exact)
Ambiguous(q) ==
    LET s == W!SigmaOf(q)
        c == W!CentreOf(q)
        h == W!HalfRange(q.type, s, q.nsigma)
        g == W!FullGrid(q.type, c, s, q.nsigma, q.n)
        eps == FMul("1e-13", FAdd(FAbs(c), FAbs(h)))
    IN \E k \in 1..q.n :
          \/ FNear(g[k], q.lb, "0.0", eps) \/ FNear(g[k], q.ub, "0.0", eps)
          \/ q.type = "rectangle" /\ FNear(FAbs(FSub(g[k], c)), FMul(FAbs(s), FSqrt("3.0")), "0.0", eps)
          \/ q.type \in W!PositiveTypes /\ FNear(g[k], Tiny, "0.0", FAdd(eps, "1e-20"))

\* ... then the logged values must be the grid points that are certainly kept, plus any of
\* the points rounding decides about, and nothing else
AmbiguousValuesOk(q, xs) ==
    LET s == W!SigmaOf(q)
        c == W!CentreOf(q)
        h == W!HalfRange(q.type, s, q.nsigma)
        g == W!FullGrid(q.type, c, s, q.nsigma, q.n)
        eps == FMul("1e-13", FAdd(FAbs(c), FAbs(h)))
        tiny == FAdd(eps, "1e-20")
        AtEdge(v) == \/ FNear(v, q.lb, "0.0", eps) \/ FNear(v, q.ub, "0.0", eps)
                     \/ q.type = "rectangle" /\ FNear(FAbs(FSub(v, c)), FMul(FAbs(s), FSqrt("3.0")), "0.0", eps)
                     \/ q.type \in W!PositiveTypes /\ FNear(v, Tiny, "0.0", tiny)
        Same(a, b) == FNear(a, b, "1e-14", FMul("1e-14", FAdd(FAbs(c), FAbs(h))))
    IN /\ \A k \in 1..q.n :
            (W!Keep(q.type, g[k], c, s, q.lb, q.ub) /\ ~AtEdge(g[k])) => \E m \in 1..Len(xs) : Same(xs[m], g[k])
       /\ \A m \in 1..Len(xs) :
            \E k \in 1..q.n : Same(xs[m], g[k]) /\ (W!Keep(q.type, g[k], c, s, q.lb, q.ub) \/ AtEdge(g[k]))

-----------------------------------------------------------------------------
(* verdict of one call: [bad |-> <<>> | <<clause, detail>>, note |-> "" | reason]        *)
Good == [bad |-> <<>>, note |-> ""]
Bad(clause, detail) == [bad |-> <<clause, detail>>, note |-> ""]
Note(reason) == [bad |-> <<>>, note |-> reason]

Brief(v) == IF Len(v) <= 6 THEN ToString(v) ELSE ToString(<<Len(v), SubSeq(v, 1, 3), SubSeq(v, Len(v) - 1, Len(v))>>)

\* a result that involves no distribution at all: the single value, bit for bit
ValidateSingle(spec, res) ==
    IF res.raised THEN Bad("raised", res.error)
    ELSE IF ~(FVecBits(res.x, spec.x) /\ FVecBits(res.w, spec.w))
    THEN Bad("single-value", ToString(<<"expected", spec.x, spec.w, "got", Brief(res.x), Brief(res.w)>>))
    ELSE Good

\* a result of the distribution q
Validate(q, res) ==
    LET spec == W!Values(q)
    IN  IF spec.kind = "undefined"
        THEN \* no documented density: only an explicit refusal is acceptable (or the empty
             \* result, when limits and support leave no point to evaluate a density at)
             IF res.raised /\ res.error = "ValueError" THEN Good
             ELSE IF ~res.raised /\ Len(spec.x) = 0 /\ Len(res.x) = 0 /\ Len(res.w) = 0 THEN Good
             ELSE Bad("undefined-density-not-refused",
                      IF res.raised THEN res.error ELSE ToString(<<Brief(res.x), Brief(res.w)>>))
        ELSE IF res.raised THEN Bad("raised", res.error)
        ELSE LET r == [kind |-> "ok", x |-> res.x, w |-> res.w]
                 c == W!CentreOf(q)
                 sg == W!SigmaOf(q)
                 degenerate == W!IsDegenerate(q)
                 exact == degenerate \/ Exact(q)
                 amb == ~exact /\ Ambiguous(q)
                 scale == FAdd(FAbs(c), FAbs(W!HalfRange(q.type, sg, q.nsigma)))
                 \* the documented densities at the LOGGED values, their sum, the tolerance
                 d == W!Densities(q.type, res.x, c, sg)
                 sum == FSum(d)
                 representable == degenerate \/ Len(res.x) = 0 \/ W!Representable(sum)
                 expected == W!Normalised(d, sum)
                 tol == WTol(q.type, c, sg, res.x)
             IN  \* ---- the property's clauses on the logged arrays themselves
                 IF ~W!WellFormed(r) THEN Bad("well-formed", ToString(<<Len(res.x), Len(res.w)>>))
                 ELSE IF ~FVecIncreasing(res.x) THEN Bad("strictly-increasing", Brief(res.x))
                 ELSE IF ~W!InsideLimits(q, r) THEN Bad("inside-limits", Brief(res.x))
                 ELSE IF ~W!InsideSupport(q, r) THEN Bad("inside-support", Brief(res.x))
                 ELSE IF ~W!DegenerateIsCentre(q, r) THEN Bad("degenerate-is-centre", ToString(<<Brief(res.x), Brief(res.w)>>))
                 ELSE IF ~(FVecAllFinite(res.w) /\ FVecAllGeq(res.w, Zero))       \* W!FiniteNonNegative(r)
                 THEN (IF ~representable /\ ~InStatedRanges(q)
                       THEN Note("unrepresentable-outside-stated-ranges")
                       ELSE Bad("finite-non-negative", Brief(res.w)))
                 ELSE IF ~representable
                 THEN (IF InStatedRanges(q) THEN Bad("density-unrepresentable-in-range", Brief(res.w))
                       ELSE Note("unrepresentable-outside-stated-ranges"))
                 ELSE IF ~W!SumsToOne(r) THEN Bad("sums-to-one", FSum(res.w))
                 ELSE IF ~degenerate /\ ~W!ProportionalTo(r, d, tol)
                 THEN Bad("proportional", ToString(<<"expected", Brief(expected), "got", Brief(res.w)>>))
                 \* ---- the values are the specification's grid
                 ELSE IF exact /\ ~FVecBits(res.x, spec.x)
                 THEN Bad("values", ToString(<<"expected", Brief(spec.x), "got", Brief(res.x)>>))
                 ELSE IF ~exact /\ ~amb /\ ~FVecNear(res.x, spec.x, "1e-14", FMul("1e-14", scale))
                 THEN Bad("values", ToString(<<"expected", Brief(spec.x), "got", Brief(res.x)>>))
                 ELSE IF amb /\ ~AmbiguousValuesOk(q, res.x)
                 THEN Bad("values", ToString(<<"expected (up to rounding at a limit)", Brief(spec.x), "got", Brief(res.x)>>))
                 \* ---- the weights are Density / sum(Density) at those values
                 ELSE IF Len(res.x) > 0 /\ ~degenerate /\ ~FVecNear(res.w, expected, tol, "1e-300")
                 THEN Bad("weights", ToString(<<"expected", Brief(expected), "got", Brief(res.w),
                                                 "maxrel", FVecMaxRelErr(res.w, expected)>>))
                 ELSE IF amb THEN Note("ambiguous-rounding-at-a-limit") ELSE Good

\* q of an event: numbers arrive as strings, n as integer
Q(e) == [type |-> e.type, n |-> e.n, width |-> e.width, nsigma |-> e.nsigma, value |-> e.value,
         lb |-> e.lb, ub |-> e.ub, relative |-> e.relative]

First(v1, v2) == IF v1.bad # <<>> THEN v1 ELSE IF v2.bad # <<>> THEN v2
                 ELSE IF v1.note # "" THEN v1 ELSE v2

-----------------------------------------------------------------------------
ApplyGetW(e) == Validate(Q(e.q), e.res)

\* direct_model._pop_par_weights.  Defaults of the call: name -> table default,
\* name_pd_n -> 0, name_pd -> 0.0, name_pd_nsigma -> 3.0, name_pd_type -> "gaussian".
ParOf(p) == [ptype |-> p.ptype, lb |-> p.lb, ub |-> p.ub, default |-> p.default, control |-> p.control]
\* the table's own flags say the same as the parameter's type
TableFlagsOk(p) == p.disp = W!Dispersible(ParOf(p)) /\ (p.disp => p.relative_attr = W!Relative(p.ptype))
ArgsOf(par, g, active) ==
    [value |-> Get(g, "value", par.default), n |-> Get(g, "n", 0), width |-> Get(g, "width", Zero),
     nsigma |-> Get(g, "nsigma", "3.0"), type |-> Get(g, "type", "gaussian"), active |-> active]
\* entries of the call that must have been consumed
Consumed(par) == IF W!Dispersible(par) THEN {"value", "n", "width", "nsigma", "type"} ELSE {"value"}

ApplyPopPar(e) ==
    LET par == ParOf(e.par)
        a == ArgsOf(par, e.given, e.active)
        shortcut == ~W!Dispersible(par) \/ a.n = 0 \/ FEq(a.width, Zero) \/ ~a.active
        left == {e.left[k] : k \in 1..Len(e.left)}
        outside == W!Dispersible(par) /\
                   LET c == W!Centre(a.value, W!Relative(par.ptype))
                   IN ~(FLeq(par.lb, c) /\ FLeq(c, par.ub))
    IN  IF ~TableFlagsOk(e.par) THEN Bad("table-flags", ToString(e.par))
        ELSE IF ~e.res.raised /\ ~FBits(e.res.value, a.value)
        THEN Bad("nominal-value", ToString(<<a.value, e.res.value>>))
        ELSE IF ~e.res.raised /\ left # (DOMAIN e.given) \ Consumed(par)
        THEN Bad("entries-consumed", ToString(<<left, DOMAIN e.given>>))
        ELSE IF shortcut
        THEN LET v == ValidateSingle(W!PopParWeights(par, a), e.res)
             \* the monodisperse short cut does not look at the limits (outside the stated
             \* quantifier: the centre is not between the limits); counted, not judged
             IN IF v.bad = <<>> /\ outside THEN Note("monodisperse-value-outside-limits") ELSE v
        ELSE Validate(W!Config(par, a.type, a.n, a.width, a.nsigma, a.value), e.res)

ApplySasview(e) ==
    LET par == ParOf(e.par)
        a == e.a
    IN  IF ~TableFlagsOk(e.par) THEN Bad("table-flags", ToString(e.par))
        ELSE IF ~e.res.raised /\ ~FBits(e.res.value, a.value)
        THEN Bad("nominal-value", ToString(<<a.value, e.res.value>>))
        ELSE IF ~W!Dispersible(par) THEN ValidateSingle(W!Single(a.value), e.res)
        ELSE Validate(W!Config(par, a.type, a.n, a.width, a.nsigma, a.value), e.res)

\* sizes: centre and limits times f (a power of two, so the scaling itself is exact)
NoFloorEffect(q, f) ==
    q.type \notin W!PositiveTypes \/ W!IsDegenerate(q) \/
    LET g == W!FullGrid(q.type, W!CentreOf(q), W!SigmaOf(q), q.nsigma, q.n)
        lo == FMin(Tiny, FDiv(Tiny, f))
        hi == FMax(Tiny, FDiv(Tiny, f))
    IN \A k \in 1..q.n : ~(FLeq(FMul("0.5", lo), g[k]) /\ FLeq(g[k], FMul("2.0", hi)))
ApplyScalePair(e) ==
    LET q == Q(e.q)
        q2 == W!ScaleConfig(q, e.f)
        v == First(Validate(q, e.res1), Validate(q2, e.res2))
        r1 == [x |-> e.res1.x, w |-> e.res1.w]
        r2 == [x |-> e.res2.x, w |-> e.res2.w]
    IN  IF v.bad # <<>> \/ e.res1.raised \/ e.res2.raised \/ ~q.relative THEN v
        ELSE IF ~NoFloorEffect(q, e.f) THEN Note("scale-pair-at-the-positive-floor")
        ELSE IF ~W!ScaledValues(r1, r2, e.f)
        THEN Bad("relative-width-scales-with-centre", ToString(<<"f", e.f, Brief(r1.x), Brief(r2.x)>>))
        ELSE IF ~W!SameWeights(r1, r2, WTol(q.type, W!CentreOf(q), W!SigmaOf(q), r1.x))
        THEN Bad("relative-width-keeps-weights", ToString(<<"f", e.f, Brief(r1.w), Brief(r2.w)>>))
        ELSE v

\* angles: the centre of the jitter distribution is zero whatever the angle
ApplyAbsPair(e) ==
    LET q == Q(e.q)
        q2 == [q EXCEPT !.value = e.value2]
        v == First(Validate(q, e.res1), Validate(q2, e.res2))
    IN  IF v.bad # <<>> \/ e.res1.raised \/ e.res2.raised \/ q.relative THEN v
        ELSE IF ~(FVecBits(e.res1.x, e.res2.x) /\ FVecBits(e.res1.w, e.res2.w))
        THEN Bad("absolute-centred-on-zero", ToString(<<Brief(e.res1.x), Brief(e.res2.x)>>))
        ELSE v

Apply(e) ==
    CASE e.ev = "GetW" -> ApplyGetW(e)
      [] e.ev = "PopPar" -> ApplyPopPar(e)
      [] e.ev = "SasviewGW" -> ApplySasview(e)
      [] e.ev = "ScalePair" -> ApplyScalePair(e)
      [] e.ev = "AbsPair" -> ApplyAbsPair(e)
      [] e.ev = "MeshDone" -> Good        \* end marker of one get_mesh call
      [] OTHER -> Bad("unknown-event", e.ev)

TInit == l = 1 /\ st = 0 /\ TLCSet(1, 0) /\ TLCSet(2, 0)
TNext ==
    /\ l <= NLines
    /\ LET e == TraceLog[l]
           v == Apply(e)
       IN IF v.bad # <<>>
          THEN PrintT(<<"REJECT", e.tid, l, v.bad[1], v.bad[2]>>) /\ TLCSet(2, TLCGet(2) + 1)
          ELSE IF v.note # "" THEN PrintT(<<"SKIP", e.tid, v.note>>) ELSE TRUE
    /\ l' = l + 1
    /\ st' = st
    /\ TLCSet(1, l)
=============================================================================
