---------------------------- MODULE SesansTrace ----------------------------
(***************************************************************************)
(* C19 - code -> specification.  Validates recorded constructions and      *)
(* applications of sasmodels.sesans.SesansTransform (level "transform")    *)
(* and of DirectModel on SESANS data (level "dm") against the laws of      *)
(* SesansCore, evaluated by TLC over IEEE doubles.  Nothing expected is    *)
(* computed by the harness: it logs inputs and what the code returned.     *)
(*                                                                         *)
(* One trace (tid) = one configuration of the lattice of Sesans.tla:       *)
(*   Construct  args xi, lam, acc, zaccept | theta                         *)
(*              res  raised, nq, q_first, q_last, q_min, min_step (facts   *)
(*                   measured on the whole q_calc), qi/qs (a sample of     *)
(*                   q_calc with its 1-based indices), qfull (the whole    *)
(*                   q_calc for some traces, else <<>>)                    *)
(*   Gauss      args comps (or scale, parts = [w, rg] for the guinier      *)
(*                   models), res P = value returned for I(q) = sum a      *)
(*                   exp(-q^2 s^2/2) on q_calc; Is = that I(q) at qs;      *)
(*                   P0 = the same call with background 0 (dm)             *)
(*   Linear     args c1, c2, a, b; res P1, P2, P12 = apply(a I1 + b I2)    *)
(*   Kernel     args js, qj, ks; res R[i][kk] = response at xi[ks[kk]] to  *)
(*                   a unit impulse at q_calc[js[i]] = qj[i];  Z[i] = the  *)
(*                   response of the same grid with vanishing acceptance   *)
(*                   (Zlo, Zhi: its extremes over all points)              *)
(*   Single     args k, comps | scale, parts; res vvec = value at point k inside the      *)
(*                   vector, vsingle = value for [xi_k] alone, c1 = facts  *)
(*                   about the one-point q_calc                            *)
(***************************************************************************)
EXTENDS TraceBase, SesansCore

VARIABLES l, st
tvars == <<l, st>>

NoStat == [full |-> 0, zero |-> 0, single |-> 0, kernel |-> 0, lin |-> 0]
Ok(s) == [st |-> s, bad |-> <<>>, stat |-> NoStat]
OkStat(s, stat) == [st |-> s, bad |-> <<>>, stat |-> stat]
Bad(s, clause, detail) == [st |-> s, bad |-> <<clause, detail>>, stat |-> NoStat]

\* first k in 1..n with B(k), else 0 (linear scan)
FirstBad(n, B(_)) == LET RECURSIVE Scan(_)
                         Scan(k) == IF k > n THEN 0 ELSE IF B(k) THEN k ELSE Scan(k + 1)
                     IN Scan(1)
Count(n, B(_)) == LET RECURSIVE Cnt(_)
                      Cnt(k) == IF k > n THEN 0 ELSE (IF B(k) THEN 1 ELSE 0) + Cnt(k + 1)
                  IN Cnt(1)

IntsIncreasing(v) == \A i \in 1..(Len(v) - 1) : v[i] < v[i + 1]

\* ------------------------------------------------------------ q_calc facts
GridBad(r) ==
    IF r.nq < 2 THEN <<"nonempty", ToString(r.nq)>>
    ELSE IF ~(FLt(Zero, r.q_min) /\ FLt(Zero, r.q_first) /\ FIsFinite(r.q_last))
         THEN <<"positive", ToString(<<r.q_min, r.q_first, r.q_last>>)>>
    ELSE IF ~(FLt(Zero, r.min_step) /\ FLt(r.q_first, r.q_last) /\ FEq(r.q_min, r.q_first))
         THEN <<"increasing", ToString(<<"min_step", r.min_step, "first", r.q_first, "last", r.q_last, "min", r.q_min>>)>>
    ELSE <<>>

\* The lengths are a set: the transform chooses its q range from the first, the second and the last one, so a
\* grid is admissible when those three are where an increasing grid has them and the others lie in between, in
\* any order.  Every clause below pairs the k-th returned value with the k-th length as given.
OrderOK(xi) == LET n == Len(xi)
               IN  \/ StrictlyIncreasing(xi)
                   \/ /\ n >= 5 /\ FLt(xi[1], xi[2])
                      /\ \A k \in 3..(n - 1) : FLt(xi[2], xi[k]) /\ FLt(xi[k], xi[n])
                      /\ \A j, k \in 3..(n - 1) : j # k => ~FEq(xi[j], xi[k])

ApplyConstruct(e) ==
    LET a == e.args
        r == e.res
        n == Len(a.xi)
        sinacc == IF e.level = "dm" THEN SinAccOfTheta(a.theta) ELSE SinAccOfClass(a.acc)
        s0 == [tid |-> e.tid, skip |-> TRUE]
        argsOK == /\ n >= 1 /\ Len(a.lam) = n
                  /\ Positive(a.xi) /\ OrderOK(a.xi) /\ Positive(a.lam)
                  /\ a.acc \in {"full", "zero", "mid"}
        \* the acceptance the harness asked for is of the class it says (for "mid" the harness derives
        \* the angle from the observed grid, so this is checked after the grid itself)
        accOK == IF e.level = "dm"
                 THEN (a.acc = "full" => FEq(sinacc, One)) /\ (a.acc = "zero" => FEq(sinacc, Zero))
                      /\ (a.acc = "mid" => FLt(Zero, sinacc) /\ FLt(sinacc, One))
                 ELSE (a.acc = "full" => /\ FLeq(HalfPi, a.zaccept)       \* full as an angle and as a q
                                         /\ \A k \in 1..n : FLeq(One, SinTheta(a.zaccept, a.lam[k])))
                      /\ (a.acc = "zero" => FEq(a.zaccept, Zero))
                      /\ a.acc # "mid"
        g == GridBad(r)
    IN  IF ~argsOK THEN Bad(s0, "harness-args", ToString(a.acc))
        ELSE IF r.raised THEN Bad(s0, "construct-raised", r.error)
        ELSE IF g # <<>> THEN Bad(s0, g[1], g[2])
        ELSE IF ~accOK THEN Bad(s0, "harness-args", ToString(<<a.acc, sinacc>>))
        ELSE IF ~(Len(r.qs) = Len(r.qi) /\ Len(r.qi) >= 2 /\ IntsIncreasing(r.qi)
                  /\ r.qi[1] = 1 /\ r.qi[Len(r.qi)] = r.nq
                  /\ FEq(r.qs[1], r.q_first) /\ FEq(r.qs[Len(r.qs)], r.q_last))
             THEN Bad(s0, "harness-sample", ToString(<<r.qi[1], r.qi[Len(r.qi)], r.nq>>))
        ELSE IF ~Positive(r.qs) THEN Bad(s0, "positive", "sample of q_calc")
        ELSE IF ~StrictlyIncreasing(r.qs) THEN Bad(s0, "increasing", "sample of q_calc")
        ELSE IF r.qfull # <<>> /\ Len(r.qfull) # r.nq THEN Bad(s0, "harness-sample", "qfull length")
        ELSE IF r.qfull # <<>> /\ ~Positive(r.qfull) THEN Bad(s0, "positive", "whole q_calc")
        ELSE IF r.qfull # <<>> /\ ~StrictlyIncreasing(r.qfull) THEN Bad(s0, "increasing", "whole q_calc")
        ELSE Ok([tid |-> e.tid, skip |-> FALSE, level |-> e.level, xi |-> a.xi, lam |-> a.lam, n |-> n,
                 acc |-> a.acc, sinacc |-> sinacc, qlo |-> r.q_first, qhi |-> r.q_last, qs |-> r.qs])

\* ------------------------------------------------------------ Gaussians
CompsOf(a) == IF "comps" \in DOMAIN a THEN a.comps
              ELSE [m \in 1..Len(a.parts) |-> [a |-> FMul(a.scale, a.parts[m].w), s |-> SOfRg(a.parts[m].rg)]]

\* nothing is accepted anywhere on the calculated grid
AllMasked(s) == \A k \in 1..s.n : FLt(QAcc(s.lam[k], s.sinacc), s.qlo)
FullApplies(s, cs, k) == InRangeFull(cs, s.qlo, QTop(s.qhi, s.lam[k], s.sinacc))
ZeroApplies(s, cs) == AllMasked(s) /\ InRangeZero(cs, s.qlo, s.qhi)

ApplyGauss(s, e) ==
    LET a == e.args
        r == e.res
        cs == CompsOf(a)
        g0 == AbsG0(cs)
        zeroA == ZeroApplies(s, cs)
        zeroV == ClosedZero(cs)
        fullBad(k) == FullApplies(s, cs, k)
                      /\ ~Within(r.P[k], ClosedFull(s.xi[k], cs), AbsFull(s.xi[k], cs), g0)
        zeroBad(k) == zeroA /\ ~Within(r.P[k], zeroV, g0, g0)
        posBad(k) == ~(FIsFinite(r.P[k]) /\ FLeq(r.P[k], FMul(CancelTol, g0)))
        inBad(i) == ~FNear(r.Is[i], GaussI(s.qs[i], cs, Len(cs)), "1e-12", "1e-300")
        kf == FirstBad(s.n, fullBad)
        kz == FirstBad(s.n, zeroBad)
        kp == IF AllNonNeg(cs) THEN FirstBad(s.n, posBad) ELSE 0
        nfull == LET A(k) == FullApplies(s, cs, k) IN Count(s.n, A)
    IN  IF r.raised THEN Bad(s, "apply-raised", r.error)
        ELSE IF Len(r.P) # s.n THEN Bad(s, "length", ToString(<<Len(r.P), s.n>>))
        ELSE IF "Is" \in DOMAIN r /\ (Len(r.Is) # Len(s.qs) \/ FirstBad(Len(s.qs), inBad) # 0)
             THEN Bad(s, "harness-input", "I(q) logged by the harness is not the stated mixture")
        ELSE IF "changed" \in DOMAIN r /\ r.changed
             THEN Bad(s, "input-array-modified", "apply() changed the I(q) array it was given")
        ELSE IF "P0" \in DOMAIN r /\ ~FVecNear(r.P, r.P0, "1e-12", "0.0")
             THEN Bad(s, "background-forced-zero", ToString(<<"background", a.background, "got", r.P, "background 0", r.P0>>))
        ELSE IF kf # 0 THEN Bad(s, "closed-form-full",
                                ToString(<<"k", kf, "xi", s.xi[kf], "lam", s.lam[kf], "comps", cs, "expected",
                                           ClosedFull(s.xi[kf], cs), "got", r.P[kf], "q range", s.qlo, s.qhi>>))
        ELSE IF kz # 0 THEN Bad(s, "closed-form-zero",
                                ToString(<<"k", kz, "xi", s.xi[kz], "comps", cs, "expected", zeroV, "got", r.P[kz],
                                           "q range", s.qlo, s.qhi>>))
        ELSE IF kp # 0 THEN Bad(s, "non-positive", ToString(<<"k", kp, "got", r.P[kp], "G0", g0>>))
        ELSE OkStat(s, [NoStat EXCEPT !.full = nfull, !.zero = IF zeroA THEN s.n ELSE 0])

\* ------------------------------------------------------------ linearity
ApplyLinear(s, e) ==
    LET a == e.args
        r == e.res
        scale == FAdd(FMul(FAbs(a.a), AbsG0(a.c1)), FMul(FAbs(a.b), AbsG0(a.c2)))
        rhs(k) == FAdd(FMul(a.a, r.P1[k]), FMul(a.b, r.P2[k]))
        mag(k) == FAdd(FAbs(FMul(a.a, r.P1[k])), FAbs(FMul(a.b, r.P2[k])))
        bad(k) == ~(FIsFinite(r.P12[k])
                    /\ FLeq(FAbs(FSub(r.P12[k], rhs(k))), FMul(LinTol, FAdd(mag(k), scale))))
        kb == FirstBad(s.n, bad)
    IN  IF r.raised THEN Bad(s, "apply-raised", r.error)
        ELSE IF ~(Len(r.P1) = s.n /\ Len(r.P2) = s.n /\ Len(r.P12) = s.n) THEN Bad(s, "length", "linear")
        ELSE IF kb # 0 THEN Bad(s, "linearity", ToString(<<"k", kb, "a", a.a, "b", a.b, "P1", r.P1[kb], "P2", r.P2[kb],
                                                            "apply(a I1 + b I2)", r.P12[kb], "a P1 + b P2", rhs(kb)>>))
        ELSE OkStat(s, [NoStat EXCEPT !.lin = s.n])

\* ------------------------------------------------------------ matrix elements
ApplyKernel(s, e) ==
    LET a == e.args
        r == e.res
        ni == Len(a.js)
        nk == Len(a.ks)
        cell(p) == [i |-> ((p - 1) \div nk) + 1, kk |-> ((p - 1) % nk) + 1]
        edge(p) == EdgeCase(a.qj[cell(p).i], s.lam[a.ks[cell(p).kk]], s.sinacc)
        want(p) == KernelExpected(a.qj[cell(p).i], s.xi[a.ks[cell(p).kk]], s.lam[a.ks[cell(p).kk]],
                                  s.sinacc, r.Z[cell(p).i])
        got(p) == r.R[cell(p).i][cell(p).kk]
        bad(p) == ~edge(p) /\ ~(FIsFinite(got(p))
                                /\ FLeq(FAbs(FSub(got(p), want(p))), FMul(KernelTol, FAbs(r.Z[cell(p).i]))))
        zbad(i) == ~(FIsFinite(r.Z[i]) /\ FLt(r.Z[i], Zero))
        pb == FirstBad(ni * nk, bad)
        zb == FirstBad(ni, zbad)
        \* with vanishing acceptance the value is -G(0) at every spin-echo length
        sbad(i) == ~(FNear(r.Zlo[i], r.Zhi[i], "1e-13", "0.0") /\ FLeq(r.Zlo[i], r.Z[i]) /\ FLeq(r.Z[i], r.Zhi[i]))
        sb == FirstBad(ni, sbad)
        \* what the other side of the acceptance test would give
        other(p) == IF Accepted(a.qj[cell(p).i], s.lam[a.ks[cell(p).kk]], s.sinacc)
                    THEN r.Z[cell(p).i]
                    ELSE FMul(FSub(One, FJ0(FMul(a.qj[cell(p).i], s.xi[a.ks[cell(p).kk]]))), r.Z[cell(p).i])
        isMask(p) == FLeq(FAbs(FSub(got(p), other(p))), FMul(KernelTol, FAbs(r.Z[cell(p).i])))
        nchecked == LET A(p) == ~edge(p) IN Count(ni * nk, A)
    IN  IF r.raised THEN Bad(s, "apply-raised", r.error)
        ELSE IF ~(Len(a.qj) = ni /\ Len(r.Z) = ni /\ Len(r.R) = ni /\ \A i \in 1..ni : Len(r.R[i]) = nk)
             THEN Bad(s, "length", "kernel")
        ELSE IF ~(Len(r.Zlo) = ni /\ Len(r.Zhi) = ni) THEN Bad(s, "length", "kernel")
        ELSE IF sb # 0 THEN Bad(s, "zero-acceptance-not-constant", ToString(<<"q", a.qj[sb], r.Zlo[sb], r.Zhi[sb]>>))
        ELSE IF zb # 0 THEN Bad(s, "weights-positive", ToString(<<"q", a.qj[zb], "response", r.Z[zb]>>))
        ELSE IF pb # 0
             THEN Bad(s, IF isMask(pb) THEN "acceptance-mask" ELSE "kernel-value",
                      ToString(<<"q", a.qj[cell(pb).i], "xi", s.xi[a.ks[cell(pb).kk]], "lam", s.lam[a.ks[cell(pb).kk]],
                                 "sin(theta)", SinTheta(a.qj[cell(pb).i], s.lam[a.ks[cell(pb).kk]]),
                                 "sin(theta_acc)", s.sinacc,
                                 "accepted", Accepted(a.qj[cell(pb).i], s.lam[a.ks[cell(pb).kk]], s.sinacc),
                                 "expected", want(pb), "got", got(pb), "weight", r.Z[cell(pb).i]>>))
        ELSE OkStat(s, [NoStat EXCEPT !.kernel = nchecked])

\* ------------------------------------------------------------ one point alone
ApplySingle(s, e) ==
    LET a == e.args
        r == e.res
        cs == CompsOf(a)
        k == a.k
        g == IF r.c1.raised THEN <<"construct-raised", r.c1.error>> ELSE GridBad(r.c1)
        applies == /\ WeakRange(cs, s.qlo, QTop(s.qhi, s.lam[k], s.sinacc))
                   /\ WeakRange(cs, r.c1.q_first, QTop(r.c1.q_last, s.lam[k], s.sinacc))
    IN  IF ~(k \in 1..s.n) THEN Bad(s, "harness-args", "k")
        ELSE IF g # <<>> THEN Bad(s, "single-" \o g[1], g[2])
        ELSE IF r.raised THEN Bad(s, "apply-raised", r.error)
        ELSE IF applies /\ ~(FIsFinite(r.vsingle)
                             /\ FLeq(FAbs(FSub(r.vsingle, r.vvec)), FMul(SingleTol, FAbs(r.vvec))))
             THEN Bad(s, "single-point", ToString(<<"k", k, "xi", s.xi[k], "comps", cs, "alone", r.vsingle,
                                                    "in vector", r.vvec>>))
        ELSE OkStat(s, [NoStat EXCEPT !.single = IF applies THEN 1 ELSE 0])

\* ------------------------------------------------------------ behaviour
TraceInitState == [tid |-> 0, skip |-> TRUE]

Apply(s, e) ==
    IF e.ev = "Construct" THEN ApplyConstruct(e)
    ELSE IF s.skip \/ s.tid # e.tid THEN Ok(s)      \* after a rejection: skip to the next trace
    ELSE IF e.ev = "Gauss" THEN ApplyGauss(s, e)
    ELSE IF e.ev = "Linear" THEN ApplyLinear(s, e)
    ELSE IF e.ev = "Kernel" THEN ApplyKernel(s, e)
    ELSE IF e.ev = "Single" THEN ApplySingle(s, e)
    ELSE Bad(s, "unknown-event", e.ev)

TInit == /\ l = 1 /\ st = TraceInitState /\ TLCSet(1, 0) /\ TLCSet(2, 0)
TNext ==
    /\ l <= NLines
    /\ LET e == TraceLog[l]
           r == Apply(st, e)
       IN \* a rejected event ends its trace, except a matrix element on the wrong side of the
          \* acceptance test: the remaining events of that trace are still worth a verdict
          /\ st' = IF r.bad = <<>> THEN r.st
                   ELSE IF r.bad[1] = "acceptance-mask" THEN r.st
                   ELSE [tid |-> e.tid, skip |-> TRUE]
          /\ IF r.bad = <<>>
             THEN (IF r.stat = NoStat THEN TRUE
                   ELSE PrintT(<<"STAT", e.tid, l, r.stat.full, r.stat.zero, r.stat.single,
                                 r.stat.kernel, r.stat.lin>>))
             ELSE PrintT(<<"REJECT", e.tid, l, r.bad[1], r.bad[2]>>) /\ TLCSet(2, TLCGet(2) + 1)
    /\ l' = l + 1
    /\ TLCSet(1, l)
TraceSpec == TInit /\ [][TNext]_tvars
=============================================================================
