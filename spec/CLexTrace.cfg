\* the specification as stated (hexadecimal floating constants are floating constants)
CONSTANT TagHexFloats = TRUE
INIT TInit
NEXT TNext
POSTCONDITION CLexDone
CHECK_DEADLOCK FALSE
