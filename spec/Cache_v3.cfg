SPECIFICATION Spec
CONSTANTS
  Procs = {p1, p2}
  Versions = {1, 2, 3}
  Bits = {32, 64}
  MaxSteps = 7
  Variant = "ok"
  WithSv = FALSE
  Stamps = "now"
  SvMode = "asWritten"
INVARIANT TypeOK
INVARIANT Coherent
INVARIANT NoSharing
CHECK_DEADLOCK FALSE
