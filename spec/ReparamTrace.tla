---------------------------- MODULE ReparamTrace ----------------------------
(***************************************************************************)
(* Trace validation for C16.  Events:                                      *)
(*  Derive  base, new, remove, ia (insert_after as <<key, names>> groups,  *)
(*          <<>> = none), outcome ok | rejected, table (ids of the derived *)
(*          model's kernel parameters)                                     *)
(*  Point   assign: the translation as a sequence of [lhs, expr] with expr *)
(*          an expression tree <<"par", name>> | <<"const", c>> |          *)
(*          <<op, e1, e2>>, op in + - * / ; env: the derived model's       *)
(*          parameter values; T: the base parameter values at which the    *)
(*          harness evaluated the BASE model; der / bas: outputs of the    *)
(*          derived model at env and of the base model at T                *)
(* The specification evaluates the translation itself (in the order the    *)
(* generated C does), checks T, and requires der = bas.  Dispersity on new *)
(* parameters is validated by MeanTrace with base evaluations as points.   *)
(***************************************************************************)
EXTENDS TraceBase, IEEE, ReparamCore

VARIABLES l, st

RECURSIVE Eval(_, _)
Eval(t, env) ==
    CASE t[1] = "par" -> env[t[2]]
      [] t[1] = "const" -> t[2]
      [] t[1] = "+" -> FAdd(Eval(t[2], env), Eval(t[3], env))
      [] t[1] = "-" -> FSub(Eval(t[2], env), Eval(t[3], env))
      [] t[1] = "*" -> FMul(Eval(t[2], env), Eval(t[3], env))
      [] t[1] = "/" -> FDiv(Eval(t[2], env), Eval(t[3], env))
\* run the assignments in order; intermediates become available to later right-hand sides
RECURSIVE RunAssign(_, _, _)
RunAssign(assign, env, k) ==
    IF k > Len(assign) THEN env
    ELSE LET v == Eval(assign[k].expr, env)
             nm == assign[k].lhs
         IN RunAssign(assign, [x \in DOMAIN env \cup {nm} |-> IF x = nm THEN v ELSE env[x]], k + 1)

Same(a, b, exact) == IF exact THEN FVecBits(a, b) ELSE FVecNear(a, b, "1e-13", "1e-300")
Same1(a, b, exact) == IF exact THEN FBits(a, b) ELSE FNear(a, b, "1e-13", "1e-300")

ApplyDerive(e) ==
    LET rej == Rejected(e.base, e.new, {e.remove[k] : k \in 1..Len(e.remove)}, e.ia)
        want == Derive(e.base, e.new, {e.remove[k] : k \in 1..Len(e.remove)}, e.ia)
    IN IF (e.outcome = "rejected") # rej THEN <<"derive-refusal", ToString(<<rej, e.outcome, e.error>>)>>
       ELSE IF rej THEN <<>>
       ELSE IF e.table # want THEN <<"derived-table-order", ToString(<<"expected", want, "got", e.table>>)>>
       ELSE <<>>

ApplyPoint(e) ==
    LET full == RunAssign(e.assign, e.env, 1)
        badT == {p \in DOMAIN e.T : ~FBits(e.T[p], full[p])}
    IN IF e.raised # "" THEN <<"raised", e.raised>>
       ELSE IF badT # {} THEN <<"harness-translated-parameters", ToString(badT)>>
       ELSE IF ~Same(e.der.I, e.bas.I, e.exact) THEN <<"intensity", ToString(<<"base", e.bas.I, "derived", e.der.I>>)>>
       ELSE IF ~Same(e.der.F2, e.bas.F2, e.exact) THEN <<"F2", ToString(<<e.bas.F2, e.der.F2>>)>>
       ELSE IF ~Same(e.der.F1, e.bas.F1, e.exact) THEN <<"F1", ToString(<<e.bas.F1, e.der.F1>>)>>
       ELSE IF ~Same1(e.der.reff, e.bas.reff, e.exact) THEN <<"effective-radius", ToString(<<e.bas.reff, e.der.reff>>)>>
       ELSE IF ~Same1(e.der.vshell, e.bas.vshell, e.exact) THEN <<"volume", ToString(<<e.bas.vshell, e.der.vshell>>)>>
       ELSE IF ~Same1(e.der.ratio, e.bas.ratio, e.exact) THEN <<"volume-ratio", ToString(<<e.bas.ratio, e.der.ratio>>)>>
       ELSE <<>>

TInit == l = 1 /\ st = 0 /\ TLCSet(1, 0) /\ TLCSet(2, 0)
TNext ==
    /\ l <= NLines
    /\ LET e == TraceLog[l]
           bad == IF e.ev = "Derive" THEN ApplyDerive(e) ELSE IF e.ev = "Point" THEN ApplyPoint(e) ELSE <<"unknown-event", e.ev>>
       IN IF bad = <<>> THEN TRUE
          ELSE PrintT(<<"REJECT", e.tid, l, bad[1], bad[2]>>) /\ TLCSet(2, TLCGet(2) + 1)
    /\ l' = l + 1 /\ st' = st
    /\ TLCSet(1, l)
=============================================================================
