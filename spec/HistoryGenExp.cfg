SPECIFICATION GenSpec
CONSTANTS
  Models = {"sphere", "sphere@hardsphere"}
  Focus = "exp"
  WModels = {"sphere"}
  QSets = {"q1", "qxy"}
  Requests = {"mono", "pd", "pd2", "empty"}
  Slots = {"k1"}
  Wrappers = {"w1"}
  MaxOps = 36
  EmptyReq = "empty"
  ModeReq = "mode"
  Variant = "fixed"
  WithExp = TRUE
  TrackHeld = FALSE
  ReturnsView = FALSE
INVARIANT Emit
CHECK_DEADLOCK FALSE
