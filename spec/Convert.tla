------------------------------ MODULE Convert ------------------------------
(***************************************************************************)
(* C20, design level: the conversion pipeline of convert_model as a state  *)
(* machine over the conversion tables and the parameter tables of the      *)
(* current models (both exported from the working tree at check time and   *)
(* read by ConvertCore), with symbolic values.                             *)
(*                                                                         *)
(* One behaviour per scenario.  A scenario is an entry of a conversion     *)
(* table (old model name), a parameter set old SasView could have saved    *)
(* for it, the use_underscore flag and the model_version of the saved set. *)
(* Sets are built from the entry's old names only:                         *)
(*   - the value and the fit limits (.lower .upper) of any old name,       *)
(*   - dispersity attributes (.width .npts .nsigmas .type) only where the  *)
(*     table's target is dispersible in the current model,                 *)
(*   - vector parameters by element (expanded translation),                *)
(*   - plain scale / background when the table does not name them,         *)
(*   - the inputs of the model-specific hand conversions (HandInputs).     *)
(* Rows the table-level check reports (TableDefects) are left out of the   *)
(* sets: they are decided there.                                           *)
(*                                                                         *)
(* Actions, in the order of convert.py: Target, HandConvert, Rename,       *)
(* RescaleSld, (Magnetic), Defaults, Underscore, once per table version.   *)
(* Invariants are the postconditions of the property, stated per name      *)
(* through the relation FinalOfRow, not through the pipeline's operators.  *)
(***************************************************************************)
EXTENDS ConvertCore

CONSTANTS ModelVersions,     \* set of <<a, b, c>>
          Underscores,       \* subset of BOOLEAN
          ClassSet           \* subset of {"empty","single","singleAttrs","values","all","full"}

\* model_version tuples of saved sets (cfg files cannot write tuples: ModelVersions <- MV...)
MVAll == {<<3, 1, 2>>, <<4, 1, 0>>, <<4, 2, 0>>, <<5, 0, 4>>, <<5, 1, 0>>}
MVQuick == {<<3, 1, 2>>, <<5, 0, 4>>, <<5, 1, 0>>}

VARIABLES sc, pc, vi, cur, name, pars, hits
vars == <<sc, pc, vi, cur, name, pars, hits>>

---------------------------------------------------------------------------
(* scenarios *)
SoundRowSeq(i) ==
    SelectSeq([j \in 1..Len(RowsOf[i]) |-> j],
              LAMBDA j : ~RowsOf[i][j].oldnone /\ RowsOf[i][j].old \notin DefectiveOldOf[i])
RowDotsFor(i, j) ==
    LET f == FinalOf[i][j]
        pd == f.base # "" /\ f.model # "" /\ f.base \in PdIdsOf[f.model]
    IN LimDots \cup (IF pd THEN PdDots ELSE {})
Item(i, j, d) == [key |-> RowsOf[i][j].old \o d, dot |-> d, row |-> j]
PlainItem(n) == [key |-> n, dot |-> "", row |-> 0]
\* scale / background under their own name when the table does not map them
PlainNames(i) == {n \in {"scale", "background"} : ~HasNew(RowsOf[i], n)
                                                  /\ \A j \in 1..Len(RowsOf[i]) : RowsOf[i][j].old # n}
ValueItems(i) == {Item(i, j, "") : j \in SeqSet(SoundRowSeq(i))}
AttrItems(i, j) == {Item(i, j, d) : d \in RowDotsFor(i, j)}
AllAttrItems(i) == UNION {AttrItems(i, j) : j \in SeqSet(SoundRowSeq(i))}
ExtraItems(i) == {PlainItem(n) : n \in PlainNames(i) \cup HandInputs(Entries[i].new)}
\* the parameter sets of entry i, as a sequence of [eid, cls, items]
BaseSeqOf(i) ==
    LET S(cls, items) == [eid |-> i, cls |-> cls, items |-> Force(items)]
        SR == SoundRowSeq(i)
        One(cls, set) == IF cls \in ClassSet THEN <<S(cls, set)>> ELSE <<>>
    IN  One("empty", {})
        \o (IF "single" \in ClassSet
            THEN [k \in 1..Len(SR) |-> S("single", {Item(i, SR[k], "")})] ELSE <<>>)
        \o (IF "singleAttrs" \in ClassSet
            THEN [k \in 1..Len(SR) |-> S("singleAttrs", {Item(i, SR[k], "")} \cup AttrItems(i, SR[k]))]
            ELSE <<>>)
        \o One("values", ValueItems(i))
        \o One("all", ValueItems(i) \cup AllAttrItems(i))
        \o One("full", ValueItems(i) \cup AllAttrItems(i) \cup ExtraItems(i))
        \o (IF "full" \in ClassSet /\ ExtraItems(i) # {}
            THEN <<S("valuesExtra", ValueItems(i) \cup ExtraItems(i))>> ELSE <<>>)
RECURSIVE Flatten(_)
Flatten(i) == IF i > NE THEN <<>>
              ELSE (IF EntryModel[i] = "" THEN <<>> ELSE BaseSeqOf(i)) \o Flatten(i + 1)
BaseSeqDef == Table(Flatten(1))
BaseSeq == TLCGet(40)            \* memo register, see ConvertCore
ASSUME TLCSet(40, BaseSeqDef)
NBase == Len(BaseSeq)
\* a scenario: index into BaseSeq, use_underscore, model_version
Scenarios == {[b |-> b, us |-> u, mv |-> m] : b \in 1..NBase, u \in Underscores, m \in ModelVersions}
ScEntry(s) == BaseSeq[s.b].eid
ScItems(s) == BaseSeq[s.b].items

\* export for the replay on the implementation (and of the table-level verdicts)
ExportValue ==
    [base |-> [k \in 1..NBase |->
                 LET b == BaseSeq[k] IN
                 [eid |-> b.eid, cls |-> b.cls, name |-> Entries[b.eid].old,
                  model |-> Entries[b.eid].new, version |-> VText(Entries[b.eid].version),
                  items |-> {[key |-> it.key, dot |-> it.dot] : it \in b.items}]],
     us |-> Underscores, mv |-> ModelVersions, defects |-> TableDefects]
ASSUME IF "C20_SCEN" \in DOMAIN IOEnv /\ IOEnv.C20_SCEN # ""
       THEN JsonSerialize(IOEnv.C20_SCEN, ExportValue) ELSE TRUE
ASSUME \A d \in TableDefects : PrintT(<<"TABLE-DEFECT", ToJson(d)>>)
ASSUME PrintT(<<"SCENARIOS", NBase, Cardinality(Scenarios)>>)

---------------------------------------------------------------------------
P0(s) == [k \in {it.key : it \in ScItems(s)} |-> Sym(k)]

Init == /\ sc \in Scenarios
        /\ pc = "Target" /\ vi = 1 /\ cur = 0 /\ hits = <<>>
        /\ name = Entries[ScEntry(sc)].old
        /\ pars = P0(sc)

Target ==
    /\ pc = "Target"
    /\ IF vi > NV
       THEN pc' = "Done" /\ UNCHANGED <<vi, cur, hits>>
       ELSE LET i == TargetAt(name, sc.mv, vi) IN
            IF i = 0 \/ EntryModel[i] = ""
            THEN vi' = vi + 1 /\ UNCHANGED <<pc, cur, hits>>
            ELSE pc' = Stages[1] /\ cur' = i /\ hits' = Append(hits, i) /\ vi' = vi
    /\ UNCHANGED <<sc, name, pars>>

StageK(k) ==
    /\ pc = Stages[k]
    /\ pars' = Stage(Stages[k], pars, cur, vi, sc.us, TRUE)
    /\ IF k < Len(Stages)
       THEN pc' = Stages[k + 1] /\ UNCHANGED <<vi, name>>
       ELSE pc' = "Target" /\ vi' = vi + 1 /\ name' = ReturnedName(cur)
    /\ UNCHANGED <<sc, cur, hits>>
\* named after the steps of convert.py
HandConvert == \E k \in 1..Len(Stages) : Stages[k] = "HandConvert" /\ StageK(k)
Rename == \E k \in 1..Len(Stages) : Stages[k] = "Rename" /\ StageK(k)
RescaleSldStep == \E k \in 1..Len(Stages) : Stages[k] = "RescaleSld" /\ StageK(k)
MagneticStep == \E k \in 1..Len(Stages) : Stages[k] = "Magnetic" /\ StageK(k)
DefaultsStep == \E k \in 1..Len(Stages) : Stages[k] = "Defaults" /\ StageK(k)
UnderscoreStep == \E k \in 1..Len(Stages) : Stages[k] = "Underscore" /\ StageK(k)

Next == Target \/ HandConvert \/ Rename \/ RescaleSldStep \/ MagneticStep \/ DefaultsStep
        \/ UnderscoreStep
Spec == Init /\ [][Next]_vars

---------------------------------------------------------------------------
(* postconditions (checked when the conversion has finished) *)
Done == pc = "Done"
Applied == hits # <<>>
I0 == hits[1]
Vi0 == VIdxOf[I0]
M0 == EntryModel[I0]
H0 == IF Versions[Vi0] = V312 THEN HandModel(Entries[I0].new, P0(sc)) ELSE P0(sc)

Report(cls, nm) ==
    PrintT(<<"DESIGN-DEFECT", ToJson([class |-> cls, version |-> VText(Entries[ScEntry(sc)].version),
                                      model |-> Entries[ScEntry(sc)].new, name |-> nm,
                                      cls |-> BaseSeq[sc.b].cls, us |-> sc.us, mv |-> VText(sc.mv)])>>)
Holds(cls, Bad) == Bad = {} \/ (Report(cls, CHOOSE x \in Bad : TRUE) /\ FALSE)

TypeOK == /\ pc \in SeqSet(Stages) \cup {"Target", "Done"}
          /\ vi \in 1..(NV + 1)
          /\ \A k \in DOMAIN pars : pars[k].t \in {"sym", "f", "opaque"}

\* a set saved by a version newer than every table is returned as it came
Identity == Done /\ ~Applied => name = Entries[ScEntry(sc)].old /\ pars = P0(sc)

NameOfCurrentModel == Done /\ Applied => Holds("NameOfCurrentModel", {name} \ Current)

AllNamesExist ==
    Done /\ Applied /\ name \in ModelNames =>
        Holds("AllNamesExist", DOMAIN pars \ LegalKeysOf[name][sc.us])

\* where the table sends an item, and what value arrives there (h0 = H0, passed so that it is
\* evaluated once per state)
DeclKey(it) ==
    LET f == IF it.row = 0 THEN ChainBase(it.key, I0, Vi0) ELSE FinalOf[I0][it.row]
    IN IF f.base = "" THEN "" ELSE f.base \o (IF sc.us THEN UnderOf(it.dot) ELSE it.dot)
DeclVal(it, h0) ==
    LET mid == IF it.row = 0 THEN it.key ELSE RowsOf[I0][it.row].new
    IN IF Rescales(Vi0, M0) /\ it.dot = "" /\ mid \in ScaledKeys(M0)
       THEN MulV(h0[it.key], "1000000.0") ELSE h0[it.key]
Constrained(h0) == {it \in ScItems(sc) : it.key \in DOMAIN h0 /\ h0[it.key].t # "opaque"}
\* [item key |-> declared final key] for the constrained items
DeclMap(h0) == Table([k \in {it.key : it \in Constrained(h0)} |->
                        DeclKey(CHOOSE it \in ScItems(sc) : it.key = k)])
ValuesCarried ==
    Done /\ Applied =>
        LET h0 == Table(H0)
            C == Constrained(h0)
        IN Holds("ValuesCarried",
              {it.key : it \in {x \in C :
                    LET dk == DeclKey(x) IN
                    dk # "" /\ ~(dk \in DOMAIN pars /\ ValEq(pars[dk], DeclVal(x, h0)))}})
\* two old keys never arrive at the same place
NoCollision ==
    Done /\ Applied =>
        LET dm == DeclMap(Table(H0))
            keys == {k \in DOMAIN dm : dm[k] # ""}
        IN Holds("NoCollision", {k \in keys : \E k2 \in keys : k2 # k /\ dm[k2] = dm[k]})

DefaultsHold ==
    Done /\ Applied =>
        LET h0 == Table(H0)
            dk == {DeclKey(it) : it \in ScItems(sc)}
        IN Holds("Defaults",
              {n \in {"scale", "background"} :
                  \/ n \notin DOMAIN pars
                  \/ /\ n \notin DOMAIN h0
                     /\ n \notin dk
                     /\ ~ValEq(pars[n], NumV(IF n = "scale" THEN "1.0" ELSE "0.0"))})
=============================================================================
