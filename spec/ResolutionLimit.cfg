\* stated bound K = 5/4 (5 x the sharp constant 1/4 of the normalised membership rule)
SPECIFICATION Spec
CONSTANTS
  QSet = {17, 18, 19, 20, 21, 22, 23, 24}
  WSet = {4, 6, 8, 11, 12, 16}
  H0 = 8
  KMax = 3
  KNum = 5
  KDen = 4
  Normalise = TRUE
  Export = TRUE
INVARIANT ErrBound
PROPERTY BoundHalves
CHECK_DEADLOCK FALSE
