---------------------------- MODULE SesansCore ----------------------------
(***************************************************************************)
(* C19 - constant-level laws of the SESANS transform, shared by Sesans     *)
(* (design level) and SesansTrace (trace validation over IEEE doubles).    *)
(*                                                                         *)
(*   P(xi) = G(xi) - G(0),                                                 *)
(*   G(xi) = (1/2pi) Int J0(q xi) I(q) q dq   over the accepted q,         *)
(*   G(0)  = (1/2pi) Int I(q) q dq            over the calculated q range. *)
(*                                                                         *)
(* A double is a decimal string (module IEEE).  A Gaussian component is a  *)
(* record [a, s]:  I(q) = a exp(-q^2 s^2 / 2); a mixture is a sequence of  *)
(* components.                                                             *)
(***************************************************************************)
EXTENDS Naturals, Sequences, IEEE

Zero == "0.0"
One == "1.0"
Two == "2.0"
TwoPi == FMul(Two, FPi)
HalfPi == FDiv(FPi, Two)
Sq(x) == FMul(x, x)

(***************************************************************************)
(* Tolerances (all justified here, none in the harness).                   *)
(*                                                                         *)
(* Tol: the stated quadrature accuracy.  The transform integrates on a     *)
(*   geometric q grid of ratio log_spacing = 1.0003 with a one-sided rule, *)
(*   i.e. relative accuracy log_spacing - 1 = 3e-4 (measured bias on the   *)
(*   unchanged tree: 1.5e-4 .. 2.0e-4 for every in-range Gaussian, 3.5e-4  *)
(*   just outside the range).  5e-4 = stated accuracy with margin; every   *)
(*   behavioural change (lost 1/2pi, lost G(0), wrong weights, wrong J0    *)
(*   argument, inverted mask) moves the value by O(1) relative.            *)
(* CancelTol: P is formed as the difference of two sums of magnitude G(0); *)
(*   for xi << s the result is ~ (xi/s)^2 G(0) and inherits the rounding   *)
(*   of the sums (observed 3e-15 G(0) with 7e4 terms).  1e-12 G(0).        *)
(* LinTol: linearity is exact up to the same rounding; 1e-12 relative to   *)
(*   the operands and to the G(0) of the inputs.                           *)
(* SingleTol: the 10 % that the repository's own test asserts              *)
(*   (direct_model.test_simple_interface).                                 *)
(* KernelTol: matrix elements; FJ0 of IEEE.java is good to 1e-8 absolute,  *)
(*   scipy's j0 to 1e-16; 1e-7 of the weight.                              *)
(***************************************************************************)
Tol == "5e-4"
CancelTol == "1e-12"
LinTol == "1e-12"
SingleTol == "0.1"
KernelTol == "1e-7"

\* ------------------------------------------------------------ Gaussian Hankel pairs
\* I(q) of a mixture (used to validate the harness' input vectors, not the code)
RECURSIVE GaussI(_, _, _)
GaussI(q, cs, m) ==
    IF m = 0 THEN Zero
    ELSE FAdd(GaussI(q, cs, m - 1),
              FMul(cs[m].a, FExp(FNeg(FDiv(FMul(Sq(q), Sq(cs[m].s)), Two)))))

\* G(0) of one component: a / (2 pi s^2)
G0One(c) == FDiv(c.a, FMul(TwoPi, Sq(c.s)))
\* G(xi) - G(0) of one component: a (exp(-xi^2 / 2 s^2) - 1) / (2 pi s^2)
FullOne(xi, c) == FMul(G0One(c), FSub(FExp(FNeg(FDiv(Sq(xi), FMul(Two, Sq(c.s))))), One))

\* sum over the components of a mixture of one of the per-component terms
Term(kind, xi, c) == CASE kind = "full" -> FullOne(xi, c)
                       [] kind = "g0" -> G0One(c)
                       [] kind = "absfull" -> FAbs(FullOne(xi, c))
                       [] OTHER -> FAbs(G0One(c))
RECURSIVE SumOver(_, _, _, _)
SumOver(kind, xi, cs, m) == IF m = 0 THEN Zero ELSE FAdd(SumOver(kind, xi, cs, m - 1), Term(kind, xi, cs[m]))

\* full acceptance:       G(xi) - G(0) = sum_m a_m (exp(-xi^2/2 s_m^2) - 1) / (2 pi s_m^2)
ClosedFull(xi, cs) == SumOver("full", xi, cs, Len(cs))
\* vanishing acceptance:  -G(0)        = - sum_m a_m / (2 pi s_m^2)
ClosedZero(cs) == FNeg(SumOver("g0", Zero, cs, Len(cs)))
\* magnitudes for the error budget (sound for mixed signs: each component is within Tol)
AbsFull(xi, cs) == SumOver("absfull", xi, cs, Len(cs))
AbsG0(cs) == SumOver("absg0", Zero, cs, Len(cs))
AllNonNeg(cs) == \A m \in 1..Len(cs) : FLeq(Zero, cs[m].a)

\* guinier model: I(q) = scale exp(-q^2 rg^2 / 3) = scale exp(-q^2 s^2 / 2),  s = rg sqrt(2/3)
SOfRg(rg) == FMul(FAbs(rg), FSqrt(FDiv(Two, "3.0")))

\* ------------------------------------------------------------ acceptance
(* The acceptance is an angle theta_acc in [0, pi/2]; sinacc = sin(theta_acc).          *)
(* (q, lambda) is accepted iff the scattering angle theta = asin(q lambda / 2 pi)      *)
(* exists and theta <= theta_acc, i.e. iff  q lambda / 2 pi <= sinacc.                 *)
(* "full": sinacc = 1 (every reachable q);  "zero": sinacc = 0 (nothing).              *)
SinAccOfClass(cls) == IF cls = "full" THEN One ELSE Zero
SinAccOfTheta(th) == IF FLeq(HalfPi, th) THEN One ELSE IF FLeq(th, Zero) THEN Zero ELSE FSin(th)
SinTheta(q, lam) == FDiv(FMul(q, lam), TwoPi)
Accepted(q, lam, sinacc) == FLeq(SinTheta(q, lam), sinacc)
\* too close to the edge to call in floating point
EdgeCase(q, lam, sinacc) == FNear(SinTheta(q, lam), sinacc, "1e-9", "0.0")
\* largest accepted q for wavelength lam (0 when nothing is accepted)
QAcc(lam, sinacc) == FDiv(FMul(TwoPi, sinacc), lam)
QTop(qhi, lam, sinacc) == FMin(qhi, QAcc(lam, sinacc))

\* ------------------------------------------------------------ preconditions
(* "1/s lies well inside the calculated q range": a decade from either end of the     *)
(* accepted part of the range.  The vanishing-acceptance clause needs two decades at  *)
(* the low end: its low-q truncation error (q_min s)^2/2 does not cancel between      *)
(* G(xi) and G(0).                                                                     *)
InvS(c) == FDiv(One, c.s)
InRangeFull(cs, qlo, qtop) ==
    \A m \in 1..Len(cs) : /\ FLeq(FMul("10.0", qlo), InvS(cs[m]))
                          /\ FLeq(InvS(cs[m]), FDiv(qtop, "10.0"))
InRangeZero(cs, qlo, qhi) ==
    \A m \in 1..Len(cs) : /\ FLeq(FMul("100.0", qlo), InvS(cs[m]))
                          /\ FLeq(InvS(cs[m]), FDiv(qhi, "10.0"))
(* SinglePoint compares two quadratures of the same integral at 10 %: a factor 3 / 4  *)
(* from the ends bounds the truncation errors by (q_min s)^4/8 <= 2e-3 and            *)
(* exp(-(q_max s)^2/2) <= 4e-4 of G(0) (measured: <= 2e-3 in every such case).         *)
WeakRange(cs, qlo, qtop) ==
    \A m \in 1..Len(cs) : /\ FLeq(FMul("3.0", qlo), InvS(cs[m]))
                          /\ FLeq(InvS(cs[m]), FDiv(qtop, "4.0"))

\* ------------------------------------------------------------ q_calc
Positive(v) == FVecAllGeq(v, "4.9e-324")          \* every element > 0 (and not NaN)
StrictlyIncreasing(v) == FVecIncreasing(v)

\* ------------------------------------------------------------ comparisons
Within(got, want, rtolScale, atolScale) ==
    /\ FIsFinite(got)
    /\ FLeq(FAbs(FSub(got, want)), FAdd(FMul(Tol, rtolScale), FMul(CancelTol, atolScale)))

\* matrix element of the transform for a unit impulse at q: (Accepted J0(q xi) - 1) w, where
\* -w is the response of the same grid with vanishing acceptance (so the law does not depend
\* on the quadrature weights)
KernelExpected(q, xi, lam, sinacc, z) ==
    IF Accepted(q, lam, sinacc) THEN FMul(FSub(One, FJ0(FMul(q, xi))), z) ELSE z
=============================================================================
