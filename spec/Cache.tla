------------------------------- MODULE Cache -------------------------------
(***************************************************************************)
(* The compiled-model cache of sasmodels and the in-process caches in      *)
(* front of it.                                                            *)
(*                                                                         *)
(* Files: "py" (plugin definition), "inc" (C file named in its `source`),  *)
(* "tmpl" (kernel template).  Each has a text version and an mtime.        *)
(*                                                                         *)
(*   Edit(f, v)      the user saves version v of f; mtime := clock++       *)
(*   Load(p, b)      core.load_model(path, dtype=b) in process p:          *)
(*       custom.need_reload / load_custom_kernel_module  (module cache,    *)
(*           keyed by path, refreshed when a dependency is newer than the  *)
(*           cached timestamp)                                             *)
(*       generate.make_source: included C read fresh, templates through    *)
(*           generate._template_cache (refreshed when mtime is newer)      *)
(*       kerneldll.make_dll: library name = <bits>_<id>_<hash of source>,  *)
(*           compiled iff absent                                           *)
(*   NewProcess(p)   a fresh interpreter: in-process caches are empty      *)
(*                                                                         *)
(* A definition file is more than generated C: the wrapper a Load returns  *)
(* also carries the parameter table (defaults, limits) of the module it    *)
(* was made from.  Versions 1 and 2 of "py" differ only in a default, so   *)
(* they generate the same C (PyC) and share a library; what the load       *)
(* evaluates is the pair (library, table) = last[p].src / last[p].info.    *)
(* Variant "wrapperMemo" (a failing control) keeps the wrapper per library *)
(* in the process and so hands out a stale table.                          *)
(*                                                                         *)
(* LoadSv(p): the SasView route, sasview_model.load_custom_model + first    *)
(* evaluation.  It shares the module cache with Load, keeps a registry of   *)
(* model classes that is replaced only when the module object changed, and  *)
(* a class keeps the kernel it compiled at its first evaluation.  As        *)
(* written (SvMode = "asWritten") a template edit alone does not change the *)
(* module, so the class - and its kernel - is reused: Coherent is violated  *)
(* (Cache_sv.cfg must fail; known finding).  SvMode = "ideal" rebuilds on   *)
(* every load and satisfies Coherent.                                       *)
(*                                                                         *)
(* The hash is modelled as injective in the generated source (CRC          *)
(* collisions are outside the property).  Variant selects the current      *)
(* design ("ok") or one of several deliberately wrong designs used as      *)
(* vacuity controls.                                                       *)
(***************************************************************************)
EXTENDS Naturals, FiniteSets, Sequences, TLC

CONSTANTS Procs, Versions, Bits, MaxSteps,
          WithSv,   \* the SasView load route takes part
          SvMode,   \* "asWritten" | "ideal"
          Stamps,   \* "now": an edit is stamped with the clock | "any": with any time later than every source time so far
                    \* (a file restored with its times preserved, a share whose clock runs behind, or ahead)
          Variant   \* "ok" | "keyIgnoresInc" | "keyIgnoresBits" | "tmplNeverRefreshed" | "wrapperMemo" | "stampNow" (failing controls) | "noDepends" (equivalent: included C is read fresh)

Files == {"py", "inc", "tmpl"}

VARIABLES text,     \* [Files -> Versions]
          mtime,    \* [Files -> Nat]
          clock,
          dll,      \* set of [bits, id] on disk, where id is the hashed content
          means,    \* [dll -> content triple]  what each library on disk computes
          modc,     \* [Procs -> [v, ts] | "none"]  module cache (snapshot of py text, timestamp)
          tmplc,    \* [Procs -> [v, mt] | "none"]  template cache
          last,     \* [Procs -> "none" | [src, bits, info]]  what the last Load of p evaluates: library and table
          svc,      \* [Procs -> [seen, built]]  SasView route: module last seen by load_custom_model, and what the
                    \* registered class evaluates (its kernel is compiled once) or NoLast
          wrapc,    \* [Procs -> set of [k, info]]  wrappers kept per library (variant wrapperMemo only)
          just,     \* "none" | [p, b]: the step just taken was Load(p, b)
          steps
vars == <<text, mtime, clock, dll, means, modc, tmplc, last, svc, wrapc, just, steps>>

\* sentinels ("nothing cached"): version 0 does not exist
NoMod == [v |-> 0, ts |-> 0]
NoTmpl == [v |-> 0, mt |-> 0]
NoLast == [src |-> [py |-> 0, inc |-> 0, tmpl |-> 0], bits |-> 0, info |-> 0]
NoJust == [p |-> "none", b |-> 0]
NoSv == [seen |-> NoMod, built |-> NoLast]
Triple(py, inc, tmpl) == [py |-> py, inc |-> inc, tmpl |-> tmpl]
\* the C generated from version v of the definition: 1 and 2 differ only in a parameter default
PyC(v) == IF v = 2 THEN 1 ELSE v
Current == Triple(text["py"], text["inc"], text["tmpl"])
CurrentSrc == Triple(PyC(text["py"]), text["inc"], text["tmpl"])
Max(a, b) == IF a >= b THEN a ELSE b

Init ==
    /\ text = [f \in Files |-> 1]
    /\ mtime = [f \in Files |-> 0]
    /\ clock = 1
    /\ dll = {}
    /\ means = <<>>
    /\ modc = [p \in Procs |-> NoMod]
    /\ tmplc = [p \in Procs |-> NoTmpl]
    /\ last = [p \in Procs |-> NoLast]
    /\ wrapc = [p \in Procs |-> {}]
    /\ svc = [p \in Procs |-> NoSv]
    /\ just = NoJust
    /\ steps = 0

EditAt(f, v, t) ==
    /\ steps < MaxSteps
    /\ v # text[f]
    /\ text' = [text EXCEPT ![f] = v]
    /\ mtime' = [mtime EXCEPT ![f] = t]
    /\ clock' = Max(clock, t) + 1
    /\ steps' = steps + 1
    /\ just' = NoJust
    /\ UNCHANGED <<dll, means, modc, tmplc, last, wrapc, svc>>
Edit(f, v) == EditAt(f, v, clock)
\* times an edit may carry when Stamps = "any": later than every source time so far (a file restored with a time
\* older than a dependency's is outside the model), up to one tick ahead of the clock
NewestSource == Max(mtime["py"], Max(mtime["inc"], mtime["tmpl"]))
StampTimes == (NewestSource + 1)..(clock + 1)

\* custom.need_reload: any dependency newer than the cached timestamp
NeedReload(p) ==
    \/ modc[p] = NoMod
    \/ modc[p].ts < mtime["py"]
    \/ (Variant # "noDepends" /\ modc[p].ts < mtime["inc"])
ModAfter(p) == IF NeedReload(p)
               THEN [v |-> text["py"], ts |-> IF Variant = "stampNow" THEN clock ELSE Max(mtime["py"], mtime["inc"])]
               ELSE modc[p]
\* generate.load_template
TmplAfter(p) == IF tmplc[p] = NoTmpl \/ (Variant # "tmplNeverRefreshed" /\ mtime["tmpl"] > tmplc[p].mt)
                THEN [v |-> text["tmpl"], mt |-> mtime["tmpl"]]
                ELSE tmplc[p]
\* the generated source and the library key derived from it
SourceOf(p) == Triple(PyC(ModAfter(p).v), text["inc"], TmplAfter(p).v)
KeyOf(src, b) == [bits |-> IF Variant = "keyIgnoresBits" THEN 0 ELSE b,
                  id |-> IF Variant = "keyIgnoresInc" THEN [src EXCEPT !.inc = 0] ELSE src]

Load(p, b) ==
    /\ steps < MaxSteps
    /\ LET src == SourceOf(p)
           k == KeyOf(src, b)
       IN /\ modc' = [modc EXCEPT ![p] = ModAfter(p)]
          /\ tmplc' = [tmplc EXCEPT ![p] = TmplAfter(p)]
          /\ IF k \in dll
             THEN UNCHANGED <<dll, means>>              \* cache hit: whatever is on disk is used
             ELSE /\ dll' = dll \cup {k}
                  /\ means' = [x \in DOMAIN means \cup {k} |-> IF x = k THEN [src |-> src, bits |-> b] ELSE means[x]]
          /\ LET lib == IF k \in dll THEN means[k] ELSE [src |-> src, bits |-> b]
                 memo == {x \in wrapc[p] : x.k = k}
                 info == IF Variant = "wrapperMemo" /\ memo # {} THEN (CHOOSE x \in memo : TRUE).info ELSE ModAfter(p).v
             IN /\ last' = [last EXCEPT ![p] = [src |-> lib.src, bits |-> lib.bits, info |-> info]]
                /\ wrapc' = IF Variant = "wrapperMemo" /\ memo = {} THEN [wrapc EXCEPT ![p] = @ \cup {[k |-> k, info |-> info]}]
                            ELSE wrapc
    /\ just' = [p |-> p, b |-> b]
    /\ steps' = steps + 1
    \* (in the failing control stampNow the module is stamped with the time of the load, and time moves on afterwards)
    /\ clock' = IF Variant = "stampNow" THEN clock + 1 ELSE clock
    /\ UNCHANGED <<text, mtime, svc>>

\* sasview_model.load_custom_model(path)() evaluated once (double precision)
LoadSv(p) ==
    /\ WithSv /\ steps < MaxSteps
    /\ LET mod == ModAfter(p)
           reloaded == svc[p].seen # mod
           kept == IF reloaded \/ SvMode = "ideal" THEN NoLast ELSE svc[p].built
           src == SourceOf(p)
           k == KeyOf(src, 64)
           lib == IF k \in dll THEN means[k] ELSE [src |-> src, bits |-> 64]
           res == IF kept = NoLast THEN [src |-> lib.src, bits |-> lib.bits, info |-> mod.v] ELSE kept
       IN /\ modc' = [modc EXCEPT ![p] = mod]
          /\ IF kept = NoLast
             THEN /\ tmplc' = [tmplc EXCEPT ![p] = TmplAfter(p)]
                  /\ IF k \in dll THEN UNCHANGED <<dll, means>>
                     ELSE /\ dll' = dll \cup {k}
                          /\ means' = [x \in DOMAIN means \cup {k} |-> IF x = k THEN [src |-> src, bits |-> 64] ELSE means[x]]
             ELSE UNCHANGED <<tmplc, dll, means>>
          /\ svc' = [svc EXCEPT ![p] = [seen |-> mod, built |-> res]]
          /\ last' = [last EXCEPT ![p] = res]
    /\ just' = [p |-> p, b |-> 64]
    /\ steps' = steps + 1
    /\ UNCHANGED <<text, mtime, clock, wrapc>>

NewProcess(p) ==
    /\ steps < MaxSteps
    /\ modc[p] # NoMod
    /\ modc' = [modc EXCEPT ![p] = NoMod]
    /\ tmplc' = [tmplc EXCEPT ![p] = NoTmpl]
    /\ last' = [last EXCEPT ![p] = NoLast]
    /\ wrapc' = [wrapc EXCEPT ![p] = {}]
    /\ svc' = [svc EXCEPT ![p] = NoSv]
    /\ just' = NoJust
    /\ steps' = steps + 1
    /\ UNCHANGED <<text, mtime, clock, dll, means>>

Next == \/ \E f \in Files, v \in Versions : Edit(f, v)
        \/ (Stamps = "any" /\ \E f \in Files, v \in Versions, t \in StampTimes : EditAt(f, v, t))
        \/ \E p \in Procs, b \in Bits : Load(p, b)
        \/ \E p \in Procs : NewProcess(p)
        \/ \E p \in Procs : LoadSv(p)
Spec == Init /\ [][Next]_vars

\* ---- properties (C17)
\* the next load evaluates the current sources at the requested precision
Coherent == just # NoJust => last[just.p] = [src |-> CurrentSrc, bits |-> just.b, info |-> text["py"]]
\* two different generated sources or precisions never share a library
NoSharing == \A k \in dll : KeyOf(means[k].src, means[k].bits) = k
                            /\ \A k2 \in dll : (means[k] = means[k2]) => k = k2
\* restoring an earlier version restores the earlier results: implied by Coherent (results
\* are a function of the current texts); stated separately for the trace specification
TypeOK == /\ clock \in Nat /\ steps \in 0..MaxSteps
=============================================================================
