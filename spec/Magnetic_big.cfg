SPECIFICATION Spec
CONSTANTS
  NTriples = 10
INVARIANT WeightsNonNegative
INVARIANT WeightsSum
INVARIANT NormPositive
INVARIANT Unpolarised
INVARIANT FrameOrthonormal
INVARIANT MperpOrthogonal
CHECK_DEADLOCK FALSE
