INIT TInit
NEXT TNext
CONSTANTS
  Procs = {"p1", "p2"}
  Versions = {1, 2, 3}
  Bits = {32, 64, 128}
  MaxSteps = 1000
  Variant = "ok"
  WithSv = TRUE
  Stamps = "now"
  SvMode = "asWritten"
POSTCONDITION TraceDone
CHECK_DEADLOCK FALSE
