SPECIFICATION Spec
CONSTANTS
  MaxParts = 3
  Vals = {0, 1, 2}
  Variant = "asWritten"
  SliceVariant = "ok"
INVARIANT Law
INVARIANT RoutingHolds
CHECK_DEADLOCK FALSE
