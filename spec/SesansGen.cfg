\* export of the replay lattice (Export = TRUE); the state space is kept minimal
SPECIFICATION Spec
CONSTANTS
  MaxXi = 2
  MaxN = 1
  R = 2
  LamA = 1
  LamB = 4
  MidDen = 8
  Variant = "asDesigned"
  Export = TRUE
INVARIANT TypeOK
INVARIANT NonEmpty
INVARIANT PositiveQ
INVARIANT StrictlyIncreasingQ
INVARIANT Covers
INVARIANT WeightsPositive
INVARIANT MaskUpClosed
INVARIANT FullAcceptsReachable
INVARIANT ZeroMasksAll
INVARIANT Linear
INVARIANT ZeroIsMinusG0
INVARIANT NonPositive
INVARIANT Bounded
CHECK_DEADLOCK FALSE
