INIT TInit
NEXT TNext
CONSTANTS
  Models = {"sphere", "cylinder", "broad_peak", "sphere@hardsphere", "sphere+cylinder", "vscalar"}
  QSets = {"q1", "q2", "qxy"}
  Requests = {"mono", "pd", "pdn", "arr", "pdc", "pd2", "empty", "mode", "mag"}
  Slots = {"k1", "k2", "k3"}
  Wrappers = {"w1", "w2"}
  MaxOps = 100000
  EmptyReq = "empty"
  ModeReq = "mode"
  Variant = "fixed"
  WithExp = TRUE
  TrackHeld = FALSE
  ReturnsView = FALSE
POSTCONDITION TraceDone
CHECK_DEADLOCK FALSE
