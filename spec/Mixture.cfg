SPECIFICATION Spec
CONSTANTS
  MaxParts = 3
  Vals = {0, 1, 2}
  Variant = "fixed"
  SliceVariant = "ok"
INVARIANT Law
INVARIANT RoutingHolds
CHECK_DEADLOCK FALSE
