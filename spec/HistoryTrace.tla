---------------------------- MODULE HistoryTrace ----------------------------
(***************************************************************************)
(* Trace validation for History.  The uninterpreted function Pure(m, q, r) *)
(* of the specification is interpreted by Oracle events: the value the     *)
(* same request returns when it is the first thing a fresh interpreter     *)
(* does.  Every Op event of a long-lived process must be an enabled        *)
(* History action, return exactly the oracle's value (lists of shortest    *)
(* round-trip decimal strings, so equality is bit identity) and leave the  *)
(* caller's arguments unchanged.                                           *)
(*   Oracle  key, val                                                      *)
(*   begin   new history (tid)                                             *)
(*   Op      op, s, m, q, r, f, w, w2, key, val, args_changed,             *)
(*           held_changed (steps whose returned arrays changed since)      *)
(***************************************************************************)
EXTENDS TraceBase, History

VARIABLES l, skip, oracle
tvars == <<l, skip, oracle, vars>>

Act(e) == CASE e.op = "make" -> MakeKernel(e.s, e.m, e.q)
            [] e.op = "call" -> Call(e.s, e.r, e.f)
            [] e.op = "direct" -> Direct(e.m, e.q, e.r)
            [] e.op = "reload" -> Reload(e.m)
            [] e.op = "release" -> ReleaseKernel(e.s)
            [] e.op = "relmodel" -> ReleaseModel(e.m)
            [] e.op = "set" -> SetParam(e.w, e.r)
            [] e.op = "eval" -> Eval(e.w, e.q)
            [] e.op = "clone" -> Clone(e.w, e.w2)
            [] e.op = "expset" -> ExpSet(e.m, e.q, e.r)
            [] e.op = "expupdate" -> ExpUpdate(e.m, e.q)
            [] e.op = "exptheory" -> ExpTheory(e.m, e.q)
            [] OTHER -> FALSE

\* the oracle key of what Experiment.theory() must return now, from the specification's own state: the current
\* parameter values unless they were set without update() (then the cached request, if any, may still be used)
ExpKey(m, q) == LET x == exper[<<m, q>>]
                    used == IF x.cache = "none" THEN x.store ELSE x.cache
                IN "ex|" \o m \o "|" \o q \o "|" \o (IF x.dirty THEN used ELSE x.store)

Reject(e, clause, detail) ==
    /\ PrintT(<<"REJECT", e.tid, l, clause, detail>>) /\ TLCSet(2, TLCGet(2) + 1)
    /\ skip' = TRUE /\ UNCHANGED <<vars, oracle>>

ResetH(e) == /\ kern' = [s \in Slots |-> Dead]
             /\ loaded' = [m \in Models |-> FALSE]
             /\ wrap' = [w \in Wrappers |-> [m |-> e.wmodel[w], store |-> "mono"]]
             /\ dm' = [x \in Models \X QSets |-> <<"garbage">>]
             /\ dict' = [r \in Requests |-> TRUE]
             /\ ret' = NoRet /\ held' = NoHeld /\ nops' = 0
             /\ exper' = [x \in Models \X QSets |-> NoExp]

TInit == Init /\ l = 1 /\ skip = FALSE /\ oracle = <<>> /\ TLCSet(1, 0) /\ TLCSet(2, 0)
TNext ==
    /\ l <= NLines
    /\ l' = l + 1
    /\ TLCSet(1, l)
    /\ LET e == TraceLog[l] IN
       IF e.ev = "Oracle" THEN
            /\ oracle' = [k \in DOMAIN oracle \cup {e.key} |-> IF k = e.key THEN e.val ELSE oracle[k]]
            /\ UNCHANGED <<skip, vars>>
       ELSE IF e.ev = "begin" THEN ResetH(e) /\ skip' = FALSE /\ UNCHANGED oracle
       ELSE IF skip THEN UNCHANGED <<skip, oracle, vars>>
       ELSE IF e.ev = "Op" THEN
            IF ~ENABLED Act(e) THEN Reject(e, "harness-op-not-enabled", e.op)
            ELSE IF e.op = "exptheory" /\ ExpKey(e.m, e.q) \notin DOMAIN oracle THEN Reject(e, "harness-no-oracle", ExpKey(e.m, e.q))
            ELSE IF e.op = "exptheory" /\ e.val # oracle[ExpKey(e.m, e.q)] THEN
                 Reject(e, IF exper[<<e.m, e.q>>].dirty THEN "depends-on-history" ELSE "theory-not-current-after-update",
                        ToString(<<ExpKey(e.m, e.q), "fresh", oracle[ExpKey(e.m, e.q)], "got", e.val>>))
            ELSE IF e.key # "" /\ e.key \notin DOMAIN oracle THEN Reject(e, "harness-no-oracle", e.key)
            \* Purity: bit-identical to the same request made first in a fresh process
            ELSE IF e.key # "" /\ e.val # oracle[e.key] THEN Reject(e, "depends-on-history", ToString(<<e.key, "fresh", oracle[e.key], "got", e.val>>))
            \* inputs are not modified
            ELSE IF e.args_changed THEN Reject(e, "arguments-modified", e.key)
            \* HeldStable, observed: every array returned by an earlier step of this history (the process keeps them
            \* all) still reads as it did when it was returned; held_changed lists the steps whose array changed
            ELSE IF e.held_changed # <<>> THEN Reject(e, "returned-array-modified-later", ToString(e.held_changed))
            ELSE Act(e) /\ skip' = FALSE /\ UNCHANGED oracle
       ELSE Reject(e, "unknown-event", e.ev)
=============================================================================
