SPECIFICATION GenSpec
CONSTANTS
  Procs = {"p1", "p2", "p3"}
  MaxCrashes = 1
  Protocol = "atomic"
  SignalDeath = "failure"
  MkdirMode = "idempotent"
  Failures = "cc"
INVARIANT Emit
CHECK_DEADLOCK FALSE
