\* quick tier: 2 parameters over all 8 declared dimensions, every sequence of 3 rescalings
SPECIFICATION ASpec
CONSTANTS
  NPar = 2
  Depth = 3
  Mislabel = FALSE
INVARIANT Composition
INVARIANT Law
CHECK_DEADLOCK FALSE
