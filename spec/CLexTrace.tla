----------------------------- MODULE CLexTrace -----------------------------
(***************************************************************************)
(* C15, code -> specification: validates what generate.convert_type,       *)
(* core.parse_dtype / build_model and the built libraries did.             *)
(*                                                                         *)
(* Events                                                                  *)
(*   Conv    src, o32, o64, o128 : convert_type(src, float32 / float64 /   *)
(*           long double) on a whole fragment ([e32]: the rewrite printed  *)
(*           by the design-level run for this string)                      *)
(*   Heads   first line of each converted builtin source and the line       *)
(*           counts of the four versions (raw, double, single, quad)       *)
(*   Begin / Line / End   a piece of a builtin source (n lines) fed line   *)
(*           by line; Line k carries line k of the four versions (r, d, s, *)
(*           q).  The lexer states are the carried state, so comments,     *)
(*           continued directives and spliced lines are followed; End      *)
(*           demands that the piece stops between tokens, which makes      *)
(*           validating each distinct piece once sound.                    *)
(*   Dtype   one precision request spelled `spelling`                      *)
(*   Agree   one test point of a model evaluated by the three libraries    *)
(*                                                                         *)
(* This module lexes input and output itself (CLexCore) and demands        *)
(*   Rewrite:  tokens(output at prec) = Convert(tokens(double source), prec)*)
(* for well-formed input.  Ill-formed input (see CLexCore!WFTokens) is      *)
(* accepted and counted in register 3.                                     *)
(***************************************************************************)
EXTENDS TraceBase, IEEE, CLexCore

VARIABLES l, st
tvars == <<l, st>>

SizeDigits(p) == CASE p = 32 -> "4" [] p = 64 -> "8" [] p = 128 -> "16" [] OTHER -> "?"
Header(p) == "#define FLOAT_SIZE " \o SizeDigits(p) \o NL
HasPrefix(s, p) == Len(s) >= Len(p) /\ SubSeq(s, 1, Len(p)) = p
Prefix(s, n) == SubSeq(s, 1, IF Len(s) < n THEN Len(s) ELSE n)

\* ------------------------------------------------------------ verdicts on token sequences
\* class of token k of the double source, refined by what stands before it
ClassAt(T, k) ==
    IF IsTypeTok(T[k]) /\ k >= 3 /\ IsTypeTok(T[k - 2]) /\ Len(T[k - 1].txt) = 1
       /\ ~T[k - 1].gap /\ ~T[k].gap
    THEN "type-keyword-one-character-after-type-keyword"
    ELSE TokClass(T[k])
\* class of a mismatch at expected token d (0: the output has more tokens than expected).  A
\* line splice inside an identifier or constant anywhere in the text names the class, because
\* it changes how everything after it on that line is read by a scanner that ignores splices.
SplicedIn(T) == {k \in 1..Len(T) : T[k].spl /\ T[k].cls \in {"id", "num"}}
MismatchClass(T, E, d) ==
    IF SplicedIn(T) # {} THEN "line-splice-inside-identifier-or-constant"
    ELSE IF d <= Len(E) THEN ClassAt(T, E[d].from)
    ELSE "extra-tokens"

\* Rewrite: A (tokens read from the output at precision p) against Convert(T, p)
Rewrite(T, A, p) ==
    LET E == Convert(T, p)
        d == FirstDiff(E, A, 1)
    IN IF d = 0 THEN <<>>
       ELSE <<"rewrite/" \o MismatchClass(T, E, d),
              ToString(<<"prec", p, "token", d,
                         "expected", IF d <= Len(E) THEN E[d].txt ELSE "",
                         "got", IF d <= Len(A) THEN A[d].txt ELSE "">>)>>

\* The double source against the text handed to convert_type: identical tokens, except that
\* generate._fix_tgmath_int (documented) may write an integer argument of a type-generic
\* math function as a floating constant, f(2) -> f(2.)
TgFuncs == {"sin", "cos", "tan", "asin", "acos", "atan", "sinh", "cosh", "tanh", "asinh", "acosh",
            "atanh", "atan2", "erf", "erfc", "tgamma", "exp", "exp2", "exp10", "expm1", "log",
            "log2", "log10", "log1p", "pow", "pown", "powr", "sqrt", "rsqrt", "rootn", "fabs",
            "fmax", "fmin"}
PlainDecInt(t) == t.cls = "num" /\ NumInfo(t.txt).kind = "int" /\ NumInfo(t.txt).suffix = ""
                  /\ ~(Len(t.txt) >= 2 /\ At(t.txt, 1) = "0")
IsCall(T, i) == i >= 2 /\ T[i].txt = "(" /\ T[i - 1].cls = "id" /\ T[i - 1].txt \in TgFuncs
\* lenient: the call may have started on an earlier line of a source fed line by line
MayPromote(T, i, lenient) ==
    /\ PlainDecInt(T[i])
    /\ \/ lenient /\ i <= 3
       \/ IsCall(T, i - 1)
       \/ i >= 2 /\ T[i - 1].txt \in {"+", "-"} /\ IsCall(T, i - 2)
RECURSIVE DoubleFrom(_, _, _, _)
DoubleFrom(T0, T, i, lenient) ==
    IF i > Len(T0) /\ i > Len(T) THEN 0
    ELSE IF i > Len(T0) \/ i > Len(T) THEN i
    ELSE IF T0[i].cls = T[i].cls /\ T0[i].txt = T[i].txt THEN DoubleFrom(T0, T, i + 1, lenient)
    ELSE IF MayPromote(T0, i, lenient) /\ T[i].cls = "num" /\ T[i].txt = T0[i].txt \o "."
    THEN DoubleFrom(T0, T, i + 1, lenient)
    ELSE i
DoubleSource(T0, T, lenient) ==
    LET d == DoubleFrom(T0, T, 1, lenient)
    IN IF d = 0 THEN <<>>
       ELSE <<"double-source/" \o (IF d <= Len(T0) THEN TokClass(T0[d]) ELSE "extra-tokens"),
              ToString(<<"token", d, "input", IF d <= Len(T0) THEN T0[d].txt ELSE "",
                         "got", IF d <= Len(T) THEN T[d].txt ELSE "">>)>>

First(vs) == IF \E i \in 1..Len(vs) : vs[i] # <<>>
             THEN vs[CHOOSE i \in 1..Len(vs) : vs[i] # <<>> /\ \A j \in 1..(i - 1) : vs[j] = <<>>]
             ELSE <<>>

\* ------------------------------------------------------------ Conv
\* [T: tokens of the text, wf: the text is well-formed] with one run of the lexer
Read(s) == LET F == Finish(LexRun(L0, s)) IN [T |-> F.out, wf |-> F.mode = "code" /\ WFTokens(F.out)]
ApplyConv(e) ==
    IF e.raised THEN [bad |-> <<"raised", e.error>>, ill |-> FALSE]
    ELSE IF ~(HasPrefix(e.o32, Header(32)) /\ HasPrefix(e.o64, Header(64)) /\ HasPrefix(e.o128, Header(128)))
    THEN [bad |-> <<"float-size", ToString(<<Prefix(e.o32, 22), Prefix(e.o64, 22), Prefix(e.o128, 22)>>)>>,
          ill |-> FALSE]
    ELSE LET R0 == Read(e.src)
             b64 == Rest(e.o64, Len(Header(64)) + 1)
             R64 == Read(b64)
             A32 == Lex(Rest(e.o32, Len(Header(32)) + 1))
             A128 == Lex(Rest(e.o128, Len(Header(128)) + 1))
             dbl == DoubleSource(R0.T, R64.T, FALSE)
         IN IF ~R0.wf THEN [bad |-> <<>>, ill |-> TRUE]
            ELSE [bad |-> IF "e32" \in DOMAIN e /\ e.e32 # Text(Convert(R0.T, 32))
                          THEN <<"export-differs-from-trace-module", Text(Convert(R0.T, 32))>>
                          ELSE IF dbl # <<>> THEN dbl
                          ELSE IF ~R64.wf THEN <<"double-source/ill-formed", b64>>
                          ELSE First(<<Rewrite(R64.T, A32, 32), Rewrite(R64.T, A128, 128)>>),
                  ill |-> FALSE]

\* ------------------------------------------------------------ builtin sources, line by line
ApplyHeads(e) ==
    IF e.h32 # Header(32) \/ e.h64 # Header(64) \/ e.h128 # Header(128)
    THEN <<"float-size", ToString(<<e.h32, e.h64, e.h128>>)>>
    ELSE IF ~(e.nraw = e.n64 /\ e.n32 = e.n64 /\ e.n128 = e.n64)
    THEN <<"line-structure", ToString(<<e.nraw, e.n64, e.n32, e.n128>>)>>
    ELSE <<>>

Fresh(L) == [L EXCEPT !.out = <<>>]
ApplyLine(s, e) ==
    LET r == LexRun(Fresh(s.r), e.r)
        d == LexRun(Fresh(s.d), e.d)
        f == LexRun(Fresh(s.s), e.s)
        q == LexRun(Fresh(s.q), e.q)
        same(a, b) == a.mode = b.mode /\ a.dir = b.dir /\ a.bs = b.bs /\ a.esc = b.esc /\ a.spl = b.spl
        ill == ~WFTokens(r.out) \/ ~WFTokens(d.out)
        bad == IF ill THEN <<>>
               ELSE First(<<DoubleSource(r.out, d.out, TRUE), Rewrite(d.out, f.out, 32), Rewrite(d.out, q.out, 128),
                            IF same(r, d) /\ same(f, d) /\ same(q, d) THEN <<>>
                            ELSE <<"lexer-state-diverged", ToString(<<r.mode, d.mode, f.mode, q.mode>>)>>>>)
    IN IF e.k # s.next THEN [st |-> s, bad |-> <<"line-order", ToString(<<"expected", s.next, "got", e.k>>)>>, ill |-> FALSE]
       ELSE [st |-> [s EXCEPT !.r = r, !.d = d, !.s = f, !.q = q, !.next = @ + 1], bad |-> bad, ill |-> ill]

Closed(L) == LET F == Finish(Fresh(L)) IN F.mode = "code" /\ \A i \in 1..Len(F.out) : F.out[i].cls = "eod"
ApplyEnd(s, e) ==
    [st |-> s, ill |-> FALSE,
     bad |-> IF s.next # s.n THEN <<"line-order", ToString(<<"lines", s.n, "seen", s.next>>)>>
             ELSE IF Closed(s.r) /\ Closed(s.d) /\ Closed(s.s) /\ Closed(s.q) THEN <<>>
             ELSE <<"chunk-not-closed", ToString(<<s.r.mode, s.d.mode, s.s.mode, s.q.mode>>)>>]

\* ------------------------------------------------------------ precision requests
ApplyDtype(e) ==
    LET D == DtypeOf(e.spelling) IN
    IF D.bits = 0 THEN <<"harness-unknown-spelling", e.spelling>>
    ELSE IF e.raised THEN <<"dtype/raised", e.error>>
    ELSE IF e.parsed_bits # D.bits \/ e.parsed_kind # "f" THEN <<"dtype/parse_dtype", ToString(<<e.parsed_bits, D.bits>>)>>
    ELSE IF e.platform # "dll" THEN <<"dtype/platform", e.platform>>
    ELSE IF e.model_class # "DllModel" \/ e.model_bits # D.bits THEN <<"dtype/model.dtype", ToString(<<e.model_bits, D.bits>>)>>
    ELSE IF ~HasPrefix(e.lib, "sas" \o DigitsOf(D.bits) \o "_") THEN <<"dtype/library-tag", e.lib>>
    \* the library was built in an empty directory: exactly one compilation, of a source that
    \* starts with the FLOAT_SIZE of the request, into a file carrying the same tag
    ELSE IF Len(e.compiled) # 1 THEN <<"dtype/compiled-once", ToString(Len(e.compiled))>>
    ELSE IF e.compiled[1][2] # Header(D.bits) THEN <<"dtype/float-size", e.compiled[1][2]>>
    ELSE IF ~HasPrefix(e.compiled[1][1], "sas" \o DigitsOf(D.bits) \o "_") THEN <<"dtype/compiled-tag", e.compiled[1][1]>>
    ELSE IF e.kernel_bytes # D.size \/ e.result_bytes # D.size THEN <<"dtype/kernel-element-size", ToString(<<e.kernel_bytes, e.result_bytes>>)>>
    \* the values are, bit for bit, those of the library built directly at the stated precision
    ELSE IF ~FVecBits(e.I, CASE D.bits = 32 -> e.ref32 [] D.bits = 64 -> e.ref64 [] D.bits = 128 -> e.ref128)
    THEN <<"dtype/values-of-stated-precision", ToString(<<e.I, e.ref32, e.ref64, e.ref128>>)>>
    \* and the three precisions are really different libraries
    ELSE IF FVecBits(e.ref32, e.ref64) THEN <<"dtype/single-equals-double", ToString(e.ref32)>>
    ELSE <<>>

\* composite models: the request reaches every compiled part as it reaches a plain model (whose own handling of the
\* spelling is judged by ApplyDtype)
ApplyDtypeC(e) ==
    IF DtypeOf(e.spelling).bits = 0 THEN <<"harness-unknown-spelling", e.spelling>>
    ELSE IF e.raised THEN <<"dtype/raised", e.error>>
    ELSE IF Len(e.part_bits) < 2 THEN <<"harness-composite-parts", ToString(e.part_bits)>>
    ELSE IF e.model_bits # e.plain_bits \/ \E k \in 1..Len(e.part_bits) : e.part_bits[k] # e.plain_bits
         THEN <<"dtype/composite-parts", ToString(<<e.model, e.spelling, "plain model", e.plain_bits, "composite", e.model_bits, e.part_bits>>)>>
    ELSE <<>>

\* ------------------------------------------------------------ numeric agreement
(* Tolerances (the one judgement in C15).  float32: 5e-5 relative, the     *)
(* criterion sasmodels itself applies between single and double results    *)
(* (model_test.py: |target - actual| < 5e-5 |actual|); the worst value over *)
(* all test points of the 40 models declared single is 9.7e-6 (stacked_    *)
(* disks, cancellation near a form-factor minimum).  long double: 1e-12;   *)
(* the comparison is limited by the rounding of the double reference, the  *)
(* worst observed value is 3.8e-14 (raspberry) and 7e-15 elsewhere, while  *)
(* a library of the wrong precision differs by 1e-7.  Models not declared  *)
(* single are outside the statement (they differ by up to 100% or          *)
(* overflow in float32) and are only required not to raise.                *)
RTol(p) == IF p = 32 THEN "5e-5" ELSE "1e-12"
ApplyAgree(e) ==
    IF e.raised THEN <<"agree/raised", e.error>>
    ELSE IF ~e.single THEN <<>>
    ELSE IF Len(e.ref) = 0 \/ Len(e.i32) # Len(e.ref) \/ Len(e.i128) # Len(e.ref) THEN <<"agree/length", "">>
    ELSE IF ~FVecAllFinite(e.ref) THEN <<"agree/double-not-finite", ToString(e.ref)>>
    ELSE IF ~FVecNear(e.i32, e.ref, RTol(32), "0.0") THEN <<"agree/32", ToString(<<e.ref, e.i32, FVecMaxRelErr(e.i32, e.ref)>>)>>
    ELSE IF ~FVecNear(e.i128, e.ref, RTol(128), "0.0") THEN <<"agree/128", ToString(<<e.ref, e.i128, FVecMaxRelErr(e.i128, e.ref)>>)>>
    ELSE <<>>

\* ------------------------------------------------------------ behaviour
NoChunk == [tid |-> "", skip |-> TRUE]
Apply(s, e) ==
    CASE e.ev = "Conv" -> LET v == ApplyConv(e) IN [st |-> s, bad |-> v.bad, ill |-> v.ill]
      [] e.ev = "Heads" -> [st |-> s, bad |-> ApplyHeads(e), ill |-> FALSE]
      [] e.ev = "Dtype" -> [st |-> s, bad |-> ApplyDtype(e), ill |-> FALSE]
      [] e.ev = "DtypeC" -> [st |-> s, bad |-> ApplyDtypeC(e), ill |-> FALSE]
      [] e.ev = "Agree" -> [st |-> s, bad |-> ApplyAgree(e), ill |-> FALSE]
      [] e.ev = "Begin" -> [st |-> [tid |-> e.tid, skip |-> FALSE, next |-> 0, n |-> e.n,
                                    r |-> L0, d |-> L0, s |-> L0, q |-> L0],
                            bad |-> <<>>, ill |-> FALSE]
      [] e.ev \in {"Line", "End"} ->
            IF s.skip \/ s.tid # e.tid THEN [st |-> s, bad |-> <<>>, ill |-> FALSE]   \* after a rejection
            ELSE IF e.ev = "Line" THEN ApplyLine(s, e) ELSE ApplyEnd(s, e)
      [] OTHER -> [st |-> s, bad |-> <<"unknown-event", e.ev>>, ill |-> FALSE]

TInit == l = 1 /\ st = NoChunk /\ TLCSet(1, 0) /\ TLCSet(2, 0) /\ TLCSet(3, 0)
TNext ==
    /\ l <= NLines
    /\ LET e == TraceLog[l]
           v == Apply(st, e)
       IN /\ st' = IF v.bad = <<>> THEN v.st ELSE NoChunk
          /\ IF v.bad = <<>> THEN TRUE
             ELSE PrintT(<<"REJECT", e.tid, l, v.bad[1], v.bad[2]>>) /\ TLCSet(2, TLCGet(2) + 1)
          /\ IF v.ill THEN PrintT(<<"ILLFORMED", e.tid, l>>) /\ TLCSet(3, TLCGet(3) + 1) ELSE TRUE
    /\ l' = l + 1
    /\ TLCSet(1, l)
TraceSpec == TInit /\ [][TNext]_tvars
CLexDone == PrintT(<<"CLEX-ILLFORMED", TLCGet(3)>>) /\ TraceDone
=============================================================================
