\* convert.py as written (rename order, sequential copy-delete, CONTROL row, unconditional up_theta, variant suffix in the name): the invariants MUST fail (vacuity control)
SPECIFICATION Spec
CONSTANTS
  Variant = "asWritten"
  ModelVersions <- MVQuick
  Underscores = {TRUE, FALSE}
  ClassSet = {"empty", "single", "values", "all", "full"}
INVARIANT Identity
INVARIANT NameOfCurrentModel
INVARIANT AllNamesExist
INVARIANT ValuesCarried
INVARIANT NoCollision
INVARIANT DefaultsHold
CHECK_DEADLOCK FALSE
