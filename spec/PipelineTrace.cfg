INIT TInit
NEXT TNext
CONSTANTS
  Procs = {"p1", "p2", "p3", "p4"}
  MaxCrashes = 4
  Versions = {1, 2}
  Protocol = "atomic"
POSTCONDITION TraceDone
CHECK_DEADLOCK FALSE
