\* thorough tier: q subset of 1..12, 1..4 points
SPECIFICATION Spec
CONSTANTS
  QMax = 12
  MaxPts = 4
  Widths = {0, 1, 2, 4, 8}
  Widths4 = {0, 2, 8}
  PairW = {0, 1, 4}
  MaxGeo = 3
  NL = 2
  SwapArgs = FALSE
  GeoZero = "leq"
  Normalise = TRUE
  SingleBin = TRUE
INVARIANT Constructs
INVARIANT QcalcPositive
INVARIANT NonNegative
INVARIANT Covers
INVARIANT RowsSumToOne
INVARIANT ZeroWidthIdentity
CHECK_DEADLOCK FALSE
