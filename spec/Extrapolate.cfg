SPECIFICATION Spec
CONSTANTS
  M = 6
  MaxLen = 3
  Fallback = "zeroStep"
INVARIANT Constructs
INVARIANT CoversLow
INVARIANT CoversHigh
INVARIANT IncreasingLow
INVARIANT IncreasingHigh
INVARIANT StepLow
INVARIANT StepHigh
INVARIANT Bounded
CHECK_DEADLOCK FALSE
