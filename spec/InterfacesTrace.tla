--------------------------- MODULE InterfacesTrace ---------------------------
(***************************************************************************)
(* Trace validation for Interfaces (C10).  Events:                         *)
(*  Name    iface, kind, form, name, outcome (returned | refused): one     *)
(*          keyword name offered to one interface of one model             *)
(*  Select  q (or |q| for 2-D), mask, isnan, qmin, qmax, full (theory at   *)
(*          every point from an unrestricted data object), got (theory     *)
(*          returned for the restricted data object)                       *)
(*  Agree   results per interface for one request (same model, q, values,  *)
(*          dispersity, cutoff); "sasview-array" is the SasView-style      *)
(*          object with its distributions handed over as array             *)
(*          distributions (the parametric points and weights, or free-form *)
(*          ones compared with the same mesh given to the kernel, "mesh")  *)
(***************************************************************************)
EXTENDS TraceBase, IEEE
VARIABLES kind, form, answer
INSTANCE Interfaces

VARIABLES l, st

ApplyName(e) ==
    LET want == AcceptOn(e.iface, e.kind, e.form, e.hidden) IN
    IF e.outcome = "returned" /\ ~want THEN <<"unknown-parameter-accepted", e.name>>
    ELSE IF e.outcome = "refused" /\ want THEN <<"legal-parameter-refused", e.error>>
    ELSE <<>>

ApplySelect(e) ==
    LET idx == Select(e.q, e.mask, [k \in 1..Len(e.isnan) |-> e.isnan[k] = 1], e.qmin, e.qmax)
        want == [k \in 1..Len(idx) |-> e.full[idx[k]]]
        SelectF == SelectSeq([k \in 1..Len(e.q) |-> k],
                     LAMBDA k : FLeq(e.qmin, e.q[k]) /\ FLeq(e.q[k], e.qmax) /\ e.mask[k] = 0 /\ e.isnan[k] = 0)
        wantF == [k \in 1..Len(SelectF) |-> e.full[SelectF[k]]]
    IN IF e.raised # "" THEN <<"raised", e.raised>>
       ELSE IF Len(e.got) # Len(wantF) THEN <<"selected-points", ToString(<<"expected", SelectF, "got-length", Len(e.got)>>)>>
       ELSE IF ~FVecBits(e.got, wantF) THEN <<"selected-values", ToString(<<wantF, e.got>>)>>
       ELSE <<>>

ApplyAgree(e) ==
    LET ref == e.results[1].val
        bad == {k \in 2..Len(e.results) :
                  IF e.results[k].iface \in {"sasview", "sasview-array"} THEN ~FVecNear(e.results[k].val, ref, "1e-13", "1e-300")
                  ELSE ~FVecBits(e.results[k].val, ref)}
    IN IF \E k \in 1..Len(e.results) : e.results[k].raised # "" THEN
            <<"raised", ToString({<<e.results[k].iface, e.results[k].raised>> : k \in {j \in 1..Len(e.results) : e.results[j].raised # ""}})>>
       ELSE IF bad # {} THEN <<"interfaces-disagree", ToString({<<e.results[k].iface, e.results[k].val, ref>> : k \in bad})>>
       ELSE <<>>

TInit == l = 1 /\ st = 0 /\ kind = 0 /\ form = 0 /\ answer = 0 /\ TLCSet(1, 0) /\ TLCSet(2, 0)
TNext ==
    /\ l <= NLines
    /\ LET e == TraceLog[l]
           bad == IF e.ev = "Name" THEN ApplyName(e) ELSE IF e.ev = "Select" THEN ApplySelect(e)
                  ELSE IF e.ev = "Agree" THEN ApplyAgree(e) ELSE <<"unknown-event", e.ev>>
       IN IF bad = <<>> THEN TRUE
          ELSE PrintT(<<"REJECT", e.tid, l, bad[1], bad[2]>>) /\ TLCSet(2, TLCGet(2) + 1)
    /\ l' = l + 1 /\ st' = st /\ UNCHANGED <<kind, form, answer>>
    /\ TLCSet(1, l)
=============================================================================
