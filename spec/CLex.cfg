\* all strings of length <= MaxLen over AlphabetNum
CONSTANTS
    Alphabet <- AlphabetNum
    MaxLen = 4
    TagHexFloats = TRUE
INIT Init
NEXT Next
INVARIANT TypeOK
INVARIANT StateIsRun
INVARIANT Relex
INVARIANT ConvertLaws
INVARIANT AllFloatsTagged
INVARIANT Export
CHECK_DEADLOCK FALSE
