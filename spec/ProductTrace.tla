---------------------------- MODULE ProductTrace ----------------------------
(***************************************************************************)
(* Trace validation for Product (C07).  One event per evaluated P@S:       *)
(*   PS  ptab, stab        the parameter tables of P and S (ids, kinds)    *)
(*       names             the call-parameter ids of the loaded P@S model  *)
(*       scale, background, vf, beta, ermode, dim                          *)
(*       Pnojit            P alone with the orientation jitter removed     *)
(*       Pout              P evaluated alone (call_Fq, selected mode):     *)
(*                         <F>, <F^2>, R_eff, <V_shell>, form:shell ratio  *)
(*       userReff          the user's radius_effective value               *)
(*       Sin               the (R_eff, volfraction) S was evaluated at     *)
(*       Sout              S evaluated alone at Sin (scale 1, background 0)*)
(*       out               what P@S returned (or refused)                  *)
(*       results           the intermediate values P@S reports             *)
(* The specification checks that S was evaluated where the formula says,   *)
(* recombines, and compares.  P's averages and S(q) are thus interpreted   *)
(* by the models themselves (validated by C01); composition, routing and   *)
(* the formula are the specification's.                                    *)
(***************************************************************************)
EXTENDS TraceBase, IEEE, ProductCore

VARIABLES l, st
\* re-associated products/quotients of a handful of terms
RTol == "1e-13"

ApplyPS(e) ==
    LET P0 == [pars |-> e.ptab, haveFq |-> e.haveFq, nmodes |-> e.nmodes]
        S0 == [pars |-> e.stab]
        vfInP == HasId(e.ptab, "volfraction")
        beta == e.beta /\ e.haveFq
        \* S is evaluated at the user's radius for mode 0, else at P's weighted mean radius;
        \* at volume fraction vf * <V_form>/<V_shell>
        wantReff == IF e.ermode = 0 THEN e.userReff ELSE e.Pout.reff
        wantVf == FMul(e.vf, e.Pout.ratio)
        F2 == e.Pout.F2
        F1sq == FVecMul(e.Pout.F1, e.Pout.F1)
        PS == IF beta THEN FVecAdd(F2, FVecMul(F1sq, FVecShift("-1.0", e.Sout)))
              ELSE FVecMul(F2, e.Sout)
        cs0 == FDiv(e.scale, e.Pout.vshell)
        cs == IF vfInP THEN cs0 ELSE FMul(cs0, e.vf)
        I == FVecShift(e.background, FVecScale(cs, PS))
        r == e.results
    IN  IF ~Composable(P0, S0) THEN <<"harness-not-composable", "">>
        ELSE IF e.names # CombinedIds(P0, S0) THEN <<"combined-table", ToString(<<CombinedIds(P0, S0), e.names>>)>>
        ELSE IF e.refused # (beta /\ e.dim = "2d") THEN <<"refusal", e.error>>
        ELSE IF e.refused THEN <<>>
        \* orientation jitter turns the particle without resizing it: P's mean radius and volumes are those of the
        \* same size distribution without jitter
        ELSE IF ~(FNear(e.Pout.reff, e.Pnojit.reff, "1e-12", "0.0") /\ FNear(e.Pout.vshell, e.Pnojit.vshell, "1e-12", "0.0")
                  /\ FNear(e.Pout.ratio, e.Pnojit.ratio, "1e-12", "0.0")) THEN
             <<"jitter-changes-radius-or-volume", ToString(<<"with jitter", e.Pout.reff, e.Pout.vshell, e.Pout.ratio,
                                                              "without", e.Pnojit.reff, e.Pnojit.vshell, e.Pnojit.ratio>>)>>
        ELSE IF ~FBits(e.Sin.reff, wantReff) THEN <<"harness-S-radius", ToString(<<wantReff, e.Sin.reff>>)>>
        ELSE IF ~FBits(e.Sin.vf, wantVf) THEN <<"harness-S-volfraction", ToString(<<wantVf, e.Sin.vf>>)>>
        ELSE IF ~FVecNear(e.out, I, RTol, "0.0") THEN <<"product-formula", ToString(<<"expected", I, "got", e.out>>)>>
        \* the reported intermediates are the ones used
        ELSE IF ~FVecNear(r.P, FVecScale(cs, F2), RTol, "0.0") THEN <<"reported-P", ToString(<<FVecScale(cs, F2), r.P>>)>>
        ELSE IF ~FVecNear(r.S, e.Sout, RTol, "0.0") THEN <<"reported-S", ToString(<<e.Sout, r.S>>)>>
        ELSE IF ~FNear(r.volume, e.Pout.vshell, RTol, "0.0") THEN <<"reported-volume", ToString(<<e.Pout.vshell, r.volume>>)>>
        ELSE IF ~FNear(r.volume_ratio, e.Pout.ratio, RTol, "0.0") THEN <<"reported-volume-ratio", ToString(<<e.Pout.ratio, r.volume_ratio>>)>>
        ELSE IF e.ermode # 0 /\ ~FNear(r.radius_effective, e.Pout.reff, RTol, "0.0") THEN <<"reported-radius", ToString(<<e.Pout.reff, r.radius_effective>>)>>
        ELSE IF beta /\ ~FVecNear(r.beta, [k \in 1..Len(F2) |-> FDiv(F1sq[k], F2[k])], RTol, "0.0") THEN <<"reported-beta", ToString(r.beta)>>
        ELSE <<>>

TInit == l = 1 /\ st = 0 /\ TLCSet(1, 0) /\ TLCSet(2, 0)
TNext ==
    /\ l <= NLines
    /\ LET e == TraceLog[l]
           bad == IF e.ev = "PS" THEN ApplyPS(e) ELSE <<"unknown-event", e.ev>>
       IN IF bad = <<>> THEN TRUE
          ELSE PrintT(<<"REJECT", e.tid, l, bad[1], bad[2]>>) /\ TLCSet(2, TLCGet(2) + 1)
    /\ l' = l + 1 /\ st' = st
    /\ TLCSet(1, l)
=============================================================================
