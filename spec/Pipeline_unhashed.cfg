SPECIFICATION Spec
CONSTANTS
  Procs = {p1, p2, p3}
  MaxCrashes = 1
  Versions = {1, 2}
  Protocol = "unhashed"
INVARIANT TypeOK
INVARIANT NoPartialLoad
INVARIANT EveryoneGetsAKernel
INVARIANT NothingPartialLeft
INVARIANT FinalNeverPartial
INVARIANT Coherent
CHECK_DEADLOCK FALSE
