------------------------------- MODULE Subst -------------------------------
(***************************************************************************)
(* Textual substitution of a parameter by its translation (C16, design     *)
(* level).  generate._build_validity_check and _build_translation paste    *)
(* the right-hand side of a translation line into C text wherever the      *)
(* replaced parameter's name occurs (the base model's validity expression, *)
(* the macro bodies of the generated kernel).  Pasting is on TEXT, the     *)
(* meaning is on TREES: the pasted text, read with C precedence and left   *)
(* associativity, must mean the tree in which the parameter is replaced    *)
(* by the translation's tree.                                              *)
(*                                                                         *)
(* Expressions are trees over + - * with numbers and the one replaced      *)
(* parameter x; Show writes a tree as an author would, with parentheses   *)
(* only where precedence requires them (so the right-hand side of a        *)
(* translation is a bare sum when it is a sum).  Paste replaces every      *)
(* token x by the printed translation, enclosed in parentheses (Mode =     *)
(* "paren", as written: "(%s)" % subs[name]) or bare (Mode = "bare", the   *)
(* failing control).  Read evaluates a token sequence the way a C compiler *)
(* does.  TLC enumerates every expression of depth <= 2 and every          *)
(* translation of depth <= 1 over the given numbers.                       *)
(*                                                                         *)
(* Bound to the code by C16: derivations whose translations are printed    *)
(* this way (w_reparam.ctext, top level bare), on probes whose validity    *)
(* region subtracts the replaced parameter, evaluated against the base     *)
(* model at the translated point (ReparamTrace).                           *)
(***************************************************************************)
EXTENDS Integers, Sequences, FiniteSets, TLC

CONSTANTS Nums,      \* numbers that occur in expressions
          Mode       \* "paren" (as written) | "bare" (failing control)

Ops == {"+", "-", "*"}
Num(n) == [op |-> "num", v |-> n]
Var == [op |-> "var", v |-> 0]
Node(o, l, r) == [op |-> o, l |-> l, r |-> r]

\* trees of bounded depth; leaves with or without the parameter
Leaves(withVar) == {Num(n) : n \in Nums} \cup (IF withVar THEN {Var} ELSE {})
D1(withVar) == Leaves(withVar) \cup {Node(o, l, r) : o \in Ops, l \in Leaves(withVar), r \in Leaves(withVar)}
D2(withVar) == D1(withVar) \cup {Node(o, l, r) : o \in Ops, l \in D1(withVar), r \in D1(withVar)}

VARIABLES e, s        \* the text the parameter occurs in (as a tree); the translation of the parameter
vars == <<e, s>>
Init == e \in D2(TRUE) /\ s \in D1(FALSE)
Next == UNCHANGED vars
Spec == Init /\ [][Next]_vars

\* ---- meaning on trees
RECURSIVE Val(_, _)
Val(t, x) == CASE t.op = "num" -> t.v
               [] t.op = "var" -> x
               [] t.op = "+" -> Val(t.l, x) + Val(t.r, x)
               [] t.op = "-" -> Val(t.l, x) - Val(t.r, x)
               [] t.op = "*" -> Val(t.l, x) * Val(t.r, x)

\* ---- text: tokens [k, v]
Tok(k, v) == [k |-> k, v |-> v]
Prec(t) == IF t.op \in {"+", "-"} THEN 1 ELSE IF t.op = "*" THEN 2 ELSE 3
RECURSIVE Show(_)
Wrap(t, need) == IF need THEN <<Tok("(", 0)>> \o Show(t) \o <<Tok(")", 0)>> ELSE Show(t)
Show(t) == CASE t.op = "num" -> <<Tok("num", t.v)>>
              [] t.op = "var" -> <<Tok("x", 0)>>
              [] OTHER -> Wrap(t.l, Prec(t.l) < Prec(t))
                          \o <<Tok(t.op, 0)>>
                          \o Wrap(t.r, Prec(t.r) < Prec(t) \/ (t.op = "-" /\ Prec(t.r) = 1))

RECURSIVE Paste(_, _)
Paste(text, sub) ==
    IF text = <<>> THEN <<>>
    ELSE (IF Head(text).k = "x"
          THEN (IF Mode = "paren" THEN <<Tok("(", 0)>> \o sub \o <<Tok(")", 0)>> ELSE sub)
          ELSE <<Head(text)>>) \o Paste(Tail(text), sub)

\* ---- reading text the way C does: lowest precedence, rightmost operator outside parentheses splits first
RECURSIVE DepthAt(_, _)
DepthAt(text, i) == IF i <= 1 THEN 0
                    ELSE DepthAt(text, i - 1) + (IF text[i - 1].k = "(" THEN 1 ELSE IF text[i - 1].k = ")" THEN -1 ELSE 0)
Top(text, ks) == {i \in 1..Len(text) : text[i].k \in ks /\ DepthAt(text, i) = 0}
Max(S) == CHOOSE m \in S : \A n \in S : n <= m
RECURSIVE Read(_)
Read(text) ==
    LET add == Top(text, {"+", "-"})
        mul == Top(text, {"*"})
        n == Len(text)
    IN  IF add # {} THEN LET i == Max(add)
                             a == Read(SubSeq(text, 1, i - 1))
                             b == Read(SubSeq(text, i + 1, n))
                         IN IF text[i].k = "+" THEN a + b ELSE a - b
        ELSE IF mul # {} THEN LET i == Max(mul) IN Read(SubSeq(text, 1, i - 1)) * Read(SubSeq(text, i + 1, n))
        ELSE IF text[1].k = "(" THEN Read(SubSeq(text, 2, n - 1))
        ELSE text[1].v

\* the printer and the reader agree (sanity of the model itself)
PrintReads == Read(Show(s)) = Val(s, 0) /\ Read(Show(e)) = Val(e, 0)
\* pasted text means the substituted tree
PasteMeansSubstitution == Read(Paste(Show(e), Show(s))) = Val(e, Val(s, 0))
=============================================================================
