------------------------------ MODULE CLexCore ------------------------------
(***************************************************************************)
(* C15 - precision conversion changes only floating types and literals.    *)
(*                                                                         *)
(* A lexer for C99 preprocessing tokens (ISO 9899:1999 6.4, translation    *)
(* phases 2 and 3) written as a state machine, the classification of       *)
(* pp-numbers into integer / decimal floating / hexadecimal floating       *)
(* constants (6.4.4.1, 6.4.4.2), and on top of it the specification of     *)
(* sasmodels.generate.convert_type:                                        *)
(*                                                                         *)
(*    Convert(tokens, prec)   the token sequence of the kernel source at   *)
(*                            precision prec (32, 64, 128), given the      *)
(*                            token sequence of the double source          *)
(*    DtypeOf(spelling)       what a precision request selects             *)
(*                                                                         *)
(* A string is a sequence of characters (TLA+ semantics); a character is a *)
(* string of length one.  Only Len, \o and SubSeq are applied to strings.  *)
(*                                                                         *)
(* The lexer is the function CharStep(L, c) on lexer states (fields mode,   *)
(* tok, out, ...): one character either extends the pending token or first *)
(* Emits it.  CLex.tla runs it as a TLC behaviour over all short strings;  *)
(* CLexTrace.tla runs it over what the implementation read and wrote, with *)
(* the state carried from line to line.                                    *)
(*                                                                         *)
(* Abstractions (both sides of every comparison use the same lexer, so     *)
(* they cannot produce a false alarm): trigraphs and digraphs are not      *)
(* recognised, "..." is three "." punctuators, universal character names   *)
(* are not part of identifiers.                                            *)
(***************************************************************************)
EXTENDS Naturals, Sequences, FiniteSets, TLC, Json

\* ---------------------------------------------------------------- characters
Digit == {"0", "1", "2", "3", "4", "5", "6", "7", "8", "9"}
HexDigit == Digit \cup {"a", "b", "c", "d", "e", "f", "A", "B", "C", "D", "E", "F"}
Letter == {"a", "b", "c", "d", "e", "f", "g", "h", "i", "j", "k", "l", "m", "n", "o", "p", "q",
           "r", "s", "t", "u", "v", "w", "x", "y", "z",
           "A", "B", "C", "D", "E", "F", "G", "H", "I", "J", "K", "L", "M", "N", "O", "P", "Q",
           "R", "S", "T", "U", "V", "W", "X", "Y", "Z"}
IdStart == Letter \cup {"_"}
IdChar == IdStart \cup Digit
Blank == {" ", "\t", "\f", "\r"}
NL == "\n"
BSlash == "\\"
DQuote == "\""
SQuote == "'"
\* C99 6.4.6 punctuators (without digraphs and "...")
Puncts == {"[", "]", "(", ")", "{", "}", ".", "->", "++", "--", "&", "*", "+", "-", "~", "!",
           "/", "%", "<<", ">>", "<", ">", "<=", ">=", "==", "!=", "^", "|", "&&", "||",
           "?", ":", ";", "=", "*=", "/=", "%=", "+=", "-=", "<<=", ">>=", "&=", "^=", "|=",
           ",", "#", "##"}
PunctStart == {p \in Puncts : Len(p) = 1}

At(s, i) == IF i >= 1 /\ i <= Len(s) THEN SubSeq(s, i, i) ELSE ""
Last(s) == At(s, Len(s))
Rest(s, i) == IF i > Len(s) THEN "" ELSE SubSeq(s, i, Len(s))

\* ---------------------------------------------------------------- lexer state
(* mode   code      between tokens                                         *)
(*        ident / number / punct / string / chr / header   inside a token  *)
(*        lcomment / bcomment   inside a comment (tok = "*" in bcomment    *)
(*                  when the previous character was a star)                *)
(* tok    text of the token so far                                         *)
(* out    completed tokens, each [cls, txt, gap, bol, spl]; gap = white     *)
(*        space, a comment or a line start precedes the token; bol = it is *)
(*        the first token of its line; spl = its spelling in the text is   *)
(*        interrupted by a line splice                                     *)
(* bs     a backslash has been read and may start a line splice (phase 2)  *)
(* spl    a line splice occurred inside the pending token                  *)
(* esc    inside a literal: the previous character was an escaping "\"     *)
(* bol    nothing but white space on this logical line so far              *)
(* dir    no / hash / include / body : position inside a directive         *)
(***************************************************************************)
Modes == {"code", "ident", "number", "punct", "string", "chr", "header", "lcomment", "bcomment"}
Classes == {"id", "num", "punct", "str", "chr", "hdr", "eod", "other", "bad"}

L0 == [mode |-> "code", tok |-> "", out |-> <<>>, bs |-> FALSE, esc |-> FALSE,
       bol |-> TRUE, dir |-> "no", gap |-> TRUE, spl |-> FALSE]

ClsOfMode(m) == CASE m = "ident" -> "id" [] m = "number" -> "num" [] m = "punct" -> "punct"
                  [] m = "string" -> "str" [] m = "chr" -> "chr" [] m = "header" -> "hdr"

Push(L, cls, txt) ==
    LET dir2 == IF L.dir = "no" /\ L.bol /\ cls = "punct" /\ txt = "#" THEN "hash"
                ELSE IF L.dir = "hash" THEN (IF cls = "id" /\ txt = "include" THEN "include" ELSE "body")
                ELSE IF L.dir = "include" THEN "body"
                ELSE L.dir
    IN [L EXCEPT !.out = Append(@, [cls |-> cls, txt |-> txt, gap |-> L.gap, bol |-> L.bol, spl |-> L.spl]),
                 !.mode = "code", !.tok = "", !.esc = FALSE, !.bol = FALSE, !.gap = FALSE, !.spl = FALSE,
                 !.dir = dir2]

\* Emit: the pending token is complete
Emit(L) == Push(L, ClsOfMode(L.mode), L.tok)
\* a literal or header name cut short by a new-line or the end of the text
EmitBad(L) == Push(L, "bad", L.tok)

\* a new-line character that is not spliced away, seen between tokens
NewLine(L) ==
    LET L1 == IF L.dir # "no"
              THEN [L EXCEPT !.out = Append(@, [cls |-> "eod", txt |-> NL, gap |-> FALSE, bol |-> FALSE, spl |-> FALSE])]
              ELSE L
    IN [L1 EXCEPT !.dir = "no", !.bol = TRUE, !.gap = TRUE, !.mode = "code", !.tok = ""]

\* Char0: one character of the spliced text (phase 3)
RECURSIVE Char0(_, _)
Char0(L, c) ==
    CASE L.mode = "code" ->
            IF c \in IdStart THEN [L EXCEPT !.mode = "ident", !.tok = c]
            ELSE IF c \in Digit THEN [L EXCEPT !.mode = "number", !.tok = c]
            ELSE IF c = DQuote THEN [L EXCEPT !.mode = "string", !.tok = c]
            ELSE IF c = SQuote THEN [L EXCEPT !.mode = "chr", !.tok = c]
            ELSE IF c = "<" /\ L.dir = "include" THEN [L EXCEPT !.mode = "header", !.tok = c]
            ELSE IF c \in PunctStart THEN [L EXCEPT !.mode = "punct", !.tok = c]
            ELSE IF c = NL THEN NewLine(L)
            ELSE IF c \in Blank THEN [L EXCEPT !.gap = TRUE]
            ELSE Push(L, "other", c)
      [] L.mode = "ident" ->
            IF c \in IdChar THEN [L EXCEPT !.tok = @ \o c]
            ELSE IF L.tok = "L" /\ c = DQuote THEN [L EXCEPT !.mode = "string", !.tok = @ \o c]
            ELSE IF L.tok = "L" /\ c = SQuote THEN [L EXCEPT !.mode = "chr", !.tok = @ \o c]
            ELSE Char0(Emit(L), c)
      [] L.mode = "number" ->      \* pp-number, 6.4.8
            IF c \in IdChar \/ c = "." THEN [L EXCEPT !.tok = @ \o c]
            ELSE IF c \in {"+", "-"} /\ Last(L.tok) \in {"e", "E", "p", "P"} THEN [L EXCEPT !.tok = @ \o c]
            ELSE Char0(Emit(L), c)
      [] L.mode = "punct" ->
            IF L.tok = "/" /\ c = "*" THEN [L EXCEPT !.mode = "bcomment", !.tok = "", !.gap = TRUE, !.spl = FALSE]
            ELSE IF L.tok = "/" /\ c = "/" THEN [L EXCEPT !.mode = "lcomment", !.tok = "", !.gap = TRUE, !.spl = FALSE]
            ELSE IF L.tok = "." /\ c \in Digit THEN [L EXCEPT !.mode = "number", !.tok = @ \o c]
            ELSE IF (L.tok \o c) \in Puncts THEN [L EXCEPT !.tok = @ \o c]
            ELSE Char0(Emit(L), c)
      [] L.mode \in {"string", "chr"} ->
            IF c = NL THEN NewLine(EmitBad(L))
            ELSE IF L.esc THEN [L EXCEPT !.tok = @ \o c, !.esc = FALSE]
            ELSE IF c = BSlash THEN [L EXCEPT !.tok = @ \o c, !.esc = TRUE]
            ELSE IF c = (IF L.mode = "string" THEN DQuote ELSE SQuote) THEN Emit([L EXCEPT !.tok = @ \o c])
            ELSE [L EXCEPT !.tok = @ \o c]
      [] L.mode = "header" ->
            IF c = NL THEN NewLine(EmitBad(L))
            ELSE IF c = ">" THEN Emit([L EXCEPT !.tok = @ \o c])
            ELSE [L EXCEPT !.tok = @ \o c]
      [] L.mode = "lcomment" ->
            IF c = NL THEN NewLine(L) ELSE L
      [] L.mode = "bcomment" ->
            IF L.tok = "*" /\ c = "/" THEN [L EXCEPT !.mode = "code", !.tok = ""]
            ELSE [L EXCEPT !.tok = IF c = "*" THEN "*" ELSE ""]

\* Char: one character of the text; backslash new-line is deleted in every mode (phase 2)
CharStep(L, c) ==
    IF L.bs /\ c = NL THEN [L EXCEPT !.bs = FALSE, !.spl = L.spl \/ (L.tok # "" /\ L.mode \notin {"lcomment", "bcomment"})]
    ELSE LET L1 == IF L.bs THEN Char0([L EXCEPT !.bs = FALSE], BSlash) ELSE L
         IN IF c = BSlash THEN [L1 EXCEPT !.bs = TRUE] ELSE Char0(L1, c)

RECURSIVE RunFrom(_, _, _)
RunFrom(L, s, i) == IF i > Len(s) THEN L ELSE RunFrom(CharStep(L, At(s, i)), s, i + 1)
\* the meaning of the lexer on a piece of text, continuing from state L
LexRun(L, s) == RunFrom(L, s, 1)

\* end of the text
Finish(L) ==
    LET L1 == IF L.bs THEN Char0([L EXCEPT !.bs = FALSE], BSlash) ELSE L
        L2 == IF L1.mode \in {"ident", "number", "punct"} THEN Emit(L1)
              ELSE IF L1.mode \in {"string", "chr", "header"} THEN EmitBad(L1)
              ELSE IF L1.mode = "lcomment" THEN [L1 EXCEPT !.mode = "code"]
              ELSE L1
    IN IF L2.mode = "code" THEN NewLine(L2) ELSE L2
Lex(s) == Finish(LexRun(L0, s)).out
\* the text ended between tokens (not inside a block comment)
ClosedText(s) == Finish(LexRun(L0, s)).mode = "code"

\* ---------------------------------------------------------------- constants (6.4.4)
RECURSIVE Span(_, _, _)
Span(s, i, S) == IF i <= Len(s) /\ At(s, i) \in S THEN Span(s, i + 1, S) ELSE i
FloatSuffix == {"", "f", "F", "l", "L"}
IntSuffix == {"", "u", "U", "l", "L", "ul", "uL", "Ul", "UL", "lu", "lU", "Lu", "LU", "ll", "LL",
              "ull", "uLL", "Ull", "ULL", "llu", "llU", "LLu", "LLU"}
NumRec(k, sfx) == [kind |-> k, suffix |-> sfx]
BadNum == NumRec("badnum", "")
\* kind of a pp-number: "int", "decfloat", "hexfloat" (with its suffix) or "badnum"
NumInfo(s) ==
    IF Len(s) >= 2 /\ SubSeq(s, 1, 2) \in {"0x", "0X"}
    THEN LET h1 == Span(s, 3, HexDigit)
             dot == At(s, h1) = "."
             h2 == IF dot THEN Span(s, h1 + 1, HexDigit) ELSE h1
             nd == (h1 - 3) + (IF dot THEN h2 - h1 - 1 ELSE 0)
             hasp == At(s, h2) \in {"p", "P"}
             e1 == IF At(s, h2 + 1) \in {"+", "-"} THEN h2 + 2 ELSE h2 + 1
             e2 == Span(s, e1, Digit)
         IN IF nd = 0 THEN BadNum
            ELSE IF hasp THEN (IF e2 > e1 /\ Rest(s, e2) \in FloatSuffix
                               THEN NumRec("hexfloat", Rest(s, e2)) ELSE BadNum)
            ELSE IF ~dot /\ Rest(s, h1) \in IntSuffix THEN NumRec("int", Rest(s, h1))
            ELSE BadNum       \* a hexadecimal floating constant needs a binary exponent
    ELSE LET d1 == Span(s, 1, Digit)
             dot == At(s, d1) = "."
             d2 == IF dot THEN Span(s, d1 + 1, Digit) ELSE d1
             nd == (d1 - 1) + (IF dot THEN d2 - d1 - 1 ELSE 0)
             hase == At(s, d2) \in {"e", "E"}
             e1 == IF At(s, d2 + 1) \in {"+", "-"} THEN d2 + 2 ELSE d2 + 1
             e2 == Span(s, e1, Digit)
         IN IF nd = 0 THEN BadNum
            ELSE IF hase THEN (IF e2 > e1 /\ Rest(s, e2) \in FloatSuffix
                               THEN NumRec("decfloat", Rest(s, e2)) ELSE BadNum)
            ELSE IF dot THEN (IF Rest(s, d2) \in FloatSuffix THEN NumRec("decfloat", Rest(s, d2)) ELSE BadNum)
            ELSE IF Rest(s, d1) \in IntSuffix THEN NumRec("int", Rest(s, d1))
            ELSE BadNum

\* ---------------------------------------------------------------- token classes
VectorWidths == {"2", "4", "8", "16"}
IsVectorDouble(txt) == Len(txt) > 6 /\ SubSeq(txt, 1, 6) = "double" /\ Rest(txt, 7) \in VectorWidths
IsTypeTok(t) == t.cls = "id" /\ (t.txt = "double" \/ IsVectorDouble(t.txt))
\* the class of a token of the double-precision source, as reported in a verdict
TokClass(t) ==
    CASE t.cls = "num" ->
            LET n == NumInfo(t.txt) IN
            IF n.kind = "decfloat" /\ n.suffix = ""
            THEN (IF At(t.txt, 1) = "0" /\ At(t.txt, 2) \in Digit THEN "decfloat-leading-zero" ELSE "decfloat")
            ELSE IF n.kind \in {"decfloat", "hexfloat"} /\ n.suffix # "" THEN n.kind \o "-suffixed"
            ELSE n.kind
      [] t.cls = "id" ->
            IF t.txt = "double" THEN "type-keyword"
            ELSE IF IsVectorDouble(t.txt) THEN "vector-type"
            ELSE IF t.txt = "cdouble" \/ (Len(t.txt) > 7 /\ SubSeq(t.txt, 1, 7) = "cdouble"
                                          /\ Rest(t.txt, 8) \in VectorWidths) THEN "identifier-cdouble"
            ELSE "identifier"
      [] t.cls = "str" -> "string-literal"
      [] t.cls = "chr" -> "char-constant"
      [] t.cls = "hdr" -> "header-name"
      [] t.cls = "punct" -> "punctuator"
      [] t.cls = "eod" -> "directive-end"
      [] OTHER -> t.cls

\* Well-formed input (the property quantifies over well-formed C): every token is a token of C
\* (no unterminated literal, every pp-number is a constant) and the token sequence does not
\* contain one of four patterns that no rule of the C grammar derives: a constant glued to a
\* preceding identifier ("x.5"), a constant after the member operator (". .5"), two floating
\* type names in a row ("double double"), tokens after the header name of an #include.
WFTokens(ts) ==
    /\ \A i \in 1..Len(ts) : ts[i].cls # "bad" /\ (ts[i].cls = "num" => NumInfo(ts[i].txt).kind # "badnum")
    /\ \A i \in 2..Len(ts) : /\ ~(ts[i].cls = "num" /\ ~ts[i].gap /\ ts[i - 1].cls = "id")
                            /\ ~(ts[i].cls = "num" /\ ts[i - 1].cls = "punct" /\ ts[i - 1].txt = ".")
                            /\ ~(IsTypeTok(ts[i]) /\ IsTypeTok(ts[i - 1]))
                            /\ ~(ts[i - 1].cls = "hdr" /\ ts[i].cls # "eod")
WellFormed(s) == ClosedText(s) /\ WFTokens(Lex(s))

\* ---------------------------------------------------------------- the rewrite
Precs == {32, 64, 128}
FloatSize(prec) == CASE prec = 32 -> 4 [] prec = 64 -> 8 [] prec = 128 -> 16
TypeName(prec) == CASE prec = 32 -> <<"float">> [] prec = 64 -> <<"double">> [] prec = 128 -> <<"long", "double">>
LitFlag(prec) == CASE prec = 32 -> "f" [] prec = 64 -> "" [] prec = 128 -> "L"
\* vacuity control: FALSE models the implementation as written (hexadecimal constants untouched)
CONSTANT TagHexFloats

Tok(cls, txt, from, bol) == [cls |-> cls, txt |-> txt, from |-> from, bol |-> bol]
\* tokens replacing token t (index k of the double source) at precision prec
ConvTok(t, k, prec) ==
    IF prec = 64 THEN <<Tok(t.cls, t.txt, k, t.bol)>>
    ELSE IF t.cls = "id" /\ t.txt = "double"
    THEN [j \in 1..Len(TypeName(prec)) |-> Tok("id", TypeName(prec)[j], k, t.bol /\ j = 1)]
    ELSE IF t.cls = "id" /\ IsVectorDouble(t.txt)      \* OpenCL floatn; "long doublen" as for the scalar
    THEN (IF prec = 32 THEN <<Tok("id", "float" \o Rest(t.txt, 7), k, t.bol)>>
          ELSE <<Tok("id", "long", k, t.bol), Tok("id", t.txt, k, FALSE)>>)
    ELSE IF t.cls = "num" /\ (LET n == NumInfo(t.txt) IN
                              n.suffix = "" /\ (n.kind = "decfloat" \/ (TagHexFloats /\ n.kind = "hexfloat")))
    THEN <<Tok("num", t.txt \o LitFlag(prec), k, t.bol)>>
    ELSE <<Tok(t.cls, t.txt, k, t.bol)>>

RECURSIVE ConvFrom(_, _, _)
ConvFrom(ts, k, prec) == IF k > Len(ts) THEN <<>> ELSE ConvTok(ts[k], k, prec) \o ConvFrom(ts, k + 1, prec)
Convert(ts, prec) == ConvFrom(ts, 1, prec)

Plain(ts) == [i \in 1..Len(ts) |-> [cls |-> ts[i].cls, txt |-> ts[i].txt]]
\* first position where two token sequences differ (0 = none)
RECURSIVE FirstDiff(_, _, _)
FirstDiff(a, b, i) ==
    IF i > Len(a) /\ i > Len(b) THEN 0
    ELSE IF i > Len(a) \/ i > Len(b) THEN i
    ELSE IF a[i].cls # b[i].cls \/ a[i].txt # b[i].txt THEN i
    ELSE FirstDiff(a, b, i + 1)

\* the tokens printed: one blank after each, line structure kept (it matters for directives)
RECURSIVE Unlex(_, _)
Unlex(ts, i) == IF i > Len(ts) THEN ""
                ELSE (IF ts[i].cls = "eod" THEN NL ELSE (IF ts[i].bol /\ i > 1 THEN NL ELSE "") \o ts[i].txt \o " ")
                     \o Unlex(ts, i + 1)
Text(ts) == Unlex(ts, 1)

\* ---------------------------------------------------------------- precision requests
StripBang(s) == IF Last(s) = "!" THEN SubSeq(s, 1, Len(s) - 1) ELSE s
Bits(name) ==
    CASE name \in {"single", "f", "float32", "f4"} -> 32
      [] name \in {"double", "d", "float64", "f8", "default"} -> 64
      [] name \in {"quad", "longdouble", "float128", "g"} -> 128
      [] OTHER -> 0
\* what a request selects (on a host without GPU): element type width, FLOAT_SIZE, library forced
DtypeOf(spelling) == [bits |-> Bits(StripBang(spelling)), size |-> Bits(StripBang(spelling)) \div 8,
                      forced |-> Last(spelling) = "!"]
Spellings == {"single", "f", "float32", "f4", "double", "d", "float64", "f8", "default",
              "quad", "longdouble", "float128", "g"}
AllSpellings == Spellings \cup {s \o "!" : s \in Spellings}
DigitsOf(n) == CASE n = 32 -> "32" [] n = 64 -> "64" [] n = 128 -> "128" [] OTHER -> "?"
=============================================================================
