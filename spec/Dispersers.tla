----------------------------- MODULE Dispersers -----------------------------
(***************************************************************************)
(* Caller-owned distribution objects handed to SasView-style wrappers      *)
(* (C11, design level).  A caller makes a distribution object d with       *)
(* attributes (type, width, npts), hands it to one or several wrappers     *)
(* with set_dispersion(w, p, d) and later tells a wrapper other settings   *)
(* with dotted setParam calls ("p.width", "p.npts").                       *)
(*                                                                         *)
(* What the wrapper keeps per parameter is a table of settings.  As        *)
(* written (weights.Dispersion.get_pars) the table is a fresh copy of the  *)
(* object's attributes; GetPars = "alias" (the table IS the object's       *)
(* attribute dictionary) is the failing control: a dotted setParam on one  *)
(* wrapper then changes the caller's object and every other wrapper that   *)
(* was given it.                                                           *)
(*                                                                         *)
(* Properties: CallerUntouched - an object has the attributes its caller   *)
(* gave it; Independent - what a wrapper evaluates is a function of what   *)
(* THIS wrapper was told (history variable told), whatever other wrappers  *)
(* were told in between.                                                   *)
(*                                                                         *)
(* Bound to the code by the C11 worker (harness/w_history.py): request     *)
(* "arr" hands ONE ArrayDispersion object to every wrapper of a history    *)
(* (sv_array), snapshots its attributes when it is made and compares them  *)
(* after every evaluation (CallerUntouched -> clause arguments-modified);  *)
(* every evaluation is compared with a fresh-interpreter oracle that was   *)
(* told the same things (Independent -> clause depends-on-history).        *)
(***************************************************************************)
EXTENDS Naturals, FiniteSets, TLC

CONSTANTS Wrappers, Objects, Values, MaxOps,
          GetPars        \* "copy" (as written) | "alias" (failing control)

Attrs == {"width", "npts"}
Settings == [Attrs -> Values]
NoObj == "none"                       \* no object aliased
NoSet == [a \in Attrs |-> 0]           \* no table yet (0 is not a value)

VARIABLES obj,     \* [Objects -> Settings]   the caller's objects, as the memory holds them now
          made,    \* [Objects -> Settings]   ... as the caller made them (history variable)
          table,   \* [Wrappers -> Settings \cup {NoSet}]  the wrapper's own table when it holds a copy
          ref,     \* [Wrappers -> Objects \cup {NoObj}]  the object whose attribute dictionary the table aliases
          told,    \* [Wrappers -> Settings \cup {NoSet}]  what this wrapper was told (history variable)
          nops
vars == <<obj, made, table, ref, told, nops>>

Init == /\ obj \in [Objects -> Settings]
        /\ made = obj
        /\ table = [w \in Wrappers |-> NoSet]
        /\ ref = [w \in Wrappers |-> NoObj]
        /\ told = [w \in Wrappers |-> NoSet]
        /\ nops = 0

Tick == nops < MaxOps /\ nops' = nops + 1

\* set_dispersion(w, p, d): the wrapper takes d.get_pars()
SetDispersion(w, d) ==
    /\ Tick
    /\ told' = [told EXCEPT ![w] = obj[d]]
    /\ IF GetPars = "copy"
       THEN table' = [table EXCEPT ![w] = obj[d]] /\ ref' = [ref EXCEPT ![w] = NoObj]
       ELSE ref' = [ref EXCEPT ![w] = d] /\ table' = [table EXCEPT ![w] = NoSet]
    /\ UNCHANGED <<obj, made>>

\* setParam("p.<attr>", v) on a wrapper that has a table
SetDotted(w, a, v) ==
    /\ Tick
    /\ told[w] # NoSet
    /\ told' = [told EXCEPT ![w] = [told[w] EXCEPT ![a] = v]]
    /\ IF ref[w] = NoObj
       THEN table' = [table EXCEPT ![w] = [table[w] EXCEPT ![a] = v]] /\ UNCHANGED obj
       ELSE obj' = [obj EXCEPT ![ref[w]] = [obj[ref[w]] EXCEPT ![a] = v]] /\ UNCHANGED table
    /\ UNCHANGED <<made, ref>>

\* the caller changes its own object after handing it over: wrappers that took a copy do not follow (documented:
\* the settings are read when set_dispersion is called)
CallerEdits(d, a, v) ==
    /\ Tick
    /\ obj' = [obj EXCEPT ![d] = [obj[d] EXCEPT ![a] = v]]
    /\ made' = [made EXCEPT ![d] = [made[d] EXCEPT ![a] = v]]
    /\ UNCHANGED <<table, ref, told>>

Next == \/ \E w \in Wrappers, d \in Objects : SetDispersion(w, d)
        \/ \E w \in Wrappers, a \in Attrs, v \in Values : SetDotted(w, a, v)
        \/ (GetPars = "copy" /\ \E d \in Objects, a \in Attrs, v \in Values : CallerEdits(d, a, v))

Spec == Init /\ [][Next]_vars

\* what evaluating wrapper w uses
Uses(w) == IF ref[w] # NoObj THEN obj[ref[w]] ELSE table[w]

TypeOK == /\ obj \in [Objects -> Settings] /\ made \in [Objects -> Settings]
          /\ \A w \in Wrappers : table[w] \in Settings \cup {NoSet} /\ ref[w] \in Objects \cup {NoObj}
          /\ nops \in 0..MaxOps
CallerUntouched == obj = made
Independent == \A w \in Wrappers : told[w] # NoSet => Uses(w) = told[w]
=============================================================================
