\* code before the repair: in-place compile; NoPartialLoad must FAIL (vacuity control)
SPECIFICATION Spec
CONSTANTS
  Procs = {p1, p2, p3}
  MaxCrashes = 2
  Protocol = "inplace"
INVARIANT TypeOK
INVARIANT NoPartialLoad
INVARIANT EveryoneGetsAKernel
INVARIANT NothingPartialLeft
INVARIANT FinalNeverPartial
PROPERTY Terminates
CHECK_DEADLOCK FALSE
