\* vacuity control: a ten times smaller constant must be violated (the error is of order h/W)
SPECIFICATION Spec
CONSTANTS
  QSet = {17, 18, 19, 20, 21, 22, 23, 24}
  WSet = {4, 6, 8, 11, 12, 16}
  H0 = 8
  KMax = 3
  KNum = 1
  KDen = 10
  Normalise = TRUE
  Fold = FALSE
  FoldWeight = 2
  Export = FALSE
INVARIANT ErrBound
PROPERTY BoundHalves
CHECK_DEADLOCK FALSE
