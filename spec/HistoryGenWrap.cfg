SPECIFICATION GenSpec
CONSTANTS
  Models = {"sphere", "cylinder", "broad_peak", "sphere@hardsphere", "sphere+cylinder"}
  Focus = "wrap"
  WModels = {"sphere", "cylinder"}
  QSets = {"q1", "qxy"}
  Requests = {"mono", "pd", "pdn", "arr", "empty"}
  Slots = {"k1", "k2", "k3"}
  Wrappers = {"w1", "w2"}
  MaxOps = 30
  EmptyReq = "empty"
  ModeReq = "mode"
  Variant = "fixed"
  WithExp = FALSE
  TrackHeld = FALSE
  ReturnsView = FALSE
INVARIANT Emit
CHECK_DEADLOCK FALSE
