SPECIFICATION Spec
CONSTANTS
  Models = {"m1"}
  QSets = {"q1", "q2"}
  Requests = {"mono", "pd", "empty"}
  Slots = {"k1", "k2"}
  Wrappers = {"w1"}
  MaxOps = 6
  EmptyReq = "empty"
  ModeReq = "mode"
  Variant = "fixed"
  WithExp = FALSE
  TrackHeld = TRUE
  ReturnsView = TRUE
INVARIANT Purity
INVARIANT ArgsUntouched
INVARIANT HeldStable
CHECK_DEADLOCK FALSE
