------------------------------ MODULE History ------------------------------
(***************************************************************************)
(* Call histories over long-lived objects (C11).  Objects: compiled models *)
(* (KernelModel, possibly released or reloaded), kernels (a model bound to *)
(* a q vector, owning a reused result buffer), SasView-style wrappers      *)
(* (instances sharing the class-level compiled model), and the parameter   *)
(* dictionaries the caller passes in.                                      *)
(*                                                                         *)
(* Specification of every evaluating action: ret = Pure(model, q, request) *)
(* - a function of the request alone - and the caller's arguments are      *)
(* unchanged.  The implementation-shaped definitions thread the reused     *)
(* result buffer ("reset only when pd_start = 0", PdMesh!KernelEnter) and  *)
(* the caller's dictionary through the calls, so that TLC can look for     *)
(* design-level leaks.  Variant "asWritten" keeps the two leaks found in   *)
(* the code before the repairs (empty mesh leaves the buffer untouched;    *)
(* call_Fq pops the mode key from the caller's dictionary) as failing      *)
(* controls.                                                               *)
(*                                                                         *)
(* Experiment objects (the fitting wrapper, bumps_model.Experiment) add a   *)
(* documented lazy protocol: theory() evaluates the parameter values once  *)
(* and keeps the result until update() is called; a change of parameter    *)
(* values without update() is allowed to go unnoticed.  What is promised -  *)
(* and checked by Purity through `want` - is that after update() the next  *)
(* theory() is the pure value of the CURRENT parameter values.  Variant     *)
(* "updateKeepsCache" is the failing control.  (WithExp enables them.)      *)
(*                                                                         *)
(* The caller keeps what a call returned (variable `held`, tracked when    *)
(* TrackHeld): a returned array must keep its value through every later    *)
(* operation (HeldStable).  Returned arrays are copies; ReturnsView = TRUE *)
(* (the kernel hands out a view of its reused result buffer) is a failing  *)
(* control.                                                                *)
(***************************************************************************)
EXTENDS Naturals, Sequences, FiniteSets, TLC

CONSTANTS Models, QSets, Requests, Slots, Wrappers, MaxOps,
          EmptyReq,     \* the request whose mesh has no point (num_eval = 0)
          ModeReq,      \* the request that carries radius_effective_mode in the dictionary
          Variant,      \* "fixed" | "asWritten" | "updateKeepsCache"
          WithExp,      \* Experiment objects take part
          TrackHeld,    \* follow the array the caller still holds from the last evaluating call
          ReturnsView   \* failing control: Call returns a view of the kernel's result buffer

VARIABLES kern,    \* [Slots -> [m, q, buf] | Dead]   buf: what the result buffer holds (a request or "garbage")
          loaded,  \* [Models -> BOOLEAN]  library currently dlopen'ed
          wrap,    \* [Wrappers -> [m, store]]  store: request last set with setParam
          dm,      \* [Models \X QSets -> buf]  DirectModel calculators (each keeps one kernel and its buffer)
          dict,    \* [Requests -> BOOLEAN]  caller's dictionary for ModeReq still has its mode key
          ret,     \* last returned value: [val |-> <<m, q, r>> or "garbage", want |-> <<m, q, r>>]
          exper,   \* [Models \X QSets -> [store, cache, dirty, buf]]  Experiment(data(q), Model(m)): parameter values
                   \* as last set, the request whose theory is cached ("none": nothing cached), whether values were
                   \* set since the last update(), and its kernel's reused buffer
          held,    \* [val, src]: the array kept from the last evaluating call, as read when it was returned, and
                   \* where its memory lives ("copy" or the kernel slot whose buffer it is a view of)
          nops
vars == <<kern, loaded, wrap, dm, dict, ret, exper, held, nops>>

Dead == [m |-> "none", q |-> "none", buf |-> <<"garbage">>]
NoRet == [val |-> <<"none">>, want |-> <<"none">>]
NoHeld == [val |-> <<"none">>, src |-> "copy"]
NoExp == [store |-> "mono", cache |-> "none", dirty |-> FALSE, buf |-> <<"garbage">>]
Keep(val, src) == IF TrackHeld THEN held' = [val |-> val, src |-> src] ELSE UNCHANGED held

Init == /\ kern = [s \in Slots |-> Dead]
        /\ loaded = [m \in Models |-> FALSE]
        /\ wrap = [w \in Wrappers |-> [m |-> CHOOSE m \in Models : TRUE, store |-> CHOOSE r \in Requests : TRUE]]
        /\ dm = [x \in Models \X QSets |-> <<"garbage">>]
        /\ dict = [r \in Requests |-> TRUE]
        /\ ret = NoRet
        /\ exper = [x \in Models \X QSets |-> NoExp]
        /\ held = NoHeld
        /\ nops = 0

Tick == nops < MaxOps /\ nops' = nops + 1

MakeKernel(s, m, q) ==
    /\ Tick
    /\ kern' = [kern EXCEPT ![s] = [m |-> m, q |-> q, buf |-> <<"garbage">>]]   \* np.empty
    /\ loaded' = [loaded EXCEPT ![m] = TRUE]                                \* lazy dlopen
    /\ ret' = NoRet
    /\ UNCHANGED <<wrap, dm, dict, held, exper>>

\* what a kernel call leaves in the buffer and returns
Overwrites(r) == Variant = "fixed" \/ r # EmptyReq
\* the request actually evaluated: the mode key may have been consumed by an earlier call_Fq
Effective(r, isFq) == IF isFq /\ r = ModeReq /\ ~dict[r] THEN "default-mode" ELSE r

Call(s, r, isFq) ==
    /\ Tick
    /\ kern[s].m # "none"
    /\ LET eff == Effective(r, isFq)
           newbuf == IF Overwrites(r) THEN <<kern[s].m, kern[s].q, eff>> ELSE kern[s].buf
       IN /\ kern' = [kern EXCEPT ![s].buf = newbuf]
          /\ ret' = [val |-> newbuf, want |-> <<kern[s].m, kern[s].q, r>>]
          /\ Keep(newbuf, IF ReturnsView THEN s ELSE "copy")
    /\ dict' = IF isFq /\ r = ModeReq /\ Variant = "asWritten" THEN [dict EXCEPT ![r] = FALSE] ELSE dict
    /\ UNCHANGED <<loaded, wrap, dm, exper>>

ReleaseKernel(s) ==
    /\ Tick /\ kern[s].m # "none"
    /\ kern' = [kern EXCEPT ![s] = Dead]
    /\ ret' = NoRet
    /\ UNCHANGED <<loaded, wrap, dm, dict, held, exper>>

\* KernelModel.release (dlclose); kernels made before keep their function pointers only if no
\* other handle keeps the library mapped, so the histories release kernels first
ReleaseModel(m) ==
    /\ Tick /\ loaded[m]
    /\ \A s \in Slots : kern[s].m # m
    /\ \A q \in QSets : dm[<<m, q>>] = <<"garbage">>       \* nor a DirectModel holding one of its kernels
    /\ \A q \in QSets : exper[<<m, q>>].buf = <<"garbage">>   \* nor an Experiment that has evaluated
    /\ loaded' = [loaded EXCEPT ![m] = FALSE]
    /\ ret' = NoRet
    /\ UNCHANGED <<kern, wrap, dm, dict, held, exper>>

SetParam(w, r) ==
    /\ Tick
    /\ wrap' = [wrap EXCEPT ![w].store = r]
    /\ ret' = NoRet
    /\ UNCHANGED <<kern, loaded, dm, dict, held, exper>>
\* evalDistribution builds a fresh kernel, evaluates, releases it
Eval(w, q) ==
    /\ Tick
    /\ LET r == wrap[w].store IN
       /\ ret' = [val |-> IF Overwrites(r) THEN <<wrap[w].m, q, r>> ELSE <<"garbage">>, want |-> <<wrap[w].m, q, r>>]
       /\ Keep(IF Overwrites(r) THEN <<wrap[w].m, q, r>> ELSE <<"garbage">>, "copy")
    \* (the wrapper class owns its own compiled model object: `loaded` is about core.load_model's)
    /\ UNCHANGED <<kern, loaded, wrap, dm, dict, exper>>
Clone(w, w2) ==
    /\ Tick /\ w # w2
    /\ wrap' = [wrap EXCEPT ![w2] = wrap[w]]
    /\ ret' = NoRet
    /\ UNCHANGED <<kern, loaded, dm, dict, held, exper>>

\* DirectModel(data(q), model)(**request): the calculator keeps its kernel between calls
Direct(m, q, r) ==
    /\ Tick
    /\ LET newbuf == IF Overwrites(r) THEN <<m, q, r>> ELSE dm[<<m, q>>] IN
       /\ dm' = [dm EXCEPT ![<<m, q>>] = newbuf]
       /\ ret' = [val |-> newbuf, want |-> <<m, q, r>>]
       /\ Keep(newbuf, "copy")
    /\ loaded' = [loaded EXCEPT ![m] = TRUE]
    /\ UNCHANGED <<kern, wrap, dict, exper>>
\* core.load_model again: a new KernelModel object replaces the old one for later make_kernel calls
Reload(m) ==
    /\ Tick
    /\ loaded' = [loaded EXCEPT ![m] = FALSE]      \* the new object opens its library lazily
    /\ ret' = NoRet
    /\ UNCHANGED <<kern, wrap, dm, dict, held, exper>>

\* ---- Experiment(data(q), Model(m)): set parameter values / update() / theory()
ExpSet(m, q, r) ==
    /\ WithExp /\ Tick
    /\ exper' = [exper EXCEPT ![<<m, q>>].store = r, ![<<m, q>>].dirty = TRUE]
    /\ ret' = NoRet
    /\ UNCHANGED <<kern, loaded, wrap, dm, dict, held>>
ExpUpdate(m, q) ==
    /\ WithExp /\ Tick
    /\ exper' = [exper EXCEPT ![<<m, q>>].cache = IF Variant = "updateKeepsCache" THEN @ ELSE "none",
                              ![<<m, q>>].dirty = FALSE]
    /\ ret' = NoRet
    /\ UNCHANGED <<kern, loaded, wrap, dm, dict, held>>
ExpTheory(m, q) ==
    /\ WithExp /\ Tick
    /\ LET x == exper[<<m, q>>]
           used == IF x.cache = "none" THEN x.store ELSE x.cache
           newbuf == IF x.cache # "none" THEN x.buf                       \* cached: nothing is evaluated
                     ELSE IF Overwrites(used) THEN <<m, q, used>> ELSE x.buf
       IN /\ exper' = [exper EXCEPT ![<<m, q>>].cache = used, ![<<m, q>>].buf = newbuf]
          \* promised: the current values unless they were set without update() (then the cached ones may be used)
          /\ ret' = [val |-> IF x.cache # "none" THEN <<m, q, used>> ELSE newbuf,
                     want |-> IF x.dirty THEN <<m, q, used>> ELSE <<m, q, x.store>>]
          /\ Keep(IF x.cache # "none" THEN <<m, q, used>> ELSE newbuf, "copy")
    /\ loaded' = [loaded EXCEPT ![m] = TRUE]
    /\ UNCHANGED <<kern, wrap, dm, dict>>

Next == \/ \E s \in Slots, m \in Models, q \in QSets : MakeKernel(s, m, q)
        \/ \E m \in Models, q \in QSets, r \in Requests : ExpSet(m, q, r)
        \/ \E m \in Models, q \in QSets : ExpUpdate(m, q) \/ ExpTheory(m, q)
        \/ \E m \in Models, q \in QSets, r \in Requests : Direct(m, q, r)
        \/ \E m \in Models : Reload(m)
        \/ \E s \in Slots, r \in Requests, f \in BOOLEAN : Call(s, r, f)
        \/ \E s \in Slots : ReleaseKernel(s)
        \/ \E m \in Models : ReleaseModel(m)
        \/ \E w \in Wrappers, r \in Requests : SetParam(w, r)
        \/ \E w \in Wrappers, q \in QSets : Eval(w, q)
        \/ \E w, w2 \in Wrappers : Clone(w, w2)
Spec == Init /\ [][Next]_vars

\* ---- properties (C11)
Purity == ret # NoRet => ret.val = ret.want
ArgsUntouched == \A r \in Requests : dict[r]
\* what the caller keeps from an earlier call still reads as it did when it was returned
HeldStable == held.src \in Slots => kern[held.src].buf = held.val
=============================================================================
