CONSTANT Variant = "intended"
  ModelVersions <- MVQuick
  Underscores = {TRUE, FALSE}
  ClassSet = {"empty", "single", "values", "all", "full"}
INIT Init
NEXT Next
