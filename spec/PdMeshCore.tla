---------------------------- MODULE PdMeshCore ----------------------------
(***************************************************************************)
(* Pure control core of the dispersity loop (integers only): selection of  *)
(* the looped parameters, strides, restart indexes and the PD_OPEN /       *)
(* PD_CLOSE macro nest of kernel_iq.c written as it executes.  Shared by   *)
(* PdMesh (design-level state machine) and PdMeshTrace (trace validation). *)
(* Levels are numbered 1..M with level 1 innermost (C level 0).            *)
(***************************************************************************)
EXTENDS Naturals, Sequences, FiniteSets

RECURSIVE ProdUpTo(_, _, _)
ProdUpTo(ord, len, k) == IF k = 0 THEN 1 ELSE len[ord[k]] * ProdUpTo(ord, len, k - 1)

\* details.py:200  num_active = sum(length > 1)
NumActive(len) == Cardinality({p \in DOMAIN len : len[p] > 1})

\* details.py:207  idx = argsort(length)[::-1][:max_pd] -- any order argsort may produce:
\* M distinct parameters, lengths non-increasing, nothing longer left out.
IsSelection(ord, len, M) ==
    /\ Len(ord) = M
    /\ \A a \in 1..M : ord[a] \in DOMAIN len
    /\ \A a, b \in 1..M : a # b => ord[a] # ord[b]
    /\ \A a \in 1..M : a < M => len[ord[a]] >= len[ord[a + 1]]
    /\ \A p \in DOMAIN len : (\A a \in 1..M : ord[a] # p) => (IF M = 0 THEN TRUE ELSE len[p] <= len[ord[M]])

\* details.py:208  pd_stride = cumprod(hstack((1, length[idx])))
Stride(ord, len, k) == ProdUpTo(ord, len, k - 1)
NumEvalOf(ord, len) == ProdUpTo(ord, len, Len(ord))

\* kernel_iq.c:647  int i = (pd_start/pd_stride[k]) % n
InitIndex(start, stride, n) == (start \div stride) % n

\* The macro nest PD_OPEN / PD_CLOSE written as it executes.  `i` is the odometer
\* (sequence over levels), n the level lengths.  Each operator returns
\* [i |-> odometer, done |-> TRUE iff the kernel leaves all loops].
RECURSIVE LoopTest(_, _, _, _, _), LoopClose(_, _, _, _, _), LoopAfter(_, _, _, _, _)
\* `while (i_k < n_k) {` ; entering sets the parameter and descends
LoopTest(k, i, step, stop, n) ==
    IF k = 0 THEN [i |-> i, done |-> FALSE]
    ELSE IF i[k] < n[k] THEN LoopTest(k - 1, i, step, stop, n)
    ELSE LoopAfter(k, i, step, stop, n)
\* `} i_k = 0;` then the statement after loop k, which is PD_CLOSE(k+1)
LoopAfter(k, i, step, stop, n) ==
    LET i0 == [i EXCEPT ![k] = 0] IN
    IF k = Len(n) THEN [i |-> i0, done |-> TRUE] ELSE LoopClose(k + 1, i0, step, stop, n)
\* `if (step >= pd_stop) break; ++i_k;` and back to the loop test
LoopClose(k, i, step, stop, n) ==
    IF k > Len(n) THEN [i |-> i, done |-> TRUE]
    ELSE IF step >= stop THEN LoopAfter(k, i, step, stop, n)
    ELSE LoopTest(k, [i EXCEPT ![k] = @ + 1], step, stop, n)

\* state of the kernel after PD_INIT and the PD_OPEN descent (before the first body)
EnterOdometer(start, stop, ord, len) ==
    LET M == Len(ord)
        n == [k \in 1..M |-> len[ord[k]]]
        i == [k \in 1..M |-> InitIndex(start, Stride(ord, len, k), n[k])]
    IN  LoopTest(M, i, start, stop, n)

\* after one body at odometer i (step already incremented)
NextOdometer(i, step, stop, ord, len) ==
    LoopClose(1, i, step, stop, [k \in 1..Len(ord) |-> len[ord[k]]])

\* what the odometer must be according to the documentation (index arithmetic)
IndexOf(step, ord, len) ==
    [k \in 1..Len(ord) |-> (step \div Stride(ord, len, k)) % len[ord[k]]]

=============================================================================
